#!/bin/bash
# Builds the framework from files on disk only (offline): the Coq development (full .vo build),
# the extracted model + OCaml driver, and the Rust harness against /repo's working tree.
set -e
cd /verif
export CARGO_NET_OFFLINE=true
python3 - <<'PY'
import sys
sys.path.insert(0, '/verif/gen')
import common as C
try:
    C.ensure_built(small=True)
    ok, det = C.check_tie([])
    print('setup ok; literal layer regenerated:', ok)
except C.BrokenBuild as ex:
    print('setup FAILED:', ex.what)
    print(ex.output)
    sys.exit(1)
PY
