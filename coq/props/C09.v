(* C09 -- no client can wedge the server or starve other clients. *)
From MH Require Import proofs.Server_proofs proofs.RunInv_proofs.

(* The world: HttpServer/ClientConnection mirrored over the connection model (model/Server.v),
   every function taking the results of its system calls from an explicit kernel model.
   Inv: distinct descriptors, at most MAX_CONNECTIONS entries, injective instance ids, every
   outstanding token's descriptor still names the instance that issued it, in-flight count =
   number of outstanding tokens, the interest invariant, and the connection invariant of C03.
   evt_ok is the kernel contract for one event (K1, K4, K6 of DESIGN.md). *)

(* whatever the clients do -- any order of ready events, any read/write results -- the polling
   function returns normally: never InvalidWrite, never a panic at get_mut(&fd).unwrap().  The
   one other outcome is the u32 overflow of a connection's in-flight counter (2^32 unanswered
   requests on one connection). *)
Theorem C09_poll_total : forall BUF, (2 <= BUF)%nat -> N.of_nat BUF < U32_LIMIT ->
  forall w toks es, Inv BUF w toks -> Forall (evt_ok w) es -> NoDup (map ev_key es) ->
  ~ In KKill (map ev_key es) -> es <> [] ->
  (exists w' ys, poll_with BUF w es = PYield w' ys /\ Inv BUF w' (ytoks ys ++ toks))
  \/ poll_with BUF w es = Server.PErr EOverflow.
Proof. exact poll_total. Qed.

(* each event is handled whatever happened to the others: one event cannot fail *)
Theorem C09_event_total : forall BUF, (2 <= BUF)%nat -> N.of_nat BUF < U32_LIMIT ->
  forall w toks e, Inv BUF w toks -> evt_ok w e -> e <> EvKill ->
  (exists w' ys, handle_event BUF w e = inl (w', ys) /\ Inv BUF w' (ytoks ys ++ toks) /\ w_killed w' = w_killed w
                 /\ w_nextg w <= w_nextg w')%nat
  \/ handle_event BUF w e = inr EOverflow.
Proof. exact handle_ok. Qed.

(* handling an event for one descriptor leaves every other connection untouched *)
Theorem C09_noninterference : forall BUF w e w' ys,
  handle_event BUF w e = inl (w', ys) ->
  w_killed w' = w_killed w /\ forall fd', ~ touched e fd' -> alookup fd' (w_conns w') = alookup fd' (w_conns w).
Proof. exact handle_frame. Qed.

(* a connection that is closed with nothing pending and nothing in flight does not survive the
   poll: it is released as soon as the application has answered what was yielded from it *)
Theorem C09_release : forall w fd x, alookup fd (w_conns (sweep w)) = Some x -> is_done x = false.
Proof. exact sweep_no_done. Qed.
Check (eq_refl : is_done = fun x => sstate_eqb (sc_st x) SClosed && negb (pending_write (sc_conn x)) && (sc_infl x =? 0)).

(* the executable poll (canonical event order of the correspondence run) from any world that
   satisfies the invariant *)
Theorem C09_poll_outcomes : forall BUF, (2 <= BUF)%nat -> N.of_nat BUF < U32_LIMIT ->
  forall w toks, Inv BUF w toks ->
  match poll BUF w with
  | PBlocked => ready_events w = []
  | PYield w' ys => Inv BUF w' (ytoks ys ++ toks) /\ w_killed w = false
  | Server.PErr e => (e = EShutdown /\ w_killed w = true) \/ e = EOverflow
  end.
Proof. exact poll_outcomes. Qed.

Theorem C09_inv_initial : forall BUF, (2 <= BUF)%nat -> N.of_nat BUF < U32_LIMIT -> Inv BUF world0 [].
Proof. exact Inv_world0. Qed.
Theorem C09_respond_keeps_inv : forall BUF, (2 <= BUF)%nat -> N.of_nat BUF < U32_LIMIT ->
  forall w t1 t2 fd g r, Inv BUF w (t1 ++ (fd, g) :: t2) ->
  exists w' x, respond w fd r = inl w' /\ Inv BUF w' (t1 ++ t2) /\
    alookup fd (w_conns w) = Some x /\ sc_gid x = g /\
    (forall fd', fd' <> fd -> alookup fd' (w_conns w') = alookup fd' (w_conns w)) /\
    w_clients w' = w_clients w.
Proof. exact respond_ok. Qed.
Theorem C09_flush_keeps_inv : forall BUF, (2 <= BUF)%nat -> N.of_nat BUF < U32_LIMIT ->
  forall w toks, Inv BUF w toks -> Inv BUF (flush w) toks.
Proof. exact flush_inv. Qed.

(* the invariant is not only preserved step by step: the executable interpreter of run/Run.v -- the very
   function the correspondence run executes against the real server on real sockets -- never leaves it.
   After ANY list of operations (connects, sends, closes, shutdowns in either direction, client reads,
   polls, polls to quiescence, responses to any held token, flushes, kill, limit changes) the world
   satisfies Inv with the tokens the interpreter holds, and the next poll can only block, yield, report
   the shutdown or overflow a u32 counter: never a panic, InvalidWrite or Underflow *)
Theorem C09_executed_histories_keep_inv : forall BUF, (2 <= BUF)%nat -> N.of_nat BUF < U32_LIMIT ->
  forall ops id hk, Inv BUF (fst (run_srv_ops BUF id 0 hk world0 ops)) (ytoks (w_tokens (fst (run_srv_ops BUF id 0 hk world0 ops)))).
Proof. exact executed_histories_keep_inv. Qed.
Theorem C09_executed_histories_poll : forall BUF, (2 <= BUF)%nat -> N.of_nat BUF < U32_LIMIT ->
  forall ops id hk,
  let w := fst (run_srv_ops BUF id 0 hk world0 ops) in
  match poll BUF w with
  | PBlocked => ready_events w = []
  | PYield w' ys => Inv BUF w' (ytoks ys ++ ytoks (w_tokens w)) /\ w_killed w = false
  | Server.PErr e => (e = EShutdown /\ w_killed w = true) \/ e = EOverflow
  end.
Proof. exact executed_histories_poll. Qed.
Theorem C09_interpreter_is_decoded : forall BUF id i hk w op,
  run_srv_op BUF id i hk w op = run_sop BUF id i hk w (decode_sop op).
Proof. exact run_srv_op_sop. Qed.

Print Assumptions C09_poll_total.
Print Assumptions C09_event_total.
Print Assumptions C09_noninterference.
Print Assumptions C09_release.
Print Assumptions C09_poll_outcomes.
Print Assumptions C09_inv_initial.
Print Assumptions C09_respond_keeps_inv.
Print Assumptions C09_flush_keeps_inv.
Print Assumptions C09_executed_histories_keep_inv.
Print Assumptions C09_executed_histories_poll.
Print Assumptions C09_interpreter_is_decoded.
