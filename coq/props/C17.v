(* C17 -- the router dispatches to exactly the handler registered for (method, prefix+path). *)
From MH Require Import proofs.Router_proofs.

Theorem C17_key_injective : forall m p m' p', route_key m p = route_key m' p' -> m = m' /\ p = p'.
Proof. exact route_key_injective. Qed.

(* for EVERY sequence of registrations (any order, duplicates included) and every request: the
   handler run is the first registration for (method, abs_path); it is run once (run_handler occurs
   once in the result); 404 over HTTP/1.1 when there is none; the response is stamped *)
Theorem C17_dispatch : forall (handler : Type) (run_handler : handler -> request -> response)
    sid prefix (regs : list (reg handler)) req,
  handle_http_request handler run_handler (register_all handler (routes_new handler sid prefix) regs) req =
  match first_match handler (rl_method (r_line req)) (abs_path (rl_uri (r_line req))) prefix regs with
  | Some h => (Some h, stamp sid (run_handler h req))
  | None => (None, stamp sid (response_new Http11 NotFound))
  end.
Proof. exact handle_spec. Qed.

Theorem C17_first_match_is_first_registration : forall (handler : Type) m full prefix (regs : list (reg handler)) h,
  first_match handler m full prefix regs = Some h ->
  exists pre p post, regs = pre ++ (m, p, h) :: post /\ full = prefix ++ p
    /\ forall m' p' h', In (m', p', h') pre -> ~ (m' = m /\ prefix ++ p' = full).
Proof. exact first_match_some. Qed.

Theorem C17_no_match_no_registration : forall (handler : Type) m full prefix (regs : list (reg handler)),
  first_match handler m full prefix regs = None ->
  forall p h, In (m, p, h) regs -> prefix ++ p <> full.
Proof. exact first_match_none. Qed.

Theorem C17_stamped : forall sid r,
  rs_server (stamp sid r) = sid /\ rs_content_type (stamp sid r) = ApplicationJson
  /\ rs_status (stamp sid r) = rs_status r /\ rs_body (stamp sid r) = rs_body r
  /\ rs_version (stamp sid r) = rs_version r /\ rs_content_length (stamp sid r) = rs_content_length r.
Proof. exact stamp_fields. Qed.

(* a second registration of the same (method, path) is refused and leaves the table unchanged *)
Theorem C17_duplicate : forall (handler : Type) (rt : routes handler) m p h h0,
  table_get handler (route_key m (rt_prefix rt ++ p)) (rt_table rt) = Some h0 ->
  add_route handler rt m p h = (rt, Some (route_key m (rt_prefix rt ++ p))).
Proof. exact add_route_duplicate. Qed.

Theorem C17_fresh : forall (handler : Type) (rt : routes handler) m p h,
  table_get handler (route_key m (rt_prefix rt ++ p)) (rt_table rt) = None ->
  snd (add_route handler rt m p h) = None /\
  rt_table (fst (add_route handler rt m p h)) = rt_table rt ++ [(route_key m (rt_prefix rt ++ p), h)].
Proof. exact add_route_fresh. Qed.

(* non-interference: registering (or not) a handler for a different (method, prefix+path), anywhere in the
   registration order, never changes which handler answers a given (method, path) *)
Theorem C17_other_registrations_irrelevant : forall (handler : Type) m full prefix (pre : list (reg handler)) m' p' h' post,
  ~ (m' = m /\ prefix ++ p' = full) ->
  first_match handler m full prefix (pre ++ (m', p', h') :: post) = first_match handler m full prefix (pre ++ post).
Proof. exact first_match_other_irrelevant. Qed.

Example C17_ex : 
  let rt := register_all nat (routes_new nat (B"id") (B"/api")) [(Get, B"/a", 1%nat); (Put, B"/a", 2%nat); (Get, B"/a", 3%nat)] in
  fst (handle_http_request nat (fun _ _ => response_new Http11 OK) rt
         (mkReq (mkRL Get (B"http://h/api/a") Http11) headers_default None [])) = Some 1%nat.
Proof. vm_compute. reflexivity. Qed.

Print Assumptions C17_key_injective.
Print Assumptions C17_dispatch.
Print Assumptions C17_first_match_is_first_registration.
Print Assumptions C17_no_match_no_registration.
Print Assumptions C17_stamped.
Print Assumptions C17_duplicate.
Print Assumptions C17_fresh.
Print Assumptions C17_other_registrations_irrelevant.
