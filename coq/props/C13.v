(* C13 -- 100 Continue is sent exactly when asked for and a body is awaited. *)
From MH Require Import proofs.Limits_proofs proofs.Impl_proofs proofs.ServerRead_proofs proofs.ServerExpect_proofs.

(* a step emits Continue v iff it is the blank line ending a header block with the expect flag
   set and 0 < Content-Length <= L; then it emits exactly that one, carrying the request's version *)
Theorem C13_iff : forall BUF L ph w ph' rest o v,
  step BUF L ph w = SDone ph' rest o ->
  (In (OContinue v) o <->
   exists rl h, ph = PHdr rl h /\ take_line BUF w = LLine [] rest /\ h_expect h = true /\
                h_content_length h <> 0 /\ h_content_length h <= L /\ v = rl_version rl
                /\ o = [OContinue v] /\ ph' = PBody rl h [] (h_content_length h)).
Proof. exact step_continue_iff. Qed.

(* it is emitted when the header block completes: t, the bytes after the terminator, is arbitrary *)
Theorem C13_early : forall BUF, (2 <= BUF)%nat -> forall L rl h t,
  h_expect h = true -> h_content_length h <> 0 -> h_content_length h <= L ->
  step BUF L (PHdr rl h) (CRLF ++ t) = SDone (PBody rl h [] (h_content_length h)) t [OContinue (rl_version rl)].
Proof. exact continue_early. Qed.

(* exactly once: over any stream, the interim responses are, in order, those of the delivered
   requests with a body and the expect flag, plus the one of the request whose body is awaited *)
Theorem C13_once : forall BUF, (2 <= BUF)%nat -> forall L s,
  match parse_stream BUF L s with
  | RMore ph' _ o => oconts o = conts_for (Limits_proofs.ocores o) ++ pending_cont ph'
  | RErr o _ => oconts o = conts_for (Limits_proofs.ocores o)
  | ROutOfFuel => False
  end.
Proof. exact parse_stream_continues. Qed.
Check ((fun rl h b => eq_refl) : forall rl h b, expecting (rl, h, Some b) = h_expect h).
Check ((fun rl h => eq_refl) : forall rl h, expecting (rl, h, None) = false).

(* the implementation queues exactly these, for every read schedule (C01 with the larger observation:
   the middle component of observe is the response queue) *)
Theorem C13_transfer : forall BUF, (2 <= BUF)%nat -> N.of_nat BUF < U32_LIMIT ->
  forall pm evs, evs_ok BUF (new_conn pm) evs ->
  observe (reads BUF (new_conn pm) evs) = spec_observe (parse_stream BUF pm (concat (chunks evs))).
Proof. exact reads_whole_stream. Qed.
Check ((fun v r => eq_refl) : forall v r, conts_of (OContinue v :: r) = response_new v Continue :: conts_of r).

Example C13_ex :
  let s := B"PUT / HTTP/1.0" ++ CRLF ++ B"expect:  100-continue" ++ CRLF ++ B"Content-Length: 2" ++ CRLF ++ CRLF in
  match parse_stream 1024 51200 s with RMore _ _ o => o = [OContinue Http10] | _ => False end.
Proof. vm_compute. reflexivity. Qed.

(* server clause: through HttpServer::requests the interim responses queued by a read are exactly
   conts_of (the OContinue outputs of the specification parser on carry ++ bytes read), appended to the
   connection's unsent output; C08's progress theorems then deliver them without the body being sent *)
Theorem C13_server_transfer : forall BUF, (2 <= BUF)%nat -> N.of_nat BUF < U32_LIMIT ->
  forall w toks fd kk w' ys x ph,
  Inv BUF w toks -> alookup fd (w_conns w) = Some x -> CInv BUF (sc_conn x) ph ->
  k_tosrv (client_of w (sc_client x)) <> [] ->
  handle_event BUF w (EvIn fd kk) = inl (w', ys) ->
  let c := sc_conn x in
  let t := k_tosrv (client_of w (sc_client x)) in
  let d := firstn (read_amount kk (BUF - length (c_win c)) (length t)) t in
  d <> [] /\
  exists y, alookup fd (w_conns w') = Some y /\ sc_gid y = sc_gid x /\ sc_client y = sc_client x /\
    k_tosrv (client_of w' (sc_client x)) = skipn (length d) t /\
  match runT BUF (c_pmax c) ph (c_win c ++ d) [] with
  | RMore ph' carry outs =>
      CInv BUF (sc_conn y) ph' /\ c_win (sc_conn y) = carry /\
      unsent (sc_conn y) = unsent c ++ flat_map serialize (conts_of outs) /\
      ys = map (fun r => (fd, sc_gid x, r)) (c_parsed c ++ reqs_of outs (c_files c)) /\
      c_parsed (sc_conn y) = [] /\ c_files (sc_conn y) = files_after outs (c_files c) /\ c_pmax (sc_conn y) = c_pmax c
  | RErr outs e =>
      CInv BUF (sc_conn y) PLine /\ c_win (sc_conn y) = [] /\
      unsent (sc_conn y) = unsent c ++ flat_map serialize (conts_of outs ++ [bad_request_response e]) /\
      ys = [] /\
      c_parsed (sc_conn y) = [] /\ c_files (sc_conn y) = [] /\ c_pmax (sc_conn y) = c_pmax c
  | ROutOfFuel => False
  end.
Proof. exact server_read_exact. Qed.

(* server clause, end to end, for clients that keep their connections open: a connection awaiting input whose
   client has sent bytes; polling while the epoll descriptor signals terminates, and then the client has been
   sent -- after everything sent before -- exactly the interim responses the specification parser generates on
   the bytes of the first read (one 100 Continue per Expect head completed, C13_iff), followed only by further
   server-generated replies to the rest of its input.  The client did not have to send the body. *)
Theorem C13_server_interim_delivered : forall BUF, (2 <= BUF)%nat -> N.of_nat BUF < U32_LIMIT ->
  forall w toks fd x ph,
  Inv BUF w toks -> Calm w -> alookup fd (w_conns w) = Some x -> CInv BUF (sc_conn x) ph -> sc_out x = false ->
  k_tosrv (client_of w (sc_client x)) <> [] ->
  let c := sc_conn x in
  let t := k_tosrv (client_of w (sc_client x)) in
  let d := firstn (read_amount 0 (BUF - length (c_win c)) (length t)) t in
  exists n, match drive BUF n w [] with
            | DQuiet w2 _ =>
                ready_events w2 = [] /\
                exists more, Forall server_generated more /\
                  k_rx (client_of w2 (sc_client x)) =
                  wire w x ++
                  flat_map serialize (match runT BUF (c_pmax c) ph (c_win c ++ d) [] with
                                      | RMore _ _ outs => conts_of outs
                                      | RErr outs e => conts_of outs ++ [bad_request_response e]
                                      | ROutOfFuel => []
                                      end) ++ flat_map serialize more
            | DOverflow => True
            | DFuel => False
            end.
Proof. exact server_replies_delivered. Qed.
Example C13_expect_head_example :
  match drive 1024 8 wX [] with
  | DQuiet w2 ys => k_rx (client_of w2 0) = serialize (response_new Http11 Continue) /\ ys = [] /\ ready_events w2 = []
  | _ => False
  end.
Proof. exact expect_head_example. Qed.

Print Assumptions C13_iff.
Print Assumptions C13_early.
Print Assumptions C13_once.
Print Assumptions C13_transfer.
Print Assumptions C13_server_transfer.
Print Assumptions C13_server_interim_delivered.
