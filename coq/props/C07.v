(* C07 -- a response is delivered only to the connection that sent its request, in order. *)
From MH Require Import proofs.Server_proofs proofs.Write_proofs.

(* The token the application holds for a yielded request is the descriptor number.  In every
   world reachable by any client behaviour, any event order and ANY choice of unused descriptor
   numbers by accept (evt_ok (EvListener nf) only asks that nf is not currently open, so numbers
   of closed connections may be reused), an outstanding token's descriptor still names the
   connection instance that issued it: *)
Theorem C07_token_inv : forall BUF w toks fd g, Inv BUF w toks -> In (fd, g) toks ->
  exists x, alookup fd (w_conns w) = Some x /\ sc_gid x = g.
Proof. intros BUF w toks fd g H. apply (inv_tok BUF w toks H). Qed.

(* ... because a connection holding an outstanding token is never reaped (its in-flight count
   equals the number of its outstanding tokens), so its descriptor stays open *)
Theorem C07_never_reaped_with_token : forall BUF, (2 <= BUF)%nat -> N.of_nat BUF < U32_LIMIT ->
  forall w toks, Inv BUF w toks -> Inv BUF (sweep w) toks.
Proof. exact sweep_inv. Qed.
Theorem C07_inflight_counts_tokens : forall BUF w toks fd x, Inv BUF w toks ->
  alookup fd (w_conns w) = Some x -> sc_infl x = N.of_nat (count_g (sc_gid x) toks).
Proof. intros BUF w toks fd x H. apply (inv_infl BUF w toks H). Qed.

(* answering a token: only the connection at that descriptor changes -- the instance that
   yielded the request -- no client's queue is touched by the call, and a response for a closed
   connection is dropped (cc_enqueue does not enqueue on SClosed) *)
Theorem C07_respond_routes : forall BUF, (2 <= BUF)%nat -> N.of_nat BUF < U32_LIMIT ->
  forall w t1 t2 fd g r, Inv BUF w (t1 ++ (fd, g) :: t2) ->
  exists w' x, respond w fd r = inl w' /\ Inv BUF w' (t1 ++ t2) /\
    alookup fd (w_conns w) = Some x /\ sc_gid x = g /\
    (forall fd', fd' <> fd -> alookup fd' (w_conns w') = alookup fd' (w_conns w)) /\
    w_clients w' = w_clients w.
Proof. exact respond_ok. Qed.

(* events only move bytes of the connection they name: every other connection is untouched
   (its queue of responses included); what a connection writes is a prefix of the serialisations
   of what was enqueued on it (C06) *)
Theorem C07_frame : forall BUF w e w' ys,
  handle_event BUF w e = inl (w', ys) ->
  w_killed w' = w_killed w /\ forall fd', ~ touched e fd' -> alookup fd' (w_conns w') = alookup fd' (w_conns w).
Proof. exact handle_frame. Qed.
Theorem C07_bytes_are_enqueued_responses : forall ops w, WInv w -> wops_ok w ops -> Forall no_discard ops ->
  w_acc (wrun w ops) ++ unsent (w_conn (wrun w ops)) = w_com w ++ flat_map serialize (enqueued ops).
Proof. exact wrun_prefix. Qed.

(* the yields of a read carry the descriptor and the instance of the connection that was read *)
Check ((fun BUF w g => eq_refl) : forall BUF w g, handle_event BUF w (EvIn g) =
  match alookup g (w_conns w) with
  | None => inr EPanic
  | Some x =>
      let cl := client_of w (sc_client x) in
      let room := (BUF - length (c_win (sc_conn x)))%nat in
      let n := Nat.min room (length (k_tosrv cl)) in
      match cc_read BUF x (RData (firstn n (k_tosrv cl)) []) with
      | inr err => inr err
      | inl (y, reqs) =>
          let y' := match sc_st y with
                    | AwaitOut => mkSC (sc_conn y) (sc_st y) (sc_infl y) (sc_client y) true (sc_gid y)
                    | _ => y
                    end in
          let cl' := mkCl (k_open cl) (k_shut_wr cl) (k_shut_rd cl) (skipn n (k_tosrv cl)) (k_rx cl) (k_place cl) in
          inl (set_client (set_conn w g y') (sc_client x) cl', map (fun r => (g, sc_gid x, r)) reqs)
      end
  end).

(* PARTIAL: the end-to-end statement "every byte a client receives belongs to a response that
   answers one of its own requests" is the composition of the theorems above with K3 (bytes written
   on a descriptor reach that descriptor's peer); it is not stated as one theorem over histories
   with a provenance log.  The correspondence run decides it on real sockets with tagged requests
   and echoing responses. *)

Print Assumptions C07_token_inv.
Print Assumptions C07_never_reaped_with_token.
Print Assumptions C07_inflight_counts_tokens.
Print Assumptions C07_respond_routes.
Print Assumptions C07_frame.
Print Assumptions C07_bytes_are_enqueued_responses.
