(* C07 -- a response is delivered only to the connection that sent its request, in order. *)
From MH Require Import proofs.Server_proofs proofs.Write_proofs proofs.Progress_proofs proofs.Provenance_proofs proofs.Stream_proofs proofs.RunStream_proofs.

(* The token the application holds for a yielded request is the descriptor number.  In every
   world reachable by any client behaviour, any event order and ANY choice of unused descriptor
   numbers by accept (evt_ok (EvListener nf) only asks that nf is not currently open, so numbers
   of closed connections may be reused), an outstanding token's descriptor still names the
   connection instance that issued it: *)
Theorem C07_token_inv : forall BUF w toks fd g, Inv BUF w toks -> In (fd, g) toks ->
  exists x, alookup fd (w_conns w) = Some x /\ sc_gid x = g.
Proof. intros BUF w toks fd g H. apply (inv_tok BUF w toks H). Qed.

(* ... because a connection holding an outstanding token is never reaped (its in-flight count
   equals the number of its outstanding tokens), so its descriptor stays open *)
Theorem C07_never_reaped_with_token : forall BUF, (2 <= BUF)%nat -> N.of_nat BUF < U32_LIMIT ->
  forall w toks, Inv BUF w toks -> Inv BUF (sweep w) toks.
Proof. exact sweep_inv. Qed.
Theorem C07_inflight_counts_tokens : forall BUF w toks fd x, Inv BUF w toks ->
  alookup fd (w_conns w) = Some x -> sc_infl x = N.of_nat (count_g (sc_gid x) toks).
Proof. intros BUF w toks fd x H. apply (inv_infl BUF w toks H). Qed.

(* answering a token: only the connection at that descriptor changes -- the instance that
   yielded the request -- no client's queue is touched by the call, and a response for a closed
   connection is dropped (cc_enqueue does not enqueue on SClosed) *)
Theorem C07_respond_routes : forall BUF, (2 <= BUF)%nat -> N.of_nat BUF < U32_LIMIT ->
  forall w t1 t2 fd g r, Inv BUF w (t1 ++ (fd, g) :: t2) ->
  exists w' x, respond w fd r = inl w' /\ Inv BUF w' (t1 ++ t2) /\
    alookup fd (w_conns w) = Some x /\ sc_gid x = g /\
    (forall fd', fd' <> fd -> alookup fd' (w_conns w') = alookup fd' (w_conns w)) /\
    w_clients w' = w_clients w.
Proof. exact respond_ok. Qed.

(* events only move bytes of the connection they name: every other connection is untouched
   (its queue of responses included); what a connection writes is a prefix of the serialisations
   of what was enqueued on it (C06) *)
Theorem C07_frame : forall BUF w e w' ys,
  handle_event BUF w e = inl (w', ys) ->
  w_killed w' = w_killed w /\ forall fd', ~ touched e fd' -> alookup fd' (w_conns w') = alookup fd' (w_conns w).
Proof. exact handle_frame. Qed.
Theorem C07_bytes_are_enqueued_responses : forall ops w, WInv w -> wops_ok w ops -> Forall no_discard ops ->
  w_acc (wrun w ops) ++ unsent (w_conn (wrun w ops)) = w_com w ++ flat_map serialize (enqueued ops).
Proof. exact wrun_prefix. Qed.

(* the yields of a read carry the descriptor and the instance of the connection that was read *)
Check ((fun BUF w g k => eq_refl) : forall BUF w g k, handle_event BUF w (EvIn g k) =
  match alookup g (w_conns w) with
  | None => inr EPanic
  | Some x =>
      let cl := client_of w (sc_client x) in
      let room := (BUF - length (c_win (sc_conn x)))%nat in
      let n := read_amount k room (length (k_tosrv cl)) in
      match cc_read BUF x (RData (firstn n (k_tosrv cl)) []) with
      | inr err => inr err
      | inl (y, reqs) =>
          let y' := match sc_st y with
                    | AwaitOut => mkSC (sc_conn y) (sc_st y) (sc_infl y) (sc_client y) true (sc_gid y)
                    | _ => y
                    end in
          let cl' := mkCl (k_open cl) (k_shut_wr cl) (k_shut_rd cl) (skipn n (k_tosrv cl)) (k_rx cl) (k_place cl) in
          inl (set_client (set_conn w g y') (sc_client x) cl', map (fun r => (g, sc_gid x, r)) reqs)
      end
  end).

(* for calm worlds (no client has closed): over any poll, in any order of the ready events, every
   connection persists with the same client and its wire is only extended by server-generated
   replies to that client's own input; a response supplied with a token is appended to the wire of
   the connection instance that issued the token and to no other *)
Theorem C07_poll_extends_own_wire_only : forall BUF, (2 <= BUF)%nat -> N.of_nat BUF < U32_LIMIT ->
  forall w toks es w' ys, Inv BUF w toks -> Calm w -> Forall (evt_live w) es -> NoDup (map ev_key es) ->
  poll_with BUF w es = PYield w' ys -> conserved w w'.
Proof. exact poll_conserves. Qed.
Theorem C07_respond_reaches_token_owner_only : forall BUF w t1 t2 fd g r w',
  Inv BUF w (t1 ++ (fd, g) :: t2) -> Calm w -> respond w fd r = inl w' ->
  Calm w' /\
  (exists x x', alookup fd (w_conns w) = Some x /\ sc_gid x = g /\ alookup fd (w_conns w') = Some x' /\
                sc_client x' = sc_client x /\ wire w' x' = wire w x ++ serialize r) /\
  forall fd0 x0, fd0 <> fd -> alookup fd0 (w_conns w) = Some x0 -> alookup fd0 (w_conns w') = Some x0 /\ wire w' x0 = wire w x0.
Proof. exact respond_conserves. Qed.

(* ---- provenance for ALL histories: clients may close at any time, descriptor numbers may be reused ----
   A history is any sequence of: polls (any contract-abiding batch, any order), responses for held
   tokens, and arbitrary actions of clients and environment (send, close, shut down, read, connect,
   signal, change the limit).  There is ONE assignment beta of clients to connection instances that is
   right at every moment: whenever instance g is in the table, under whatever descriptor number, it
   serves client beta g; the world invariant holds throughout (so, by C07_token_inv, a held token
   (fd, g) names a table entry whose instance is g). *)
Theorem C07_one_binding : forall BUF, (2 <= BUF)%nat -> N.of_nat BUF < U32_LIMIT ->
  forall tr, history BUF tr ->
  exists beta, Forall (fun s => bound beta (fst s) /\ Inv BUF (fst s) (snd s)) tr /\
               match tr with s :: _ => Forall (fun s0 => (w_nextg (fst s0) <= w_nextg (fst s))%nat) tr | [] => True end.
Proof. exact one_binding. Qed.
Check ((fun beta w => eq_refl) : forall beta w, bound beta w =
  forall fd x, alookup fd (w_conns w) = Some x -> beta (sc_gid x) = sc_client x).
Check (HPoll : forall BUF w toks es w' ys, Forall (evt_ok w) es -> NoDup (map ev_key es) -> ~ In KKill (map ev_key es) ->
    poll_with BUF w es = PYield w' ys -> hstep BUF (w, toks) (w', ytoks ys ++ toks)).
Check (HRespond : forall BUF w t1 t2 fd g r w', respond w fd r = inl w' -> hstep BUF (w, t1 ++ (fd, g) :: t2) (w', t1 ++ t2)).
Check (HEnv : forall BUF w toks w', w_conns w' = w_conns w -> w_nextg w' = w_nextg w -> hstep BUF (w, toks) (w', toks)).
Check (H0 : forall BUF, history BUF [(world0, [])]).
Check (HS : forall BUF s s' tr, history BUF (s :: tr) -> hstep BUF s s' -> history BUF (s' :: s :: tr)).
(* a response supplied with token (fd, g) reaches the entry whose instance is g and whose client is
   beta g -- not whoever else may have been given descriptor fd *)
Theorem C07_respond_token_client : forall BUF, (2 <= BUF)%nat -> N.of_nat BUF < U32_LIMIT ->
  forall w t1 t2 fd g r w' beta,
  Inv BUF w (t1 ++ (fd, g) :: t2) -> respond w fd r = inl w' -> bound beta w ->
  bound beta w' /\ w_nextg w' = w_nextg w /\ Inv BUF w' (t1 ++ t2) /\
  exists x, alookup fd (w_conns w) = Some x /\ sc_gid x = g /\ sc_client x = beta g.
Proof. exact respond_binding. Qed.
(* every yield carries the descriptor and the instance of the connection that was read *)
Theorem C07_yield_identity : forall BUF, (2 <= BUF)%nat -> N.of_nat BUF < U32_LIMIT ->
  forall w toks e w' ys beta, Inv BUF w toks -> handle_event BUF w e = inl (w', ys) -> bound beta w ->
  exists beta', (forall g, (g < w_nextg w)%nat -> beta' g = beta g) /\ bound beta' w' /\
    (w_nextg w <= w_nextg w')%nat /\
    forall fd g r, In (fd, g, r) ys -> exists x, alookup fd (w_conns w) = Some x /\ sc_gid x = g /\ exists kk, e = EvIn fd kk.
Proof. exact event_binding. Qed.
(* bytes enter the receive queue of client c only from the unsent output of a connection whose
   client is c (a prefix of it), or as the 503 refusal of c itself; in any world, for any event *)
Theorem C07_received_bytes_origin : forall BUF w e w' ys c,
  handle_event BUF w e = inl (w', ys) ->
  exists d, k_rx (client_of w' c) = k_rx (client_of w c) ++ d /\
    (d = [] \/
     (exists fd kk x rest, e = EvOut fd kk /\ alookup fd (w_conns w) = Some x /\ sc_client x = c /\ unsent (sc_conn x) = d ++ rest) \/
     (exists nf rest, e = EvListener nf /\ w_backlog w = c :: rest /\ d = SERVER_FULL_ERROR_MESSAGE)).
Proof. exact event_delivery. Qed.
Theorem C07_sweep_delivers_nothing : forall w c, k_rx (client_of (sweep w) c) = k_rx (client_of w c).
Proof. exact sweep_delivery. Qed.
Theorem C07_respond_delivers_nothing : forall w fd r w' c, respond w fd r = inl w' -> client_of w' c = client_of w c.
Proof. exact respond_delivery. Qed.
(* and unsent output receives only (a) replies the server generated while reading that very
   connection (100 Continue, 400) and (b) the response supplied with a token, on the entry the token
   names, dropped if that entry is closed *)
Theorem C07_read_adds_own_replies_only : forall BUF, (2 <= BUF)%nat -> N.of_nat BUF < U32_LIMIT ->
  forall w toks fd kk w' ys, Inv BUF w toks -> evt_ok w (EvIn fd kk) -> handle_event BUF w (EvIn fd kk) = inl (w', ys) ->
  exists x y gen, alookup fd (w_conns w) = Some x /\ alookup fd (w_conns w') = Some y /\
    unsent (sc_conn y) = unsent (sc_conn x) ++ flat_map serialize gen /\ Forall server_generated gen /\
    forall fd0, fd0 <> fd -> alookup fd0 (w_conns w') = alookup fd0 (w_conns w).
Proof. exact read_unsent. Qed.
Theorem C07_respond_adds_to_token_entry_only : forall w fd r w',
  respond w fd r = inl w' ->
  forall fd0 x0, alookup fd0 (w_conns w) = Some x0 ->
    exists x1, alookup fd0 (w_conns w') = Some x1 /\ sc_gid x1 = sc_gid x0 /\ sc_client x1 = sc_client x0 /\
      unsent (sc_conn x1) = unsent (sc_conn x0) ++
        (if Nat.eqb fd0 fd then match sc_st x0 with SClosed => [] | _ => serialize r end else []).
Proof. exact respond_unsent. Qed.
Example C07_history_example : exists tr w, history 1024 ((w, [(1%nat, 0%nat)]) :: tr).
Proof. exact history_example. Qed.

(* ------------------------------------------------------------------------------------------------
   THE WHOLE STREAM (proofs/Stream_proofs.v).  A history is any sequence of
     GPoll     a poll with any contract-abiding batch (evt_ok, one event per descriptor, any order, any partial
               read / write amounts) that is truthful about hang-ups (evt_true: a hang-up is reported only for a
               client that has hung up; input only when there is input and no hang-up),
     GRespond  a response for a token the application holds,
     GFlush    flush_outgoing_writes,
     GEnv      anything clients and the environment do that leaves the server's table alone -- send, close,
               half-close either way, read, signal the kill switch, change the limit, NEW clients asking to
               connect (a client connects once) -- where a direction that is closed stays closed (env_ok),
   from the empty server.  The bookkeeping is observable from outside: g_rcv c = every byte the server side ever
   appended to c's receive queue (d c is the growth of that queue over the step), g_sup g = the responses supplied
   with a token of instance g in supply order, g_yld g = number of requests yielded for g.
   At every point of every history there are a one-to-one map beta from connection instances to clients and, per
   instance, a sequence log g of responses such that what client c has received is NOTHING, or its own 503
   refusal, or a PREFIX of the serialisation of log g for the one instance g of c; every element of log g is a
   server-generated reply (100 Continue / 400) or a response the application supplied with a token of g, the
   latter forming a SUBSEQUENCE of g_sup g (each at most once, in the order supplied; a response for a closed
   connection is dropped); a token (fd, g) the application holds names a table entry of instance g; and the
   responses supplied for g plus the tokens of g still held are exactly the requests yielded for g.  Hence a
   response supplied with a token of instance g can only appear in the stream of client beta g, whatever
   descriptor numbers are reused. *)
Theorem C07_stream_provenance : forall BUF, (2 <= BUF)%nat -> N.of_nat BUF < U32_LIMIT ->
  forall w toks G, greach BUF (w, toks, G) ->
  exists (beta : nat -> nat) (log : nat -> list item),
    (forall g g', (g < w_nextg w)%nat -> (g' < w_nextg w)%nat -> beta g = beta g' -> g = g') /\
    (forall fd x, alookup fd (w_conns w) = Some x -> beta (sc_gid x) = sc_client x) /\
    (forall fd g, In (fd, g) toks -> exists x, alookup fd (w_conns w) = Some x /\ sc_gid x = g) /\
    (forall g, gens_ok (log g) /\ subseq (apps (log g)) (g_sup G g)) /\
    (forall g, (length (g_sup G g) + count_g g toks = g_yld G g)%nat) /\
    forall c, g_rcv G c = [] \/
              (g_rcv G c = SERVER_FULL_ERROR_MESSAGE /\ forall g, (g < w_nextg w)%nat -> beta g <> c) \/
              exists g tail, (g < w_nextg w)%nat /\ beta g = c /\ g_rcv G c ++ tail = ser (log g).
Proof. exact stream_provenance. Qed.

(* the definitions the statement rests on, pinned *)
Theorem C07_stream_vocabulary :
  (forall l, ser l = flat_map (fun i => serialize (iresp i)) l) /\
  (forall l, apps l = flat_map (fun i => match i with IApp r => [r] | IGen _ => [] end) l) /\
  (forall l, gens_ok l <-> Forall (fun i => match i with IGen r => server_generated r | IApp _ => True end) l) /\
  (forall r, server_generated r <-> (exists v, r = response_new v Continue) \/ (exists e, r = bad_request_response e)) /\
  (forall w e, evt_true w e <->
     match e with
     | EvIn fd _ => forall x, alookup fd (w_conns w) = Some x ->
                     k_hup (client_of w (sc_client x)) = false /\ k_tosrv (client_of w (sc_client x)) <> []
     | EvHup fd => forall x, alookup fd (w_conns w) = Some x -> k_hup (client_of w (sc_client x)) = true
     | _ => True
     end) /\
  (forall w w' seen new, env_ok w w' seen new <->
     w_conns w' = w_conns w /\ w_nextg w' = w_nextg w /\ w_backlog w' = w_backlog w ++ new /\
     NoDup new /\ (forall c, In c new -> ~ In c seen) /\
     forall c, In c seen ->
       (k_hup (client_of w c) = true -> k_hup (client_of w' c) = true) /\
       (k_can_receive (client_of w c) = false -> k_can_receive (client_of w' c) = false)).
Proof.
  split; [reflexivity|]. split; [reflexivity|]. split; [intros l; reflexivity|]. split; [intros r; reflexivity|].
  split; [intros w e; destruct e; reflexivity|]. intros; reflexivity.
Qed.

(* the steps of a history, pinned: each constructor of gstep is exactly this *)
Theorem C07_stream_steps : forall BUF s s', gstep BUF s s' <->
  (exists w toks G es w' ys d G',
     s = (w, toks, G) /\ s' = (w', ytoks ys ++ toks, G') /\
     Forall (evt_ok w) es /\ Forall (evt_true w) es /\ NoDup (map ev_key es) /\ ~ In KKill (map ev_key es) /\
     poll_with BUF w es = PYield w' ys /\
     (forall c, k_rx (client_of w' c) = k_rx (client_of w c) ++ d c) /\
     (forall c, g_rcv G' c = g_rcv G c ++ d c) /\
     (forall g, g_yld G' g = (g_yld G g + count_g g (ytoks ys))%nat) /\
     (forall g, g_sup G' g = g_sup G g) /\ g_seen G' = g_seen G) \/
  (exists w t1 t2 fd g r w' G G',
     s = (w, t1 ++ (fd, g) :: t2, G) /\ s' = (w', t1 ++ t2, G') /\ respond w fd r = inl w' /\
     (forall g0, g_sup G' g0 = if Nat.eqb g0 g then g_sup G g ++ [r] else g_sup G g0) /\
     (forall c, g_rcv G' c = g_rcv G c) /\ (forall g0, g_yld G' g0 = g_yld G g0) /\ g_seen G' = g_seen G) \/
  (exists w toks G d G',
     s = (w, toks, G) /\ s' = (flush w, toks, G') /\
     (forall c, k_rx (client_of (flush w) c) = k_rx (client_of w c) ++ d c) /\
     (forall c, g_rcv G' c = g_rcv G c ++ d c) /\
     (forall g, g_sup G' g = g_sup G g) /\ (forall g, g_yld G' g = g_yld G g) /\ g_seen G' = g_seen G) \/
  (exists w toks w' new G G',
     s = (w, toks, G) /\ s' = (w', toks, G') /\ env_ok w w' (g_seen G) new /\
     (forall c, g_rcv G' c = g_rcv G c) /\ (forall g, g_sup G' g = g_sup G g) /\ (forall g, g_yld G' g = g_yld G g) /\
     g_seen G' = g_seen G ++ new).
Proof.
  intros BUF s s'. split.
  - intros H. inversion H; subst.
    + left. do 8 eexists. repeat (split; [eassumption || reflexivity|]). assumption.
    + right. left. do 9 eexists. repeat (split; [eassumption || reflexivity|]). assumption.
    + right. right. left. do 5 eexists. repeat (split; [eassumption || reflexivity|]). assumption.
    + right. right. right. do 6 eexists. repeat (split; [eassumption || reflexivity|]). assumption.
  - intros [H|[H|[H|H]]].
    + destruct H as (w & toks & G & es & w' & ys & d & G' & -> & -> & A1 & A2 & A3 & A4 & A5 & A6 & A7 & A8 & A9 & A10).
      eapply GPoll; eauto.
    + destruct H as (w & t1 & t2 & fd & g & r & w' & G & G' & -> & -> & A1 & A2 & A3 & A4 & A5).
      eapply GRespond; eauto.
    + destruct H as (w & toks & G & d & G' & -> & -> & A1 & A2 & A3 & A4 & A5).
      eapply GFlush; eauto.
    + destruct H as (w & toks & w' & new & G & G' & -> & -> & A1 & A2 & A3 & A4 & A5).
      eapply GEnv; eauto.
Qed.
Theorem C07_stream_histories : forall BUF s, greach BUF s <->
  s = (world0, [], ghost0) \/ exists s0, greach BUF s0 /\ gstep BUF s0 s.
Proof.
  intros BUF s. split.
  - intros H. inversion H; subst; [left; reflexivity|right; eauto].
  - intros [->|(s0 & H0 & H1)]; [apply GR0|eapply GRS; eauto].
Qed.

(* the executable model's own poll (level-triggered readiness of the model kernel, which the correspondence run
   executes against the real server) is such a step whenever the switch has not been signalled *)
Theorem C07_executable_poll_is_a_step : forall BUF, (2 <= BUF)%nat -> N.of_nat BUF < U32_LIMIT ->
  forall w toks G beta log w' ys,
  SIg BUF (w, toks, G) beta log -> w_killed w = false -> poll BUF w = PYield w' ys ->
  gstep BUF (w, toks, G) (w', ytoks ys ++ toks, gpoll G w w' ys).
Proof. exact canonical_gstep. Qed.
Theorem C07_executable_poll_truthful : forall BUF w toks, Inv BUF w toks -> Forall (evt_true w) (ready_events w).
Proof. exact ready_events_true. Qed.

(* ... and so is every operation of the server interpreter of run/Run.v (the one the correspondence run executes
   against the real server): after ANY operation list -- connects, sends, closes, half-closes, client reads, polls,
   polls to quiescence, responses to any held token, flushes, kill, limit changes -- in which every connect uses a
   client number not used before, the whole-stream statement holds for the interpreter's world, the tokens it holds
   and the bookkeeping computed alongside (ghost_ops: received bytes from the growth of the receive queues, supplied
   responses from the respond operations, yields from the polls) *)
Theorem C07_executed_histories_stream : forall BUF, (2 <= BUF)%nat -> N.of_nat BUF < U32_LIMIT ->
  forall ops id hk, connects_fresh [] ops ->
  let w := fst (run_srv_ops BUF id 0 hk world0 ops) in
  stream_statement w (ytoks (w_tokens w)) (ghost_ops BUF id 0 hk world0 ghost0 ops).
Proof. exact executed_histories_stream. Qed.
Theorem C07_stream_statement_is : forall w toks G, stream_statement w toks G <->
  exists (beta : nat -> nat) (log : nat -> list item),
    (forall g g', (g < w_nextg w)%nat -> (g' < w_nextg w)%nat -> beta g = beta g' -> g = g') /\
    (forall fd x, alookup fd (w_conns w) = Some x -> beta (sc_gid x) = sc_client x) /\
    (forall fd g, In (fd, g) toks -> exists x, alookup fd (w_conns w) = Some x /\ sc_gid x = g) /\
    (forall g, gens_ok (log g) /\ subseq (apps (log g)) (g_sup G g)) /\
    (forall g, (length (g_sup G g) + count_g g toks = g_yld G g)%nat) /\
    forall c, g_rcv G c = [] \/
              (g_rcv G c = SERVER_FULL_ERROR_MESSAGE /\ forall g, (g < w_nextg w)%nat -> beta g <> c) \/
              exists g tail, (g < w_nextg w)%nat /\ beta g = c /\ g_rcv G c ++ tail = ser (log g).
Proof. intros; reflexivity. Qed.

(* non-vacuity: connect, send a request, two polls, the application answers, one more poll: the client has
   received exactly that response *)
Example C07_stream_example :
  exists w toks G, greach 1024 (w, toks, G) /\
    g_rcv G 0%nat = serialize (response_new Http11 NoContent) /\
    g_sup G 0%nat = [response_new Http11 NoContent] /\ g_yld G 0%nat = 1%nat /\ toks = [].
Proof. exact stream_example. Qed.

(* Assumed, not proved (kernel contract): K3 bytes written on a descriptor reach that descriptor's peer in order
   (the model's k_rx of the connection's client); K4 truthfulness of hang-up / input reports as stated in evt_true;
   a closed or shut-down direction of a socket stays so (env_ok); a client socket connects once.  The correspondence
   run decides the same statement on real sockets with tagged requests and echoing responses. *)

Print Assumptions C07_token_inv.
Print Assumptions C07_never_reaped_with_token.
Print Assumptions C07_inflight_counts_tokens.
Print Assumptions C07_respond_routes.
Print Assumptions C07_frame.
Print Assumptions C07_bytes_are_enqueued_responses.
Print Assumptions C07_poll_extends_own_wire_only.
Print Assumptions C07_respond_reaches_token_owner_only.
Print Assumptions C07_one_binding.
Print Assumptions C07_respond_token_client.
Print Assumptions C07_yield_identity.
Print Assumptions C07_received_bytes_origin.
Print Assumptions C07_sweep_delivers_nothing.
Print Assumptions C07_respond_delivers_nothing.
Print Assumptions C07_read_adds_own_replies_only.
Print Assumptions C07_respond_adds_to_token_entry_only.
Print Assumptions C07_stream_provenance.
Print Assumptions C07_stream_vocabulary.
Print Assumptions C07_stream_steps.
Print Assumptions C07_stream_histories.
Print Assumptions C07_executable_poll_is_a_step.
Print Assumptions C07_executable_poll_truthful.
Print Assumptions C07_stream_example.
Print Assumptions C07_executed_histories_stream.
Print Assumptions C07_stream_statement_is.
