(* C04 -- payload and line-length limits are enforced exactly and before buffering. *)
From MH Require Import proofs.Limits_proofs proofs.Impl_proofs proofs.ServerRead_proofs proofs.ServerExpect_proofs.

(* at the blank line that ends a header block, for EVERY limit L (0, 2^32-1 and beyond included)
   and every declared length: size-limit error reporting (L, n) iff n > L -- and the decision needs
   no byte after the terminator (t is arbitrary, possibly empty) *)
Theorem C04_size_iff : forall BUF, (2 <= BUF)%nat -> forall L rl h t e,
  step BUF L (PHdr rl h) (CRLF ++ t) = SErr e <->
  (e = SizeLimitExceeded L (h_content_length h) /\ L < h_content_length h).
Proof. exact size_limit_iff. Qed.

Theorem C04_within_limit_accepted : forall BUF, (2 <= BUF)%nat -> forall L rl h t,
  h_content_length h <= L ->
  step BUF L (PHdr rl h) (CRLF ++ t) =
    if h_content_length h =? 0 then SDone PLine t [ORequest rl h None]
    else SDone (PBody rl h [] (h_content_length h)) t (if h_expect h then [OContinue (rl_version rl)] else []).
Proof. exact size_limit_accept. Qed.

(* every delivered body has exactly the declared length, which never exceeds L *)
Theorem C04_body_bound : forall BUF, (2 <= BUF)%nat -> forall L s,
  match parse_stream BUF L s with
  | RMore _ _ o => Forall (out_ok L) o
  | RErr o _ => Forall (out_ok L) o
  | ROutOfFuel => False
  end.
Proof. exact parse_stream_outs_ok. Qed.
Check ((fun L rl h b => eq_refl) : forall L rl h b,
  out_ok L (ORequest rl h (Some b)) = (lenN b = h_content_length h /\ h_content_length h <= L /\ 1 <= h_content_length h)).

(* a terminated request or header line is rejected for its length iff it is longer than BUF
   bytes including its CRLF; the specification has no positions, so this holds wherever the
   line falls in the stream (C01 carries it to every segmentation of the implementation) *)
Theorem C04_line_iff : forall BUF, (2 <= BUF)%nat -> forall l t,
  find_crlf (l ++ [CR]) = None ->
  (take_line BUF (l ++ CRLF ++ t) = LTooLong <-> (BUF < length l + 2)%nat) /\
  ((length l + 2 <= BUF)%nat -> take_line BUF (l ++ CRLF ++ t) = LLine l t).
Proof. exact line_limit_iff. Qed.

Theorem C04_unterminated_line_iff : forall BUF, (2 <= BUF)%nat -> forall w,
  find_crlf w = None ->
  (take_line BUF w = LTooLong <-> (BUF <= length w)%nat) /\ (take_line BUF w = LMore <-> (length w < BUF)%nat).
Proof. exact unterminated_line_iff. Qed.

(* LTooLong is what the request-line and header phases turn into InvalidRequest and
   HeaderError(SizeLimitExceeded) *)
Check ((fun BUF L w => eq_refl) : forall BUF L w, step BUF L PLine w =
  match take_line BUF w with
  | LLine l rest => match parse_reqline l with Ok rl => SDone (PHdr rl headers_default) rest [] | Err e => SErr e end
  | LTooLong => SErr InvalidRequest
  | LMore => SMore PLine w
  end).

(* the implementation model reports exactly what the specification reports (C01) *)
Theorem C04_transfer : forall BUF, (2 <= BUF)%nat -> N.of_nat BUF < U32_LIMIT ->
  forall pm evs, evs_ok BUF (new_conn pm) evs ->
  observe (reads BUF (new_conn pm) evs) = spec_observe (parse_stream BUF pm (concat (chunks evs))).
Proof. exact reads_whole_stream. Qed.

Example C04_ex_edge :
  let h5 := set_content_length headers_default 5 in
  step 1024 5 (PHdr (mkRL Put (B"/") Http11) h5) CRLF = SDone (PBody (mkRL Put (B"/") Http11) h5 [] 5) [] [] /\
  step 1024 4 (PHdr (mkRL Put (B"/") Http11) h5) CRLF = SErr (SizeLimitExceeded 4 5).
Proof. vm_compute. auto. Qed.
Example C04_ex_line :
  take_line 8 (B"abcdef" ++ CRLF ++ B"x") = LLine (B"abcdef") (B"x") /\ take_line 8 (B"abcdefg" ++ CRLF ++ B"x") = LTooLong.
Proof. vm_compute. auto. Qed.

(* server clauses: through HttpServer::requests the read path IS the specification parser with the
   connection's limit (c_pmax, fixed at accept time: see C10_refuse_iff), so the size rule above
   decides; on SizeLimitExceeded L n the queued reply is bad_request_response (SizeLimitExceeded L n),
   whose body names both numbers (display_req_err, literal-tied) *)
Theorem C04_server_transfer : forall BUF, (2 <= BUF)%nat -> N.of_nat BUF < U32_LIMIT ->
  forall w toks fd kk w' ys x ph,
  Inv BUF w toks -> alookup fd (w_conns w) = Some x -> CInv BUF (sc_conn x) ph ->
  k_tosrv (client_of w (sc_client x)) <> [] ->
  handle_event BUF w (EvIn fd kk) = inl (w', ys) ->
  let c := sc_conn x in
  let t := k_tosrv (client_of w (sc_client x)) in
  let d := firstn (read_amount kk (BUF - length (c_win c)) (length t)) t in
  d <> [] /\
  exists y, alookup fd (w_conns w') = Some y /\ sc_gid y = sc_gid x /\ sc_client y = sc_client x /\
    k_tosrv (client_of w' (sc_client x)) = skipn (length d) t /\
  match runT BUF (c_pmax c) ph (c_win c ++ d) [] with
  | RMore ph' carry outs =>
      CInv BUF (sc_conn y) ph' /\ c_win (sc_conn y) = carry /\
      unsent (sc_conn y) = unsent c ++ flat_map serialize (conts_of outs) /\
      ys = map (fun r => (fd, sc_gid x, r)) (c_parsed c ++ reqs_of outs (c_files c)) /\
      c_parsed (sc_conn y) = [] /\ c_files (sc_conn y) = files_after outs (c_files c) /\ c_pmax (sc_conn y) = c_pmax c
  | RErr outs e =>
      CInv BUF (sc_conn y) PLine /\ c_win (sc_conn y) = [] /\
      unsent (sc_conn y) = unsent c ++ flat_map serialize (conts_of outs ++ [bad_request_response e]) /\
      ys = [] /\
      c_parsed (sc_conn y) = [] /\ c_files (sc_conn y) = [] /\ c_pmax (sc_conn y) = c_pmax c
  | ROutOfFuel => False
  end.
Proof. exact server_read_exact. Qed.

Theorem C04_reply_names_both : forall l n,
  rs_body (bad_request_response (SizeLimitExceeded l n)) =
  Some ((B"{ ""error"": ""Request payload with size ") ++ dec n ++ B" is larger than the limit of " ++ dec l
        ++ B" allowed by server." ++ [LF] ++ B"All previous unanswered requests will be dropped."" }").
Proof. exact reply_names_both. Qed.

(* server clause, end to end: when the specification parser rejects the bytes of a read (RErr outs e, e.g.
   SizeLimitExceeded L n at the blank line), polling while ready delivers to that client the 400 built from e
   (C04_reply_names_both for the size error), after the interim responses due before it *)
Theorem C04_server_400_delivered : forall BUF, (2 <= BUF)%nat -> N.of_nat BUF < U32_LIMIT ->
  forall w toks fd x ph,
  Inv BUF w toks -> Calm w -> alookup fd (w_conns w) = Some x -> CInv BUF (sc_conn x) ph -> sc_out x = false ->
  k_tosrv (client_of w (sc_client x)) <> [] ->
  let c := sc_conn x in
  let t := k_tosrv (client_of w (sc_client x)) in
  let d := firstn (read_amount 0 (BUF - length (c_win c)) (length t)) t in
  exists n, match drive BUF n w [] with
            | DQuiet w2 _ =>
                ready_events w2 = [] /\
                exists more, Forall server_generated more /\
                  k_rx (client_of w2 (sc_client x)) =
                  wire w x ++
                  flat_map serialize (match runT BUF (c_pmax c) ph (c_win c ++ d) [] with
                                      | RMore _ _ outs => conts_of outs
                                      | RErr outs e => conts_of outs ++ [bad_request_response e]
                                      | ROutOfFuel => []
                                      end) ++ flat_map serialize more
            | DOverflow => True
            | DFuel => False
            end.
Proof. exact server_replies_delivered. Qed.

Print Assumptions C04_size_iff.
Print Assumptions C04_within_limit_accepted.
Print Assumptions C04_body_bound.
Print Assumptions C04_line_iff.
Print Assumptions C04_unterminated_line_iff.
Print Assumptions C04_transfer.
Print Assumptions C04_server_transfer.
Print Assumptions C04_reply_names_both.
Print Assumptions C04_server_400_delivered.
