(* C12 -- descriptors passed with a request are delivered once, in order, never lost. *)
From MH Require Import proofs.Impl_proofs.

(* a list equation: on runs without a parse error, descriptors handed over with requests (in
   delivery order) ++ descriptors still held = descriptors held before ++ descriptors received,
   in arrival order.  Hence: exactly once, none lost, none duplicated, order kept. *)
Theorem C12_conservation : forall BUF, (2 <= BUF)%nat -> N.of_nat BUF < U32_LIMIT ->
  forall evs c ph, CInv BUF c ph -> evs_ok BUF c evs -> snd (reads BUF c evs) = None ->
  flat_map r_files (c_parsed (fst (reads BUF c evs))) ++ c_files (fst (reads BUF c evs))
  = flat_map r_files (c_parsed c) ++ c_files c ++ flat_map fds_of evs.
Proof. exact files_conservation. Qed.

(* the descriptors pending at a read all go to the first request that read completes (reqs_of
   gives the whole list to the first request and none to later ones); if it completes none they
   stay with the connection *)
Theorem C12_attachment : forall BUF, (2 <= BUF)%nat -> N.of_nat BUF < U32_LIMIT ->
  forall c ph bs fds, CInv BUF c ph -> bs <> [] -> (length (c_win c) + length bs <= BUF)%nat ->
  forall c' sys, try_read BUF c (RData bs fds) = (c', RdOk, sys) ->
  exists outs, c_parsed c' = c_parsed c ++ reqs_of outs (c_files c ++ fds)
               /\ c_files c' = files_after outs (c_files c ++ fds).
Proof. exact files_attachment. Qed.
Check ((fun rl h b r fs => eq_refl) : forall rl h b r fs, reqs_of (ORequest rl h b :: r) fs = mkReq rl h b fs :: reqs_of r []).

Theorem C12_split : forall outs fs, flat_map r_files (reqs_of outs fs) ++ files_after outs fs = fs.
Proof. exact files_split. Qed.

(* descriptors pending at a parse error are dropped with the parser state (C11) *)
Theorem C12_dropped_on_error : forall BUF c ev c' e sys,
  try_read BUF c ev = (c', RdErr (ParseError e), sys) -> c_files c' = [].
Proof. intros BUF c ev c' e sys H. apply parse_error_resets in H. inversion H. reflexivity. Qed.

Example C12_ex :
  let s := B"GET /1 HTTP/1.1" ++ CRLF ++ CRLF ++ B"GET /2 HTTP/1.1" ++ CRLF ++ CRLF ++ B"GET /3 HT" in
  let r := reads 1024 (new_conn 51200) [RData (firstn 5 s) [1%nat; 2%nat]; RData (skipn 5 s) [3%nat]; REof [4%nat]] in
  map r_files (c_parsed (fst r)) = [[1%nat; 2%nat; 3%nat]; []] /\ c_files (fst r) = [4%nat] /\ snd r = None.
Proof. vm_compute. auto. Qed.

Print Assumptions C12_conservation.
Print Assumptions C12_attachment.
Print Assumptions C12_split.
Print Assumptions C12_dropped_on_error.
