(* C16 -- token and URI functions are exact, case-sensitive and round-trip.
   This file contains only the property theorems, each closed by [exact] of a lemma proved in
   proofs/, its statement pinned by [Check], and its assumptions printed. *)
From MH Require Import proofs.Tokens_proofs.

(* Method / Version parsing accept exactly the canonical spellings -- for ALL byte strings *)
Theorem C16_method_exact : forall bs m, parse_method bs = Some m <-> bs = raw_method m.
Proof. exact parse_method_iff. Qed.
Theorem C16_method_reject : forall bs, parse_method bs = None <-> forall m, bs <> raw_method m.
Proof. exact parse_method_none. Qed.
Theorem C16_version_exact : forall bs v, parse_version bs = Some v <-> bs = raw_version v.
Proof. exact parse_version_iff. Qed.
Theorem C16_version_reject : forall bs, parse_version bs = None <-> forall v, bs <> raw_version v.
Proof. exact parse_version_none. Qed.
(* media types: the canonical spellings modulo surrounding white space *)
Theorem C16_media_exact : forall bs t,
  parse_media bs = Some t <-> bs <> [] /\ utf8_valid bs = true /\ trim bs = media_str t.
Proof. exact parse_media_iff. Qed.
(* parsing the canonical byte form of any value returns that value *)
Theorem C16_method_roundtrip : forall m, parse_method (raw_method m) = Some m.
Proof. exact parse_method_raw. Qed.
Theorem C16_version_roundtrip : forall v, parse_version (raw_version v) = Some v.
Proof. exact parse_version_raw. Qed.
Theorem C16_media_roundtrip : forall t, parse_media (media_str t) = Some t.
Proof. exact parse_media_canonical. Qed.
(* every status code serialises to its own distinct three-digit number (finite: 11 constructors) *)
Theorem C16_status_distinct : forall a b, raw_status a = raw_status b -> a = b.
Proof. exact raw_status_injective. Qed.
Theorem C16_status_three_digits : forall s,
  length (raw_status s) = 3%nat /\ forallb is_digit (raw_status s) = true.
Proof. exact raw_status_three_digits. Qed.
(* the absolute path of a URI *)
Theorem C16_abs_path_origin_form : forall r, abs_path (SLASH :: r) = SLASH :: r.
Proof. exact abs_path_origin_form. Qed.
Theorem C16_abs_path_absolute_form : forall a p,
  ~ In SLASH a -> abs_path (HTTP_SCHEME_PREFIX ++ a ++ SLASH :: p) = SLASH :: p.
Proof. exact abs_path_absolute_form. Qed.
Theorem C16_abs_path_no_path : forall a, ~ In SLASH a -> abs_path (HTTP_SCHEME_PREFIX ++ a) = [].
Proof. exact abs_path_no_authority_slash. Qed.
Theorem C16_abs_path_otherwise : forall u,
  prefixb HTTP_SCHEME_PREFIX u = false -> (forall r, u <> SLASH :: r) -> abs_path u = [].
Proof. exact abs_path_other. Qed.
Theorem C16_uri_classes_exhaustive : forall u,
  (exists r, u = SLASH :: r)
  \/ (exists a p, u = HTTP_SCHEME_PREFIX ++ a ++ SLASH :: p /\ ~ In SLASH a)
  \/ (exists a, u = HTTP_SCHEME_PREFIX ++ a /\ ~ In SLASH a)
  \/ (prefixb HTTP_SCHEME_PREFIX u = false /\ forall r, u <> SLASH :: r).
Proof. exact uri_classes. Qed.
Theorem C16_abs_path_suffix : forall u,
  abs_path u = [] \/ exists pre r, u = pre ++ abs_path u /\ abs_path u = SLASH :: r.
Proof. exact abs_path_suffix. Qed.
Theorem C16_abs_path_idempotent : forall u, abs_path (abs_path u) = abs_path u.
Proof. exact abs_path_idempotent. Qed.

(* non-vacuity: concrete inputs meeting the hypotheses *)
Example C16_ex_absolute : abs_path (B"http://localhost:80/a/b") = B"/a/b".
Proof. vm_compute. reflexivity. Qed.
Example C16_ex_case_sensitive : parse_method (B"get") = None /\ parse_version (B"http/1.1") = None.
Proof. vm_compute. auto. Qed.
Example C16_ex_media_padded : parse_media (B" text/plain ") = Some PlainText.
Proof. vm_compute. reflexivity. Qed.

Print Assumptions C16_method_exact.
Print Assumptions C16_method_reject.
Print Assumptions C16_version_exact.
Print Assumptions C16_version_reject.
Print Assumptions C16_media_exact.
Print Assumptions C16_method_roundtrip.
Print Assumptions C16_version_roundtrip.
Print Assumptions C16_media_roundtrip.
Print Assumptions C16_status_distinct.
Print Assumptions C16_status_three_digits.
Print Assumptions C16_abs_path_origin_form.
Print Assumptions C16_abs_path_absolute_form.
Print Assumptions C16_abs_path_no_path.
Print Assumptions C16_abs_path_otherwise.
Print Assumptions C16_uri_classes_exhaustive.
Print Assumptions C16_abs_path_suffix.
Print Assumptions C16_abs_path_idempotent.
