(* C03 -- no input makes any parsing entry point panic, hang or block. *)
From MH Require Import proofs.Total_proofs proofs.RunConn_proofs.

(* The models of Request::try_from and of HttpConnection carry an explicit Panic outcome at
   every slice/index expression, unwrap, drain(..n) and unchecked subtraction of the Rust code
   (and at loop-fuel exhaustion = non-termination).  These theorems say no input reaches one. *)

(* the one-shot parser, for ALL byte strings and every max_len *)
Theorem C03_oneshot_total : forall bs max s, request_try_from bs max <> OPanic s.
Proof. exact request_try_from_total. Qed.

(* one call on the connection, from any state satisfying the invariant, for any read or write
   result allowed by the system calls' contracts: no panic site (including fuel exhaustion of
   the parsing loop), the invariant is kept, and at most one system call is made *)
Theorem C03_call_total : forall BUF, (2 <= BUF)%nat -> N.of_nat BUF < U32_LIMIT ->
  forall c ph o, CInv BUF c ph -> cop_ok BUF c o ->
  exists ph', CInv BUF (fst (fst (apply_cop BUF c o))) ph' /\ snd (fst (apply_cop BUF c o)) = false
              /\ (snd (apply_cop BUF c o) <= 1)%nat.
Proof. exact cop_total. Qed.

(* every sequence of calls on a new connection -- reads under any schedule, writes, enqueues,
   pops, clears, limit changes -- including everything done after ParseError, StreamReadError
   and ConnectionClosed *)
Theorem C03_conn_total : forall BUF, (2 <= BUF)%nat -> N.of_nat BUF < U32_LIMIT ->
  forall ops c ph, CInv BUF c ph -> cops_ok BUF c ops -> any_panic BUF c ops = false.
Proof. exact conn_total. Qed.
Theorem C03_new_conn_inv : forall BUF, (2 <= BUF)%nat -> N.of_nat BUF < U32_LIMIT -> forall pm, CInv BUF (new_conn pm) PLine.
Proof. exact CInv_new. Qed.

(* one system call per call: try_read consumes exactly one read result (its third component is
   whether recvmsg was called), try_write offers at most one slice and none on InvalidWrite *)
Theorem C03_one_write : forall c ev c' res off,
  try_write c ev = (c', res, off) -> (off = None <-> res = WrErr InvalidWrite).
Proof. exact try_write_offer. Qed.

(* header-line, header-block, media-type, encoding, method, version and URI-path functions are
   total functions of the model without a panic outcome: entry[0]/entry[1] of splitn(2, ':') exist
   by construction (split_at), and the two string slices of get_abs_path are taken after an ASCII
   prefix and at an ASCII '/', i.e. on character boundaries. *)

Example C03_ex_after_errors :
  any_panic 1024 (new_conn 51200)
    [Total_proofs.CRead (RData (B"BAD" ++ CRLF) []); Total_proofs.CRead (RFail 11); Total_proofs.CRead (REof []); Total_proofs.CWrite (WWrote 3);
     Total_proofs.CEnqueue (response_new Http11 OK); Total_proofs.CWrite WFail; Total_proofs.CRead (RData (B"GET / HTTP/1.1" ++ CRLF ++ CRLF) [1%nat]); Total_proofs.CPop; Total_proofs.CSetMax 0]
  = false.
Proof. vm_compute. reflexivity. Qed.

(* over executed histories: the connection interpreter of run/Run.v (domain 6 of the correspondence run: a scripted
   stream with reads of any size, end of stream, failing reads, short / interrupted / failing writes, enqueues,
   clears, limit changes) never leaves the connection invariant after ANY list of operations, so C03_call_total
   applies to every call it makes; the results it feeds to try_read are within the recvmsg contract (at most
   `room` bytes) by construction (take_step_KI) *)
Theorem C03_executed_conn_keeps_inv : forall BUF, (2 <= BUF)%nat -> N.of_nat BUF < U32_LIMIT ->
  forall ops id L stream, KI BUF (run_conn_state BUF id 0 (mkCst (set_payload_max_size conn_new L) stream 0) ops).
Proof. exact executed_conn_from_new. Qed.
Check ((fun BUF k => eq_refl) : forall BUF k, KI BUF k = exists ph, CInv BUF (k_conn k) ph).
Check ((fun BUF id i k op r => eq_refl) : forall BUF id i k op r,
  run_conn_state BUF id i k (op :: r) = run_conn_state BUF id (S i) (fst (run_conn_op BUF id i k op)) r).

Print Assumptions C03_oneshot_total.
Print Assumptions C03_call_total.
Print Assumptions C03_conn_total.
Print Assumptions C03_new_conn_inv.
Print Assumptions C03_one_write.
Print Assumptions C03_executed_conn_keeps_inv.
