(* C02 -- accepted requests are exactly those of the documented grammar, fields verbatim. *)
From MH Require Import proofs.Grammar_proofs proofs.Grammar_conv proofs.Impl_proofs.

(* a request line is accepted iff it is METHOD SP URI SP VERSION with METHOD and VERSION from the
   (source-tied) tables and a non-empty UTF-8 URI without spaces; the fields are exactly those bytes *)
Theorem C02_reqline_accept_iff : forall l rl,
  parse_reqline l = Ok rl <->
  (l = raw_method (rl_method rl) ++ SP :: rl_uri rl ++ SP :: raw_version (rl_version rl)
   /\ rl_uri rl <> [] /\ utf8_valid (rl_uri rl) = true /\ ~ In SP (rl_uri rl)).
Proof. exact reqline_accept_iff. Qed.

(* otherwise: malformed shape, then method, then URI, then version *)
Theorem C02_reqline_precedence : forall l,
  match split_request_line l with
  | None => parse_reqline l = Err InvalidRequest
  | Some (m, u, v) =>
    match parse_method m with
    | None => parse_reqline l = Err InvalidHttpMethod
    | Some m' =>
      match uri_try_from u with
      | Err w => parse_reqline l = Err (InvalidUri w)
      | Ok u' =>
        match parse_version v with
        | None => parse_reqline l = Err InvalidHttpVersion
        | Some v' => parse_reqline l = Ok (mkRL m' u' v')
        end
      end
    end
  end.
Proof. exact reqline_precedence. Qed.
Theorem C02_shape : forall l m u v,
  split_request_line l = Some (m, u, v) <-> (l = m ++ SP :: u ++ SP :: v /\ ~ In SP m /\ ~ In SP u).
Proof. exact split_request_line_some. Qed.
Theorem C02_malformed_shape : forall l,
  split_request_line l = None <->
  (~ In SP l \/ exists m rest, l = m ++ SP :: rest /\ ~ In SP m /\ ~ In SP rest).
Proof. exact split_request_line_none. Qed.

(* the "if" direction of the grammar: every byte string of the form
     request-line CRLF *(header CRLF) CRLF body
   with lines within the line limit, headers acceptable under the header rules (C15) and a body of
   exactly Content-Length <= L bytes is delivered -- request line, folded headers and body are
   exactly those bytes -- and parsing continues on whatever follows (pipelining) *)
Theorem C02_wellformed_delivered : forall BUF, (2 <= BUF)%nat -> forall L rlb rl hs hd body rest acc,
  parse_reqline rlb = Ok rl -> line_ok BUF rlb ->
  Forall (fun l => l <> [] /\ line_ok BUF l) hs -> fold_lines headers_default hs = Ok hd ->
  h_content_length hd <= L -> lenN body = h_content_length hd ->
  runT BUF L PLine (rlb ++ CRLF ++ Grammar_proofs.with_crlf hs ++ CRLF ++ body ++ rest) acc =
  runT BUF L PLine rest (acc ++ interim rl hd ++ [ORequest rl hd (delivered_body hd body)]).
Proof. exact wellformed_delivered. Qed.
Check ((fun BUF l => eq_refl) : forall BUF l, line_ok BUF l = (find_crlf (l ++ [CR]) = None /\ (length l + 2 <= BUF)%nat)).

(* carried to the implementation model, for every read schedule, by C01 *)
Theorem C02_transfer : forall BUF, (2 <= BUF)%nat -> N.of_nat BUF < U32_LIMIT ->
  forall pm evs, evs_ok BUF (new_conn pm) evs ->
  observe (reads BUF (new_conn pm) evs) = spec_observe (parse_stream BUF pm (concat (chunks evs))).
Proof. exact reads_whole_stream. Qed.

(* the "only if" direction, and the grammar as an equivalence: the first request delivered by the
   whole-stream parser is x IFF the stream starts with a well-formed encoding of x (first_req skips
   interim responses; outs_of are the outputs of the run, whether it ends waiting or in an error) *)
Theorem C02_delivered_wellformed : forall BUF, (2 <= BUF)%nat -> forall L s x,
  first_req (outs_of (parse_stream BUF L s)) = Some x ->
  exists rlb rl hs hd body rest,
    s = rlb ++ CRLF ++ Grammar_proofs.with_crlf hs ++ CRLF ++ body ++ rest /\
    parse_reqline rlb = Ok rl /\ line_ok BUF rlb /\
    Forall (fun l => l <> [] /\ line_ok BUF l) hs /\ fold_lines headers_default hs = Ok hd /\
    h_content_length hd <= L /\ lenN body = h_content_length hd /\
    x = (rl, hd, delivered_body hd body).
Proof. exact delivered_wellformed. Qed.

Theorem C02_accept_iff : forall BUF, (2 <= BUF)%nat -> forall L s x,
  first_req (outs_of (parse_stream BUF L s)) = Some x <->
  exists rlb rl hs hd body rest,
    s = rlb ++ CRLF ++ Grammar_proofs.with_crlf hs ++ CRLF ++ body ++ rest /\
    parse_reqline rlb = Ok rl /\ line_ok BUF rlb /\
    Forall (fun l => l <> [] /\ line_ok BUF l) hs /\ fold_lines headers_default hs = Ok hd /\
    h_content_length hd <= L /\ lenN body = h_content_length hd /\
    x = (rl, hd, delivered_body hd body).
Proof. exact first_delivery_iff. Qed.
(* iterating it (C02_wellformed_delivered continues on `rest` with the outputs appended) gives every
   later delivery; take_line_inv characterises each line of the stream *)
Theorem C02_line_inversion : forall BUF w l rest,
  take_line BUF w = LLine l rest ->
  w = l ++ CRLF ++ rest /\ find_crlf (l ++ [CR]) = None /\ (length l + 2 <= BUF)%nat.
Proof. exact take_line_inv. Qed.

(* PARTIAL.  Not a single theorem: "the error kind names the first offending element of the whole
   stream".  Its ingredients are proved: a run stops at the first step that fails (runT_unfold), a
   step fails exactly as take_line (C04_line_iff), parse_reqline (C02_reqline_precedence) or the
   header rules (C15) say, and everything before it was delivered (C02_wellformed_delivered).  The
   correspondence run compares the implementation with an independent recogniser of the grammar,
   including the error kind, on every generated stream. *)

Example C02_ex :
  match parse_stream 1024 51200 (B"PUT /x HTTP/1.1" ++ CRLF ++ B"Content-Length: 2" ++ CRLF ++ CRLF ++ B"ab" ++ B"GET") with
  | RMore PLine carry [ORequest rl h (Some body)] => carry = B"GET" /\ body = B"ab" /\ rl_uri rl = B"/x"
  | _ => False
  end.
Proof. vm_compute. auto. Qed.

Print Assumptions C02_reqline_accept_iff.
Print Assumptions C02_reqline_precedence.
Print Assumptions C02_shape.
Print Assumptions C02_malformed_shape.
Print Assumptions C02_wellformed_delivered.
Print Assumptions C02_transfer.
Print Assumptions C02_delivered_wellformed.
Print Assumptions C02_accept_iff.
Print Assumptions C02_line_inversion.
