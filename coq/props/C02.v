(* C02 -- accepted requests are exactly those of the documented grammar, fields verbatim. *)
From MH Require Import proofs.Grammar_proofs proofs.Grammar_conv proofs.Grammar_stream proofs.Impl_proofs.

(* a request line is accepted iff it is METHOD SP URI SP VERSION with METHOD and VERSION from the
   (source-tied) tables and a non-empty UTF-8 URI without spaces; the fields are exactly those bytes *)
Theorem C02_reqline_accept_iff : forall l rl,
  parse_reqline l = Ok rl <->
  (l = raw_method (rl_method rl) ++ SP :: rl_uri rl ++ SP :: raw_version (rl_version rl)
   /\ rl_uri rl <> [] /\ utf8_valid (rl_uri rl) = true /\ ~ In SP (rl_uri rl)).
Proof. exact reqline_accept_iff. Qed.

(* otherwise: malformed shape, then method, then URI, then version *)
Theorem C02_reqline_precedence : forall l,
  match split_request_line l with
  | None => parse_reqline l = Err InvalidRequest
  | Some (m, u, v) =>
    match parse_method m with
    | None => parse_reqline l = Err InvalidHttpMethod
    | Some m' =>
      match uri_try_from u with
      | Err w => parse_reqline l = Err (InvalidUri w)
      | Ok u' =>
        match parse_version v with
        | None => parse_reqline l = Err InvalidHttpVersion
        | Some v' => parse_reqline l = Ok (mkRL m' u' v')
        end
      end
    end
  end.
Proof. exact reqline_precedence. Qed.
Theorem C02_shape : forall l m u v,
  split_request_line l = Some (m, u, v) <-> (l = m ++ SP :: u ++ SP :: v /\ ~ In SP m /\ ~ In SP u).
Proof. exact split_request_line_some. Qed.
Theorem C02_malformed_shape : forall l,
  split_request_line l = None <->
  (~ In SP l \/ exists m rest, l = m ++ SP :: rest /\ ~ In SP m /\ ~ In SP rest).
Proof. exact split_request_line_none. Qed.

(* the "if" direction of the grammar: every byte string of the form
     request-line CRLF *(header CRLF) CRLF body
   with lines within the line limit, headers acceptable under the header rules (C15) and a body of
   exactly Content-Length <= L bytes is delivered -- request line, folded headers and body are
   exactly those bytes -- and parsing continues on whatever follows (pipelining) *)
Theorem C02_wellformed_delivered : forall BUF, (2 <= BUF)%nat -> forall L rlb rl hs hd body rest acc,
  parse_reqline rlb = Ok rl -> line_ok BUF rlb ->
  Forall (fun l => l <> [] /\ line_ok BUF l) hs -> fold_lines headers_default hs = Ok hd ->
  h_content_length hd <= L -> lenN body = h_content_length hd ->
  runT BUF L PLine (rlb ++ CRLF ++ Grammar_proofs.with_crlf hs ++ CRLF ++ body ++ rest) acc =
  runT BUF L PLine rest (acc ++ interim rl hd ++ [ORequest rl hd (delivered_body hd body)]).
Proof. exact wellformed_delivered. Qed.
Check ((fun BUF l => eq_refl) : forall BUF l, line_ok BUF l = (find_crlf (l ++ [CR]) = None /\ (length l + 2 <= BUF)%nat)).

(* carried to the implementation model, for every read schedule, by C01 *)
Theorem C02_transfer : forall BUF, (2 <= BUF)%nat -> N.of_nat BUF < U32_LIMIT ->
  forall pm evs, evs_ok BUF (new_conn pm) evs ->
  observe (reads BUF (new_conn pm) evs) = spec_observe (parse_stream BUF pm (concat (chunks evs))).
Proof. exact reads_whole_stream. Qed.

(* the "only if" direction, and the grammar as an equivalence: the first request delivered by the
   whole-stream parser is x IFF the stream starts with a well-formed encoding of x (first_req skips
   interim responses; outs_of are the outputs of the run, whether it ends waiting or in an error) *)
Theorem C02_delivered_wellformed : forall BUF, (2 <= BUF)%nat -> forall L s x,
  first_req (outs_of (parse_stream BUF L s)) = Some x ->
  exists rlb rl hs hd body rest,
    s = rlb ++ CRLF ++ Grammar_proofs.with_crlf hs ++ CRLF ++ body ++ rest /\
    parse_reqline rlb = Ok rl /\ line_ok BUF rlb /\
    Forall (fun l => l <> [] /\ line_ok BUF l) hs /\ fold_lines headers_default hs = Ok hd /\
    h_content_length hd <= L /\ lenN body = h_content_length hd /\
    x = (rl, hd, delivered_body hd body).
Proof. exact delivered_wellformed. Qed.

Theorem C02_accept_iff : forall BUF, (2 <= BUF)%nat -> forall L s x,
  first_req (outs_of (parse_stream BUF L s)) = Some x <->
  exists rlb rl hs hd body rest,
    s = rlb ++ CRLF ++ Grammar_proofs.with_crlf hs ++ CRLF ++ body ++ rest /\
    parse_reqline rlb = Ok rl /\ line_ok BUF rlb /\
    Forall (fun l => l <> [] /\ line_ok BUF l) hs /\ fold_lines headers_default hs = Ok hd /\
    h_content_length hd <= L /\ lenN body = h_content_length hd /\
    x = (rl, hd, delivered_body hd body).
Proof. exact first_delivery_iff. Qed.
(* iterating it (C02_wellformed_delivered continues on `rest` with the outputs appended) gives every
   later delivery; take_line_inv characterises each line of the stream *)
Theorem C02_line_inversion : forall BUF w l rest,
  take_line BUF w = LLine l rest ->
  w = l ++ CRLF ++ rest /\ find_crlf (l ++ [CR]) = None /\ (length l + 2 <= BUF)%nat.
Proof. exact take_line_inv. Qed.

(* the outcome "parse error", classified for whole streams of any length: parse_stream s = RErr o e
   IFF s is a sequence of well-formed request encodings -- all delivered: o is exactly their
   deliveries, in order -- followed by a tail whose first, incomplete request has the fault e, i.e.
   the FIRST offending element in stream order: a first line that reaches the line limit without
   CRLF (InvalidRequest), a complete first line rejected as a request line (kind by
   C02_reqline_precedence), or, after a good request line and good header lines, a header line
   that reaches the line limit, one rejected by the header rules (C15), or the blank line with a
   declared length above the payload limit *)
Theorem C02_stream_error_iff : forall BUF, (2 <= BUF)%nat -> forall L s o e,
  parse_stream BUF L s = RErr o e <->
  exists qs t, Forall (WF BUF L) qs /\ s = enc_all qs ++ t /\ o = outs_all qs /\ fault BUF L t e.
Proof. exact stream_error_iff. Qed.
Check ((fun BUF L q => eq_refl) : forall BUF L q, WF BUF L q =
  (parse_reqline (q_rlb q) = Ok (q_rl q) /\ line_ok BUF (q_rlb q) /\
   Forall (fun l => l <> [] /\ line_ok BUF l) (q_hs q) /\ fold_lines headers_default (q_hs q) = Ok (q_hd q) /\
   h_content_length (q_hd q) <= L /\ lenN (q_body q) = h_content_length (q_hd q))).
Check ((fun q => eq_refl) : forall q, enc q = q_rlb q ++ CRLF ++ Grammar_proofs.with_crlf (q_hs q) ++ CRLF ++ q_body q).
Check ((fun q => eq_refl) : forall q, outs q =
  interim (q_rl q) (q_hd q) ++ [ORequest (q_rl q) (q_hd q) (delivered_body (q_hd q) (q_body q))]).
Check (FT_long : forall BUF L t, take_line BUF t = LTooLong -> fault BUF L t InvalidRequest).
Check (FT_reqline : forall BUF L t l rest e, take_line BUF t = LLine l rest -> parse_reqline l = Err e -> fault BUF L t e).
Check (FT_hdr : forall BUF L t rlb rl hs h r e, parse_reqline rlb = Ok rl -> line_ok BUF rlb ->
    Forall (fun l => l <> [] /\ line_ok BUF l) hs -> fold_lines headers_default hs = Ok h ->
    t = rlb ++ CRLF ++ Grammar_proofs.with_crlf hs ++ r -> hdr_fault BUF L h r e -> fault BUF L t e).
Check (HF_long : forall BUF L h r, take_line BUF r = LTooLong -> hdr_fault BUF L h r (HeaderError (HSizeLimitExceeded (firstn BUF r)))).
Check (HF_line : forall BUF L h r l rest e, take_line BUF r = LLine l rest -> l <> [] -> parse_header_tolerant h l = Err e -> hdr_fault BUF L h r e).
Check (HF_size : forall BUF L h r rest, take_line BUF r = LLine [] rest -> L < h_content_length h ->
    hdr_fault BUF L h r (SizeLimitExceeded L (h_content_length h))).

(* so the error kind and the deliveries before it do not depend on how the stream is cut into
   "requests, then a faulty tail" *)
Theorem C02_fault_deterministic : forall BUF, (2 <= BUF)%nat -> forall L qs1 t1 e1 qs2 t2 e2,
  Forall (WF BUF L) qs1 -> Forall (WF BUF L) qs2 -> enc_all qs1 ++ t1 = enc_all qs2 ++ t2 ->
  fault BUF L t1 e1 -> fault BUF L t2 e2 -> e1 = e2 /\ outs_all qs1 = outs_all qs2.
Proof. exact fault_deterministic. Qed.

(* non-vacuity: one good request, then a request whose second header line has no colon *)
Example C02_stream_error_ex :
  parse_stream 1024 51200 (B"GET /a HTTP/1.1" ++ CRLF ++ CRLF ++ B"PUT /b HTTP/1.0" ++ CRLF ++ B"Content-Length: 3" ++ CRLF ++ B"oops" ++ CRLF)
  = RErr [ORequest (mkRL Get (B"/a") Http11) headers_default None] (HeaderError (InvalidFormat (B"oops"))).
Proof. vm_compute. reflexivity. Qed.

Example C02_ex :
  match parse_stream 1024 51200 (B"PUT /x HTTP/1.1" ++ CRLF ++ B"Content-Length: 2" ++ CRLF ++ CRLF ++ B"ab" ++ B"GET") with
  | RMore PLine carry [ORequest rl h (Some body)] => carry = B"GET" /\ body = B"ab" /\ rl_uri rl = B"/x"
  | _ => False
  end.
Proof. vm_compute. auto. Qed.

Print Assumptions C02_reqline_accept_iff.
Print Assumptions C02_reqline_precedence.
Print Assumptions C02_shape.
Print Assumptions C02_malformed_shape.
Print Assumptions C02_wellformed_delivered.
Print Assumptions C02_transfer.
Print Assumptions C02_delivered_wellformed.
Print Assumptions C02_accept_iff.
Print Assumptions C02_line_inversion.
Print Assumptions C02_stream_error_iff.
Print Assumptions C02_fault_deterministic.
