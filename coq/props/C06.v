(* C06 -- queued responses reach the stream completely, once, in order, under short writes. *)
From MH Require Import proofs.Write_proofs.

(* every history of enqueue / try_write / clear, every write result allowed by io::Write's
   contract (k <= len, EINTR, any error, 0): accepted-since-last-discard ++ unsent = committed *)
Theorem C06_conservation : forall ops w, WInv w -> wops_ok w ops -> WInv (wrun w ops).
Proof. exact wrun_inv. Qed.
Check (C06_conservation : forall ops w,
  (w_acc w ++ unsent (w_conn w) = w_com w /\ c_rbuf (w_conn w) <> Some []) -> wops_ok w ops ->
  (w_acc (wrun w ops) ++ unsent (w_conn (wrun w ops)) = w_com (wrun w ops) /\ c_rbuf (w_conn (wrun w ops)) <> Some [])).

Theorem C06_initial : forall c, c_rq c = [] -> c_rbuf c = None -> WInv (mkW c [] []).
Proof. exact WInv_new. Qed.

(* without a discard: bytes accepted so far ++ bytes still unsent = the concatenation of the
   serialised responses in enqueue order (so the accepted bytes are a prefix of it: nothing lost,
   duplicated or reordered) *)
Theorem C06_prefix : forall ops w, WInv w -> wops_ok w ops -> Forall no_discard ops ->
  w_acc (wrun w ops) ++ unsent (w_conn (wrun w ops)) = w_com w ++ flat_map serialize (enqueued ops).
Proof. exact wrun_prefix. Qed.

Theorem C06_pending_iff : forall c, c_rbuf c <> Some [] -> (pending_write c = true <-> unsent c <> []).
Proof. exact pending_iff. Qed.

Theorem C06_failure : forall c ev c' res off,
  unsent c <> [] -> c_rbuf c <> Some [] -> (ev = WWrote 0 \/ ev = WFail) -> try_write c ev = (c', res, off) ->
  res = WrErr ConnectionClosed /\ unsent c' = [] /\ pending_write c' = false.
Proof. exact try_write_failure. Qed.

Theorem C06_interrupted : forall c c' res off,
  try_write c WIntr = (c', res, off) -> unsent c <> [] -> res = WrOk /\ unsent c' = unsent c.
Proof. exact try_write_interrupted. Qed.

Theorem C06_invalid_write : forall c ev, unsent c = [] -> c_rbuf c <> Some [] ->
  try_write c ev = (c, WrErr InvalidWrite, None).
Proof. exact try_write_invalid. Qed.

(* at most one write call per try_write; none exactly when InvalidWrite is reported *)
Theorem C06_one_write : forall c ev c' res off,
  try_write c ev = (c', res, off) -> (off = None <-> res = WrErr InvalidWrite).
Proof. exact try_write_offer. Qed.

Theorem C06_no_panic : forall c ev, wop_ok c (WTry ev) -> forall s, snd (fst (try_write c ev)) <> WrPanic s.
Proof. exact try_write_no_panic. Qed.

(* non-vacuity: a history with a short write, an interrupt and a completed response *)
Example C06_ex :
  let r := apply_op (response_new Http11 OK) (SetBody (B"hello")) in
  let ops := [WEnq r; WTry (WWrote 10); WTry WIntr; WEnq r; WTry (WWrote 112)] in
  let w0 := mkW conn_new [] [] in
  wops_ok w0 ops /\ Forall no_discard ops /\ length (w_acc (wrun w0 ops)) = length (serialize r).
Proof. vm_compute. split; [repeat split; lia|]. split; [repeat constructor|reflexivity]. Qed.

Print Assumptions C06_conservation.
Print Assumptions C06_initial.
Print Assumptions C06_prefix.
Print Assumptions C06_pending_iff.
Print Assumptions C06_failure.
Print Assumptions C06_interrupted.
Print Assumptions C06_invalid_write.
Print Assumptions C06_one_write.
Print Assumptions C06_no_panic.
