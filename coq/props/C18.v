(* C18 -- shutdown request always wins: polling reports it and never blocks. *)
From MH Require Import proofs.Server_proofs proofs.RunInv_proofs.

(* once signalled, the kill switch's event is in every batch (K4: at most MAX_CONNECTIONS + 2
   descriptors are registered and the events array has that size; K6: the eventfd stays readable):
   the poll is enabled ... *)
Theorem C18_enabled : forall w, w_killed w = true -> In EvKill (ready_events w).
Proof. exact kill_wakes. Qed.

(* ... and whatever is handled before the kill event, in whatever order, in every world
   satisfying the invariant (idle, partial requests, unsent output, unanswered requests, at
   capacity with a client waiting), the poll reports the shutdown (the u32 overflow of an
   in-flight counter is the only other possibility) *)
Theorem C18_wins : forall BUF, (2 <= BUF)%nat -> N.of_nat BUF < U32_LIMIT ->
  forall es w toks acc, Inv BUF w toks -> Forall (evt_ok w) es -> NoDup (map ev_key es) -> In EvKill es ->
  handle_all BUF w es acc = inr EShutdown \/ handle_all BUF w es acc = inr EOverflow.
Proof. exact poll_kill. Qed.

(* the canonical batch of the executable model puts the kill event first *)
Theorem C18_poll_reports_shutdown : forall BUF w, w_killed w = true -> poll BUF w = Server.PErr EShutdown.
Proof. intros BUF w H. unfold poll, ready_events. rewrite H. reflexivity. Qed.

(* before it is signalled its event never occurs, so its presence changes nothing *)
Theorem C18_inert : forall w, w_killed w = false -> ~ In EvKill (ready_events w).
Proof. exact kill_inert. Qed.
Theorem C18_events_preserve_flag : forall BUF w e w' ys,
  handle_event BUF w e = inl (w', ys) -> w_killed w' = w_killed w.
Proof. intros BUF w e w' ys H. apply (handle_frame BUF w e w' ys H). Qed.

(* over executed histories: once the switch is signalled, whatever clients and application do afterwards
   (any list of operations of the interpreter the correspondence run executes), every poll reports the
   shutdown -- in the canonical event order, without any hypothesis on the state *)
Theorem C18_executed_kill_is_forever : forall BUF ops id i hk w,
  w_killed w = true -> poll BUF (fst (run_srv_ops BUF id i hk w ops)) = Server.PErr EShutdown.
Proof. exact executed_kill_is_forever. Qed.

(* second clause, over executed histories: a history in which the switch is never signalled runs identically --
   same worlds, same observations -- with and without a kill switch registered *)
Theorem C18_kill_switch_inert : forall BUF ops id i w,
  Forall (fun op => decode_sop op <> SKill) ops ->
  run_srv_ops BUF id i true w ops = run_srv_ops BUF id i false w ops.
Proof. exact kill_switch_inert. Qed.

Print Assumptions C18_enabled.
Print Assumptions C18_wins.
Print Assumptions C18_poll_reports_shutdown.
Print Assumptions C18_inert.
Print Assumptions C18_events_preserve_flag.
Print Assumptions C18_executed_kill_is_forever.
Print Assumptions C18_kill_switch_inert.
