(* C05 -- serialised responses are well-formed and self-delimiting (Content-Length = body). *)
From MH Require Import proofs.Response_proofs.
From Coq Require Import ZArith.

(* the bytes written, spelled out: VERSION SP CODE SP CRLF, then the header lines each followed by
   CRLF, a blank line, the body *)
Theorem C05_shape : forall r,
  serialize r =
  raw_version (rs_version r) ++ [SP] ++ raw_status (rs_status r) ++ [SP] ++ CRLF
  ++ with_crlf (header_lines r) ++ CRLF
  ++ match rs_body r with Some b => b | None => [] end.
Proof. exact serialize_shape. Qed.

(* header_lines: Server, Connection: keep-alive, optional Allow and Deprecation, then -- only when
   a length is present -- Content-Type, Content-Length and optional Accept-Encoding *)
Check ((fun r => eq_refl) : forall r, header_lines r =
  [raw_header HServer ++ [COLON; SP] ++ rs_server r; B"Connection: keep-alive"]
  ++ (match rs_allow r with [] => [] | ms => [B"Allow: " ++ join_methods ms] end)
  ++ (if rs_deprecation r then [B"Deprecation: true"] else [])
  ++ match rs_content_length r with
     | Some n =>
       [raw_header HContentType ++ [COLON; SP] ++ media_str (rs_content_type r);
        raw_header HContentLength ++ [COLON; SP] ++ decZ n]
       ++ (if rs_accept_encoding r then [raw_header HAcceptEncoding ++ [COLON; SP] ++ B"identity"] else [])
     | None => []
     end).

(* for EVERY version, status and program over the seven builder calls: Content-Length is
   present iff the status is not 100/204 or a body was set; its value is the length of the last
   body set, else 0 *)
Theorem C05_length_rule : forall v s prog, Forall no_explicit_length prog ->
  let r := build v s prog in
  rs_body r = last_body prog None /\
  rs_content_length r =
    match last_body prog None with
    | Some b => Some (as_i32 (lenN b))
    | None => match s with Continue | NoContent => None | _ => Some 0%Z end
    end.
Proof. exact length_rule. Qed.

Theorem C05_built_responses_framed : forall v s prog,
  Forall no_explicit_length prog ->
  (forall b, last_body prog None = Some b -> lenN b < 2147483648) ->
  lf_free (last_server prog DEFAULT_SERVER) ->
  framing_ok (build v s prog).
Proof. exact build_framing_ok. Qed.

(* an independent reader (model/Reader.v: status line, header lines to the blank line,
   Content-Length bytes) recovers status line, headers and body of one response followed by
   ANY bytes, and of any concatenation of responses, whatever the bodies contain *)
Theorem C05_roundtrip_one : forall r t, framing_ok r -> read_response (serialize r ++ t) = Some (view r, t).
Proof. exact read_serialize. Qed.

Theorem C05_roundtrip : forall rs fuel, Forall framing_ok rs -> (length rs < fuel)%nat ->
  read_responses fuel (flat_map serialize rs) = Some (map view rs).
Proof. exact read_concat. Qed.

(* the same bytes reach the sink however it splits the writes (k >= 1 bytes or EINTR per call) *)
Theorem C05_sink_independent : forall script data acc acc' script',
  write_all script data acc = Some (acc', script') -> acc' = acc ++ data.
Proof. exact write_all_spec. Qed.

(* decimal rendering used for Content-Length is exact *)
Theorem C05_decimal : forall n, dec n <> [] /\ Forall digit_ok (dec n) /\ digits_value 0 (dec n) = Some n.
Proof. exact dec_spec. Qed.

(* non-vacuity and the necessity of the hypothesis on the server string (DESIGN S1) *)
Example C05_ex_roundtrip :
  let r1 := build Http11 OK [SetBody (B"a" ++ CRLF ++ CRLF ++ B"HTTP/1.1 200 "); SetDeprecation] in
  let r2 := build Http10 NoContent [AllowMethod Get; AllowMethod Put] in
  framing_ok r1 /\ framing_ok r2 /\
  read_responses 3 (serialize r1 ++ serialize r2) = Some [view r1; view r2].
Proof.
  cbn zeta. split; [|split].
  - apply build_framing_ok; [repeat constructor| |vm_compute; intuition discriminate].
    intros b H. vm_compute in H. inversion H. vm_compute. reflexivity.
  - apply build_framing_ok; [repeat constructor| |vm_compute; intuition discriminate].
    intros b H. vm_compute in H. discriminate.
  - vm_compute. reflexivity.
Qed.
Example C05_server_crlf_breaks_framing :
  let r := build Http11 OK [SetServer (B"x" ++ CRLF ++ CRLF ++ B"junk")] in
  read_response (serialize r) <> Some (view r, []).
Proof. vm_compute. discriminate. Qed.

Print Assumptions C05_shape.
Print Assumptions C05_length_rule.
Print Assumptions C05_built_responses_framed.
Print Assumptions C05_roundtrip_one.
Print Assumptions C05_roundtrip.
Print Assumptions C05_sink_independent.
Print Assumptions C05_decimal.
