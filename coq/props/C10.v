(* C10 -- at most 10 connections; excess get 503 and close; dead connections are reaped. *)
From MH Require Import proofs.Server_proofs proofs.RunInv_proofs.

Theorem C10_cap : forall BUF w toks, Inv BUF w toks -> (length (w_conns w) <= MAX_CONNECTIONS)%nat.
Proof. intros BUF w toks H. apply (inv_cap BUF w toks H). Qed.
Check (eq_refl : MAX_CONNECTIONS = 10%nat).

(* a listener event refuses iff the table is full; then no entry changes, the refused client
   receives exactly the fixed message (if it can still receive) and the server's end is closed;
   otherwise a new entry is added with the limit configured at that moment *)
Theorem C10_refuse_iff : forall BUF w nf c rest,
  w_backlog w = c :: rest ->
  exists w', handle_event BUF w (EvListener nf) = inl (w', []) /\ w_backlog w' = rest /\
    if Nat.eqb (length (w_conns w)) MAX_CONNECTIONS
    then w_conns w' = w_conns w /\
         (exists cl', alookup c (w_clients w') = alookup c (aupdate c cl' (w_clients w)) /\ k_place cl' = Gone /\
            k_rx cl' = if k_can_receive (client_of w c) then k_rx (client_of w c) ++ SERVER_FULL_ERROR_MESSAGE
                       else k_rx (client_of w c))
    else exists x, w_conns w' = w_conns w ++ [(nf, x)] /\ sc_st x = AwaitIn /\ sc_infl x = 0 /\
                   c_pmax (sc_conn x) = w_limit w /\ sc_client x = c.
Proof. exact refuse_iff. Qed.

(* the fixed message: 503, Connection: close, Content-Length: 40 and a 40-byte body *)
Example C10_message_shape :
  exists body, SERVER_FULL_ERROR_MESSAGE = B"HTTP/1.1 503" ++ CRLF ++ B"Server: Firecracker API" ++ CRLF
     ++ B"Connection: close" ++ CRLF ++ B"Content-Length: 40" ++ CRLF ++ CRLF ++ body /\ length body = 40%nat.
Proof. eexists. split; [reflexivity|]. vm_compute. reflexivity. Qed.

(* descriptor accounting: the descriptors the server holds for clients are exactly the keys of the
   table (distinct), and an entry leaves the table exactly when it is done; then its client sees
   the server's end closed (sweep marks it Gone) *)
Theorem C10_distinct_descriptors : forall BUF w toks, Inv BUF w toks -> NoDup (map fst (w_conns w)).
Proof. intros BUF w toks H. apply (inv_nodup BUF w toks H). Qed.
Theorem C10_reaped : forall w fd x, alookup fd (w_conns (sweep w)) = Some x -> is_done x = false.
Proof. exact sweep_no_done. Qed.
Check ((fun w => eq_refl) : forall w, w_conns (sweep w) = filter (fun p => negb (is_done (snd p))) (w_conns w)).

(* the limit applied to a connection is the one configured when it was accepted: no server
   function other than the accept writes payload_max_size (respond, flush, sweep and the event
   handlers go through functions that preserve c_pmax -- part of the C01 refinement's Post) *)

(* a hang-up makes the entry Closed with nothing pending: it is done as soon as nothing is in flight *)
Check ((fun BUF w g => eq_refl) : forall BUF w g, handle_event BUF w (EvHup g) =
  match alookup g (w_conns w) with
  | None => inr EPanic
  | Some x => inl (set_conn w g (mkSC (clear_write_buffer (sc_conn x)) SClosed (sc_infl x) (sc_client x) (sc_out x) (sc_gid x)), [])
  end).

(* over executed histories (any list of operations of the interpreter the correspondence run executes):
   never more than 10 entries, all under distinct descriptor numbers *)
Theorem C10_executed_capacity : forall BUF, (2 <= BUF)%nat -> N.of_nat BUF < U32_LIMIT -> forall ops id hk,
  (length (w_conns (fst (run_srv_ops BUF id 0 hk world0 ops))) <= MAX_CONNECTIONS)%nat /\
  NoDup (map fst (w_conns (fst (run_srv_ops BUF id 0 hk world0 ops)))).
Proof. exact executed_capacity. Qed.
Check (eq_refl : MAX_CONNECTIONS = 10%nat).

Print Assumptions C10_cap.
Print Assumptions C10_refuse_iff.
Print Assumptions C10_distinct_descriptors.
Print Assumptions C10_reaped.
Print Assumptions C10_executed_capacity.
