(* C08 -- well-behaved clients: each request yielded once and answered; no stall, no spin. *)
From MH Require Import proofs.Server_proofs proofs.Impl_proofs.

(* the interest invariant, between API calls, for every connection: what the server believes
   (state), what the connection holds (pending output) and what epoll was told (interest) agree *)
Theorem C08_interest_inv : forall BUF w toks fd x, Inv BUF w toks -> alookup fd (w_conns w) = Some x ->
  match sc_st x with
  | AwaitIn => sc_out x = false /\ pending_write (sc_conn x) = false
  | AwaitOut => sc_out x = true /\ pending_write (sc_conn x) = true
  | SClosed => pending_write (sc_conn x) = false
  end.
Proof. intros BUF w toks fd x H HL. destruct (inv_cc BUF w toks H fd x HL) as [Hst _]. exact Hst. Qed.

(* polling, responding and flushing keep it, for every client behaviour and event order; polling
   and responding never fail (C09_poll_total, C09_respond_keeps_inv) *)
Theorem C08_poll_keeps_inv : forall BUF, (2 <= BUF)%nat -> N.of_nat BUF < U32_LIMIT ->
  forall w toks es, Inv BUF w toks -> Forall (evt_ok w) es -> NoDup (map ev_key es) ->
  ~ In KKill (map ev_key es) -> es <> [] ->
  (exists w' ys, poll_with BUF w es = PYield w' ys /\ Inv BUF w' (ytoks ys ++ toks))
  \/ poll_with BUF w es = Server.PErr EOverflow.
Proof. exact poll_total. Qed.
Theorem C08_respond_never_fails : forall BUF, (2 <= BUF)%nat -> N.of_nat BUF < U32_LIMIT ->
  forall w t1 t2 fd g r, Inv BUF w (t1 ++ (fd, g) :: t2) ->
  exists w' x, respond w fd r = inl w' /\ Inv BUF w' (t1 ++ t2) /\
    alookup fd (w_conns w) = Some x /\ sc_gid x = g /\
    (forall fd', fd' <> fd -> alookup fd' (w_conns w') = alookup fd' (w_conns w)) /\
    w_clients w' = w_clients w.
Proof. exact respond_ok. Qed.
Theorem C08_flush_keeps_inv : forall BUF, (2 <= BUF)%nat -> N.of_nat BUF < U32_LIMIT ->
  forall w toks, Inv BUF w toks -> Inv BUF (flush w) toks.
Proof. exact flush_inv. Qed.

(* no lost wake-up: unread client bytes on a connection awaiting input, unsent output, a
   hang-up, or a waiting client each make the poll enabled *)
Theorem C08_no_lost_wakeup : forall BUF w toks fd x, Inv BUF w toks -> In (fd, x) (w_conns w) ->
  (k_hup (client_of w (sc_client x)) = true \/ sc_st x = AwaitOut \/
   (sc_st x = AwaitIn /\ k_tosrv (client_of w (sc_client x)) <> [])) ->
  ready_events w <> [].
Proof. exact no_lost_wakeup. Qed.
Theorem C08_backlog_wakes : forall w, w_backlog w <> [] -> ready_events w <> [].
Proof. exact backlog_wakes. Qed.

(* no spin: once no client input, no unsent output and no waiting client remains -- requests may
   still be unanswered -- nothing is ready and the epoll descriptor stops signalling *)
Theorem C08_no_spin : forall BUF w toks, Inv BUF w toks -> w_killed w = false -> w_backlog w = [] ->
  (forall fd x, In (fd, x) (w_conns w) -> quiet_conn w x) -> ready_events w = [].
Proof. exact no_spin. Qed.
Check ((fun w x => eq_refl) : forall w x, quiet_conn w x =
  (sc_st x = AwaitIn /\ k_hup (client_of w (sc_client x)) = false /\ k_tosrv (client_of w (sc_client x)) = [])).

(* exactly once: what a connection yields over any sequence of reads is what the whole-stream
   parser delivers on the bytes read so far, whatever read sizes the kernel chose (C01); the server
   passes every parsed request on exactly once (pop_all drains the queue in order) *)
Theorem C08_exactly_once : forall BUF, (2 <= BUF)%nat -> N.of_nat BUF < U32_LIMIT ->
  forall pm evs, evs_ok BUF (new_conn pm) evs ->
  observe (reads BUF (new_conn pm) evs) = spec_observe (parse_stream BUF pm (concat (chunks evs))).
Proof. exact reads_whole_stream. Qed.

(* PARTIAL.  Not proved: the progress measure (every poll on a non-empty ready set strictly
   decreases unread bytes + unsent bytes + ..., hence finitely many polls deliver everything) and
   the end-to-end delivery statement.  Per-event progress holds by construction (a read event
   consumes n >= 1 bytes, a write event moves the whole staged buffer or closes the connection, a
   listener event removes one client from the backlog).  The correspondence run on real sockets
   checks delivery in full and quiescence (two consecutive blocked polls) on every history. *)

Print Assumptions C08_interest_inv.
Print Assumptions C08_poll_keeps_inv.
Print Assumptions C08_respond_never_fails.
Print Assumptions C08_flush_keeps_inv.
Print Assumptions C08_no_lost_wakeup.
Print Assumptions C08_backlog_wakes.
Print Assumptions C08_no_spin.
Print Assumptions C08_exactly_once.
