(* C08 -- well-behaved clients: each request yielded once and answered; no stall, no spin. *)
From MH Require Import proofs.Server_proofs proofs.Impl_proofs proofs.Progress_proofs proofs.ServerRead_proofs proofs.Flush_proofs proofs.CalmHistory_proofs proofs.ServerYield_proofs.

(* the interest invariant, between API calls, for every connection: what the server believes
   (state), what the connection holds (pending output) and what epoll was told (interest) agree *)
Theorem C08_interest_inv : forall BUF w toks fd x, Inv BUF w toks -> alookup fd (w_conns w) = Some x ->
  match sc_st x with
  | AwaitIn => sc_out x = false /\ pending_write (sc_conn x) = false
  | AwaitOut => sc_out x = true /\ pending_write (sc_conn x) = true
  | SClosed => pending_write (sc_conn x) = false
  end.
Proof. intros BUF w toks fd x H HL. destruct (inv_cc BUF w toks H fd x HL) as [Hst _]. exact Hst. Qed.

(* polling, responding and flushing keep it, for every client behaviour and event order; polling
   and responding never fail (C09_poll_total, C09_respond_keeps_inv) *)
Theorem C08_poll_keeps_inv : forall BUF, (2 <= BUF)%nat -> N.of_nat BUF < U32_LIMIT ->
  forall w toks es, Inv BUF w toks -> Forall (evt_ok w) es -> NoDup (map ev_key es) ->
  ~ In KKill (map ev_key es) -> es <> [] ->
  (exists w' ys, poll_with BUF w es = PYield w' ys /\ Inv BUF w' (ytoks ys ++ toks))
  \/ poll_with BUF w es = Server.PErr EOverflow.
Proof. exact poll_total. Qed.
Theorem C08_respond_never_fails : forall BUF, (2 <= BUF)%nat -> N.of_nat BUF < U32_LIMIT ->
  forall w t1 t2 fd g r, Inv BUF w (t1 ++ (fd, g) :: t2) ->
  exists w' x, respond w fd r = inl w' /\ Inv BUF w' (t1 ++ t2) /\
    alookup fd (w_conns w) = Some x /\ sc_gid x = g /\
    (forall fd', fd' <> fd -> alookup fd' (w_conns w') = alookup fd' (w_conns w)) /\
    w_clients w' = w_clients w.
Proof. exact respond_ok. Qed.
Theorem C08_flush_keeps_inv : forall BUF, (2 <= BUF)%nat -> N.of_nat BUF < U32_LIMIT ->
  forall w toks, Inv BUF w toks -> Inv BUF (flush w) toks.
Proof. exact flush_inv. Qed.

(* no lost wake-up: unread client bytes on a connection awaiting input, unsent output, a
   hang-up, or a waiting client each make the poll enabled *)
Theorem C08_no_lost_wakeup : forall BUF w toks fd x, Inv BUF w toks -> In (fd, x) (w_conns w) ->
  (k_hup (client_of w (sc_client x)) = true \/ sc_st x = AwaitOut \/
   (sc_st x = AwaitIn /\ k_tosrv (client_of w (sc_client x)) <> [])) ->
  ready_events w <> [].
Proof. exact no_lost_wakeup. Qed.
Theorem C08_backlog_wakes : forall w, w_backlog w <> [] -> ready_events w <> [].
Proof. exact backlog_wakes. Qed.

(* no spin: once no client input, no unsent output and no waiting client remains -- requests may
   still be unanswered -- nothing is ready and the epoll descriptor stops signalling *)
Theorem C08_no_spin : forall BUF w toks, Inv BUF w toks -> w_killed w = false -> w_backlog w = [] ->
  (forall fd x, In (fd, x) (w_conns w) -> quiet_conn w x) -> ready_events w = [].
Proof. exact no_spin. Qed.
Check ((fun w x => eq_refl) : forall w x, quiet_conn w x =
  (sc_st x = AwaitIn /\ k_hup (client_of w (sc_client x)) = false /\ k_tosrv (client_of w (sc_client x)) = [])).

(* exactly once: what a connection yields over any sequence of reads is what the whole-stream
   parser delivers on the bytes read so far, whatever read sizes the kernel chose (C01); the server
   passes every parsed request on exactly once (pop_all drains the queue in order) *)
Theorem C08_exactly_once : forall BUF, (2 <= BUF)%nat -> N.of_nat BUF < U32_LIMIT ->
  forall pm evs, evs_ok BUF (new_conn pm) evs ->
  observe (reads BUF (new_conn pm) evs) = spec_observe (parse_stream BUF pm (concat (chunks evs))).
Proof. exact reads_whole_stream. Qed.

(* ---- progress, for clients that keep their connections open ("calm" worlds) ----
   Calm w: no kill signal; every client open, neither direction shut down; no connection Closed; the
   staged write buffer never Some []; connections have distinct, existing clients; waiting clients
   are distinct, exist and are not connected.  evt_live: readiness is truthful (K2): an IN event
   names a connection with IN interest whose client has unread bytes, an OUT event a connection with
   OUT interest, a listener event an unused descriptor while a client waits.
   meas w = (unread client bytes + waiting clients, unsent output bytes), ordered lexicographically. *)
Theorem C08_poll_progress : forall BUF, (2 <= BUF)%nat -> N.of_nat BUF < U32_LIMIT ->
  forall w toks es w' ys, Inv BUF w toks -> Calm w -> Forall (evt_live w) es -> NoDup (map ev_key es) ->
  poll_with BUF w es = PYield w' ys ->
  Calm w' /\ Inv BUF w' (ytoks ys ++ toks) /\ lexlt (meas w') (meas w).
Proof. exact poll_progress. Qed.
Check ((fun w => eq_refl) : forall w, meas w =
  ((asum (fun cl => length (k_tosrv cl)) (w_clients w) + length (w_backlog w))%nat,
   asum (fun x => length (unsent (sc_conn x))) (w_conns w))).
Check ((fun a b => eq_refl) : forall a b, lexlt a b = ((fst a < fst b)%nat \/ (fst a = fst b /\ (snd a < snd b)%nat))).
Check ((fun w e => eq_refl) : forall w e, evt_live w e =
  match e with
  | EvIn fd _ => exists x, alookup fd (w_conns w) = Some x /\ sc_out x = false /\ k_tosrv (client_of w (sc_client x)) <> []
  | EvOut fd _ => exists x, alookup fd (w_conns w) = Some x /\ sc_out x = true
  | EvListener nf => alookup nf (w_conns w) = None /\ w_backlog w <> []
  | EvHup _ | EvKill => False
  end).
Theorem C08_measure_well_founded : well_founded lexlt.
Proof. exact lexlt_wf. Qed.
(* hence no infinite polling: every chain of polls, each with an arbitrary truthful batch in an
   arbitrary order, is finite *)
Theorem C08_no_infinite_polling : forall BUF, (2 <= BUF)%nat -> N.of_nat BUF < U32_LIMIT ->
  forall w, Acc (poll_step BUF) w.
Proof. exact no_infinite_polling. Qed.
Check ((fun BUF w' w => eq_refl) : forall BUF w' w, poll_step BUF w' w =
  exists toks es ys, Inv BUF w toks /\ Calm w /\ Forall (evt_live w) es /\ NoDup (map ev_key es) /\
                     poll_with BUF w es = PYield w' ys).
(* the model's own readiness computation is truthful in a calm world *)
Theorem C08_ready_events_truthful : forall BUF, (2 <= BUF)%nat -> N.of_nat BUF < U32_LIMIT ->
  forall w toks, Inv BUF w toks -> Calm w -> Forall (evt_live w) (ready_events w).
Proof. exact ready_events_live. Qed.
(* and when the epoll descriptor stops signalling nothing is left: no waiting client, no unread
   input, no unsent output, every connection awaiting input *)
Theorem C08_blocked_means_done : forall BUF w toks, Inv BUF w toks -> Calm w -> ready_events w = [] ->
  w_backlog w = [] /\
  forall fd x, alookup fd (w_conns w) = Some x ->
    sc_st x = AwaitIn /\ unsent (sc_conn x) = [] /\ k_tosrv (client_of w (sc_client x)) = [].
Proof. exact blocked_means_done. Qed.
(* the executable driver (poll while ready) reaches quiescence with enough fuel; the only other
   outcome is the u32 overflow of an in-flight counter; every connection's wire is conserved *)
Theorem C08_drive_terminates : forall BUF, (2 <= BUF)%nat -> N.of_nat BUF < U32_LIMIT ->
  forall w toks acc, Inv BUF w toks -> Calm w ->
  exists n, match drive BUF n w acc with
            | DQuiet w' ys' => ready_events w' = [] /\ Calm w' /\ (exists toks', Inv BUF w' toks') /\ conserved w w' /\
                               exists ys, ys' = acc ++ ys
            | DOverflow => True
            | DFuel => False
            end.
Proof. exact drive_delivers. Qed.
(* conservation: over a poll every connection persists and its wire (bytes its client has received
   and not yet read ++ the connection's unsent output) is only extended, by responses the server
   generated for that client's own input (100 Continue, 400) *)
Theorem C08_poll_conserves : forall BUF, (2 <= BUF)%nat -> N.of_nat BUF < U32_LIMIT ->
  forall w toks es w' ys, Inv BUF w toks -> Calm w -> Forall (evt_live w) es -> NoDup (map ev_key es) ->
  poll_with BUF w es = PYield w' ys -> conserved w w'.
Proof. exact poll_conserves. Qed.
Check ((fun w w' => eq_refl) : forall w w', conserved w w' =
  forall fd x, alookup fd (w_conns w) = Some x ->
    exists x' gen, alookup fd (w_conns w') = Some x' /\ sc_client x' = sc_client x /\
                   wire w' x' = wire w x ++ flat_map serialize gen /\ Forall server_generated gen).
Check ((fun w x => eq_refl) : forall w x, wire w x = k_rx (client_of w (sc_client x)) ++ unsent (sc_conn x)).
Check ((fun r => eq_refl) : forall r, server_generated r =
  ((exists v, r = response_new v Continue) \/ (exists e, r = bad_request_response e))).
(* end to end: the application answers a request it holds; polling while the epoll descriptor
   signals terminates, and then the client of that connection has been sent the whole response,
   after everything sent before and followed only by server-generated replies to its later input *)
Theorem C08_response_delivered : forall BUF, (2 <= BUF)%nat -> N.of_nat BUF < U32_LIMIT ->
  forall w t1 t2 fd g r w1,
  Inv BUF w (t1 ++ (fd, g) :: t2) -> Calm w -> respond w fd r = inl w1 ->
  exists n, match drive BUF n w1 [] with
            | DQuiet w2 _ =>
                ready_events w2 = [] /\
                exists x x2 gen, alookup fd (w_conns w) = Some x /\ sc_gid x = g /\
                  alookup fd (w_conns w2) = Some x2 /\ sc_client x2 = sc_client x /\ unsent (sc_conn x2) = [] /\
                  k_rx (client_of w2 (sc_client x)) = wire w x ++ serialize r ++ flat_map serialize gen /\
                  Forall server_generated gen
            | DOverflow => True
            | DFuel => False
            end.
Proof. exact response_delivered. Qed.
(* flushing: in a calm world flush_outgoing_writes writes everything that is queued -- every
   connection's unsent output ends in its own client's receive queue (its wire is unchanged), every
   connection is left awaiting input with IN interest -- without any polling *)
Theorem C08_flush_delivers_all : forall BUF, (2 <= BUF)%nat -> N.of_nat BUF < U32_LIMIT ->
  forall w toks, Inv BUF w toks -> Calm w ->
  Calm (flush w) /\ Inv BUF (flush w) toks /\
  forall fd x, alookup fd (w_conns w) = Some x ->
    exists y, alookup fd (w_conns (flush w)) = Some y /\ sc_client y = sc_client x /\
      unsent (sc_conn y) = [] /\ sc_st y = AwaitIn /\ sc_out y = false /\ wire (flush w) y = wire w x.
Proof. exact flush_delivers_all. Qed.
(* calm worlds are what well-behaved histories reach: from the empty server, any sequence of connects
   of fresh clients, sends, client reads, polls (truthful batches in any order), responses for held
   tokens and flushes keeps the world calm and the invariant true -- the theorems above apply at every
   point of every such history *)
Theorem C08_calm_histories : forall BUF, (2 <= BUF)%nat -> N.of_nat BUF < U32_LIMIT ->
  forall s, calm_reach BUF s -> Calm (fst s) /\ Inv BUF (fst s) (snd s).
Proof. exact calm_invariant. Qed.
Check (CR0 : forall BUF, calm_reach BUF (world0, [])).
Check (CRS : forall BUF s s', calm_reach BUF s -> calm_step BUF s s' -> calm_reach BUF s').
Check (CPoll : forall BUF w toks es w' ys, Forall (evt_live w) es -> NoDup (map ev_key es) -> poll_with BUF w es = PYield w' ys ->
    calm_step BUF (w, toks) (w', ytoks ys ++ toks)).
Check (CRespond : forall BUF w t1 t2 fd g r w', respond w fd r = inl w' -> calm_step BUF (w, t1 ++ (fd, g) :: t2) (w', t1 ++ t2)).
Check (CFlush : forall BUF w toks, calm_step BUF (w, toks) (flush w, toks)).
Check (CConnect : forall BUF w toks c, alookup c (w_clients w) = None -> calm_step BUF (w, toks) (connect_world w c, toks)).
Check (CSend : forall BUF w toks c cl bs, alookup c (w_clients w) = Some cl ->
    calm_step BUF (w, toks) (set_client w c (cl_set_tosrv cl (k_tosrv cl ++ bs)), toks)).
Check (CRead : forall BUF w toks c cl, alookup c (w_clients w) = Some cl ->
    calm_step BUF (w, toks) (set_client w c (mkCl (k_open cl) (k_shut_wr cl) (k_shut_rd cl) (k_tosrv cl) [] (k_place cl)), toks)).
(* partial writes are covered: an OUT event EvOut fd k lets the kernel accept as few as one byte of what is
   offered (k = 0: everything); every theorem above quantifies over all k, so responses larger than the
   socket buffer -- written piecemeal over many polls -- are within the theorems.  (What is still assumed:
   whenever a connection's interest is OUT the kernel eventually reports it writable, i.e. the client reads.) *)
Check ((fun BUF w g k => eq_refl) : forall BUF w g k, handle_event BUF w (EvOut g k) =
  match alookup g (w_conns w) with
  | None => inr EPanic
  | Some x =>
      let cl := client_of w (sc_client x) in
      match cc_write x (k_can_receive cl) k with
      | inr err => inr err
      | inl (y, sent) =>
          let y' := match sc_st y with
                    | AwaitIn => mkSC (sc_conn y) (sc_st y) (sc_infl y) (sc_client y) false (sc_gid y)
                    | _ => y
                    end in
          let cl' := mkCl (k_open cl) (k_shut_wr cl) (k_shut_rd cl) (k_tosrv cl) (k_rx cl ++ sent) (k_place cl) in
          inl (set_client (set_conn w g y') (sc_client x) cl', [])
      end
  end).
Example C08_one_byte_write :
  match respond wC 1 (response_new Http11 NoContent) with
  | inl w1 =>
      match handle_event 1024 w1 (EvOut 1 1) with
      | inl (w2, _) =>
          length (k_rx (client_of w2 0)) = 1%nat /\
          match alookup 1%nat (w_conns w2), alookup 1%nat (w_conns w1) with
          | Some y, Some x => sc_st y = AwaitOut /\ sc_out y = true /\
                              length (unsent (sc_conn y)) = (length (unsent (sc_conn x)) - 1)%nat /\
                              (2 <= length (unsent (sc_conn x)))%nat
          | _, _ => False
          end
      | _ => False
      end
  | _ => False
  end.
Proof. exact one_byte_write_example. Qed.
(* exactly once, per poll: wherever the IN event of a connection stands in the batch, the yields of that poll
   under that connection's descriptor are exactly the requests the specification parser completes on
   carry ++ the bytes read, in order, tagged with the connection's instance; no other event of the batch
   yields anything under that descriptor; nothing is yielded when the bytes are rejected *)
Theorem C08_poll_yields_exactly_once : forall BUF, (2 <= BUF)%nat -> N.of_nat BUF < U32_LIMIT ->
  forall pre post w toks w' ys fd kk x ph,
  Inv BUF w toks -> Calm w ->
  Forall (evt_live w) (pre ++ EvIn fd kk :: post) -> NoDup (map ev_key (pre ++ EvIn fd kk :: post)) ->
  handle_all BUF w (pre ++ EvIn fd kk :: post) [] = inl (w', ys) ->
  alookup fd (w_conns w) = Some x -> CInv BUF (sc_conn x) ph ->
  let c := sc_conn x in
  let t := k_tosrv (client_of w (sc_client x)) in
  let d := firstn (read_amount kk (BUF - length (c_win c)) (length t)) t in
  yields_of fd ys =
  match runT BUF (c_pmax c) ph (c_win c ++ d) [] with
  | RMore _ _ outs => map (fun r => (fd, sc_gid x, r)) (c_parsed c ++ reqs_of outs (c_files c))
  | _ => []
  end.
Proof. exact batch_yields_exact. Qed.
Check ((fun fd ys => eq_refl) : forall fd ys, yields_of fd ys = filter (fun y => Nat.eqb (fst (fst y)) fd) ys).
(* exactly once, across polls: a connection (between polls: nothing parsed and not yet yielded, no descriptors held)
   whose client has input pending that the whole-stream parser does not reject.  Polling while the epoll
   descriptor signals terminates, and the yields under that connection's descriptor -- whatever else was going
   on, however the input was cut into reads, however often the connection had to write first -- are exactly
   the requests the whole-stream parser delivers on carry ++ pending input, in order, once each, tagged with
   the connection's instance; all the input has been consumed and the parser is where the whole-stream
   parser stops *)
Theorem C08_requests_yielded_exactly_once : forall BUF, (2 <= BUF)%nat -> N.of_nat BUF < U32_LIMIT ->
  forall w toks acc fd x ph phF carryF outsF,
  Inv BUF w toks -> Calm w -> alookup fd (w_conns w) = Some x -> CInv BUF (sc_conn x) ph ->
  c_parsed (sc_conn x) = [] -> c_files (sc_conn x) = [] ->
  runT BUF (c_pmax (sc_conn x)) ph (c_win (sc_conn x) ++ k_tosrv (client_of w (sc_client x))) [] = RMore phF carryF outsF ->
  exists n, match drive BUF n w acc with
            | DQuiet w2 ys =>
                yields_of fd ys = yields_of fd acc ++ map (fun r => (fd, sc_gid x, r)) (reqs_of outsF []) /\
                exists x2, alookup fd (w_conns w2) = Some x2 /\ CInv BUF (sc_conn x2) phF /\ c_win (sc_conn x2) = carryF /\
                           sc_gid x2 = sc_gid x /\ k_tosrv (client_of w2 (sc_client x)) = []
            | DOverflow => True
            | DFuel => False
            end.
Proof. exact drive_yields_exact. Qed.
Example C08_two_requests_example :
  match poll 1024 wP with
  | PYield wQ _ =>
      match drive 1024 8 wQ [] with
      | DQuiet _ ys => map (fun y => rl_uri (r_line (snd y))) (yields_of 1 ys) = [B"/a"; B"/b"] /\ length ys = 2%nat
      | _ => False
      end
  | _ => False
  end.
Proof. exact two_requests_example. Qed.
(* non-vacuity: a calm world in which the application holds a token is reachable from a client
   waiting with a request (two polls), and the response can be supplied *)
Example C08_token_world_reachable :
  exists w, Inv 1024 w ([] ++ (1%nat, 0%nat) :: []) /\ Calm w /\ exists w1, respond w 1 (response_new Http11 NoContent) = inl w1.
Proof. exact token_world_reachable. Qed.
(* Limits: responses larger than the socket buffer (K3) and flush under EAGAIN are outside the kernel
   model; the theorems above are for calm worlds (the property's "clients keep their connections
   open"); the correspondence run on real sockets checks delivery and quiescence on every history. *)

(* through HttpServer::requests: one IN event does to the connection's parser state, its unsent
   output and the application's yield exactly what the whole-stream reference parser does on
   carry ++ the bytes read -- every complete request is yielded exactly once, with the descriptor
   and instance of the connection; on a parse error nothing is yielded and the 400 is queued *)
Theorem C08_server_read_is_spec : forall BUF, (2 <= BUF)%nat -> N.of_nat BUF < U32_LIMIT ->
  forall w toks fd kk w' ys x ph,
  Inv BUF w toks -> alookup fd (w_conns w) = Some x -> CInv BUF (sc_conn x) ph ->
  k_tosrv (client_of w (sc_client x)) <> [] ->
  handle_event BUF w (EvIn fd kk) = inl (w', ys) ->
  let c := sc_conn x in
  let t := k_tosrv (client_of w (sc_client x)) in
  let d := firstn (read_amount kk (BUF - length (c_win c)) (length t)) t in
  d <> [] /\
  exists y, alookup fd (w_conns w') = Some y /\ sc_gid y = sc_gid x /\ sc_client y = sc_client x /\
    k_tosrv (client_of w' (sc_client x)) = skipn (length d) t /\
  match runT BUF (c_pmax c) ph (c_win c ++ d) [] with
  | RMore ph' carry outs =>
      CInv BUF (sc_conn y) ph' /\ c_win (sc_conn y) = carry /\
      unsent (sc_conn y) = unsent c ++ flat_map serialize (conts_of outs) /\
      ys = map (fun r => (fd, sc_gid x, r)) (c_parsed c ++ reqs_of outs (c_files c)) /\
      c_parsed (sc_conn y) = [] /\ c_files (sc_conn y) = files_after outs (c_files c) /\ c_pmax (sc_conn y) = c_pmax c
  | RErr outs e =>
      CInv BUF (sc_conn y) PLine /\ c_win (sc_conn y) = [] /\
      unsent (sc_conn y) = unsent c ++ flat_map serialize (conts_of outs ++ [bad_request_response e]) /\
      ys = [] /\
      c_parsed (sc_conn y) = [] /\ c_files (sc_conn y) = [] /\ c_pmax (sc_conn y) = c_pmax c
  | ROutOfFuel => False
  end.
Proof. exact server_read_exact. Qed.

Print Assumptions C08_interest_inv.
Print Assumptions C08_poll_keeps_inv.
Print Assumptions C08_respond_never_fails.
Print Assumptions C08_flush_keeps_inv.
Print Assumptions C08_no_lost_wakeup.
Print Assumptions C08_backlog_wakes.
Print Assumptions C08_no_spin.
Print Assumptions C08_exactly_once.
Print Assumptions C08_poll_progress.
Print Assumptions C08_measure_well_founded.
Print Assumptions C08_no_infinite_polling.
Print Assumptions C08_ready_events_truthful.
Print Assumptions C08_blocked_means_done.
Print Assumptions C08_drive_terminates.
Print Assumptions C08_poll_conserves.
Print Assumptions C08_response_delivered.
Print Assumptions C08_server_read_is_spec.
Print Assumptions C08_flush_delivers_all.
Print Assumptions C08_calm_histories.
Print Assumptions C08_poll_yields_exactly_once.
Print Assumptions C08_requests_yielded_exactly_once.
