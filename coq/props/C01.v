(* C01 -- delivered requests depend only on the byte stream, not on how reads split it. *)
From MH Require Import proofs.Impl_proofs.

(* The buffer size is a parameter: every theorem holds for every BUF with 2 <= BUF < 2^32
   (tie/TieLimits.v instantiates it with the BUFFER_SIZE found in the source). *)

(* specification level: cutting a stream into chunks in any way gives what the whole-stream
   parser gives (requests, interim responses, first error) *)
Theorem C01_spec_schedule_independent : forall BUF L chunks1 chunks2, (0 < BUF)%nat ->
  concat chunks1 = concat chunks2 ->
  feed BUF L PLine [] [] chunks1 = feed BUF L PLine [] [] chunks2.
Proof. exact feed_schedule_independent. Qed.

Theorem C01_spec_whole_stream : forall BUF L chunks, (0 < BUF)%nat ->
  feed BUF L PLine [] [] chunks = parse_stream BUF L (concat chunks).
Proof. exact feed_whole_stream. Qed.

(* batch = incremental, for any split of any window, from any phase *)
Theorem C01_spec_split : forall BUF L ph a b acc,
  runT BUF L ph (a ++ b) acc =
  match runT BUF L ph a acc with
  | RMore ph' c o => runT BUF L ph' (c ++ b) o
  | RErr o e => RErr o e
  | ROutOfFuel => ROutOfFuel
  end.
Proof. exact runT_app'. Qed.

(* implementation model: every sequence of read results allowed by recvmsg's contract (at most
   `room` bytes per read; EAGAIN/EINTR/EOF anywhere) delivers exactly what the whole-stream
   parser delivers on the concatenation of the data -- requests with all fields and bodies,
   queued interim responses, and the first parse error *)
Theorem C01_equals_whole_stream : forall BUF, (2 <= BUF)%nat -> N.of_nat BUF < U32_LIMIT ->
  forall pm evs, evs_ok BUF (new_conn pm) evs ->
  observe (reads BUF (new_conn pm) evs) = spec_observe (parse_stream BUF pm (concat (chunks evs))).
Proof. exact reads_whole_stream. Qed.

Theorem C01_schedule_independent : forall BUF, (2 <= BUF)%nat -> N.of_nat BUF < U32_LIMIT ->
  forall pm evs1 evs2, evs_ok BUF (new_conn pm) evs1 -> evs_ok BUF (new_conn pm) evs2 ->
  concat (chunks evs1) = concat (chunks evs2) ->
  observe (reads BUF (new_conn pm) evs1) = observe (reads BUF (new_conn pm) evs2).
Proof. exact reads_schedule_independent. Qed.

(* from any reachable state (invariant CInv), one read of a chunk = the specification run on
   carry ++ chunk *)
Theorem C01_one_read : forall BUF, (2 <= BUF)%nat -> N.of_nat BUF < U32_LIMIT ->
  forall c ph bs fds, CInv BUF c ph -> bs <> [] -> (length (c_win c) + length bs <= BUF)%nat ->
  match runT BUF (c_pmax c) ph (c_win c ++ bs) [] with
  | RMore ph' carry outs =>
      exists c', try_read BUF c (RData bs fds) = (c', RdOk, true) /\ CInv BUF c' ph' /\ c_win c' = carry
                 /\ Post (add_files c fds) c' outs
  | RErr outs e =>
      exists c1, try_read BUF c (RData bs fds) = (reset_parser c1, RdErr (ParseError e), true)
                 /\ Post (add_files c fds) c1 outs
  | ROutOfFuel => False
  end.
Proof. exact try_read_data. Qed.

(* a read that returns no data (would-block, interrupted) changes nothing *)
Theorem C01_empty_reads : forall BUF, (2 <= BUF)%nat -> N.of_nat BUF < U32_LIMIT ->
  forall c ph errno, CInv BUF c ph -> try_read BUF c (RFail errno) = (c, RdErr (StreamReadError errno), true).
Proof. exact try_read_fail. Qed.

(* non-vacuity: a pipelined stream cut inside CR|LF and inside the body, with an EAGAIN between *)
Example C01_ex :
  let s := B"PUT /a HTTP/1.1" ++ CRLF ++ B"Content-Length: 3" ++ CRLF ++ CRLF ++ B"xyzGET / HTTP/1.0" ++ CRLF ++ CRLF in
  let evs := [RData (firstn 16 s) []; RFail 11; RData (firstn 24 (skipn 16 s)) [7%nat]; RData (skipn 40 s) []] in
  evs_ok 1024 (new_conn 51200) evs /\ concat (chunks evs) = s /\
  length (fst (fst (observe (reads 1024 (new_conn 51200) evs)))) = 2%nat.
Proof. vm_compute. repeat split; lia. Qed.

Print Assumptions C01_spec_schedule_independent.
Print Assumptions C01_spec_whole_stream.
Print Assumptions C01_spec_split.
Print Assumptions C01_equals_whole_stream.
Print Assumptions C01_schedule_independent.
Print Assumptions C01_one_read.
Print Assumptions C01_empty_reads.
