(* C15 -- header rules: case-insensitive names, trimmed values, tolerant vs fatal faults. *)
From MH Require Import proofs.Headers_proofs proofs.Trim_proofs proofs.Padding_proofs.

(* names are matched case-insensitively: any two names equal up to ASCII letter case are
   classified identically (UTF-8 validity is invariant under ASCII lower-casing); the seven
   recognised names are recognised *)
Theorem C15_name_case_insensitive : forall k1 k2, ascii_lower k1 = ascii_lower k2 -> header_try_from k1 = header_try_from k2.
Proof. exact name_case_insensitive. Qed.
Theorem C15_recognised_names : forall x, header_try_from (raw_header x) = Some x.
Proof. exact recognised_names. Qed.
(* ... and white space around the name is ignored: the class depends only on trim (lower name) *)
Check ((fun bs => eq_refl) : forall bs, header_try_from bs =
  if utf8_valid bs then
    let k := trim (ascii_lower bs) in
    if beq k (B"content-length") then Some HContentLength else if beq k (B"content-type") then Some HContentType
    else if beq k (B"expect") then Some HExpect else if beq k (B"transfer-encoding") then Some HTransferEncoding
    else if beq k (B"server") then Some HServer else if beq k (B"accept") then Some HAccept
    else if beq k (B"accept-encoding") then Some HAcceptEncoding else None
  else None).

(* ---- fatal faults ---- *)
Theorem C15_invalid_utf8_fatal : forall h line,
  utf8_valid line = false -> parse_header_line h line = Err (HeaderError (InvalidUtf8String line)).
Proof. exact invalid_utf8_fatal. Qed.
Theorem C15_no_colon_fatal : forall h line, utf8_valid line = true ->
  (~ In COLON line <-> parse_header_line h line = Err (HeaderError (InvalidFormat line))).
Proof. exact no_colon_fatal. Qed.
Theorem C15_content_length : forall h k v, utf8_valid (k ++ COLON :: v) = true -> ~ In COLON k ->
  header_try_from k = Some HContentLength ->
  parse_header_line h (k ++ COLON :: v) =
    match parse_u32 (trim v) with
    | Some n => Ok (set_content_length h n)
    | None => Err (HeaderError (InvalidValue k v))
    end.
Proof. exact content_length_rule. Qed.
(* "unsigned 32-bit decimal" is Rust's u32::from_str: optional '+', at least one digit, < 2^32 *)
Theorem C15_u32 : forall s n,
  parse_u32 s = Some n <->
  exists ds, (s = ds \/ s = 43 :: ds) /\ ds <> [] /\ hd 0 ds <> 43 /\ digits_value 0 ds = Some n /\ n < U32_LIMIT
             \/ (s = 43 :: ds /\ ds <> [] /\ digits_value 0 ds = Some n /\ n < U32_LIMIT).
Proof. exact parse_u32_rule. Qed.
Theorem C15_accept_encoding : forall v, v <> [] -> utf8_valid v = true ->
  encoding_try_from v =
  match first_bad v (split_on COMMA v) with
  | Some p => Err (HeaderError (InvalidValue (B"Accept-Encoding") p))
  | None => Ok tt
  end.
Proof. exact accept_encoding_rule. Qed.
Check ((fun whole p r => eq_refl) : forall whole p r, first_bad whole (p :: r) =
    if beq (trim p) (B"identity;q=0") || (beq (trim p) (B"*;q=0") && negb (containsb (B"identity") whole))
    then Some p else first_bad whole r).
Theorem C15_accept_encoding_empty : encoding_try_from [] = Err InvalidRequest.
Proof. exact accept_encoding_empty. Qed.

(* ---- tolerated faults: an unsupported value of Content-Type, Accept, Transfer-Encoding or
   Expect does not reject the request and leaves the headers unchanged ---- *)
Theorem C15_unsupported_value_ignored : forall h k v x,
  utf8_valid (k ++ COLON :: v) = true -> ~ In COLON k -> header_try_from k = Some x -> tolerated_header x = true ->
  (exists h', parse_header_line h (k ++ COLON :: v) = Ok h') \/
  (parse_header_line h (k ++ COLON :: v) = Err (HeaderError (UnsupportedValue k v)) /\
   parse_header_tolerant h (k ++ COLON :: v) = Ok h).
Proof. exact unsupported_value_ignored. Qed.

(* ---- what each recognised line does (values are trimmed) ---- *)
Theorem C15_expect : forall h k v, utf8_valid (k ++ COLON :: v) = true -> ~ In COLON k ->
  header_try_from k = Some HExpect ->
  parse_header_tolerant h (k ++ COLON :: v) = Ok (if beq (trim v) (B"100-continue") then set_expect h else h).
Proof. exact expect_rule. Qed.
Theorem C15_transfer_encoding : forall h k v, utf8_valid (k ++ COLON :: v) = true -> ~ In COLON k ->
  header_try_from k = Some HTransferEncoding ->
  parse_header_tolerant h (k ++ COLON :: v) = Ok (if beq (trim v) (B"chunked") then set_chunked h else h).
Proof. exact transfer_encoding_rule. Qed.
Theorem C15_accept : forall h k v, utf8_valid (k ++ COLON :: v) = true -> ~ In COLON k ->
  header_try_from k = Some HAccept ->
  parse_header_tolerant h (k ++ COLON :: v) = Ok (match parse_media (trim v) with Some t => set_accept h t | None => h end).
Proof. exact accept_rule. Qed.
Theorem C15_content_type : forall h k v, utf8_valid (k ++ COLON :: v) = true -> ~ In COLON k ->
  header_try_from k = Some HContentType -> parse_header_tolerant h (k ++ COLON :: v) = Ok h.
Proof. exact content_type_rule. Qed.
Theorem C15_server : forall h k v, utf8_valid (k ++ COLON :: v) = true -> ~ In COLON k ->
  header_try_from k = Some HServer -> parse_header_tolerant h (k ++ COLON :: v) = Ok h.
Proof. exact server_rule. Qed.

(* ---- every other field is kept as a custom entry with trimmed name and value; the last
   occurrence wins; other entries are untouched; names are compared byte for byte ---- *)
Theorem C15_custom : forall h k v, utf8_valid (k ++ COLON :: v) = true -> ~ In COLON k ->
  header_try_from k = None -> parse_header_line h (k ++ COLON :: v) = Ok (insert_custom h (trim k) (trim v)).
Proof. exact custom_rule. Qed.
Theorem C15_custom_last_wins : forall k v l, custom_get k (custom_insert k v l) = Some v.
Proof. exact custom_get_insert_same. Qed.
Theorem C15_custom_frame : forall k k2 v l, k2 <> k -> custom_get k2 (custom_insert k v l) = custom_get k2 l.
Proof. exact custom_get_insert_other. Qed.

(* ---- fold laws over a block ---- *)
Theorem C15_flags_sticky : forall lines h h', headers_fold h lines = Ok h' ->
  (h_expect h = true -> h_expect h' = true) /\ (h_chunked h = true -> h_chunked h' = true).
Proof. exact fold_flags_sticky. Qed.
(* Content-Length and Accept are overwritten by each acceptable occurrence: set_content_length /
   set_accept replace the field (C15_content_length, C15_accept), so the last one wins *)
Check ((fun h n => eq_refl) : forall h n, h_content_length (set_content_length h n) = n).
Check ((fun h t => eq_refl) : forall h t, h_accept (set_accept h t) = t).
(* parsing a header block = folding the line rule over its CRLF-separated lines up to the first
   empty line (on valid UTF-8; otherwise InvalidRequest) *)
Theorem C15_block_is_lines : forall b,
  headers_try_from b = if utf8_valid b then headers_fold headers_default (split_crlf b) else Err InvalidRequest.
Proof. exact block_is_lines. Qed.
Check ((fun h x l r => eq_refl) : forall h x l r, headers_fold h ((x :: l) :: r) =
  match parse_header_tolerant h (x :: l) with Ok h' => headers_fold h' r | Err e => Err e end).

(* white space around names and values is ignored: str::trim strips any padding made of white-space
   characters (ASCII and the non-ASCII White_Space code points, in UTF-8) on both sides, for every
   byte string x *)
Theorem C15_trim_padding : forall p x q, ws_string p -> ws_string q -> trim (p ++ x ++ q) = trim x.
Proof. exact trim_padding. Qed.
Check ((fun p => eq_refl) : forall p, ws_string p = exists cs, Forall ws_char cs /\ p = concat cs).
Check (ws_c1 : forall a, is_ascii_ws a = true -> ws_char [a]).
Check (ws_c2 : forall a b, ws2 a b = true -> ws_char [a; b]).
Check (ws_c3 : forall a b c, ws3 a b c = true -> ws_char [a; b; c]).
Theorem C15_name_padding : forall p k q, ws_string p -> ws_string q -> utf8_valid k = true ->
  header_try_from (p ++ k ++ q) = header_try_from k.
Proof. exact header_name_padding. Qed.
(* a padded header line is treated exactly as the plain one -- same resulting Headers, same
   rejection -- the only difference being that the InvalidValue error of a bad Content-Length quotes
   the padded name and value *)
Theorem C15_padding_ignored : forall h p k q p' v q',
  ws_string p -> ws_string q -> ws_string p' -> ws_string q' ->
  utf8_valid k = true -> utf8_valid v = true -> ~ In COLON k ->
  parse_header_tolerant h ((p ++ k ++ q) ++ COLON :: (p' ++ v ++ q')) = parse_header_tolerant h (k ++ COLON :: v) \/
  (parse_header_tolerant h ((p ++ k ++ q) ++ COLON :: (p' ++ v ++ q'))
     = Err (HeaderError (InvalidValue (p ++ k ++ q) (p' ++ v ++ q'))) /\
   parse_header_tolerant h (k ++ COLON :: v) = Err (HeaderError (InvalidValue k v))).
Proof. exact padding_ignored. Qed.
Theorem C15_padding_ok : forall h p k q p' v q' h',
  ws_string p -> ws_string q -> ws_string p' -> ws_string q' ->
  utf8_valid k = true -> utf8_valid v = true -> ~ In COLON k ->
  (parse_header_tolerant h ((p ++ k ++ q) ++ COLON :: (p' ++ v ++ q')) = Ok h' <->
   parse_header_tolerant h (k ++ COLON :: v) = Ok h').
Proof. exact padding_ok. Qed.
Example C15_ws_example : ws_string [32; 9; 194; 160; 226; 128; 131; 227; 128; 128].
Proof. exact ws_example. Qed.

Example C15_ex :
  headers_try_from (B"content-LENGTH : +007 " ++ CRLF ++ B"Expect:100-continue" ++ CRLF ++ B"expect: nope" ++ CRLF
                    ++ B"X-A: 1" ++ CRLF ++ B"X-A:2" ++ CRLF ++ B"Accept-Encoding: gzip, *;q=0, identity")
  = Ok (mkHeaders 7 true false PlainText [(B"X-A", B"2")]).
Proof. vm_compute. reflexivity. Qed.

Print Assumptions C15_name_case_insensitive.
Print Assumptions C15_recognised_names.
Print Assumptions C15_invalid_utf8_fatal.
Print Assumptions C15_no_colon_fatal.
Print Assumptions C15_content_length.
Print Assumptions C15_u32.
Print Assumptions C15_accept_encoding.
Print Assumptions C15_accept_encoding_empty.
Print Assumptions C15_unsupported_value_ignored.
Print Assumptions C15_expect.
Print Assumptions C15_transfer_encoding.
Print Assumptions C15_accept.
Print Assumptions C15_content_type.
Print Assumptions C15_server.
Print Assumptions C15_custom.
Print Assumptions C15_custom_last_wins.
Print Assumptions C15_custom_frame.
Print Assumptions C15_flags_sticky.
Print Assumptions C15_block_is_lines.
Print Assumptions C15_trim_padding.
Print Assumptions C15_name_padding.
Print Assumptions C15_padding_ignored.
Print Assumptions C15_padding_ok.
