(* C14 -- one-shot request parsing agrees with the incremental connection parser.  PARTIAL. *)
From MH Require Import proofs.Total_proofs proofs.Grammar_proofs.

(* the one-shot parser additionally rejects slices whose length reaches the caller's maximum *)
Theorem C14_maxlen : forall bs n,
  request_try_from bs (Some n) = if n <=? lenN bs then OErr InvalidRequest else request_try_from bs None.
Proof. exact request_try_from_maxlen. Qed.

(* it never reaches a panic site (five slices, two subtractions) *)
Theorem C14_total : forall bs max s, request_try_from bs max <> OPanic s.
Proof. exact request_try_from_total. Qed.

(* both parsers use the same request-line function and the same header-line rule: the one-shot
   parser's Headers::try_from is the fold of parse_header_tolerant over the CRLF-separated lines *)
Theorem C14_same_header_rule : forall b,
  headers_try_from b = if utf8_valid b then headers_fold headers_default (split_crlf b) else Err InvalidRequest.
Proof. exact block_is_lines. Qed.

(* what the connection does with a well-formed slice (the reference for the comparison) *)
Theorem C14_conn_reference : forall BUF, (2 <= BUF)%nat -> forall L rlb rl hs hd body rest acc,
  parse_reqline rlb = Ok rl -> line_ok BUF rlb ->
  Forall (fun l => l <> [] /\ line_ok BUF l) hs -> fold_lines headers_default hs = Ok hd ->
  h_content_length hd <= L -> lenN body = h_content_length hd ->
  runT BUF L PLine (rlb ++ CRLF ++ Grammar_proofs.with_crlf hs ++ CRLF ++ body ++ rest) acc =
  runT BUF L PLine rest (acc ++ interim rl hd ++ [ORequest rl hd (delivered_body hd body)]).
Proof. exact wellformed_delivered. Qed.

(* PARTIAL.  The two implications of the property (one-shot accepts => the connection's first
   request is equal; the connection delivers exactly one request with nothing left over => the
   one-shot parser accepts, except GET with a body) are NOT proved as Coq theorems: they need the
   equivalence between "first CRLFCRLF at or after the request line's CRLF" + split("\r\n") and the
   connection's line-by-line scan, which was not completed.  They are decided on every run by
   executing both entry points of the implementation (and both models) on the same slices and
   comparing field by field -- the oracle is the property itself. *)

Example C14_ex_agree :
  let bs := B"PUT /x HTTP/1.1" ++ CRLF ++ B"Content-Length: 2" ++ CRLF ++ B"X-A: b" ++ CRLF ++ CRLF ++ B"ab" in
  match request_try_from bs None, parse_stream 1024 51200 bs with
  | OOk rl h body, RMore PLine [] [ORequest rl' h' body'] => rl = rl' /\ h = h' /\ body = body'
  | _, _ => False
  end.
Proof. vm_compute. auto. Qed.
Example C14_ex_get_with_body :
  let bs := B"GET /x HTTP/1.1" ++ CRLF ++ B"Content-Length: 2" ++ CRLF ++ CRLF ++ B"ab" in
  request_try_from bs None = OErr InvalidRequest /\
  match parse_stream 1024 51200 bs with RMore PLine [] [ORequest _ _ (Some b)] => b = B"ab" | _ => False end.
Proof. vm_compute. auto. Qed.

Print Assumptions C14_maxlen.
Print Assumptions C14_total.
Print Assumptions C14_same_header_rule.
Print Assumptions C14_conn_reference.
