(* C14 -- one-shot request parsing agrees with the incremental connection parser. *)
From MH Require Import proofs.Total_proofs proofs.Grammar_proofs proofs.Oneshot_proofs proofs.Oneshot_conv.

(* the one-shot parser additionally rejects slices whose length reaches the caller's maximum *)
Theorem C14_maxlen : forall bs n,
  request_try_from bs (Some n) = if n <=? lenN bs then OErr InvalidRequest else request_try_from bs None.
Proof. exact request_try_from_maxlen. Qed.

(* it never reaches a panic site (five slices, two subtractions) *)
Theorem C14_total : forall bs max s, request_try_from bs max <> OPanic s.
Proof. exact request_try_from_total. Qed.

(* both parsers use the same request-line function and the same header-line rule: the one-shot
   parser's Headers::try_from is the fold of parse_header_tolerant over the CRLF-separated lines *)
Theorem C14_same_header_rule : forall b,
  headers_try_from b = if utf8_valid b then headers_fold headers_default (split_crlf b) else Err InvalidRequest.
Proof. exact block_is_lines. Qed.

(* what the connection does with a well-formed slice (the reference for the comparison) *)
Theorem C14_conn_reference : forall BUF, (2 <= BUF)%nat -> forall L rlb rl hs hd body rest acc,
  parse_reqline rlb = Ok rl -> line_ok BUF rlb ->
  Forall (fun l => l <> [] /\ line_ok BUF l) hs -> fold_lines headers_default hs = Ok hd ->
  h_content_length hd <= L -> lenN body = h_content_length hd ->
  runT BUF L PLine (rlb ++ CRLF ++ Grammar_proofs.with_crlf hs ++ CRLF ++ body ++ rest) acc =
  runT BUF L PLine rest (acc ++ interim rl hd ++ [ORequest rl hd (delivered_body hd body)]).
Proof. exact wellformed_delivered. Qed.

(* whenever the one-shot parser accepts a slice, a connection fed the same bytes -- lines within
   the line limit, declared length within the payload limit -- delivers as its FIRST request one with
   identical method, URI, version, header values, custom headers and body (trailing bytes, where the
   one-shot parser ignores them, included) *)
Theorem C14_oneshot_implies_conn : forall BUF, (2 <= BUF)%nat -> forall L bs rl h body,
  request_try_from bs None = OOk rl h body -> within_line_limit BUF bs -> h_content_length h <= L ->
  first_req (outs_of (parse_stream BUF L bs)) = Some (rl, h, body).
Proof. exact oneshot_implies_conn. Qed.
(* within_line_limit: the request line and every CRLF-separated piece of the header block, as the
   one-shot parser cuts them, fit the connection's line limit with their CRLF *)
Check ((fun BUF bs => eq_refl) : forall BUF bs, within_line_limit BUF bs =
  (forall rlb block, oneshot_parts bs = Some (rlb, block) ->
    (length rlb + 2 <= BUF)%nat /\ Forall (fun l => (length l + 2 <= BUF)%nat) (split_crlf block))).

(* str::split("\r\n") characterised: the pieces joined by CRLF give back the block and no piece
   contains a CRLF *)
Theorem C14_split_crlf : forall l,
  split_crlf l <> [] /\ join_crlf (split_crlf l) = l /\ Forall (fun x => find_crlf x = None) (split_crlf l).
Proof. exact split_crlf_spec. Qed.

(* conversely: whenever the connection parser turns a slice into exactly one request with nothing
   left over (the slice IS one well-formed encoding, cf. C02_accept_iff), the one-shot parser accepts
   it with the same result -- except GET requests that declare a body, which only it rejects *)
Theorem C14_conn_implies_oneshot : forall BUF, (2 <= BUF)%nat -> forall L bs rl hd b,
  exactly_one BUF L bs rl hd b ->
  request_try_from bs None =
    if negb (h_content_length hd =? 0) && method_eqb (rl_method rl) Get then OErr InvalidRequest
    else OOk rl hd b.
Proof. exact conn_implies_oneshot. Qed.
Check ((fun BUF L bs rl hd b => eq_refl) : forall BUF L bs rl hd b, exactly_one BUF L bs rl hd b =
  (exists rlb hs body,
    bs = rlb ++ CRLF ++ Grammar_proofs.with_crlf hs ++ CRLF ++ body /\
    parse_reqline rlb = Ok rl /\ line_ok BUF rlb /\
    Forall (fun l => l <> [] /\ line_ok BUF l) hs /\ fold_lines headers_default hs = Ok hd /\
    h_content_length hd <= L /\ lenN body = h_content_length hd /\ b = delivered_body hd body)).
(* the connection delivers exactly that request for such a slice, and nothing is left *)
Theorem C14_exactly_one_is_delivered : forall BUF, (2 <= BUF)%nat -> forall L rlb rl hs hd body,
  parse_reqline rlb = Ok rl -> line_ok BUF rlb ->
  Forall (fun l => l <> [] /\ line_ok BUF l) hs -> fold_lines headers_default hs = Ok hd ->
  h_content_length hd <= L -> lenN body = h_content_length hd ->
  parse_stream BUF L (rlb ++ CRLF ++ Grammar_proofs.with_crlf hs ++ CRLF ++ body ++ []) =
  runT BUF L PLine [] ([] ++ interim rl hd ++ [ORequest rl hd (delivered_body hd body)]).
Proof. intros BUF HB L rlb rl hs hd body. apply (wellformed_delivered BUF HB L rlb rl hs hd body [] []). Qed.

(* ingredients: UTF-8 validity of a block from its lines, split("\r\n") of a join, the position of
   the first CRLFCRLF *)
Theorem C14_split_of_join : forall hs, hs <> [] -> Forall (fun l => find_crlf (l ++ [CR]) = None) hs ->
  split_crlf (join_crlf hs) = hs.
Proof. exact split_join. Qed.
Theorem C14_first_crlfcrlf : forall hs body, hs <> [] ->
  Forall (fun l => l <> [] /\ find_crlf (l ++ [CR]) = None) hs ->
  find CRLFCRLF (CRLF ++ join_crlf hs ++ CRLFCRLF ++ body) = Some (length (join_crlf hs) + 2)%nat.
Proof. exact cc_position. Qed.
Theorem C14_utf8_concat : forall a b, utf8_valid a = true -> utf8_valid (a ++ b) = utf8_valid b.
Proof. exact utf8_valid_concat. Qed.

Example C14_ex_agree :
  let bs := B"PUT /x HTTP/1.1" ++ CRLF ++ B"Content-Length: 2" ++ CRLF ++ B"X-A: b" ++ CRLF ++ CRLF ++ B"ab" in
  match request_try_from bs None, parse_stream 1024 51200 bs with
  | OOk rl h body, RMore PLine [] [ORequest rl' h' body'] => rl = rl' /\ h = h' /\ body = body'
  | _, _ => False
  end.
Proof. vm_compute. auto. Qed.
Example C14_ex_get_with_body :
  let bs := B"GET /x HTTP/1.1" ++ CRLF ++ B"Content-Length: 2" ++ CRLF ++ CRLF ++ B"ab" in
  request_try_from bs None = OErr InvalidRequest /\
  match parse_stream 1024 51200 bs with RMore PLine [] [ORequest _ _ (Some b)] => b = B"ab" | _ => False end.
Proof. vm_compute. auto. Qed.

Print Assumptions C14_maxlen.
Print Assumptions C14_total.
Print Assumptions C14_same_header_rule.
Print Assumptions C14_conn_reference.
Print Assumptions C14_oneshot_implies_conn.
Print Assumptions C14_split_crlf.
Print Assumptions C14_conn_implies_oneshot.
Print Assumptions C14_exactly_one_is_delivered.
Print Assumptions C14_split_of_join.
Print Assumptions C14_first_crlfcrlf.
Print Assumptions C14_utf8_concat.
