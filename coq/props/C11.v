(* C11 -- a rejected request is never delivered later; parsing restarts clean after errors. *)
From MH Require Import proofs.Impl_proofs proofs.ServerYield_proofs.

(* whenever try_read reports a parse error -- from ANY state, for ANY read result -- the parser
   fields (state, buffered bytes, pending request, body accumulator, remaining length, held
   descriptors) are those of a newly created connection with the same limit *)
Theorem C11_reset : forall BUF c ev c' e sys,
  try_read BUF c ev = (c', RdErr (ParseError e), sys) -> parser_view c' = parser_view (new_conn (c_pmax c')).
Proof. exact parse_error_resets. Qed.
Check (eq_refl : parser_view = fun c => (c_state c, c_win c, c_pending c, c_body_vec c, c_body_left c, c_files c)).

(* and everything read from then on is handled exactly as a new connection would handle it:
   same delivered requests, same queued interim responses, same first error *)
Theorem C11_as_fresh : forall BUF, (2 <= BUF)%nat -> N.of_nat BUF < U32_LIMIT ->
  forall c ev c' e sys evs,
  try_read BUF c ev = (c', RdErr (ParseError e), sys) ->
  evs_ok BUF c' evs -> evs_ok BUF (new_conn (c_pmax c')) evs ->
  exists outs,
    map core (c_parsed (fst (reads BUF c' evs))) = map core (c_parsed c') ++ outs /\
    map core (c_parsed (fst (reads BUF (new_conn (c_pmax c')) evs))) = outs /\
    (exists rq, c_rq (fst (reads BUF c' evs)) = c_rq c' ++ rq /\ c_rq (fst (reads BUF (new_conn (c_pmax c')) evs)) = rq) /\
    snd (reads BUF c' evs) = snd (reads BUF (new_conn (c_pmax c')) evs).
Proof. exact after_error_as_new. Qed.

(* non-vacuity, and the replay of the defect repaired by the fix: commit: the rejected /rej
   request is not delivered by the continuation *)
Example C11_ex :
  let c1 := fst (fst (try_read 1024 (new_conn 51200)
                 (RData (B"GET /rej HTTP/1.1" ++ CRLF ++ B"Content-Length: alpha" ++ CRLF) []))) in
  let r2 := reads 1024 c1 [RData (B"X-a: b" ++ CRLF ++ CRLF) []] in
  parser_view c1 = parser_view (new_conn 51200) /\ c_parsed (fst r2) = [] /\ snd r2 = Some InvalidRequest.
Proof. vm_compute. auto. Qed.
Example C11_ex_not_delivered :
  let c1 := fst (fst (try_read 1024 (new_conn 51200)
                 (RData (B"GET /rej HTTP/1.1" ++ CRLF ++ B"Content-Length: alpha" ++ CRLF) []))) in
  c_parsed (fst (reads 1024 c1 [RData (B"X-a: b" ++ CRLF ++ CRLF) []])) = [].
Proof. vm_compute. reflexivity. Qed.

(* at the server: a read whose bytes the parser rejects yields nothing -- the request answered with 400 is not
   yielded then, and cannot be yielded later, because the connection's parser is that of a new connection
   (waiting for a request line, empty window, nothing parsed, no descriptors held, same limit); the 400 is queued *)
Theorem C11_server_rejected_read : forall BUF, (2 <= BUF)%nat -> N.of_nat BUF < U32_LIMIT ->
  forall w toks fd kk w' ys x ph outs e,
  Inv BUF w toks -> alookup fd (w_conns w) = Some x -> CInv BUF (sc_conn x) ph ->
  k_tosrv (client_of w (sc_client x)) <> [] ->
  handle_event BUF w (EvIn fd kk) = inl (w', ys) ->
  let c := sc_conn x in
  let t := k_tosrv (client_of w (sc_client x)) in
  let d := firstn (read_amount kk (BUF - length (c_win c)) (length t)) t in
  runT BUF (c_pmax c) ph (c_win c ++ d) [] = RErr outs e ->
  ys = [] /\
  exists y, alookup fd (w_conns w') = Some y /\ sc_gid y = sc_gid x /\ sc_client y = sc_client x /\
    CInv BUF (sc_conn y) PLine /\ c_win (sc_conn y) = [] /\ c_parsed (sc_conn y) = [] /\ c_files (sc_conn y) = [] /\
    c_pmax (sc_conn y) = c_pmax c /\
    unsent (sc_conn y) = unsent c ++ flat_map serialize (conts_of outs ++ [bad_request_response e]).
Proof. exact server_rejected_read. Qed.
(* and one malformed request cannot make later well-formed requests fail: from that state, polling while ready
   yields exactly the requests the whole-stream parser, started afresh, delivers on the input that follows *)
Theorem C11_server_continues_as_new : forall BUF, (2 <= BUF)%nat -> N.of_nat BUF < U32_LIMIT ->
  forall w toks acc fd x phF carryF outsF,
  Inv BUF w toks -> Calm w -> alookup fd (w_conns w) = Some x ->
  CInv BUF (sc_conn x) PLine -> c_win (sc_conn x) = [] -> c_parsed (sc_conn x) = [] -> c_files (sc_conn x) = [] ->
  parse_stream BUF (c_pmax (sc_conn x)) (k_tosrv (client_of w (sc_client x))) = RMore phF carryF outsF ->
  exists n, match drive BUF n w acc with
            | DQuiet w2 ys =>
                yields_of fd ys = yields_of fd acc ++ map (fun r => (fd, sc_gid x, r)) (reqs_of outsF []) /\
                exists x2, alookup fd (w_conns w2) = Some x2 /\ CInv BUF (sc_conn x2) phF /\ c_win (sc_conn x2) = carryF /\
                           sc_gid x2 = sc_gid x /\ k_tosrv (client_of w2 (sc_client x)) = []
            | DOverflow => True
            | DFuel => False
            end.
Proof. exact server_continues_as_new. Qed.

Print Assumptions C11_reset.
Print Assumptions C11_as_fresh.
Print Assumptions C11_server_rejected_read.
Print Assumptions C11_server_continues_as_new.
