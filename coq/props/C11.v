(* C11 -- a rejected request is never delivered later; parsing restarts clean after errors. *)
From MH Require Import proofs.Impl_proofs.

(* whenever try_read reports a parse error -- from ANY state, for ANY read result -- the parser
   fields (state, buffered bytes, pending request, body accumulator, remaining length, held
   descriptors) are those of a newly created connection with the same limit *)
Theorem C11_reset : forall BUF c ev c' e sys,
  try_read BUF c ev = (c', RdErr (ParseError e), sys) -> parser_view c' = parser_view (new_conn (c_pmax c')).
Proof. exact parse_error_resets. Qed.
Check (eq_refl : parser_view = fun c => (c_state c, c_win c, c_pending c, c_body_vec c, c_body_left c, c_files c)).

(* and everything read from then on is handled exactly as a new connection would handle it:
   same delivered requests, same queued interim responses, same first error *)
Theorem C11_as_fresh : forall BUF, (2 <= BUF)%nat -> N.of_nat BUF < U32_LIMIT ->
  forall c ev c' e sys evs,
  try_read BUF c ev = (c', RdErr (ParseError e), sys) ->
  evs_ok BUF c' evs -> evs_ok BUF (new_conn (c_pmax c')) evs ->
  exists outs,
    map core (c_parsed (fst (reads BUF c' evs))) = map core (c_parsed c') ++ outs /\
    map core (c_parsed (fst (reads BUF (new_conn (c_pmax c')) evs))) = outs /\
    (exists rq, c_rq (fst (reads BUF c' evs)) = c_rq c' ++ rq /\ c_rq (fst (reads BUF (new_conn (c_pmax c')) evs)) = rq) /\
    snd (reads BUF c' evs) = snd (reads BUF (new_conn (c_pmax c')) evs).
Proof. exact after_error_as_new. Qed.

(* non-vacuity, and the replay of the defect repaired by the fix: commit: the rejected /rej
   request is not delivered by the continuation *)
Example C11_ex :
  let c1 := fst (fst (try_read 1024 (new_conn 51200)
                 (RData (B"GET /rej HTTP/1.1" ++ CRLF ++ B"Content-Length: alpha" ++ CRLF) []))) in
  let r2 := reads 1024 c1 [RData (B"X-a: b" ++ CRLF ++ CRLF) []] in
  parser_view c1 = parser_view (new_conn 51200) /\ c_parsed (fst r2) = [] /\ snd r2 = Some InvalidRequest.
Proof. vm_compute. auto. Qed.
Example C11_ex_not_delivered :
  let c1 := fst (fst (try_read 1024 (new_conn 51200)
                 (RData (B"GET /rej HTTP/1.1" ++ CRLF ++ B"Content-Length: alpha" ++ CRLF) []))) in
  c_parsed (fst (reads 1024 c1 [RData (B"X-a: b" ++ CRLF ++ CRLF) []])) = [].
Proof. vm_compute. reflexivity. Qed.

Print Assumptions C11_reset.
Print Assumptions C11_as_fresh.
