(* Extraction of the executable model for the correspondence check.
   Only ExtrOcamlBasic is used: bool, option, unit, list, prod, sumbool, sumor map to the
   OCaml types of the same name; nat, N, positive, Z stay the extracted inductive types. *)
From Coq Require Extraction ExtrOcamlBasic.
From MH Require Import run.Run.

Extraction Language OCaml.
Extraction "model.ml" run_case.
