(* Extraction of the executable model for the correspondence check.
   Only ExtrOcamlBasic is used: bool, option, unit, list, prod, sumbool, sumor map to the
   OCaml types of the same name; nat, N, positive, Z stay the extracted inductive types. *)
From Coq Require Extraction ExtrOcamlBasic.
From MH Require Import model.ConnSpec model.OneShot model.ConnImpl model.Router.

Extraction Language OCaml.

Definition m_dec := dec.
Definition m_utf8_valid := utf8_valid.
Definition m_trim := trim.

Extraction "model.ml"
  utf8_valid trim dec decZ containsb
  parse_method raw_method parse_version raw_version parse_media media_str raw_status all_status
  raw_header abs_path uri_try_from
  parse_header_line headers_try_from headers_default encoding_try_from parse_reqline
  request_try_from
  parse_stream feed runT step
  conn_new set_payload_max_size try_read try_write clear_write_buffer enqueue_response
  pending_write pop_parsed_request
  response_new apply_op build serialize write_all
  routes_new add_route handle_http_request.
