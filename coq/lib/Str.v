(* The Rust std string functions the crate relies on, defined on byte strings.
   They are only applied by the model where the Rust code applies them to a
   &str, i.e. to valid UTF-8. *)
From MH Require Export lib.Bytes lib.Utf8.

(* char::is_whitespace restricted to ASCII: U+0009..U+000D and U+0020 *)
Definition is_ascii_ws (b : N) : bool := in_range 9 13 b || (b =? 32).

(* the non-ASCII White_Space code points, as UTF-8:
   U+0085 C2 85, U+00A0 C2 A0, U+1680 E1 9A 80, U+2000..U+200A E2 80 80..8A,
   U+2028 E2 80 A8, U+2029 E2 80 A9, U+202F E2 80 AF, U+205F E2 81 9F, U+3000 E3 80 80 *)
Definition ws2 (a b : N) : bool := (a =? 194) && ((b =? 133) || (b =? 160)).
Definition ws3 (a b c : N) : bool :=
  ((a =? 225) && (b =? 154) && (c =? 128))
  || ((a =? 226) && (b =? 128) && (in_range 128 138 c || (c =? 168) || (c =? 169) || (c =? 175)))
  || ((a =? 226) && (b =? 129) && (c =? 159))
  || ((a =? 227) && (b =? 128) && (c =? 128)).

(* strip one leading white-space character *)
Definition strip_ws_prefix (l : bytes) : option bytes :=
  match l with
  | a :: r0 =>
    if is_ascii_ws a then Some r0 else
    match r0 with
    | b :: r1 =>
      if ws2 a b then Some r1 else
      match r1 with
      | c :: r2 => if ws3 a b c then Some r2 else None
      | [] => None
      end
    | [] => None
    end
  | [] => None
  end.

(* strip one trailing white-space character, on the REVERSED string *)
Definition strip_ws_suffix_rev (l : bytes) : option bytes :=
  match l with
  | c :: r0 =>
    if is_ascii_ws c then Some r0 else
    match r0 with
    | b :: r1 =>
      if ws2 b c then Some r1 else
      match r1 with
      | a :: r2 => if ws3 a b c then Some r2 else None
      | [] => None
      end
    | [] => None
    end
  | [] => None
  end.

Fixpoint iter_strip (strip : bytes -> option bytes) (fuel : nat) (l : bytes) : bytes :=
  match fuel with
  | O => l
  | S f => match strip l with Some r => iter_strip strip f r | None => l end
  end.

Definition trim_start (l : bytes) : bytes := iter_strip strip_ws_prefix (length l) l.
Definition trim_end (l : bytes) : bytes :=
  rev (iter_strip strip_ws_suffix_rev (length l) (rev l)).
(* str::trim *)
Definition trim (l : bytes) : bytes := trim_end (trim_start l).

(* str::make_ascii_lowercase *)
Definition lower_byte (b : N) : N := if in_range 65 90 b then b + 32 else b.
Definition ascii_lower (l : bytes) : bytes := map lower_byte l.

(* <u32 as FromStr>::from_str: optional '+', at least one ASCII digit, value < 2^32 *)
Definition is_digit (b : N) : bool := in_range 48 57 b.
Fixpoint digits_value (acc : N) (l : bytes) : option N :=
  match l with
  | [] => Some acc
  | d :: r => if is_digit d then digits_value (acc * 10 + (d - 48)) r else None
  end.
Definition U32_LIMIT : N := 4294967296.
Definition parse_u32 (s : bytes) : option N :=
  let ds := match s with
            | 43 :: r => r
            | _ => s
            end in
  match ds with
  | [] => None
  | _ => match digits_value 0 ds with
         | Some v => if v <? U32_LIMIT then Some v else None
         | None => None
         end
  end.

(* ASCII string literal -> bytes, for readable tables *)
From Coq Require Strings.String Strings.Ascii.
Export Coq.Strings.String.StringSyntax.
Delimit Scope string_scope with string.
Fixpoint bytes_of_string (s : String.string) : bytes :=
  match s with
  | String.EmptyString => []
  | String.String a r => Ascii.N_of_ascii a :: bytes_of_string r
  end.
Notation "'B' s" := (bytes_of_string s%string) (at level 1, s at level 0, only parsing).
