(* Byte strings: list N.  Definitions only (no proofs) so that the model keeps
   running when a proof breaks. *)
From Coq Require Export List NArith Bool Arith.
Export ListNotations.
Open Scope N_scope.

Notation byte := N (only parsing).
Notation bytes := (list N) (only parsing).

Definition CR : byte := 13.
Definition LF : byte := 10.
Definition SP : byte := 32.
Definition COLON : byte := 58.
Definition CRLF : bytes := [CR; LF].

Fixpoint beq (a b : bytes) : bool :=
  match a, b with
  | [], [] => true
  | x :: a', y :: b' => N.eqb x y && beq a' b'
  | _, _ => false
  end.

(* [prefixb p l]: p is a prefix of l *)
Fixpoint prefixb (p l : bytes) : bool :=
  match p, l with
  | [], _ => true
  | x :: p', y :: l' => N.eqb x y && prefixb p' l'
  | _ :: _, [] => false
  end.

(* Rust: bytes.windows(seq.len()).position(|w| w == seq), for non-empty seq *)
Fixpoint find (p w : bytes) : option nat :=
  match w with
  | [] => None
  | _ :: t => if prefixb p w then Some 0%nat else option_map S (find p t)
  end.

Definition find_crlf (w : bytes) : option nat := find CRLF w.

(* position of the first byte equal to c *)
Fixpoint position (c : byte) (w : bytes) : option nat :=
  match w with
  | [] => None
  | a :: t => if N.eqb a c then Some 0%nat else option_map S (position c t)
  end.

Definition containsb (p w : bytes) : bool :=
  match p with
  | [] => true
  | _ => match find p w with Some _ => true | None => false end
  end.

(* split at the first occurrence of c: (before, after) *)
Fixpoint split_at (c : byte) (w : bytes) : option (bytes * bytes) :=
  match w with
  | [] => None
  | a :: t => if N.eqb a c then Some ([], t)
              else match split_at c t with
                   | Some (x, y) => Some (a :: x, y)
                   | None => None
                   end
  end.

(* Rust str::split(c) for a single ASCII char: all pieces, never empty list *)
Fixpoint split_on (c : byte) (w : bytes) : list bytes :=
  match w with
  | [] => [[]]
  | a :: t => if N.eqb a c then [] :: split_on c t
              else match split_on c t with
                   | x :: r => (a :: x) :: r
                   | [] => [[a]]   (* unreachable: split_on never returns [] *)
                   end
  end.

Definition lenN (l : bytes) : N := N.of_nat (length l).

(* decimal rendering of a natural number (Rust Display for unsigned integers) *)
Fixpoint dec_fuel (fuel : nat) (n : N) (acc : bytes) : bytes :=
  match fuel with
  | O => acc
  | S f => if n <? 10 then (48 + n) :: acc
           else dec_fuel f (n / 10) ((48 + n mod 10) :: acc)
  end.
Definition dec (n : N) : bytes := dec_fuel (S (N.to_nat (N.log2 n))) n [].

(* decimal rendering of a signed integer (Rust Display for i32) *)
Definition decZ (z : Z) : bytes :=
  match z with
  | Z0 => dec 0
  | Zpos p => dec (Npos p)
  | Zneg p => 45 :: dec (Npos p)
  end.
