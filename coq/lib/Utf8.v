(* UTF-8 well-formedness exactly as Rust's str::from_utf8 accepts it
   (Unicode Standard, Table 3-7 "Well-Formed UTF-8 Byte Sequences"). *)
From MH Require Export lib.Bytes.

Definition in_range (lo hi b : N) : bool := (lo <=? b) && (b <=? hi).
Definition is_cont (b : N) : bool := in_range 128 191 b.

Fixpoint utf8_valid (l : bytes) : bool :=
  match l with
  | [] => true
  | b0 :: r0 =>
    if b0 <=? 127 then utf8_valid r0
    else if in_range 194 223 b0 then
      match r0 with
      | b1 :: r1 => is_cont b1 && utf8_valid r1
      | _ => false
      end
    else if in_range 224 239 b0 then
      match r0 with
      | b1 :: b2 :: r2 =>
          (if b0 =? 224 then in_range 160 191 b1
           else if b0 =? 237 then in_range 128 159 b1
           else is_cont b1) && is_cont b2 && utf8_valid r2
      | _ => false
      end
    else if in_range 240 244 b0 then
      match r0 with
      | b1 :: b2 :: b3 :: r3 =>
          (if b0 =? 240 then in_range 144 191 b1
           else if b0 =? 244 then in_range 128 143 b1
           else is_cont b1) && is_cont b2 && is_cont b3 && utf8_valid r3
      | _ => false
      end
    else false
  end.
