(* The case interpreter: runs the model on one generated case and renders the observation
   lines that the Rust harness prints for the implementation on the same case.  Executable
   definitions only; nothing here is used by a theorem except where a props file says so. *)
From MH Require Export model.ConnSpec model.OneShot model.ConnImpl model.Router model.Server.

Inductive arg := AN (n : N) | AB (b : bytes) | AL (l : list arg).

(* ---------- rendering ---------- *)
Definition hexd (n : N) : N := if n <? 10 then 48 + n else 87 + n.
Definition hex (bs : bytes) : bytes :=
  match bs with
  | [] => B"-"
  | _ => flat_map (fun b => [hexd (b / 16); hexd (b mod 16)]) bs
  end.
Definition decn (n : nat) : bytes := dec (N.of_nat n).
Definition bit (b : bool) : bytes := if b then B"1" else B"0".

Fixpoint join (sep : bytes) (l : list bytes) : bytes :=
  match l with
  | [] => []
  | [x] => x
  | x :: r => x ++ sep ++ join sep r
  end.

Definition s_method (m : method) : bytes :=
  match m with Get => B"Get" | Put => B"Put" | Patch => B"Patch" end.
Definition s_version (v : version) : bytes :=
  match v with Http10 => B"Http10" | Http11 => B"Http11" end.
Definition s_media (m : media) : bytes :=
  match m with PlainText => B"PlainText" | ApplicationJson => B"ApplicationJson" end.

(* lexicographic order on byte strings, for sorting the custom entries *)
Fixpoint bleb (a b : bytes) : bool :=
  match a, b with
  | [], _ => true
  | _ :: _, [] => false
  | x :: a', y :: b' => if x <? y then true else if y <? x then false else bleb a' b'
  end.
Fixpoint ins_sorted (p : bytes * bytes) (l : list (bytes * bytes)) : list (bytes * bytes) :=
  match l with
  | [] => [p]
  | q :: r => if bleb (fst p) (fst q) then p :: l else q :: ins_sorted p r
  end.
Definition sort_entries (l : list (bytes * bytes)) : list (bytes * bytes) :=
  fold_right ins_sorted [] l.

Definition s_headers (h : headers) : bytes :=
  B"cl=" ++ dec (h_content_length h) ++ B" ex=" ++ bit (h_expect h) ++ B" ch=" ++ bit (h_chunked h)
  ++ B" acc=" ++ s_media (h_accept h) ++ B" ce=["
  ++ join (B",") (map (fun p => hex (fst p) ++ B":" ++ hex (snd p)) (sort_entries (h_custom h)))
  ++ B"]".

Definition U_FFFD : bytes := [239; 191; 189].
Definition s_hdr_err (e : hdr_err) : bytes :=
  match e with
  | InvalidFormat k => B"InvalidFormat(" ++ hex k ++ B")"
  | InvalidUtf8String _ => B"InvalidUtf8String"
  | InvalidValue k v => B"InvalidValue(" ++ hex k ++ B"," ++ hex v ++ B")"
  | HSizeLimitExceeded raw =>
      if utf8_valid raw && negb (containsb U_FFFD raw)
      then B"SizeLimitExceeded(" ++ hex raw ++ B")" else B"SizeLimitExceeded(lossy)"
  | UnsupportedFeature k v => B"UnsupportedFeature(" ++ hex k ++ B"," ++ hex v ++ B")"
  | UnsupportedName k => B"UnsupportedName(" ++ hex k ++ B")"
  | UnsupportedValue k v => B"UnsupportedValue(" ++ hex k ++ B"," ++ hex v ++ B")"
  end.
Definition s_req_err (e : req_err) : bytes :=
  match e with
  | BodyWithoutPendingRequest => B"BodyWithoutPendingRequest"
  | HeaderError h => B"HeaderError(" ++ s_hdr_err h ++ B")"
  | HeadersWithoutPendingRequest => B"HeadersWithoutPendingRequest"
  | InvalidHttpMethod => B"InvalidHttpMethod"
  | InvalidHttpVersion => B"InvalidHttpVersion"
  | InvalidRequest => B"InvalidRequest"
  | InvalidUri UriEmpty => B"InvalidUri(empty)"
  | InvalidUri UriNotUtf8 => B"InvalidUri(utf8)"
  | Overflow => B"Overflow"
  | Underflow => B"Underflow"
  | SizeLimitExceeded l n => B"SizeLimitExceeded(" ++ dec l ++ B"," ++ dec n ++ B")"
  end.
Definition s_conn_err (e : conn_err) : bytes :=
  match e with
  | ConnectionClosed => B"ConnectionClosed"
  | InvalidWrite => B"InvalidWrite"
  | ParseError r => B"ParseError(" ++ s_req_err r ++ B")"
  | StreamReadError n => B"StreamReadError(" ++ decZ n ++ B")"
  | StreamWriteError => B"StreamWriteError"
  end.

Definition s_request (rl : request_line) (h : headers) (body : option bytes) (files : list nat) : bytes :=
  B"REQ m=" ++ s_method (rl_method rl) ++ B" u=" ++ hex (rl_uri rl) ++ B" v=" ++ s_version (rl_version rl)
  ++ B" " ++ s_headers h ++ B" body="
  ++ match body with Some b => B"some:" ++ hex b | None => B"none" end
  ++ B" files=[" ++ join (B",") (map decn files) ++ B"]".
Definition s_req (r : request) : bytes :=
  s_request (r_line r) (r_headers r) (r_body r) (r_files r).

(* ---------- decoding of case arguments ---------- *)
Definition method_of (n : N) : method :=
  match n with 0 => Get | 1 => Put | _ => Patch end.
Definition version_of (n : N) : version := match n with 0 => Http10 | _ => Http11 end.
Definition media_of (n : N) : media := match n with 0 => PlainText | _ => ApplicationJson end.
Definition status_of (n : N) : status := nth (N.to_nat n) all_status ServiceUnavailable.

Definition op_of (a : arg) : option builder_op :=
  match a with
  | AL [AN 0; AB b] => Some (SetBody b)
  | AL [AN 1; AN t] => Some (SetContentType (media_of t))
  | AL [AN 2] => Some SetDeprecation
  | AL [AN 3] => Some SetEncoding
  | AL [AN 4; AB s] => Some (SetServer s)
  | AL (AN 5 :: ms) => Some (SetAllow (flat_map (fun x => match x with AN m => [method_of m] | _ => [] end) ms))
  | AL [AN 6; AN m] => Some (AllowMethod (method_of m))
  | AL [AN 7] => Some (SetContentLength None)
  | AL [AN 7; AN n] => Some (SetContentLength (Some (Z.of_N n)))
  | AL [AN 8; AN n] => Some (SetContentLength (Some (- Z.of_N n)%Z))
  | _ => None
  end.
Definition ops_of (l : list arg) : list builder_op :=
  flat_map (fun a => match op_of a with Some o => [o] | None => [] end) l.
(* a response: (version status (ops)) *)
Definition response_of (a : arg) : response :=
  match a with
  | AL [AN v; AN s; AL ops] => build (version_of v) (status_of s) (ops_of ops)
  | _ => response_new Http11 OK
  end.

Definition hdr id := B"" ++ dec id.

(* ---------- domain 1: token functions ---------- *)
Definition opt_s {A} (f : A -> bytes) (o : option A) : bytes :=
  match o with Some a => f a | None => B"None" end.

Definition s_ores (o : ores) : bytes :=
  match o with
  | OOk rl h body => s_request rl h body []
  | OErr e => B"ERR " ++ s_req_err e
  | OPanic s => B"PANIC " ++ decn s
  end.

Definition run_tok (id kind : N) (bs : bytes) : bytes :=
  B"tok " ++ dec id ++ B" " ++
  match kind with
  | 0 => B"method=" ++ opt_s s_method (parse_method bs)
  | 1 => B"version=" ++ opt_s s_version (parse_version bs)
  | 2 => B"media=" ++ opt_s s_media (parse_media bs)
  | 3 => match request_try_from (B"GET " ++ bs ++ B" HTTP/1.1" ++ CRLF ++ CRLF) None with
         | OOk rl _ _ => B"abs=" ++ hex (abs_path (rl_uri rl))
         | o => B"abs!" ++ s_ores o
         end
  | 4 => match encoding_try_from bs with
         | Ok _ => B"enc=ok"
         | Err e => B"enc=ERR " ++ s_req_err e
         end
  | 5 => B"rawm=" ++ hex (raw_method (method_of (lenN bs)))
         ++ B" rawv=" ++ hex (raw_version (version_of (lenN bs)))
         ++ B" media=" ++ hex (media_str (media_of (lenN bs)))
         ++ B" status=" ++ hex (raw_status (status_of (lenN bs)))
  | _ => B"?"
  end.

(* ---------- domain 2/3: header lines and header blocks ---------- *)
Fixpoint run_hdr_lines (id : N) (i : nat) (h : headers) (ls : list arg) : list bytes :=
  match ls with
  | [] => [B"hdr " ++ dec id ++ B" end " ++ s_headers h]
  | AB l :: r =>
      match parse_header_line h l with
      | Ok h' => (B"hdr " ++ dec id ++ B" " ++ decn i ++ B" ok") :: run_hdr_lines id (S i) h' r
      | Err e => (B"hdr " ++ dec id ++ B" " ++ decn i ++ B" ERR " ++ s_req_err e) :: run_hdr_lines id (S i) h r
      end
  | _ :: r => run_hdr_lines id (S i) h r
  end.

Definition run_blk (id : N) (bs : bytes) : bytes :=
  B"blk " ++ dec id ++ B" " ++
  match headers_try_from bs with
  | Ok h => B"ok " ++ s_headers h
  | Err e => B"ERR " ++ s_req_err e
  end.

(* ---------- domain 5: the one-shot parser ---------- *)
Definition run_one (id : N) (bs : bytes) (maxlen : option N) : bytes :=
  B"one " ++ dec id ++ B" " ++ s_ores (request_try_from bs maxlen).

(* ---------- domain 6: the connection ---------- *)
Record cst := mkCst { k_conn : conn; k_rest : bytes; k_nextfd : nat }.

Fixpoint seqn (start len : nat) : list nat :=
  match len with O => [] | S l => start :: seqn (S start) l end.

Fixpoint drain (fuel : nat) (c : conn) (acc : list request) : conn * list request :=
  match fuel with
  | O => (c, acc)
  | S f => match pop_parsed_request c with
           | (Some r, c') => drain f c' (acc ++ [r])
           | (None, c') => (c', acc)
           end
  end.

Definition s_rd (r : rd_result) : bytes :=
  match r with
  | RdOk => B"Ok"
  | RdErr e => B"Err(" ++ s_conn_err e ++ B")"
  | RdPanic s => B"PANIC(" ++ decn s ++ B")"
  end.
Definition s_wr (r : wr_result) : bytes :=
  match r with
  | WrOk => B"Ok"
  | WrErr e => B"Err(" ++ s_conn_err e ++ B")"
  | WrPanic s => B"PANIC(" ++ decn s ++ B")"
  end.

Section RunConn.
Variable BUF : nat.

Definition is_rd_ok (r : rd_result) : bool := match r with RdOk => true | _ => false end.

(* hold = true: the requests completed by this read stay queued in the connection (no pop_parsed_request) *)
Definition read_line (hold : bool) (pre : bytes) (k : cst) (ev : read_ev) (rest' : bytes) (nfd' : nat) : cst * bytes * bool :=
  let '(c1, res, sys) := try_read BUF (k_conn k) ev in
  let '(c2, reqs) := drain (if hold then O else S (length (c_parsed c1))) c1 [] in
  (mkCst c2 rest' nfd',
   pre ++ B"rd=" ++ s_rd res ++ B" sys=" ++ bit sys ++ B" held=" ++ decn (length (c_files c2))
   ++ B" pend=" ++ bit (pending_write c2)
   ++ (if hold then B" q=" ++ decn (length (c_parsed c2)) else [])
   ++ flat_map (fun r => B" | " ++ s_req r) reqs,
   is_rd_ok res).

Definition write_line (pre : bytes) (k : cst) (ev : write_ev) : cst * bytes :=
  let '(c1, res, off) := try_write (k_conn k) ev in
  (mkCst c1 (k_rest k) (k_nextfd k),
   pre ++ B"wr=" ++ s_wr res ++ B" off=" ++ match off with Some b => hex b | None => B"none" end
   ++ B" pend=" ++ bit (pending_write c1)).

(* Take n with nf descriptors: the stream hands over min(n, room, remaining) bytes *)
Definition take_step (hold : bool) (pre : bytes) (k : cst) (n nf : N) : cst * bytes * bool :=
  let c := k_conn k in
  let fds := seqn (k_nextfd k) (N.to_nat nf) in
  let nfd' := (k_nextfd k + N.to_nat nf)%nat in
  if (BUF <=? length (c_win c))%nat then read_line hold pre k (REof []) (k_rest k) (k_nextfd k)
  else
    let room := (BUF - length (c_win c))%nat in
    let kk := Nat.min (N.to_nat (N.min n (N.of_nat room))) (length (k_rest k)) in
    match kk with
    | O => read_line hold pre k (REof fds) (k_rest k) nfd'
    | _ => read_line hold pre k (RData (firstn kk (k_rest k)) fds) (skipn kk (k_rest k)) nfd'
    end.

(* repeat Take n until the stream is exhausted or a read does not return Ok *)
Fixpoint drain_reads (fuel : nat) (pre : bytes) (k : cst) (n : N) : cst * list bytes :=
  match fuel with
  | O => (k, [])
  | S f =>
    match k_rest k with
    | [] => (k, [])
    | _ =>
      let '(k', line, ok) := take_step false pre k n 0 in
      if ok then let '(k'', ls) := drain_reads f pre k' n in (k'', line :: ls)
      else (k', [line])
    end
  end.

Definition run_conn_op (id : N) (i : nat) (k : cst) (op : arg) : cst * list bytes :=
  let pre := B"conn " ++ dec id ++ B" " ++ decn i ++ B" " in
  let c := k_conn k in
  let one (x : cst * bytes) := (fst x, [snd x]) in
  match op with
  | AL [AN 0; AN n; AN nf] => let '(k', line, _) := take_step false pre k n nf in (k', [line])
  | AL [AN 13; AN n; AN nf] => let '(k', line, _) := take_step true pre k n nf in (k', [line])
  | AL [AN 1; AN e] => let '(k', line, _) := read_line false pre k (RFail (Z.of_N e)) (k_rest k) (k_nextfd k) in (k', [line])
  | AL [AN 2; AN n] => drain_reads (S (length (k_rest k))) pre k n
  | AL [AN 3; AN n] =>
      (* the stream accepts min(n, len) bytes *)
      let len := match c_rbuf c with
                 | Some b => length b
                 | None => match c_rq c with r :: _ => length (serialize r) | [] => O end
                 end in
      one (write_line pre k (WWrote (N.to_nat (N.min n (N.of_nat len)))))
  | AL [AN 4] => one (write_line pre k WIntr)
  | AL [AN 5] => one (write_line pre k WFail)
  | AL [AN 5; AN _] => one (write_line pre k WFail)
  | AL [AN 7; r] =>
      let c' := enqueue_response c (response_of r) in
      (mkCst c' (k_rest k) (k_nextfd k), [pre ++ B"enq pend=" ++ bit (pending_write c')])
  | AL [AN 9] =>
      let c' := clear_write_buffer c in
      (mkCst c' (k_rest k) (k_nextfd k), [pre ++ B"clr pend=" ++ bit (pending_write c')])
  | AL [AN 10; AN n] =>
      (mkCst (set_payload_max_size c n) (k_rest k) (k_nextfd k), [pre ++ B"lim"])
  | AL [AN 12] => (k, [])
  | _ => (k, [pre ++ B"?"])
  end.

Fixpoint run_conn_ops (id : N) (i : nat) (k : cst) (ops : list arg) : list bytes :=
  match ops with
  | [] => []
  | op :: r => let '(k', lines) := run_conn_op id i k op in lines ++ run_conn_ops id (S i) k' r
  end.

Definition run_conn (id L : N) (stream : bytes) (ops : list arg) : list bytes :=
  run_conn_ops id 0 (mkCst (set_payload_max_size conn_new L) stream 0) ops.

End RunConn.

(* ---------- domain 7: responses ---------- *)
Definition run_resp (id v s : N) (ops : list arg) : bytes :=
  B"resp " ++ dec id ++ B" " ++ hex (serialize (build (version_of v) (status_of s) (ops_of ops))).

(* ---------- domain 8: the router ---------- *)
(* handler h answers with status (h mod 11), version 1.0 when h is odd, and body "h<h>" *)
Definition test_handler (h : N) (_ : request) : response :=
  apply_op (response_new (version_of ((h + 1) mod 2)) (status_of (h mod 11))) (SetBody (B"h" ++ dec h)).

Fixpoint run_routes (id : N) (i : nat) (rt : routes N) (rs : list arg) : routes N * list bytes :=
  match rs with
  | [] => (rt, [])
  | AL [AN m; AB p; AN h] :: r =>
      let '(rt', res) := add_route N rt (method_of m) p h in
      let line := B"route " ++ dec id ++ B" add " ++ decn i ++ B" " ++
                  match res with None => B"ok" | Some k => B"exists(" ++ hex k ++ B")" end in
      let '(rt'', ls) := run_routes id (S i) rt' r in
      (rt'', line :: ls)
  | _ :: r => run_routes id (S i) rt r
  end.

Fixpoint run_reqs (id : N) (i : nat) (rt : routes N) (rs : list arg) : list bytes :=
  match rs with
  | [] => []
  | AB bs :: r =>
      (B"route " ++ dec id ++ B" req " ++ decn i ++ B" " ++
       match request_try_from bs None with
       | OOk rl h body =>
           let '(who, resp) := handle_http_request N test_handler rt (mkReq rl h body []) in
           B"who=" ++ opt_s dec who ++ B" resp=" ++ hex (serialize resp)
       | o => B"bad " ++ s_ores o
       end) :: run_reqs id (S i) rt r
  | _ :: r => run_reqs id (S i) rt r
  end.

Definition run_router (id : N) (server prefix : bytes) (routes reqs : list arg) : list bytes :=
  let '(rt, ls) := run_routes id 0 (routes_new N server prefix) routes in
  ls ++ run_reqs id 0 rt reqs.

(* ---------- domain 9: the server on its kernel model ---------- *)
Fixpoint ins_by_key (p : bytes * (nat * nat * request)) (l : list (bytes * (nat * nat * request))) :=
  match l with
  | [] => [p]
  | q :: r => if bleb (fst p) (fst q) then p :: l else q :: ins_by_key p r
  end.
Definition sort_yields (ys : list (nat * nat * request)) : list (bytes * (nat * nat * request)) :=
  fold_right ins_by_key [] (map (fun y => (s_req (snd y), y)) ys).

Definition s_serr (e : serr) : bytes :=
  match e with
  | EShutdown => B"Shutdown" | EInvalidWrite => B"InvalidWrite" | EOverflow => B"Overflow"
  | EUnderflow => B"Underflow" | EPanic => B"PANIC"
  end.

Fixpoint remove_nth {A} (n : nat) (l : list A) : list A :=
  match n, l with
  | _, [] => []
  | O, _ :: r => r
  | S k, x :: r => x :: remove_nth k r
  end.

Definition s_sstate (s : sstate) : bytes := match s with AwaitIn => B"0" | AwaitOut => B"1" | SClosed => B"2" end.
Fixpoint ins_bytes (p : bytes) (l : list bytes) : list bytes :=
  match l with [] => [p] | q :: r => if bleb p q then p :: l else q :: ins_bytes p r end.

Section RunSrv.
Variable BUF : nat.

Definition srv_poll (pre : bytes) (w : world) : world * bytes :=
  match poll BUF w with
  | PBlocked => (w, pre ++ B"poll blocked")
  | PErr e => (w, pre ++ B"poll Err(" ++ s_serr e ++ B")")
  | PYield w' ys =>
      let sorted := sort_yields ys in
      let w'' := mkW (w_clients w') (w_conns w') (w_backlog w')
                     (w_tokens w' ++ map (fun p => snd p) sorted)
                     (w_nextg w') (w_limit w') (w_killed w') in
      (w'', pre ++ B"poll Ok " ++ decn (length ys) ++ flat_map (fun p => B" | " ++ fst p) sorted)
  end.

Fixpoint srv_poll_many (fuel : nat) (pre : bytes) (w : world) : world * list bytes :=
  match fuel with
  | O => (w, [])
  | S f =>
    let '(w', line) := srv_poll pre w in
    match poll BUF w with
    | PYield _ _ => let '(w'', ls) := srv_poll_many f pre w' in (w'', line :: ls)
    | _ => (w', [line])
    end
  end.

Definition run_srv_op (id : N) (i : nat) (has_kill : bool) (w : world) (op : arg) : world * list bytes :=
  let pre := B"srv " ++ dec id ++ B" " ++ decn i ++ B" " in
  match op with
  | AL [AN 0; AN c] =>
      let c := N.to_nat c in
      (mkW (w_clients w ++ [(c, mkCl true false false [] [] InBacklog)]) (w_conns w) (w_backlog w ++ [c])
           (w_tokens w) (w_nextg w) (w_limit w) (w_killed w), [pre ++ B"conn " ++ decn c])
  | AL [AN 1; AN c; AB bs] =>
      let c := N.to_nat c in
      let cl := client_of w c in
      let ok := k_open cl && negb (k_shut_wr cl) && match k_place cl with Gone => false | _ => true end in
      if ok then
        (set_client w c (mkCl (k_open cl) (k_shut_wr cl) (k_shut_rd cl) (k_tosrv cl ++ bs) (k_rx cl) (k_place cl)),
         [pre ++ B"send " ++ decn c ++ B" " ++ decn (length bs)])
      else (w, [pre ++ B"send " ++ decn c ++ B" 0"])
  | AL [AN 2; AN c] =>
      let c := N.to_nat c in
      let cl := client_of w c in
      (set_client w c (mkCl false (k_shut_wr cl) (k_shut_rd cl) (k_tosrv cl) [] (k_place cl)), [pre ++ B"close " ++ decn c])
  | AL [AN 3; AN c] =>
      let c := N.to_nat c in
      let cl := client_of w c in
      (set_client w c (mkCl (k_open cl) true (k_shut_rd cl) (k_tosrv cl) (k_rx cl) (k_place cl)), [pre ++ B"shutwr " ++ decn c])
  | AL [AN 4; AN c] =>
      let c := N.to_nat c in
      let cl := client_of w c in
      (set_client w c (mkCl (k_open cl) (k_shut_wr cl) true (k_tosrv cl) (k_rx cl) (k_place cl)), [pre ++ B"shutrd " ++ decn c])
  | AL [AN 5; AN c] =>
      let c := N.to_nat c in
      let cl := client_of w c in
      (set_client w c (mkCl (k_open cl) (k_shut_wr cl) (k_shut_rd cl) (k_tosrv cl) [] (k_place cl)),
       [pre ++ B"drain " ++ decn c ++ B" " ++ hex (k_rx cl) ++ B" "
        ++ match k_place cl with Gone => B"eof" | _ => B"open" end])
  | AL [AN 6] => let '(w', line) := srv_poll pre w in (w', [line])
  | AL [AN 7; AN k; r] =>
      match w_tokens w with
      | [] => (w, [pre ++ B"resp none"])
      | _ =>
        let idx := N.to_nat (k mod N.of_nat (length (w_tokens w))) in
        match nth_error (w_tokens w) idx with
        | None => (w, [pre ++ B"resp none"])
        | Some (g, _, _) =>
          let w1 := mkW (w_clients w) (w_conns w) (w_backlog w) (remove_nth idx (w_tokens w))
                        (w_nextg w) (w_limit w) (w_killed w) in
          match respond w1 g (response_of r) with
          | inl w2 => (w2, [pre ++ B"resp Ok"])
          | inr e => (w1, [pre ++ B"resp Err(" ++ s_serr e ++ B")"])
          end
        end
      end
  | AL [AN 12; AN k] =>
      match w_tokens w with
      | [] => (w, [pre ++ B"resp none"])
      | _ =>
        let idx := N.to_nat (k mod N.of_nat (length (w_tokens w))) in
        match nth_error (w_tokens w) idx with
        | None => (w, [pre ++ B"resp none"])
        | Some (g, _, rq) =>
          let w1 := mkW (w_clients w) (w_conns w) (w_backlog w) (remove_nth idx (w_tokens w))
                        (w_nextg w) (w_limit w) (w_killed w) in
          let r := apply_op (response_new Http11 OK) (SetBody (B"echo:" ++ rl_uri (r_line rq))) in
          match respond w1 g r with
          | inl w2 => (w2, [pre ++ B"resp Ok"])
          | inr e => (w1, [pre ++ B"resp Err(" ++ s_serr e ++ B")"])
          end
        end
      end
  | AL [AN 8] => (flush w, [pre ++ B"flush"])
  | AL [AN 9] =>
      if has_kill then
        (mkW (w_clients w) (w_conns w) (w_backlog w) (w_tokens w) (w_nextg w) (w_limit w) true, [pre ++ B"kill"])
      else (w, [pre ++ B"kill"])
  | AL [AN 10; AN n] =>
      (mkW (w_clients w) (w_conns w) (w_backlog w) (w_tokens w) (w_nextg w) n (w_killed w), [pre ++ B"limit"])
  | AL [AN 11; AN k] => srv_poll_many (N.to_nat k) pre w
  | _ => (w, [pre ++ B"?"])
  end.

Fixpoint run_srv_ops (id : N) (i : nat) (has_kill : bool) (w : world) (ops : list arg) : world * list bytes :=
  match ops with
  | [] => (w, [])
  | op :: r =>
      let '(w', ls) := run_srv_op id i has_kill w op in
      let '(w'', ls') := run_srv_ops id (S i) has_kill w' r in
      (w'', ls ++ ls')
  end.

Definition run_srv (id flags : N) (ops : list arg) : list bytes :=
  let '(w, ls) := run_srv_ops id 0 (N.odd flags) world0 ops in
  ls ++ [B"srv " ++ dec id ++ B" end " ++
         if w_killed w then B"killed"
         else B"nconn=" ++ decn (length (w_conns w)) ++ B" conns=["
              ++ join (B",") (fold_right ins_bytes []
                   (map (fun p => s_sstate (sc_st (snd p)) ++ B":" ++ dec (sc_infl (snd p)) ++ B":"
                                  ++ bit (pending_write (sc_conn (snd p)))) (w_conns w)))
              ++ B"]"].

End RunSrv.

(* ---------- dispatch ---------- *)
Definition run_case (BUF : nat) (a : arg) : list bytes :=
  match a with
  | AL [AN 1; AN id; AN kind; AB bs] => [run_tok id kind bs]
  | AL [AN 2; AN id; AL ls] => run_hdr_lines id 0 headers_default ls
  | AL [AN 3; AN id; AB bs] => [run_blk id bs]
  | AL [AN 5; AN id; AB bs] => [run_one id bs None]
  | AL [AN 5; AN id; AB bs; AN m] => [run_one id bs (Some m)]
  | AL [AN 6; AN id; AN L; AB stream; AL ops] => run_conn BUF id L stream ops
  | AL [AN 7; AN id; AN v; AN s; AL ops] => [run_resp id v s ops]
  | AL [AN 7; AN id; AN v; AN s; AL ops; AL _] => [run_resp id v s ops]
  | AL [AN 8; AN id; AB server; AB prefix; AL routes; AL reqs] => run_router id server prefix routes reqs
  | AL [AN 9; AN id; AN flags; AL ops] => run_srv BUF id flags ops
  | _ => [B"? unknown case"]
  end.

(* equality of observation-line lists, for the vm_compute cross-check of the extracted model *)
Fixpoint lines_eqb (a b : list bytes) : bool :=
  match a, b with
  | [], [] => true
  | x :: a', y :: b' => beq x y && lines_eqb a' b'
  | _, _ => false
  end.
