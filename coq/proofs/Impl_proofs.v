(* ConnImpl refines ConnSpec: one call of try_read on a chunk does what the specification's
   runT does on (carry ++ chunk) -- same deliveries, same interim responses, same error --
   never reaches a modelled panic site and never runs out of loop fuel. *)
From MH Require Export model.ConnImpl proofs.Spec_proofs.

(* ---------- slices ---------- *)
Lemma sub_suffix buf start : (start <= length buf)%nat -> sub buf start (length buf) = Some (skipn start buf).
Proof.
  intros H. unfold sub.
  assert (E : ((start <=? length buf) && (length buf <=? length buf))%nat = true).
  { apply andb_true_iff. split; apply Nat.leb_le; lia. }
  rewrite E. f_equal. apply firstn_all2. rewrite skipn_length. lia.
Qed.

Lemma sub_prefix_of_suffix buf start i :
  (start + i <= length buf)%nat -> sub buf start (start + i) = Some (firstn i (skipn start buf)).
Proof.
  intros H. unfold sub.
  assert (E : ((start <=? start + i) && (start + i <=? length buf))%nat = true).
  { apply andb_true_iff. split; apply Nat.leb_le; lia. }
  rewrite E. f_equal. f_equal. lia.
Qed.

Lemma skipn_add {A} (a b : nat) (l : list A) : skipn (a + b) l = skipn b (skipn a l).
Proof.
  revert l; induction a as [|a IH]; intros l; [reflexivity|].
  destruct l as [|x l]; cbn [Nat.add skipn]; [rewrite skipn_nil; reflexivity|apply IH].
Qed.

(* ---------- outputs ---------- *)
Fixpoint has_request (outs : list out) : bool :=
  match outs with
  | [] => false
  | ORequest _ _ _ :: _ => true
  | OContinue _ :: r => has_request r
  end.

(* the requests of a run, the pending descriptors going to the first one *)
Fixpoint reqs_of (outs : list out) (files : list nat) : list request :=
  match outs with
  | [] => []
  | ORequest rl h b :: r => mkReq rl h b files :: reqs_of r []
  | OContinue _ :: r => reqs_of r files
  end.

Fixpoint conts_of (outs : list out) : list response :=
  match outs with
  | [] => []
  | ORequest _ _ _ :: r => conts_of r
  | OContinue v :: r => response_new v Continue :: conts_of r
  end.

Definition files_after (outs : list out) (files : list nat) : list nat :=
  if has_request outs then [] else files.

Lemma reqs_of_app a b files : reqs_of (a ++ b) files = reqs_of a files ++ reqs_of b (files_after a files).
Proof.
  revert files; induction a as [|o a IH]; intros files; [reflexivity|].
  destruct o as [rl h body|v]; cbn [app reqs_of].
  - rewrite IH. unfold files_after. cbn [has_request]. destruct (has_request a); reflexivity.
  - rewrite IH. reflexivity.
Qed.

Lemma conts_of_app a b : conts_of (a ++ b) = conts_of a ++ conts_of b.
Proof. induction a as [|o a IH]; [reflexivity|]. destruct o; cbn; rewrite IH; reflexivity. Qed.

Lemma has_request_app a b : has_request (a ++ b) = has_request a || has_request b.
Proof. induction a as [|o a IH]; [reflexivity|]. destruct o; cbn; auto. Qed.

Lemma files_after_app a b files : files_after (a ++ b) files = files_after b (files_after a files).
Proof.
  unfold files_after. rewrite has_request_app. destruct (has_request a), (has_request b); reflexivity.
Qed.

(* what one call may change outside the parser fields *)
Record Post (c c' : conn) (outs : list out) : Prop := {
  post_parsed : c_parsed c' = c_parsed c ++ reqs_of outs (c_files c);
  post_rq : c_rq c' = c_rq c ++ conts_of outs;
  post_files : c_files c' = files_after outs (c_files c);
  post_pmax : c_pmax c' = c_pmax c;
  post_rbuf : c_rbuf c' = c_rbuf c;
}.

Lemma Post_refl c : Post c c [].
Proof. constructor; cbn; rewrite ?app_nil_r; reflexivity. Qed.

Lemma Post_trans c1 c2 c3 o1 o2 : Post c1 c2 o1 -> Post c2 c3 o2 -> Post c1 c3 (o1 ++ o2).
Proof.
  intros [A1 A2 A3 A4 A5] [B1 B2 B3 B4 B5]. constructor.
  - rewrite B1, A1, A3, reqs_of_app, app_assoc. reflexivity.
  - rewrite B2, A2, conts_of_app, app_assoc. reflexivity.
  - rewrite B3, A3, files_after_app. reflexivity.
  - congruence.
  - congruence.
Qed.

(* ---------- the abstraction relation ---------- *)
Inductive Good : conn -> phase -> Prop :=
| GLine c : c_state c = WaitingForRequestLine -> c_body_vec c = [] -> Good c PLine
| GHdr c rl h : c_state c = WaitingForHeaders -> c_pending c = Some (mkReq rl h None []) ->
    c_body_vec c = [] -> Good c (PHdr rl h)
| GBody c rl h acc lft : c_state c = WaitingForBody -> c_pending c = Some (mkReq rl h (Some []) []) ->
    c_body_vec c = acc -> c_body_left c = lft ->
    lenN acc + lft = h_content_length h -> 1 <= lft -> Good c (PBody rl h acc lft).

Section Sim.
Variable BUF : nat.
Hypothesis BUF_min : (2 <= BUF)%nat.
Hypothesis BUF_u32 : N.of_nat BUF < U32_LIMIT.

Notation step := (step BUF).
Notation runT := (runT BUF).
Notation read_loop := (read_loop BUF).

(* one step of the specification = one or two iterations of the implementation's loop *)
Definition StepSim (c : conn) (buf : bytes) (start : nat) (ph : phase) : Prop :=
  let w := skipn start buf in
  match step (c_pmax c) ph w with
  | SDone ph' rest o =>
      exists c' start' k, (k = 1 \/ k = 2)%nat /\
        (forall f, read_loop (k + f) c buf start = read_loop f c' buf start') /\
        Good c' ph' /\ skipn start' buf = rest /\ (start' <= length buf)%nat /\
        (2 * length rest + 2 <= 2 * length w)%nat /\ Post c c' o
  | SMore ph' carry =>
      exists c', (forall f, read_loop (S f) c buf start = LOk c') /\
        Good c' ph' /\ c_win c' = carry /\ Post c c' []
  | SErr e =>
      exists c', (forall f, read_loop (S f) c buf start = LErr c' e) /\ Post c c' []
  end.

Lemma take_line_window w : (length w <= BUF)%nat ->
  take_line BUF w = match find_crlf w with
                    | Some i => LLine (firstn i w) (skipn (i + 2) w)
                    | None => if (BUF <=? length w)%nat then LTooLong else LMore
                    end.
Proof. intros H. unfold take_line. rewrite firstn_all2 by exact H. reflexivity. Qed.

Lemma full_window_test (e start : nat) : (start <= e)%nat -> (e <= BUF)%nat ->
  ((e =? BUF) && (start =? 0))%nat = (BUF <=? e - start)%nat.
Proof.
  intros H1 H2. destruct (e =? BUF)%nat eqn:E1; destruct (start =? 0)%nat eqn:E2;
    destruct (BUF <=? e - start)%nat eqn:E3; try reflexivity;
    try apply Nat.eqb_eq in E1; try apply Nat.eqb_eq in E2; try apply Nat.eqb_neq in E1; try apply Nat.eqb_neq in E2;
    try apply Nat.leb_le in E3; try apply Nat.leb_gt in E3; lia.
Qed.

Lemma upd_parse_post c st win pend bv bl : Post c (upd_parse c st win pend bv bl) [].
Proof. constructor; cbn; rewrite ?app_nil_r; reflexivity. Qed.

(* ---- waiting for the request line ---- *)
Lemma sim_line c buf start :
  Good c PLine -> (start <= length buf)%nat -> (length buf <= BUF)%nat -> StepSim c buf start PLine.
Proof.
  intros G Hs Hb. inversion G as [c0 Hst Hbv| |]; subst. unfold StepSim. cbn zeta.
  set (w := skipn start buf).
  assert (Hw : length w = (length buf - start)%nat) by (unfold w; apply skipn_length).
  cbn [ConnSpec.step]. rewrite take_line_window by lia.
  assert (RL : forall f, read_loop (S f) c buf start =
      match parse_request_line BUF c buf start with
      | PStep c' start' => read_loop f c' buf start'
      | PStop c' => LOk c'
      | PErr c' err => LErr c' err
      | PPanic s => LPanic s
      end).
  { intros f. cbn [ConnImpl.read_loop]. rewrite Hst. reflexivity. }
  assert (PRL : parse_request_line BUF c buf start =
      match find_crlf w with
      | Some i =>
          match parse_reqline (firstn i w) with
          | Ok rl => PStep (upd_parse c WaitingForHeaders (c_win c) (Some (mkReq rl headers_default None []))
                                      (c_body_vec c) (c_body_left c)) (start + i + 2)
          | Err err => PErr c err
          end
      | None => if (BUF <=? length w)%nat then PErr c InvalidRequest
                else PStop (upd_parse c (c_state c) w (c_pending c) (c_body_vec c) (c_body_left c))
      end).
  { unfold parse_request_line.
    assert (E1 : (length buf <? start)%nat = false) by (apply Nat.ltb_ge; lia).
    assert (E2 : (BUF <? length buf)%nat = false) by (apply Nat.ltb_ge; lia).
    rewrite E1, E2. rewrite sub_suffix by lia. fold w.
    destruct (find_crlf w) as [i|] eqn:F.
    - pose proof (find_crlf_bound _ _ F) as Hi.
      rewrite sub_prefix_of_suffix by lia. fold w. reflexivity.
    - rewrite full_window_test by lia. rewrite <- Hw.
      destruct (BUF <=? length w)%nat; [reflexivity|].
      unfold shift_buffer_left. rewrite E2, E1. reflexivity. }
  destruct (find_crlf w) as [i|] eqn:F.
  - pose proof (find_crlf_bound _ _ F) as Hi.
    destruct (parse_reqline (firstn i w)) as [rl|err] eqn:P.
    + exists (upd_parse c WaitingForHeaders (c_win c) (Some (mkReq rl headers_default None []))
                        (c_body_vec c) (c_body_left c)), (start + i + 2)%nat, 1%nat.
      split; [left; reflexivity|]. split; [|split; [|split; [|split; [|split]]]].
      * intros f. change (1 + f)%nat with (S f). rewrite RL, PRL. reflexivity.
      * apply GHdr; cbn; auto.
      * unfold w. rewrite <- Nat.add_assoc. apply skipn_add.
      * lia.
      * rewrite skipn_length. lia.
      * apply upd_parse_post.
    + exists c. split; [|apply Post_refl]. intros f. rewrite RL, PRL. reflexivity.
  - destruct (BUF <=? length w)%nat eqn:E.
    + exists c. split; [|apply Post_refl]. intros f. rewrite RL, PRL. reflexivity.
    + exists (upd_parse c (c_state c) w (c_pending c) (c_body_vec c) (c_body_left c)).
      split; [|split; [|split]].
      * intros f. rewrite RL, PRL. reflexivity.
      * apply GLine; cbn; auto.
      * reflexivity.
      * apply upd_parse_post.
Qed.

(* ---- waiting for headers ---- *)
Lemma sim_hdr c buf start rl h :
  Good c (PHdr rl h) -> (start <= length buf)%nat -> (length buf <= BUF)%nat -> StepSim c buf start (PHdr rl h).
Proof.
  intros G Hs Hb. inversion G as [|c0 rl0 h0 Hst Hpend Hbv|]; subst. unfold StepSim. cbn zeta.
  set (w := skipn start buf).
  assert (Hw : length w = (length buf - start)%nat) by (unfold w; apply skipn_length).
  cbn [ConnSpec.step]. rewrite take_line_window by lia.
  set (r := mkReq rl h None []).
  assert (RL : forall f, read_loop (S f) c buf start =
      match parse_headers BUF c buf start with
      | PStep c' start' => read_loop f c' buf start'
      | PStop c' => LOk c'
      | PErr c' err => LErr c' err
      | PPanic s => LPanic s
      end).
  { intros f. cbn [ConnImpl.read_loop]. rewrite Hst. reflexivity. }
  assert (E1 : (length buf <? start)%nat = false) by (apply Nat.ltb_ge; lia).
  assert (E2 : (BUF <? length buf)%nat = false) by (apply Nat.ltb_ge; lia).
  destruct (find_crlf w) as [i|] eqn:F.
  - pose proof (find_crlf_bound _ _ F) as Hi.
    destruct i as [|i'].
    + (* the blank line *)
      cbn [firstn].
      assert (PH : parse_headers BUF c buf start =
         if h_content_length h =? 0 then
           PStep (upd_parse c RequestReady (c_win c) (Some r) (c_body_vec c) (c_body_left c)) (start + 2)
         else if c_pmax c <? h_content_length h then PErr c (SizeLimitExceeded (c_pmax c) (h_content_length h))
         else PStep (mkConn WaitingForBody (c_win c) (Some (with_body r (Some []))) (c_body_vec c) (h_content_length h)
                            (c_parsed c)
                            (if h_expect h then c_rq c ++ [response_new (rl_version rl) Continue] else c_rq c)
                            (c_rbuf c) (c_files c) (c_pmax c)) (start + 2)).
      { unfold parse_headers. rewrite E2, E1. rewrite sub_suffix by lia. fold w. rewrite F. rewrite Hpend. reflexivity. }
      destruct (h_content_length h =? 0) eqn:Z.
      * (* no body: the request is ready; a second iteration queues it *)
        set (c1 := upd_parse c RequestReady (c_win c) (Some r) (c_body_vec c) (c_body_left c)).
        set (c2 := mkConn WaitingForRequestLine (c_win c1) None (c_body_vec c1) 0
                          (c_parsed c1 ++ [with_files r (c_files c1)]) (c_rq c1) (c_rbuf c1) [] (c_pmax c1)).
        exists c2, (start + 2)%nat, 2%nat.
        split; [right; reflexivity|]. split; [|split; [|split; [|split; [|split]]]].
        -- intros f. change (2 + f)%nat with (S (S f)). rewrite RL, PH. cbn [ConnImpl.read_loop]. reflexivity.
        -- apply GLine; cbn; auto.
        -- unfold w. apply skipn_add.
        -- lia.
        -- rewrite skipn_length. lia.
        -- constructor; cbn; rewrite ?app_nil_r; reflexivity.
      * destruct (c_pmax c <? h_content_length h) eqn:Lm.
        -- exists c. split; [|apply Post_refl]. intros f. rewrite RL, PH. reflexivity.
        -- eexists _, (start + 2)%nat, 1%nat.
           split; [left; reflexivity|]. split; [|split; [|split; [|split; [|split]]]].
           ++ intros f. change (1 + f)%nat with (S f). rewrite RL, PH. reflexivity.
           ++ apply GBody; cbn; auto. apply N.eqb_neq in Z. lia.
           ++ unfold w. apply skipn_add.
           ++ lia.
           ++ rewrite skipn_length. lia.
           ++ constructor; cbn; rewrite ?app_nil_r; try reflexivity;
                destruct (h_expect h); cbn; rewrite ?app_nil_r; reflexivity.
    + (* a header line *)
      assert (Hne : exists x l', firstn (S i') w = x :: l').
      { destruct w as [|x w']; [cbn in Hi; lia|]. cbn. eauto. }
      destruct Hne as (x & l' & Hl). rewrite Hl.
      assert (PH : parse_headers BUF c buf start =
         match parse_header_line h (x :: l') with
         | Ok h' => PStep (upd_parse c (c_state c) (c_win c) (Some (with_headers r h')) (c_body_vec c) (c_body_left c))
                          (S i' + start + 2)
         | Err (HeaderError (UnsupportedValue _ _)) => PStep c (S i' + start + 2)
         | Err err => PErr c err
         end).
      { unfold parse_headers. rewrite E2, E1. rewrite sub_suffix by lia. fold w. rewrite F. rewrite Hpend.
        replace (S i' + start)%nat with (start + S i')%nat by lia.
        rewrite sub_prefix_of_suffix by lia. fold w. rewrite Hl. reflexivity. }
      assert (Sk : skipn (S i' + start + 2) buf = skipn (S i' + 2) w).
      { unfold w. replace (S i' + start + 2)%nat with (start + (S i' + 2))%nat by lia. apply skipn_add. }
      unfold parse_header_tolerant.
      destruct (parse_header_line h (x :: l')) as [h'|err] eqn:P.
      * eexists _, (S i' + start + 2)%nat, 1%nat.
        split; [left; reflexivity|]. split; [|split; [|split; [|split; [|split]]]].
        -- intros f. change (1 + f)%nat with (S f). rewrite RL, PH. reflexivity.
        -- apply GHdr; cbn; auto.
        -- exact Sk.
        -- lia.
        -- rewrite skipn_length. lia.
        -- apply upd_parse_post.
      * assert (Tol : (exists k v, err = HeaderError (UnsupportedValue k v)) \/
                      (forall k v, err <> HeaderError (UnsupportedValue k v))).
        { destruct err as [|e| | | | | | | |]; try (right; intros; discriminate).
          destruct e; try (right; intros; discriminate). left; eauto. }
        destruct Tol as [(k0 & v0 & ->)|Hno].
        -- exists c, (S i' + start + 2)%nat, 1%nat.
           split; [left; reflexivity|]. split; [|split; [|split; [|split; [|split]]]].
           ++ intros f. change (1 + f)%nat with (S f). rewrite RL, PH. reflexivity.
           ++ exact G.
           ++ exact Sk.
           ++ lia.
           ++ rewrite skipn_length. lia.
           ++ apply Post_refl.
        -- assert (E : match err with
                       | HeaderError (UnsupportedValue _ _) => SDone (PHdr rl h) (skipn (S i' + 2) w) []
                       | _ => SErr err end = SErr err).
           { destruct err as [|e| | | | | | | |]; try reflexivity. destruct e; try reflexivity.
             exfalso. eapply Hno. reflexivity. }
           assert (E' : match err with
                        | HeaderError (UnsupportedValue _ _) => Ok h
                        | _ => Err err end = Err err).
           { destruct err as [|e| | | | | | | |]; try reflexivity. destruct e; try reflexivity.
             exfalso. eapply Hno. reflexivity. }
           rewrite E'.
           exists c. split; [|apply Post_refl]. intros f. rewrite RL, PH.
           destruct err as [|e| | | | | | | |]; try reflexivity. destruct e; try reflexivity.
           exfalso. eapply Hno. reflexivity.
  - (* no complete line in the window *)
    assert (PH : parse_headers BUF c buf start =
       if (BUF <=? length w)%nat then PErr c (HeaderError (HSizeLimitExceeded buf))
       else PStop (upd_parse c (c_state c) w (c_pending c) (c_body_vec c) (c_body_left c))).
    { unfold parse_headers. rewrite E2, E1. rewrite sub_suffix by lia. fold w. rewrite F.
      rewrite andb_comm. rewrite full_window_test by lia. rewrite <- Hw.
      destruct (BUF <=? length w)%nat; [reflexivity|].
      unfold shift_buffer_left. rewrite E2, E1. reflexivity. }
    destruct (BUF <=? length w)%nat eqn:E.
    + apply Nat.leb_le in E.
      assert (start = 0%nat) by lia. subst start.
      assert (Hwb : w = buf) by reflexivity.
      exists c. split; [|apply Post_refl]. intros f. rewrite RL, PH.
      rewrite Hwb. rewrite firstn_all2 by lia. reflexivity.
    + exists (upd_parse c (c_state c) w (c_pending c) (c_body_vec c) (c_body_left c)).
      split; [|split; [|split]].
      * intros f. rewrite RL, PH. reflexivity.
      * apply GHdr; cbn; auto.
      * reflexivity.
      * apply upd_parse_post.
Qed.

(* ---- waiting for the body ---- *)
Lemma sim_body c buf start rl h acc lft :
  Good c (PBody rl h acc lft) -> (start <= length buf)%nat -> (length buf <= BUF)%nat ->
  StepSim c buf start (PBody rl h acc lft).
Proof.
  intros G Hs Hb. inversion G as [| |c0 rl0 h0 acc0 lft0 Hst Hpend Hbv Hleft Hsum Hpos]; subst.
  unfold StepSim. cbn zeta.
  set (w := skipn start buf).
  assert (Hw : length w = (length buf - start)%nat) by (unfold w; apply skipn_length).
  cbn [ConnSpec.step].
  assert (RL : forall f, read_loop (S f) c buf start =
      match parse_body BUF c buf start with
      | PStep c' start' => read_loop f c' buf start'
      | PStop c' => LOk c'
      | PErr c' err => LErr c' err
      | PPanic s => LPanic s
      end).
  { intros f. cbn [ConnImpl.read_loop]. rewrite Hst. reflexivity. }
  assert (E1 : (length buf <? start)%nat = false) by (apply Nat.ltb_ge; lia).
  assert (E2 : (BUF <? length buf)%nat = false) by (apply Nat.ltb_ge; lia).
  assert (STE : N.of_nat (length buf - start) mod U32_LIMIT = lenN w).
  { unfold lenN. rewrite Hw. apply N.mod_small. lia. }
  set (r := mkReq rl h (Some []) []).
  destruct (c_body_left c <=? lenN w) eqn:Le.
  - (* the rest of the body is in the window *)
    apply N.leb_le in Le.
    assert (Hk : (N.to_nat (c_body_left c) <= length w)%nat) by (unfold lenN in Le; lia).
    set (k := N.to_nat (c_body_left c)).
    set (bv := c_body_vec c ++ firstn k w).
    assert (Hbvlen : length bv = N.to_nat (h_content_length h)).
    { unfold bv. rewrite app_length, firstn_length. unfold lenN in Hsum. lia. }
    set (r' := with_body r (Some bv)).
    set (c1 := upd_parse c RequestReady (c_win c) (Some r') [] 0).
    assert (PB : parse_body BUF c buf start = PStep c1 (start + k)).
    { unfold parse_body. rewrite E2, E1, STE.
      assert (Lt : (lenN w <? c_body_left c) = false) by (apply N.ltb_ge; lia).
      rewrite Lt. fold k. rewrite sub_prefix_of_suffix by lia. fold w. fold bv. rewrite Hpend. fold r.
      cbn [r_headers r]. 
      assert (Lt2 : (length bv <? N.to_nat (h_content_length h))%nat = false) by (apply Nat.ltb_ge; lia).
      rewrite Lt2. rewrite skipn_all2 by lia. rewrite firstn_all2 by lia. reflexivity. }
    set (c2 := mkConn WaitingForRequestLine (c_win c1) None (c_body_vec c1) 0
                      (c_parsed c1 ++ [with_files r' (c_files c1)]) (c_rq c1) (c_rbuf c1) [] (c_pmax c1)).
    exists c2, (start + k)%nat, 2%nat.
    split; [right; reflexivity|]. split; [|split; [|split; [|split; [|split]]]].
    + intros f. change (2 + f)%nat with (S (S f)). rewrite RL, PB. cbn [ConnImpl.read_loop]. reflexivity.
    + apply GLine; cbn; auto.
    + unfold w. apply skipn_add.
    + lia.
    + rewrite skipn_length. unfold k. lia.
    + constructor; cbn; rewrite ?app_nil_r; reflexivity.
  - (* not yet *)
    apply N.leb_gt in Le.
    set (c1 := upd_parse c (c_state c) [] (c_pending c) (c_body_vec c ++ w) (c_body_left c - lenN w)).
    assert (PB : parse_body BUF c buf start = PStop c1).
    { unfold parse_body. rewrite E2, E1, STE.
      assert (Lt : (lenN w <? c_body_left c) = true) by (apply N.ltb_lt; lia).
      rewrite Lt. rewrite sub_suffix by lia. reflexivity. }
    exists c1. split; [|split; [|split]].
    + intros f. rewrite RL, PB. reflexivity.
    + apply GBody; cbn; auto.
      * rewrite lenN_app. lia.
      * lia.
    + reflexivity.
    + apply upd_parse_post.
Qed.

Lemma step_sim c buf start ph :
  Good c ph -> (start <= length buf)%nat -> (length buf <= BUF)%nat -> StepSim c buf start ph.
Proof.
  intros G. destruct ph; [apply sim_line|apply sim_hdr|apply sim_body]; exact G.
Qed.

(* ---------- the whole loop ---------- *)
Lemma runT_acc' pm ph w acc :
  runT pm ph w acc = match runT pm ph w [] with
                     | RMore ph' c o => RMore ph' c (acc ++ o)
                     | RErr o e => RErr (acc ++ o) e
                     | ROutOfFuel => ROutOfFuel
                     end.
Proof. apply (runT_acc BUF pm (S (rank ph w))). lia. Qed.

Lemma loop_sim : forall n fuel c buf start ph,
  (length (skipn start buf) < n)%nat -> (2 * length (skipn start buf) + 2 <= fuel)%nat ->
  Good c ph -> (start <= length buf)%nat -> (length buf <= BUF)%nat ->
  match runT (c_pmax c) ph (skipn start buf) [] with
  | RMore ph' carry outs =>
      exists c', read_loop fuel c buf start = LOk c' /\ Good c' ph' /\ c_win c' = carry /\ Post c c' outs
  | RErr outs e => exists c', read_loop fuel c buf start = LErr c' e /\ Post c c' outs
  | ROutOfFuel => False
  end.
Proof.
  induction n as [|n IH]; intros fuel c buf start ph Hn Hf G Hs Hb; [lia|].
  pose proof (step_sim c buf start ph G Hs Hb) as SS. unfold StepSim in SS. cbn zeta in SS.
  rewrite runT_unfold.
  destruct (step (c_pmax c) ph (skipn start buf)) as [ph' rest o|ph' carry|e] eqn:St.
  - destruct SS as (c' & start' & k & Hk & Hrl & G' & Hrest & Hs' & Hlen & P).
    assert (Hpm : c_pmax c' = c_pmax c) by apply P.
    rewrite runT_acc'. rewrite <- Hrest in *. rewrite <- Hpm.
    assert (Hfk : exists f, fuel = (k + f)%nat /\ (2 * length (skipn start' buf) + 2 <= f)%nat).
    { exists (fuel - k)%nat. destruct Hk; subst k; lia. }
    destruct Hfk as (f & -> & Hf').
    rewrite Hrl.
    specialize (IH f c' buf start' ph' ltac:(lia) Hf' G' Hs' Hb).
    destruct (runT (c_pmax c') ph' (skipn start' buf) []) as [ph2 carry2 o2|o2 e2|].
    + destruct IH as (c2 & R & G2 & W2 & P2). exists c2.
      split; [exact R|split; [exact G2|split; [exact W2|]]].
      cbn [app]. eapply Post_trans; eauto.
    + destruct IH as (c2 & R & P2). exists c2. split; auto. cbn [app]. eapply Post_trans; eauto.
    + exact IH.
  - destruct SS as (c' & Hrl & G' & W & P). exists c'.
    destruct fuel as [|f]; [lia|]. rewrite Hrl. auto.
  - destruct SS as (c' & Hrl & P). exists c'. destruct fuel as [|f]; [lia|]. rewrite Hrl. auto.
Qed.

(* ---------- one call of try_read ---------- *)
(* the invariant between calls: the parser fields abstract to a phase, and the window holds no
   complete element (it is "stuck") *)
Definition CInv (c : conn) (ph : phase) : Prop :=
  Good c ph /\ step (c_pmax c) ph (c_win c) = SMore ph (c_win c).

Lemma stuck_short pm ph w : step pm ph w = SMore ph w -> (length w < BUF)%nat.
Proof.
  destruct ph as [|rl h|rl h acc lft]; cbn [ConnSpec.step]; unfold take_line.
  - destruct (find_crlf (firstn BUF w)) as [i|]; [destruct (parse_reqline _); discriminate|].
    destruct (BUF <=? length w)%nat eqn:E; [discriminate|]. intros _. apply Nat.leb_gt in E. exact E.
  - destruct (find_crlf (firstn BUF w)) as [i|].
    + destruct (firstn i w).
      * destruct (h_content_length h =? 0); [discriminate|]. destruct (pm <? h_content_length h); discriminate.
      * destruct (parse_header_tolerant h (n :: l)); discriminate.
    + destruct (BUF <=? length w)%nat eqn:E; [discriminate|]. intros _. apply Nat.leb_gt in E. exact E.
  - destruct (lft <=? lenN w); [discriminate|]. intros H. inversion H; subst. cbn [length]. lia.
Qed.

Lemma stuck_pmax pm pm' ph w : step pm ph w = SMore ph w -> step pm' ph w = SMore ph w.
Proof.
  destruct ph as [|rl h|rl h acc lft]; cbn [ConnSpec.step]; auto.
  destruct (take_line BUF w) as [l r| |]; auto.
  destruct l as [|x l']; auto.
  destruct (h_content_length h =? 0); [discriminate|]. destruct (pm <? h_content_length h); discriminate.
Qed.

Lemma Good_parser_fields c c' ph :
  Good c ph -> c_state c' = c_state c -> c_pending c' = c_pending c -> c_body_vec c' = c_body_vec c ->
  c_body_left c' = c_body_left c -> Good c' ph.
Proof.
  intros G E1 E2 E3 E4. inversion G; subst.
  - apply GLine; congruence.
  - apply GHdr; congruence.
  - apply GBody; congruence.
Qed.

Lemma CInv_new pm : CInv (set_payload_max_size conn_new pm) PLine.
Proof.
  split; [apply GLine; reflexivity|]. cbn [ConnSpec.step c_win set_payload_max_size conn_new].
  unfold take_line. rewrite firstn_nil. cbn [find_crlf find length].
  destruct (BUF <=? 0)%nat eqn:E; [apply Nat.leb_le in E; lia|reflexivity].
Qed.

Lemma CInv_reset c : CInv (reset_parser c) PLine.
Proof.
  split; [apply GLine; reflexivity|]. cbn [ConnSpec.step c_win reset_parser].
  unfold take_line. rewrite firstn_nil. cbn [find_crlf find length].
  destruct (BUF <=? 0)%nat eqn:E; [apply Nat.leb_le in E; lia|reflexivity].
Qed.

(* the environment contract of one recvmsg: it returns at most as many bytes as there is room *)
Definition ev_ok (c : conn) (ev : read_ev) : Prop :=
  match ev with
  | RData bs _ => (length (c_win c) + length bs <= BUF)%nat
  | _ => True
  end.

Theorem try_read_data c ph bs fds :
  CInv c ph -> bs <> [] -> (length (c_win c) + length bs <= BUF)%nat ->
  match runT (c_pmax c) ph (c_win c ++ bs) [] with
  | RMore ph' carry outs =>
      exists c', try_read BUF c (RData bs fds) = (c', RdOk, true) /\ CInv c' ph' /\ c_win c' = carry
                 /\ Post (add_files c fds) c' outs
  | RErr outs e =>
      exists c1, try_read BUF c (RData bs fds) = (reset_parser c1, RdErr (ParseError e), true)
                 /\ Post (add_files c fds) c1 outs
  | ROutOfFuel => False
  end.
Proof.
  intros [G St] Hne Hlen. pose proof (stuck_short _ _ _ St) as Hshort.
  unfold try_read.
  assert (E : (BUF <=? length (c_win c))%nat = false) by (apply Nat.leb_gt; lia). rewrite E.
  destruct bs as [|b bs']; [congruence|]. set (bs := b :: bs') in *.
  set (buf := c_win c ++ bs).
  assert (Hbuf : (length buf <= BUF)%nat) by (unfold buf; rewrite app_length; exact Hlen).
  assert (G' : Good (add_files c fds) ph) by (eapply Good_parser_fields; eauto).
  pose proof (loop_sim (S (length buf)) (loop_fuel buf) (add_files c fds) buf 0 ph) as LS.
  cbn [skipn] in LS. change (c_pmax (add_files c fds)) with (c_pmax c) in LS.
  specialize (LS ltac:(lia) ltac:(unfold loop_fuel; lia) G' ltac:(lia) Hbuf).
  fold buf.
  destruct (runT (c_pmax c) ph buf []) as [ph' carry outs|outs e|] eqn:R.
  - destruct LS as (c' & RL & G2 & W & P). exists c'. rewrite RL.
    split; [reflexivity|]. split; [|split; [exact W|exact P]].
    split; [exact G2|].
    assert (Hpm : c_pmax c' = c_pmax c) by apply P. rewrite Hpm, W.
    eapply runT_more_stuck; [|exact R]. apply Nat.lt_succ_diag_r.
  - destruct LS as (c1 & RL & P). exists c1. rewrite RL. auto.
  - exact LS.
Qed.

(* every call of try_read: no panic site, no fuel exhaustion, the invariant is kept *)
Theorem try_read_total c ph ev :
  CInv c ph -> ev_ok c ev ->
  exists c' res sys ph', try_read BUF c ev = (c', res, sys) /\ CInv c' ph' /\ (forall s, res <> RdPanic s)
    /\ sys = true /\ c_pmax c' = c_pmax c /\ c_rbuf c' = c_rbuf c.
Proof.
  intros I Hok. pose proof I as [G St]. pose proof (stuck_short _ _ _ St) as Hshort.
  assert (E : (BUF <=? length (c_win c))%nat = false) by (apply Nat.leb_gt; lia).
  assert (AF : forall fds, CInv (add_files c fds) ph).
  { intros fds. split; [eapply Good_parser_fields; eauto|exact St]. }
  destruct ev as [bs fds|fds|errno].
  - destruct bs as [|b bs'].
    + unfold try_read. rewrite E. do 4 eexists. split; [reflexivity|]. split; [apply AF|].
      split; [intros s; discriminate|auto].
    + pose proof (try_read_data c ph (b :: bs') fds I ltac:(discriminate) Hok) as T.
      destruct (runT (c_pmax c) ph (c_win c ++ b :: bs') []) as [ph' carry outs|outs e|].
      * destruct T as (c' & T & I' & _ & P). exists c', RdOk, true, ph'.
        split; [exact T|]. split; [exact I'|]. split; [intros s; discriminate|].
        split; [reflexivity|]. split; [apply P|apply P].
      * destruct T as (c1 & T & P). exists (reset_parser c1), (RdErr (ParseError e)), true, PLine.
        split; [exact T|]. split; [apply CInv_reset|]. split; [intros s; discriminate|].
        split; [reflexivity|]. split; [apply P|apply P].
      * destruct T.
  - unfold try_read. rewrite E. do 4 eexists. split; [reflexivity|]. split; [apply AF|].
    split; [intros s; discriminate|auto].
  - unfold try_read. rewrite E. do 4 eexists. split; [reflexivity|]. split; [exact I|].
    split; [intros s; discriminate|auto].
Qed.

(* ---------- sequences of reads ---------- *)
Definition core (r : request) : request_line * headers * option bytes := (r_line r, r_headers r, r_body r).

Fixpoint ocores (outs : list out) : list (request_line * headers * option bytes) :=
  match outs with
  | [] => []
  | ORequest rl h b :: r => (rl, h, b) :: ocores r
  | OContinue _ :: r => ocores r
  end.

Lemma cores_reqs_of outs files : map core (reqs_of outs files) = ocores outs.
Proof.
  revert files; induction outs as [|o outs IH]; intros files; [reflexivity|].
  destruct o; cbn; rewrite ?IH; reflexivity.
Qed.

Lemma ocores_app a b : ocores (a ++ b) = ocores a ++ ocores b.
Proof. induction a as [|o a IH]; [reflexivity|]. destruct o; cbn; rewrite IH; reflexivity. Qed.

(* run a list of read events; stop at the first parse error *)
Fixpoint reads (c : conn) (evs : list read_ev) : conn * option req_err :=
  match evs with
  | [] => (c, None)
  | ev :: r =>
    let '(c', res, _) := try_read BUF c ev in
    match res with
    | RdErr (ParseError e) => (c', Some e)
    | _ => reads c' r
    end
  end.

Fixpoint evs_ok (c : conn) (evs : list read_ev) : Prop :=
  match evs with
  | [] => True
  | ev :: r => ev_ok c ev /\ evs_ok (fst (fst (try_read BUF c ev))) r
  end.

Definition chunks (evs : list read_ev) : list bytes :=
  flat_map (fun ev => match ev with RData (b :: bs) _ => [b :: bs] | _ => [] end) evs.

Lemma feed_acc pm : forall ks ph carry acc,
  feed BUF pm ph carry acc ks =
  match feed BUF pm ph carry [] ks with
  | RMore ph' c o => RMore ph' c (acc ++ o)
  | RErr o e => RErr (acc ++ o) e
  | ROutOfFuel => ROutOfFuel
  end.
Proof.
  induction ks as [|k ks IH]; intros ph carry acc; cbn [feed].
  - rewrite app_nil_r. reflexivity.
  - rewrite (runT_acc' pm ph (carry ++ k) acc).
    destruct (runT pm ph (carry ++ k) []) as [ph' c o| |]; try reflexivity.
    rewrite (IH ph' c (acc ++ o)). rewrite (IH ph' c o).
    destruct (feed BUF pm ph' c [] ks); rewrite ?app_assoc; reflexivity.
Qed.

(* what a sequence of reads delivers is what the specification delivers on the same chunks *)
Theorem reads_refine : forall evs c ph,
  CInv c ph -> evs_ok c evs ->
  match feed BUF (c_pmax c) ph (c_win c) [] (chunks evs) with
  | RMore ph' carry outs =>
      snd (reads c evs) = None /\ CInv (fst (reads c evs)) ph' /\ c_win (fst (reads c evs)) = carry
      /\ map core (c_parsed (fst (reads c evs))) = map core (c_parsed c) ++ ocores outs
      /\ c_rq (fst (reads c evs)) = c_rq c ++ conts_of outs
      /\ c_pmax (fst (reads c evs)) = c_pmax c
  | RErr outs e =>
      snd (reads c evs) = Some e
      /\ map core (c_parsed (fst (reads c evs))) = map core (c_parsed c) ++ ocores outs
      /\ c_rq (fst (reads c evs)) = c_rq c ++ conts_of outs
  | ROutOfFuel => False
  end.
Proof.
  induction evs as [|ev evs IH]; intros c ph I Hok.
  - cbn. rewrite !app_nil_r. auto 6.
  - destruct Hok as [Hev Hrest]. pose proof I as [G St]. pose proof (stuck_short _ _ _ St) as Hshort.
    assert (E : (BUF <=? length (c_win c))%nat = false) by (apply Nat.leb_gt; lia).
    assert (AF : forall fds, CInv (add_files c fds) ph).
    { intros fds. split; [eapply Good_parser_fields; eauto|exact St]. }
    (* events that bring no data leave the parser where it is *)
    assert (Nodata : forall c1 res, try_read BUF c ev = (c1, res, true) ->
              (forall e, res <> RdErr (ParseError e)) -> CInv c1 ph -> c_win c1 = c_win c ->
              c_parsed c1 = c_parsed c -> c_rq c1 = c_rq c -> c_pmax c1 = c_pmax c ->
              chunks (ev :: evs) = chunks evs ->
              match feed BUF (c_pmax c) ph (c_win c) [] (chunks (ev :: evs)) with
              | RMore ph' carry outs =>
                  snd (reads c (ev :: evs)) = None /\ CInv (fst (reads c (ev :: evs))) ph'
                  /\ c_win (fst (reads c (ev :: evs))) = carry
                  /\ map core (c_parsed (fst (reads c (ev :: evs)))) = map core (c_parsed c) ++ ocores outs
                  /\ c_rq (fst (reads c (ev :: evs))) = c_rq c ++ conts_of outs
                  /\ c_pmax (fst (reads c (ev :: evs))) = c_pmax c
              | RErr outs e =>
                  snd (reads c (ev :: evs)) = Some e
                  /\ map core (c_parsed (fst (reads c (ev :: evs)))) = map core (c_parsed c) ++ ocores outs
                  /\ c_rq (fst (reads c (ev :: evs))) = c_rq c ++ conts_of outs
              | ROutOfFuel => False
              end).
    { intros c1 res T Hres I1 W1 P1 Q1 M1 Ch. rewrite Ch.
      assert (R : reads c (ev :: evs) = reads c1 evs).
      { cbn [reads]. rewrite T. destruct res as [|e0|s]; try reflexivity.
        destruct e0; try reflexivity. exfalso. eapply Hres. reflexivity. }
      rewrite R. cbn [evs_ok] in Hrest. rewrite T in Hrest. cbn [fst] in Hrest.
      specialize (IH c1 ph I1 Hrest). rewrite M1, W1, P1, Q1 in IH. exact IH. }
    destruct ev as [bs fds|fds|errno].
    + destruct bs as [|b bs'].
      * eapply (Nodata (add_files c fds) (RdErr ConnectionClosed)); try reflexivity.
        -- unfold try_read. rewrite E. reflexivity.
        -- intros e; discriminate.
        -- apply AF.
      * cbn [chunks flat_map app]. fold (chunks evs). cbn [feed].
        pose proof (try_read_data c ph (b :: bs') fds I ltac:(discriminate) Hev) as T.
        destruct (runT (c_pmax c) ph (c_win c ++ b :: bs') []) as [ph' carry outs|outs e|] eqn:R.
        -- destruct T as (c' & T & I' & W & P).
           assert (Hpm : c_pmax c' = c_pmax c) by apply P.
           cbn [evs_ok] in Hrest. rewrite T in Hrest. cbn [fst] in Hrest.
           specialize (IH c' ph' I' Hrest). rewrite Hpm, W in IH.
           rewrite feed_acc.
           assert (RR : reads c (RData (b :: bs') fds :: evs) = reads c' evs) by (cbn [reads]; rewrite T; reflexivity).
           rewrite RR.
           assert (Pp : map core (c_parsed c') = map core (c_parsed c) ++ ocores outs).
           { destruct P as [A _ _ _ _]. rewrite A, map_app, cores_reqs_of. reflexivity. }
           assert (Pq : c_rq c' = c_rq c ++ conts_of outs).
           { destruct P as [_ A _ _ _]. exact A. }
           destruct (feed BUF (c_pmax c) ph' carry [] (chunks evs)) as [ph2 c2 o2|o2 e2|].
           ++ destruct IH as (A1 & A2 & A3 & A4 & A5 & A6).
              split; [exact A1|]. split; [exact A2|]. split; [exact A3|].
              split; [rewrite A4, Pp, ocores_app, app_assoc; reflexivity|].
              split; [rewrite A5, Pq, conts_of_app, app_assoc; reflexivity|congruence].
           ++ destruct IH as (A1 & A4 & A5).
              split; [exact A1|].
              split; [rewrite A4, Pp, ocores_app, app_assoc; reflexivity|].
              rewrite A5, Pq, conts_of_app, app_assoc; reflexivity.
           ++ exact IH.
        -- destruct T as (c1 & T & P). cbn [reads]. rewrite T. cbn [fst snd].
           split; [reflexivity|].
           destruct P as [A1 A2 _ _ _]. cbn [reset_parser c_parsed c_rq].
           split; [rewrite A1, map_app, cores_reqs_of; reflexivity|exact A2].
        -- exact T.
    + eapply (Nodata (add_files c fds) (RdErr ConnectionClosed)); try reflexivity.
      * unfold try_read. rewrite E. reflexivity.
      * intros e; discriminate.
      * apply AF.
    + eapply (Nodata c (RdErr (StreamReadError errno))); try reflexivity.
      * unfold try_read. rewrite E. reflexivity.
      * intros e; discriminate.
      * exact I.
Qed.

(* ---------- C01: whole-stream equivalence and schedule independence ---------- *)
Definition new_conn (pm : N) : conn := set_payload_max_size conn_new pm.

Definition observe (r : conn * option req_err) :=
  (map core (c_parsed (fst r)), c_rq (fst r), snd r).

Definition spec_observe (r : rres) :=
  match r with
  | RMore _ _ outs => (ocores outs, conts_of outs, @None req_err)
  | RErr outs e => (ocores outs, conts_of outs, Some e)
  | ROutOfFuel => ([], [], None)
  end.

Theorem reads_whole_stream pm evs :
  evs_ok (new_conn pm) evs ->
  observe (reads (new_conn pm) evs) = spec_observe (parse_stream BUF pm (concat (chunks evs))).
Proof.
  intros Hok. pose proof (reads_refine evs (new_conn pm) PLine (CInv_new pm) Hok) as R.
  change (c_pmax (new_conn pm)) with pm in R. change (c_win (new_conn pm)) with (@nil N) in R.
  rewrite (feed_whole_stream BUF pm (chunks evs)) in R by lia.
  unfold observe, spec_observe.
  destruct (parse_stream BUF pm (concat (chunks evs))) as [ph' carry outs|outs e|].
  - destruct R as (A1 & _ & _ & A4 & A5 & _). rewrite A1, A4, A5. reflexivity.
  - destruct R as (A1 & A4 & A5). rewrite A1, A4, A5. reflexivity.
  - destruct R.
Qed.

Theorem reads_schedule_independent pm evs1 evs2 :
  evs_ok (new_conn pm) evs1 -> evs_ok (new_conn pm) evs2 ->
  concat (chunks evs1) = concat (chunks evs2) ->
  observe (reads (new_conn pm) evs1) = observe (reads (new_conn pm) evs2).
Proof. intros H1 H2 E. rewrite !reads_whole_stream by assumption. rewrite E. reflexivity. Qed.

(* a read that returns no data leaves the connection as it was *)
Lemma try_read_fail c ph errno : CInv c ph -> try_read BUF c (RFail errno) = (c, RdErr (StreamReadError errno), true).
Proof.
  intros [G St]. pose proof (stuck_short _ _ _ St). unfold try_read.
  assert (E : (BUF <=? length (c_win c))%nat = false) by (apply Nat.leb_gt; lia). rewrite E. reflexivity.
Qed.

(* ---------- C11: after a parse error the parser is as new ---------- *)
Definition parser_view (c : conn) :=
  (c_state c, c_win c, c_pending c, c_body_vec c, c_body_left c, c_files c).

Theorem parse_error_resets c ev c' e sys :
  try_read BUF c ev = (c', RdErr (ParseError e), sys) -> parser_view c' = parser_view (new_conn (c_pmax c')).
Proof.
  unfold try_read. destruct (BUF <=? length (c_win c))%nat.
  - intros H; inversion H; subst. reflexivity.
  - destruct ev as [bs fds|fds|errno]; try (intros H; inversion H; fail).
    destruct bs as [|b bs']; [intros H; inversion H|].
    destruct (ConnImpl.read_loop BUF _ _ _ _); intros H; inversion H; subst. reflexivity.
Qed.

Theorem after_error_as_new c ev c' e sys evs :
  try_read BUF c ev = (c', RdErr (ParseError e), sys) ->
  evs_ok c' evs -> evs_ok (new_conn (c_pmax c')) evs ->
  exists outs,
    map core (c_parsed (fst (reads c' evs))) = map core (c_parsed c') ++ outs /\
    map core (c_parsed (fst (reads (new_conn (c_pmax c')) evs))) = outs /\
    (exists rq, c_rq (fst (reads c' evs)) = c_rq c' ++ rq /\ c_rq (fst (reads (new_conn (c_pmax c')) evs)) = rq) /\
    snd (reads c' evs) = snd (reads (new_conn (c_pmax c')) evs).
Proof.
  intros T H1 H2.
  assert (Hc : exists c1, c' = reset_parser c1).
  { revert T. unfold try_read. destruct (BUF <=? length (c_win c))%nat.
    - intros H; inversion H; eauto.
    - destruct ev as [bs fds|fds|errno]; try (intros H; inversion H; fail).
      destruct bs as [|b bs']; [intros H; inversion H|].
      destruct (ConnImpl.read_loop BUF _ _ _ _); intros H; inversion H; eauto. }
  destruct Hc as [c1 ->].
  pose proof (reads_refine evs (reset_parser c1) PLine (CInv_reset c1) H1) as R1.
  pose proof (reads_refine evs (new_conn (c_pmax (reset_parser c1))) PLine (CInv_new _) H2) as R2.
  change (c_win (reset_parser c1)) with (@nil N) in R1.
  change (c_win (new_conn (c_pmax (reset_parser c1)))) with (@nil N) in R2.
  change (c_pmax (new_conn (c_pmax (reset_parser c1)))) with (c_pmax (reset_parser c1)) in R2.
  destruct (feed BUF (c_pmax (reset_parser c1)) PLine [] [] (chunks evs)) as [ph' carry outs|outs e'|].
  - destruct R1 as (A1 & _ & _ & A4 & A5 & _). destruct R2 as (B1 & _ & _ & B4 & B5 & _).
    exists (ocores outs). split; [exact A4|]. split; [exact B4|]. split; [exists (conts_of outs); auto|congruence].
  - destruct R1 as (A1 & A4 & A5). destruct R2 as (B1 & B4 & B5).
    exists (ocores outs). split; [exact A4|]. split; [exact B4|]. split; [exists (conts_of outs); auto|congruence].
  - destruct R1.
Qed.

(* ---------- C12: descriptors ---------- *)
Lemma files_split outs fs : flat_map r_files (reqs_of outs fs) ++ files_after outs fs = fs.
Proof.
  revert fs; induction outs as [|o outs IH]; intros fs; [reflexivity|].
  destruct o as [rl h b|v]; cbn [reqs_of flat_map r_files].
  - unfold files_after. cbn [has_request]. rewrite app_nil_r.
    specialize (IH []). unfold files_after in IH.
    assert (E : flat_map r_files (reqs_of outs []) = []).
    { destruct (has_request outs); [rewrite app_nil_r in IH; exact IH|].
      destruct (flat_map r_files (reqs_of outs [])); [reflexivity|discriminate]. }
    rewrite E, app_nil_r. reflexivity.
  - apply IH.
Qed.

Definition fds_of (ev : read_ev) : list nat :=
  match ev with RData _ fds => fds | REof fds => fds | RFail _ => [] end.

(* without a parse error: descriptors delivered with requests ++ descriptors still held =
   descriptors received, in arrival order *)
Theorem files_conservation : forall evs c ph,
  CInv c ph -> evs_ok c evs -> snd (reads c evs) = None ->
  flat_map r_files (c_parsed (fst (reads c evs))) ++ c_files (fst (reads c evs))
  = flat_map r_files (c_parsed c) ++ c_files c ++ flat_map fds_of evs.
Proof.
  induction evs as [|ev evs IH]; intros c ph I Hok Hnone.
  - cbn. rewrite app_nil_r. reflexivity.
  - destruct Hok as [Hev Hrest]. pose proof I as [G St]. pose proof (stuck_short _ _ _ St) as Hshort.
    assert (E : (BUF <=? length (c_win c))%nat = false) by (apply Nat.leb_gt; lia).
    assert (AF : forall fds, CInv (add_files c fds) ph).
    { intros fds. split; [eapply Good_parser_fields; eauto|exact St]. }
    assert (Simple : forall fds, try_read BUF c ev = (add_files c fds, RdErr ConnectionClosed, true) ->
               fds_of ev = fds ->
               flat_map r_files (c_parsed (fst (reads c (ev :: evs)))) ++ c_files (fst (reads c (ev :: evs)))
               = flat_map r_files (c_parsed c) ++ c_files c ++ flat_map fds_of (ev :: evs)).
    { intros fds T Hf. cbn [reads] in Hnone |- *. rewrite T in Hnone |- *.
      cbn [evs_ok] in Hrest. rewrite T in Hrest. cbn [fst] in Hrest.
      rewrite (IH _ ph (AF fds) Hrest Hnone). cbn [add_files c_parsed c_files flat_map]. rewrite Hf.
      rewrite <- !app_assoc. reflexivity. }
    destruct ev as [bs fds|fds|errno].
    + destruct bs as [|b bs'].
      * apply (Simple fds); [unfold try_read; rewrite E; reflexivity|reflexivity].
      * pose proof (try_read_data c ph (b :: bs') fds I ltac:(discriminate) Hev) as T.
        destruct (runT (c_pmax c) ph (c_win c ++ b :: bs') []) as [ph' carry outs|outs e|].
        -- destruct T as (c' & T & I' & W & P).
           cbn [reads] in Hnone |- *. rewrite T in Hnone |- *.
           cbn [evs_ok] in Hrest. rewrite T in Hrest. cbn [fst] in Hrest.
           rewrite (IH _ ph' I' Hrest Hnone).
           destruct P as [A1 _ A3 _ _]. rewrite A1, A3. cbn [add_files c_parsed c_files flat_map fds_of].
           rewrite flat_map_app. rewrite <- !app_assoc. f_equal.
           rewrite (app_assoc (flat_map r_files (reqs_of outs (c_files c ++ fds)))).
           rewrite files_split. rewrite <- !app_assoc. reflexivity.
        -- destruct T as (c1 & T & P). cbn [reads] in Hnone. rewrite T in Hnone. discriminate.
        -- destruct T.
    + apply (Simple fds); [unfold try_read; rewrite E; reflexivity|reflexivity].
    + cbn [reads] in Hnone |- *. rewrite (try_read_fail c ph errno I) in Hnone |- *.
      cbn [evs_ok] in Hrest. rewrite (try_read_fail c ph errno I) in Hrest. cbn [fst] in Hrest.
      rewrite (IH _ ph I Hrest Hnone). reflexivity.
Qed.

(* the descriptors pending at a read (held before ++ received with it) all go to the first
   request that read completes; later requests of the same read get none *)
Theorem files_attachment c ph bs fds :
  CInv c ph -> bs <> [] -> (length (c_win c) + length bs <= BUF)%nat ->
  forall c' sys, try_read BUF c (RData bs fds) = (c', RdOk, sys) ->
  exists outs, c_parsed c' = c_parsed c ++ reqs_of outs (c_files c ++ fds)
               /\ c_files c' = files_after outs (c_files c ++ fds).
Proof.
  intros I Hne Hlen c' sys T. pose proof (try_read_data c ph bs fds I Hne Hlen) as D.
  destruct (runT (c_pmax c) ph (c_win c ++ bs) []) as [ph' carry outs|outs e|].
  - destruct D as (c2 & T2 & _ & _ & P). rewrite T in T2. inversion T2; subst.
    exists outs. destruct P as [A1 _ A3 _ _]. auto.
  - destruct D as (c1 & T2 & _). rewrite T in T2. discriminate.
  - destruct D.
Qed.

End Sim.
