(* The executable server interpreter of run/Run.v (the very function the correspondence run executes
   against the real server) never leaves the world invariant: after ANY list of operations --
   connects, sends, closes, shutdowns, client reads, polls, responses, flushes, kill, limit changes --
   the world satisfies Inv with the tokens the interpreter holds.  So the premises of the server
   theorems (C07-C10, C18) hold at every step of every executed history, and the model's own runs
   never reach EPanic / EInvalidWrite / EUnderflow. *)
From MH Require Export proofs.CalmHistory_proofs run.Run.
From Coq Require Import Lia.

(* ---------- token lists up to order ---------- *)
Definition same_toks (a b : list tok) : Prop :=
  (forall t, In t a <-> In t b) /\ forall g, count_g g a = count_g g b.

Lemma same_toks_refl a : same_toks a a.
Proof. split; [tauto|reflexivity]. Qed.
Lemma same_toks_trans a b c : same_toks a b -> same_toks b c -> same_toks a c.
Proof. intros [A1 A2] [B1 B2]. split; [intros t; rewrite A1; apply B1|intros g; rewrite A2; apply B2]. Qed.
Lemma same_toks_app a a' b b' : same_toks a a' -> same_toks b b' -> same_toks (a ++ b) (a' ++ b').
Proof.
  intros [A1 A2] [B1 B2]. split.
  - intros t. rewrite !in_app_iff, A1, B1. tauto.
  - intros g. rewrite !count_g_app, A2, B2. reflexivity.
Qed.
Lemma same_toks_comm a b : same_toks (a ++ b) (b ++ a).
Proof.
  split; [intros t; rewrite !in_app_iff; tauto|intros g; rewrite !count_g_app; lia].
Qed.

Section RI.
Variable BUF : nat.
Hypothesis BUF_min : (2 <= BUF)%nat.
Hypothesis BUF_u32 : N.of_nat BUF < U32_LIMIT.
Notation Inv := (Inv BUF).

Lemma Inv_same_toks w a b : same_toks a b -> Inv w a -> Inv w b.
Proof.
  intros [S1 S2] [A1 A2 A3 A4 A5 A6 A7]. constructor; auto.
  - intros fd g Hin. apply A5. apply S1. exact Hin.
  - intros fd x HL. rewrite (A6 _ _ HL), S2. reflexivity.
Qed.

End RI.

(* ---------- sorting the yields does not change them as a multiset ---------- *)
Lemma ins_by_key_in p l x : In x (ins_by_key p l) <-> x = p \/ In x l.
Proof.
  induction l as [|q r IH]; cbn [ins_by_key]; [cbn; intuition|].
  destruct (bleb (fst p) (fst q)); cbn [In]; [intuition|]. rewrite IH. cbn [In]. intuition.
Qed.
Lemma ins_by_key_filter f p l :
  length (filter f (map snd (ins_by_key p l))) = length (filter f (snd p :: map snd l)).
Proof.
  induction l as [|q r IH]; cbn [ins_by_key]; [reflexivity|].
  destruct (bleb (fst p) (fst q)); [reflexivity|].
  cbn [map filter] in *. destruct (f (snd q)); destruct (f (snd p)); cbn [length] in *; lia.
Qed.

Lemma sort_yields_same ys : same_toks (ytoks (map snd (sort_yields ys))) (ytoks ys).
Proof.
  unfold sort_yields. induction ys as [|y ys IH]; [apply same_toks_refl|].
  cbn [map fold_right]. set (sorted := fold_right ins_by_key [] (map (fun y0 => (s_req (snd y0), y0)) ys)) in *.
  destruct IH as [I1 I2]. split.
  - intros t. unfold ytoks in *. rewrite !in_map_iff. split.
    + intros (z & E & Hin). apply in_map_iff in Hin. destruct Hin as (pz & Ez & Hin). apply ins_by_key_in in Hin.
      destruct Hin as [->|Hin].
      * cbn in Ez. subst z. exists y. split; [exact E|left; reflexivity].
      * assert (Hz : In t (map (fun y0 => (fst (fst y0), snd (fst y0))) (map snd sorted))).
        { apply in_map_iff. exists z. split; [exact E|]. apply in_map_iff. exists pz. auto. }
        apply I1 in Hz. apply in_map_iff in Hz. destruct Hz as (z' & E' & Hin'). exists z'. split; [exact E'|right; exact Hin'].
    + intros (z & E & [<-|Hin]).
      * exists y. split; [exact E|]. apply in_map_iff. exists (s_req (snd y), y). split; [reflexivity|]. apply ins_by_key_in. left. reflexivity.
      * assert (Hz : In t (map (fun y0 => (fst (fst y0), snd (fst y0))) ys)) by (apply in_map_iff; eauto).
        apply I1 in Hz. apply in_map_iff in Hz. destruct Hz as (z' & E' & Hin'). exists z'. split; [exact E'|].
        apply in_map_iff in Hin'. destruct Hin' as (pz & Ez & Hin'). apply in_map_iff. exists pz. split; [exact Ez|].
        apply ins_by_key_in. right. exact Hin'.
  - intros g. unfold count_g, ytoks in *.
    specialize (I2 g).
    assert (F : forall l : list yield,
              length (filter (fun t => Nat.eqb (snd t) g) (map (fun y0 : yield => (fst (fst y0), snd (fst y0))) l))
              = length (filter (fun y0 : yield => Nat.eqb (snd (fst y0)) g) l)).
    { induction l as [|a l IHl]; [reflexivity|]. cbn [map filter snd]. destruct (Nat.eqb (snd (fst a)) g); cbn [length]; rewrite IHl; reflexivity. }
    rewrite !F in *. rewrite ins_by_key_filter. change (snd (s_req (snd y), y)) with y.
    cbn [filter]. destruct (Nat.eqb (snd (fst y)) g); cbn [length]; [f_equal|]; exact I2.
Qed.

(* ---------- removing one token ---------- *)
Lemma nth_error_split {A} (l : list A) i x : nth_error l i = Some x -> l = firstn i l ++ x :: skipn (S i) l.
Proof.
  revert i; induction l as [|a l IH]; intros [|i]; cbn; try discriminate.
  - intros H; inversion H; reflexivity.
  - intros H. f_equal. apply IH. exact H.
Qed.
Lemma remove_nth_split {A} (l : list A) i : remove_nth i l = firstn i l ++ skipn (S i) l.
Proof.
  revert i; induction l as [|a l IH]; intros [|i]; cbn; try reflexivity. f_equal. apply IH.
Qed.

Lemma flush_fold_tokens : forall l w,
  w_tokens (fold_left flush_one l w) = w_tokens w /\ w_nextg (fold_left flush_one l w) = w_nextg w /\
  w_killed (fold_left flush_one l w) = w_killed w /\ w_limit (fold_left flush_one l w) = w_limit w.
Proof.
  induction l as [|p t IHt]; intros w; cbn [fold_left]; [auto|].
  destruct (IHt (flush_one w p)) as (A1 & A2 & A3 & A4). rewrite A1, A2, A3, A4.
  unfold flush_one. destruct p as [g x]. destruct (flush_conn _ x _ []) as [y sent]. cbn. auto.
Qed.
Lemma flush_tokens w : w_tokens (flush w) = w_tokens w /\ w_nextg (flush w) = w_nextg w /\ w_killed (flush w) = w_killed w /\ w_limit (flush w) = w_limit w.
Proof. apply flush_fold_tokens. Qed.



(* ---------- the interpreter's operations, decoded ---------- *)
Inductive sop :=
| SConnect (c : nat) | SSend (c : nat) (bs : bytes) | SClose (c : nat) | SShutWr (c : nat) | SShutRd (c : nat)
| SDrain (c : nat) | SPoll | SRespond (k : N) (r : arg) | SEcho (k : N) | SFlush | SKill | SLimit (n : N)
| SPollMany (k : N) | SBad.

Definition decode_sop (op : arg) : sop :=
  match op with
  | AL [AN 0; AN c] => SConnect (N.to_nat c)
  | AL [AN 1; AN c; AB bs] => SSend (N.to_nat c) bs
  | AL [AN 2; AN c] => SClose (N.to_nat c)
  | AL [AN 3; AN c] => SShutWr (N.to_nat c)
  | AL [AN 4; AN c] => SShutRd (N.to_nat c)
  | AL [AN 5; AN c] => SDrain (N.to_nat c)
  | AL [AN 6] => SPoll
  | AL [AN 7; AN k; r] => SRespond k r
  | AL [AN 12; AN k] => SEcho k
  | AL [AN 8] => SFlush
  | AL [AN 9] => SKill
  | AL [AN 10; AN n] => SLimit n
  | AL [AN 11; AN k] => SPollMany k
  | _ => SBad
  end.

Section RI2.
Variable BUF : nat.

Definition respond_at (pre : bytes) (w : world) (k : N) (mk : request -> response) : world * list bytes :=
  match w_tokens w with
  | [] => (w, [pre ++ B"resp none"])
  | _ =>
    let idx := N.to_nat (k mod N.of_nat (length (w_tokens w))) in
    match nth_error (w_tokens w) idx with
    | None => (w, [pre ++ B"resp none"])
    | Some (g, _, rq) =>
      let w1 := Server.mkW (w_clients w) (w_conns w) (w_backlog w) (remove_nth idx (w_tokens w))
                    (w_nextg w) (w_limit w) (w_killed w) in
      match respond w1 g (mk rq) with
      | inl w2 => (w2, [pre ++ B"resp Ok"])
      | inr e => (w1, [pre ++ B"resp Err(" ++ s_serr e ++ B")"])
      end
    end
  end.

Definition run_sop (id : N) (i : nat) (has_kill : bool) (w : world) (o : sop) : world * list bytes :=
  let pre := B"srv " ++ dec id ++ B" " ++ decn i ++ B" " in
  match o with
  | SConnect c =>
      (Server.mkW (w_clients w ++ [(c, mkCl true false false [] [] InBacklog)]) (w_conns w) (w_backlog w ++ [c])
           (w_tokens w) (w_nextg w) (w_limit w) (w_killed w), [pre ++ B"conn " ++ decn c])
  | SSend c bs =>
      let cl := client_of w c in
      let ok := k_open cl && negb (k_shut_wr cl) && match k_place cl with Gone => false | _ => true end in
      if ok then
        (set_client w c (mkCl (k_open cl) (k_shut_wr cl) (k_shut_rd cl) (k_tosrv cl ++ bs) (k_rx cl) (k_place cl)),
         [pre ++ B"send " ++ decn c ++ B" " ++ decn (length bs)])
      else (w, [pre ++ B"send " ++ decn c ++ B" 0"])
  | SClose c =>
      let cl := client_of w c in
      (set_client w c (mkCl false (k_shut_wr cl) (k_shut_rd cl) (k_tosrv cl) [] (k_place cl)), [pre ++ B"close " ++ decn c])
  | SShutWr c =>
      let cl := client_of w c in
      (set_client w c (mkCl (k_open cl) true (k_shut_rd cl) (k_tosrv cl) (k_rx cl) (k_place cl)), [pre ++ B"shutwr " ++ decn c])
  | SShutRd c =>
      let cl := client_of w c in
      (set_client w c (mkCl (k_open cl) (k_shut_wr cl) true (k_tosrv cl) (k_rx cl) (k_place cl)), [pre ++ B"shutrd " ++ decn c])
  | SDrain c =>
      let cl := client_of w c in
      (set_client w c (mkCl (k_open cl) (k_shut_wr cl) (k_shut_rd cl) (k_tosrv cl) [] (k_place cl)),
       [pre ++ B"drain " ++ decn c ++ B" " ++ hex (k_rx cl) ++ B" "
        ++ match k_place cl with Gone => B"eof" | _ => B"open" end])
  | SPoll => let '(w', line) := srv_poll BUF pre w in (w', [line])
  | SRespond k r => respond_at pre w k (fun _ => response_of r)
  | SEcho k => respond_at pre w k (fun rq => apply_op (response_new Http11 OK) (SetBody (B"echo:" ++ rl_uri (r_line rq))))
  | SFlush => (flush w, [pre ++ B"flush"])
  | SKill =>
      if has_kill then
        (Server.mkW (w_clients w) (w_conns w) (w_backlog w) (w_tokens w) (w_nextg w) (w_limit w) true, [pre ++ B"kill"])
      else (w, [pre ++ B"kill"])
  | SLimit n =>
      (Server.mkW (w_clients w) (w_conns w) (w_backlog w) (w_tokens w) (w_nextg w) n (w_killed w), [pre ++ B"limit"])
  | SPollMany k => srv_poll_many BUF (N.to_nat k) pre w
  | SBad => (w, [pre ++ B"?"])
  end.

(* the interpreter of run/Run.v is exactly this, operation by operation *)
Lemma run_srv_op_sop id i hk w op : run_srv_op BUF id i hk w op = run_sop id i hk w (decode_sop op).
Proof.
  unfold run_srv_op, decode_sop, run_sop, respond_at.
  repeat match goal with
         | |- context [match ?x with _ => _ end] => is_var x; destruct x
         end; reflexivity.
Qed.
End RI2.

Section RI3.
Variable BUF : nat.
Hypothesis BUF_min : (2 <= BUF)%nat.
Hypothesis BUF_u32 : N.of_nat BUF < U32_LIMIT.
Notation Inv := (Inv BUF).

(* the invariant of the interpreter's state: Inv with the tokens the interpreter holds *)
Definition RI (w : world) : Prop := Inv w (ytoks (w_tokens w)).

Lemma handle_event_tokens w e w' ys : handle_event BUF w e = inl (w', ys) -> w_tokens w' = w_tokens w.
Proof.
  destruct e as [fd|fd kk|fd kk|nf|]; cbn [Server.handle_event].
  - destruct (alookup fd (w_conns w)); [|discriminate]. intros H; inversion H; reflexivity.
  - destruct (alookup fd (w_conns w)) as [x|]; [|discriminate]. destruct (cc_read BUF x _) as [[y rs]|]; [|discriminate].
    intros H; inversion H; reflexivity.
  - destruct (alookup fd (w_conns w)) as [x|]; [|discriminate]. destruct (cc_write x _ _) as [[y s]|]; [|discriminate].
    intros H; inversion H; reflexivity.
  - destruct (w_backlog w); [intros H; inversion H; reflexivity|].
    destruct (Nat.eqb _ _); intros H; inversion H; reflexivity.
  - discriminate.
Qed.

Lemma handle_all_tokens : forall es w acc w' ys, handle_all BUF w es acc = inl (w', ys) -> w_tokens w' = w_tokens w.
Proof.
  induction es as [|e t IH]; intros w acc w' ys; cbn [Server.handle_all]; [intros H; inversion H; reflexivity|].
  destruct (handle_event BUF w e) as [[w1 ys1]|] eqn:Hh; [|discriminate]. intros H.
  rewrite (IH _ _ _ _ H). eapply handle_event_tokens; eauto.
Qed.

Lemma poll_tokens w w' ys : poll BUF w = PYield w' ys -> w_tokens w' = w_tokens w.
Proof.
  unfold poll, Server.poll_with. destruct (ready_events w); [discriminate|].
  destruct (handle_all BUF w _ []) as [[w1 ys1]|] eqn:Hh; [|discriminate]. intros H; inversion H; subst.
  cbn [sweep w_tokens]. eapply handle_all_tokens; eauto.
Qed.

Lemma srv_poll_RI pre w : RI w -> RI (fst (srv_poll BUF pre w)).
Proof.
  intros HI. unfold srv_poll. pose proof (poll_outcomes BUF BUF_min BUF_u32 w _ HI) as PO.
  destruct (poll BUF w) as [|w' ys|e] eqn:P; cbn [fst]; [exact HI| |exact HI].
  destruct PO as [I' _]. unfold RI. cbn [w_tokens].
  rewrite (poll_tokens _ _ _ P).
  assert (E : ytoks (w_tokens w ++ map (fun p => snd p) (sort_yields ys)) = ytoks (w_tokens w) ++ ytoks (map snd (sort_yields ys)))
    by (unfold ytoks; rewrite map_app; reflexivity).
  rewrite E.
  refine (Inv_env BUF w' _ _ _ _ _); [reflexivity|reflexivity|].
  eapply Inv_same_toks; [|exact I'].
  eapply same_toks_trans; [apply same_toks_comm|]. apply same_toks_app; [apply same_toks_refl|].
  destruct (sort_yields_same ys) as [S1 S2]. split; [intros t; symmetry; apply S1|intros g; symmetry; apply S2].
Qed.

Lemma srv_poll_many_RI : forall fuel pre w, RI w -> RI (fst (srv_poll_many BUF fuel pre w)).
Proof.
  induction fuel as [|f IH]; intros pre w HI; cbn [srv_poll_many]; [exact HI|].
  pose proof (srv_poll_RI pre w HI) as H1. destruct (srv_poll BUF pre w) as [w' line]. cbn [fst] in H1.
  destruct (poll BUF w); [exact H1| |exact H1].
  specialize (IH pre w' H1). destruct (srv_poll_many BUF f pre w') as [w'' ls]. exact IH.
Qed.

Lemma respond_at_RI pre w k mk : RI w -> RI (fst (respond_at pre w k mk)).
Proof.
  intros HI. unfold respond_at. destruct (w_tokens w) as [|t0 ts] eqn:Tk; [exact HI|]. rewrite <- Tk.
  set (idx := N.to_nat (k mod N.of_nat (length (w_tokens w)))).
  destruct (nth_error (w_tokens w) idx) as [[[g gi] rq]|] eqn:Nth; [|exact HI].
  set (w1 := Server.mkW (w_clients w) (w_conns w) (w_backlog w) (remove_nth idx (w_tokens w)) (w_nextg w) (w_limit w) (w_killed w)).
  pose proof (nth_error_split _ _ _ Nth) as Sp.
  assert (I1 : Inv w1 (ytoks (firstn idx (w_tokens w)) ++ (g, gi) :: ytoks (skipn (S idx) (w_tokens w)))).
  { refine (Inv_env BUF w _ w1 _ _ _); [reflexivity|reflexivity|].
    unfold RI in HI. rewrite Sp in HI at 1. unfold ytoks in *. rewrite map_app in HI. exact HI. }
  destruct (respond_ok BUF BUF_min BUF_u32 w1 _ _ g gi (mk rq) I1) as (w2 & x & Hr & I2 & _).
  rewrite Hr. cbn [fst]. unfold RI.
  assert (Tk2 : w_tokens w2 = remove_nth idx (w_tokens w)).
  { revert Hr. unfold respond. destruct (alookup g (w_conns w1)); [|intros H; inversion H; reflexivity].
    destruct (cc_enqueue _ _); [|discriminate]. intros H; inversion H; reflexivity. }
  rewrite Tk2, remove_nth_split. unfold ytoks in *. rewrite map_app. exact I2.
Qed.

Theorem run_sop_RI id i hk w o : RI w -> RI (fst (run_sop BUF id i hk w o)).
Proof.
  intros HI. destruct o; cbn [run_sop fst];
    try (refine (Inv_env BUF w _ _ _ _ HI); reflexivity).
  - (* send *)
    match goal with |- context [if ?c then _ else _] => destruct c end; cbn [fst]; [|exact HI].
    refine (Inv_env BUF w _ _ _ _ HI); reflexivity.
  - pose proof (srv_poll_RI (B"srv " ++ dec id ++ B" " ++ decn i ++ B" ") w HI) as H1.
    destruct (srv_poll BUF _ w). exact H1.
  - apply respond_at_RI. exact HI.
  - apply respond_at_RI. exact HI.
  - unfold RI. destruct (flush_tokens w) as (-> & _). apply (flush_inv BUF BUF_min BUF_u32). exact HI.
  - destruct hk; cbn [fst]; [|exact HI]. refine (Inv_env BUF w _ _ _ _ HI); reflexivity.
  - apply srv_poll_many_RI. exact HI.
Qed.

(* every executed history *)
Theorem run_srv_ops_RI : forall ops id i hk w, RI w -> RI (fst (run_srv_ops BUF id i hk w ops)).
Proof.
  induction ops as [|op r IH]; intros id i hk w HI; cbn [run_srv_ops]; [exact HI|].
  pose proof (run_sop_RI id i hk w (decode_sop op) HI) as H1. rewrite <- run_srv_op_sop in H1.
  destruct (run_srv_op BUF id i hk w op) as [w' ls]. cbn [fst] in H1.
  specialize (IH id (S i) hk w' H1). destruct (run_srv_ops BUF id (S i) hk w' r) as [w'' ls']. exact IH.
Qed.

Corollary executed_histories_keep_inv ops id hk :
  RI (fst (run_srv_ops BUF id 0 hk world0 ops)).
Proof. apply run_srv_ops_RI. unfold RI. cbn. apply Inv_world0; assumption. Qed.

(* hence, at every point of every executed history, the next poll cannot panic, cannot fail with
   InvalidWrite or Underflow: it blocks, yields, reports the shutdown, or overflows a u32 counter *)
Corollary executed_histories_poll ops id hk :
  let w := fst (run_srv_ops BUF id 0 hk world0 ops) in
  match poll BUF w with
  | PBlocked => ready_events w = []
  | PYield w' ys => Inv w' (ytoks ys ++ ytoks (w_tokens w)) /\ w_killed w = false
  | Server.PErr e => (e = EShutdown /\ w_killed w = true) \/ e = EOverflow
  end.
Proof. cbn zeta. apply (poll_outcomes BUF BUF_min BUF_u32). apply executed_histories_keep_inv. Qed.

(* ---------- the kill switch over executed histories (C18) ---------- *)
Lemma poll_killed w : w_killed w = true -> poll BUF w = Server.PErr EShutdown.
Proof. intros Hk. unfold poll, ready_events. rewrite Hk. reflexivity. Qed.

Lemma srv_poll_killed pre w : w_killed w = true -> fst (srv_poll BUF pre w) = w.
Proof. intros Hk. unfold srv_poll. rewrite (poll_killed w Hk). reflexivity. Qed.

Lemma srv_poll_many_killed : forall fuel pre w, w_killed w = true -> fst (srv_poll_many BUF fuel pre w) = w.
Proof.
  induction fuel as [|f IH]; intros pre w Hk; cbn [srv_poll_many]; [reflexivity|].
  pose proof (srv_poll_killed pre w Hk) as E. destruct (srv_poll BUF pre w) as [w' line]. cbn [fst] in E. subst w'.
  rewrite (poll_killed w Hk). reflexivity.
Qed.

Lemma respond_killed w g r w' : respond w g r = inl w' -> w_killed w' = w_killed w.
Proof.
  unfold respond. destruct (alookup g (w_conns w)); [|intros H; inversion H; reflexivity].
  destruct (cc_enqueue _ r); [|discriminate]. intros H; inversion H; reflexivity.
Qed.

Lemma run_sop_killed id i hk w o : w_killed w = true -> w_killed (fst (run_sop BUF id i hk w o)) = true.
Proof.
  intros Hk. destruct o; cbn [run_sop fst]; try exact Hk.
  - match goal with |- context [if ?c then _ else _] => destruct c end; exact Hk.
  - pose proof (srv_poll_killed (B"srv " ++ dec id ++ B" " ++ decn i ++ B" ") w Hk) as E.
    destruct (srv_poll BUF _ w) as [w' line]. cbn [fst] in *. subst. exact Hk.
  - unfold respond_at. destruct (w_tokens w); [exact Hk|].
    destruct (nth_error _ _) as [[[g gi] rq]|]; [|exact Hk].
    destruct (respond _ g _) as [w2|] eqn:R; cbn [fst]; [rewrite (respond_killed _ _ _ _ R)|]; exact Hk.
  - unfold respond_at. destruct (w_tokens w); [exact Hk|].
    destruct (nth_error _ _) as [[[g gi] rq]|]; [|exact Hk].
    destruct (respond _ g _) as [w2|] eqn:R; cbn [fst]; [rewrite (respond_killed _ _ _ _ R)|]; exact Hk.
  - destruct (flush_tokens w) as (_ & _ & -> & _). exact Hk.
  - destruct hk; [reflexivity|exact Hk].
  - rewrite (srv_poll_many_killed _ _ w Hk). exact Hk.
Qed.

Lemma run_srv_ops_killed : forall ops id i hk w, w_killed w = true -> w_killed (fst (run_srv_ops BUF id i hk w ops)) = true.
Proof.
  induction ops as [|op r IH]; intros id i hk w Hk; cbn [run_srv_ops]; [exact Hk|].
  pose proof (run_sop_killed id i hk w (decode_sop op) Hk) as H1. rewrite <- run_srv_op_sop in H1.
  destruct (run_srv_op BUF id i hk w op) as [w' ls]. cbn [fst] in H1.
  specialize (IH id (S i) hk w' H1). destruct (run_srv_ops BUF id (S i) hk w' r) as [w'' ls']. exact IH.
Qed.

(* once the switch is signalled, whatever happens afterwards -- any operations of clients and application --
   every poll reports the shutdown *)
Theorem executed_kill_is_forever ops id i hk w :
  w_killed w = true -> poll BUF (fst (run_srv_ops BUF id i hk w ops)) = Server.PErr EShutdown.
Proof. intros Hk. apply poll_killed. apply run_srv_ops_killed. exact Hk. Qed.

(* C10 over executed histories: never more than MAX_CONNECTIONS entries, all under distinct descriptors *)
Corollary executed_capacity ops id hk :
  (length (w_conns (fst (run_srv_ops BUF id 0 hk world0 ops))) <= MAX_CONNECTIONS)%nat /\
  NoDup (map fst (w_conns (fst (run_srv_ops BUF id 0 hk world0 ops)))).
Proof.
  pose proof (executed_histories_keep_inv ops id hk) as HI. split; [apply (inv_cap _ _ _ HI)|apply (inv_nodup _ _ _ HI)].
Qed.

(* C18, second clause: before it is signalled the kill switch changes nothing -- a history in which it is never
   signalled runs identically with and without a kill switch registered (same worlds, same observations) *)
Lemma run_sop_hk id i w o : o <> SKill -> run_sop BUF id i true w o = run_sop BUF id i false w o.
Proof. destruct o; intros H; try reflexivity. congruence. Qed.

Theorem kill_switch_inert : forall ops id i w,
  Forall (fun op => decode_sop op <> SKill) ops ->
  run_srv_ops BUF id i true w ops = run_srv_ops BUF id i false w ops.
Proof.
  induction ops as [|op r IH]; intros id i w Hall; cbn [run_srv_ops]; [reflexivity|].
  inversion Hall as [|? ? H1 H2]; subst.
  rewrite !run_srv_op_sop. rewrite (run_sop_hk id i w _ H1).
  destruct (run_sop BUF id i false w (decode_sop op)) as [w' ls]. rewrite (IH id (S i) w' H2). reflexivity.
Qed.

End RI3.
