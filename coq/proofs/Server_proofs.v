(* The server on its kernel model: the invariant that every API call preserves, for every order
   of the events in a readiness batch and every fresh descriptor number the kernel may choose
   (C07, C08, C09, C10, C18). *)
From MH Require Export model.Server proofs.Total_proofs.

(* ---------- facts about the connection that the server relies on ---------- *)
Lemma pending_enqueue c r : pending_write (enqueue_response c r) = true.
Proof. unfold pending_write, enqueue_response. cbn. destruct (c_rbuf c); [reflexivity|]. destruct (c_rq c); reflexivity. Qed.

Lemma pending_clear c : pending_write (clear_write_buffer c) = false.
Proof. reflexivity. Qed.

Ltac try_write_cases c ev :=
  unfold try_write; destruct (c_rbuf c) as [?b|]; [|destruct (c_rq c) as [|?r ?q]];
  try (destruct ev as [?k| |]; [destruct k as [|?k]|..]); cbn [set_write c_rq];
  repeat match goal with |- context [if ?b then _ else _] => destruct b end.

Lemma try_write_invalid_not_pending c ev c' off :
  try_write c ev = (c', WrErr InvalidWrite, off) -> pending_write c = false.
Proof.
  unfold pending_write. try_write_cases c ev; intros H; inversion H; subst; reflexivity.
Qed.

Lemma try_write_error_not_pending c ev c' e off :
  try_write c ev = (c', WrErr e, off) -> e <> InvalidWrite -> pending_write c' = false.
Proof.
  try_write_cases c ev; intros H Hne; inversion H; subst; try reflexivity; try congruence.
Qed.

Lemma pop_all_write_side : forall fuel c acc,
  c_rq (fst (pop_all fuel c acc)) = c_rq c /\ c_rbuf (fst (pop_all fuel c acc)) = c_rbuf c /\
  parser_same c (fst (pop_all fuel c acc)) /\ c_pmax (fst (pop_all fuel c acc)) = c_pmax c.
Proof.
  induction fuel as [|f IH]; intros c acc; cbn [pop_all]; [unfold parser_same; auto 8|].
  unfold pop_parsed_request. destruct (c_parsed c) as [|r q].
  - cbn. unfold parser_same. auto 8.
  - destruct (IH (mkConn (c_state c) (c_win c) (c_pending c) (c_body_vec c) (c_body_left c) q
                         (c_rq c) (c_rbuf c) (c_files c) (c_pmax c)) (acc ++ [r])) as (HA & HB & (P1 & P2 & P3 & P4 & P5) & HD).
    cbn in *. unfold parser_same. auto 10.
Qed.

Lemma pending_same_write_side c c' : c_rq c' = c_rq c -> c_rbuf c' = c_rbuf c -> pending_write c' = pending_write c.
Proof. intros HA HB. unfold pending_write. rewrite HA, HB. reflexivity. Qed.

Section Srv.
Variable BUF : nat.
Hypothesis BUF_min : (2 <= BUF)%nat.
Hypothesis BUF_u32 : N.of_nat BUF < U32_LIMIT.

Notation cc_read := (cc_read BUF).
Notation handle_event := (handle_event BUF).
Notation handle_all := (handle_all BUF).
Notation poll_with := (poll_with BUF).
Notation CInv := (CInv BUF).

(* ---------- one connection ---------- *)
(* the interest invariant (C08): what the server believes (state), what the connection holds
   (pending output) and what epoll was told (interest) agree between API calls *)
Definition st_ok (x : sconn) : Prop :=
  match sc_st x with
  | AwaitIn => sc_out x = false /\ pending_write (sc_conn x) = false
  | AwaitOut => sc_out x = true /\ pending_write (sc_conn x) = true
  | SClosed => pending_write (sc_conn x) = false
  end.
Definition cc_ok (x : sconn) : Prop := st_ok x /\ exists ph, CInv (sc_conn x) ph.

(* after a read or write, before the server has adjusted the epoll interest *)
Definition st_mid (x : sconn) : Prop :=
  (sc_st x = AwaitOut -> pending_write (sc_conn x) = true) /\
  (sc_st x = AwaitIn -> pending_write (sc_conn x) = false) /\
  (sc_st x = SClosed -> pending_write (sc_conn x) = false).

Lemma st_ok_of_mid y : st_mid y ->
  (sc_st y = AwaitOut -> sc_out y = true) -> (sc_st y = AwaitIn -> sc_out y = false) -> st_ok y.
Proof. intros (HA & HB & HC) H1 H2. unfold st_ok. destruct (sc_st y); auto. Qed.

Lemma cc_read_facts x ev y rs :
  cc_ok x -> sc_out x = false -> ev_ok BUF (sc_conn x) ev -> cc_read x ev = inl (y, rs) ->
  sc_gid y = sc_gid x /\ sc_client y = sc_client x /\ sc_out y = false /\
  sc_infl y = sc_infl x + N.of_nat (length rs) /\ st_mid y /\ (exists ph, CInv (sc_conn y) ph).
Proof.
  intros [Hst [ph I]] Hout Hev. unfold Server.cc_read.
  destruct (try_read_total BUF BUF_min BUF_u32 (sc_conn x) ph ev I Hev) as (c1 & res & sys & ph1 & T & I1 & Hnp & _ & Hpm & Hrb).
  rewrite T.
  assert (Hnp0 : pending_write (sc_conn x) = false).
  { unfold st_ok in Hst. destruct (sc_st x); try tauto. destruct Hst; congruence. }
  assert (Hx : sc_st x <> AwaitOut).
  { unfold st_ok in Hst. destruct (sc_st x); try discriminate. destruct Hst; congruence. }
  destruct res as [|e|s]; [| |exfalso; eapply Hnp; reflexivity].
  - (* Ok *)
    destruct (pop_all (S (length (c_parsed c1))) c1 []) as [c2 reqs] eqn:P.
    pose proof (pop_all_write_side (S (length (c_parsed c1))) c1 []) as (HA & HB & PS & HD). rewrite P in HA, HB, PS, HD. cbn [fst] in *.
    destruct (U32_LIMIT <=? sc_infl x + N.of_nat (length reqs)); [discriminate|].
    intros H; inversion H; subst; clear H. cbn [sc_gid sc_client sc_out sc_infl sc_st sc_conn].
    split; [reflexivity|]. split; [reflexivity|]. split; [exact Hout|]. split; [reflexivity|]. split.
    + unfold st_mid. cbn [sc_st sc_conn]. destruct (pending_write c2) eqn:Pd.
      * (split; [|split]); intros; congruence.
      * (split; [|split]); intros; try congruence.
    + exists ph1. eapply CInv_parser_same; eauto.
  - destruct e as [| |pe|errno|].
    + (* ConnectionClosed *)
      intros H; inversion H; subst; clear H. cbn.
      split; [reflexivity|]. split; [reflexivity|]. split; [exact Hout|]. split; [rewrite N.add_0_r; reflexivity|]. split; [|eauto].
      assert (Hp : pending_write c1 = false).
      { (* a read never consumes queued output; ConnectionClosed adds none *)
        revert T. unfold try_read. destruct (BUF <=? length (c_win (sc_conn x)))%nat; [intros T; inversion T|].
        destruct ev as [bs fds|fds|en].
        - destruct bs as [|b bs']; [intros T; inversion T; subst; exact Hnp0|].
          destruct (ConnImpl.read_loop BUF _ _ _ _); intros T; inversion T.
        - intros T; inversion T; subst. exact Hnp0.
        - intros T; inversion T. }
      unfold st_mid. cbn. (split; [|split]); intros; try congruence; exact Hp.
    + exfalso. revert T. unfold try_read. destruct (BUF <=? _)%nat; [intros T; inversion T|].
      destruct ev as [bs fds|fds|en]; [destruct bs; [intros T; inversion T|
        destruct (ConnImpl.read_loop BUF _ _ _ _); intros T; inversion T]|intros T; inversion T|intros T; inversion T].
    + (* ParseError: 400 queued *)
      destruct (U32_LIMIT <=? sc_infl x + N.of_nat (length (@nil request))) eqn:O; [discriminate|].
      intros H; inversion H; subst; clear H. rewrite pending_enqueue. cbn.
      split; [reflexivity|]. split; [reflexivity|]. split; [exact Hout|]. split; [reflexivity|]. split.
      * unfold st_mid. cbn. rewrite pending_enqueue. (split; [|split]); intros; congruence.
      * exists ph1. pose proof (pop_all_write_side (S (length (c_parsed c1))) c1 []) as (_ & _ & PS & _).
        eapply CInv_parser_same; [eapply CInv_parser_same; [exact I1|exact PS]|]. unfold parser_same. cbn. auto 6.
    + (* StreamReadError: 500 queued *)
      destruct (U32_LIMIT <=? sc_infl x + N.of_nat (length (@nil request))) eqn:O; [discriminate|].
      intros H; inversion H; subst; clear H. rewrite pending_enqueue. cbn.
      split; [reflexivity|]. split; [reflexivity|]. split; [exact Hout|]. split; [reflexivity|]. split.
      * unfold st_mid. cbn. rewrite pending_enqueue. (split; [|split]); intros; congruence.
      * exists ph1. eapply CInv_parser_same; [exact I1|]. unfold parser_same. cbn. auto 6.
    + exfalso. revert T. unfold try_read. destruct (BUF <=? _)%nat; [intros T; inversion T|].
      destruct ev as [bs fds|fds|en]; [destruct bs; [intros T; inversion T|
        destruct (ConnImpl.read_loop BUF _ _ _ _); intros T; inversion T]|intros T; inversion T|intros T; inversion T].
Qed.

(* a read can only fail with the u32 overflow of the in-flight counter *)
Lemma cc_read_err x ev e :
  cc_ok x -> ev_ok BUF (sc_conn x) ev -> cc_read x ev = inr e -> e = EOverflow.
Proof.
  intros [Hst [ph I]] Hev. unfold Server.cc_read.
  destruct (try_read_total BUF BUF_min BUF_u32 (sc_conn x) ph ev I Hev) as (c1 & res & sys & ph1 & T & I1 & Hnp & _).
  rewrite T. destruct res as [|er|s]; [| |exfalso; eapply Hnp; reflexivity].
  - destruct (pop_all _ c1 []) as [c2 reqs]. destruct (U32_LIMIT <=? _); intros H; inversion H; reflexivity.
  - destruct er; try (intros H; inversion H; fail);
      match goal with |- context [U32_LIMIT <=? ?z] => destruct (U32_LIMIT <=? z) end; intros H; inversion H; reflexivity.
Qed.

Lemma cc_write_facts x b k :
  cc_ok x -> (sc_st x = AwaitOut \/ sc_st x = SClosed) ->
  exists y sent, cc_write x b k = inl (y, sent) /\ sc_gid y = sc_gid x /\ sc_client y = sc_client x /\
    sc_infl y = sc_infl x /\ sc_out y = sc_out x /\ st_mid y /\ (exists ph, CInv (sc_conn y) ph).
Proof.
  intros [Hst [ph I]] Hs. unfold cc_write, st_ok in *.
  destruct (sc_st x) eqn:S0.
  - destruct Hs; discriminate.
  - destruct Hst as [_ Hp].
    set (offered := match c_rbuf (sc_conn x) with Some b0 => b0
                    | None => match c_rq (sc_conn x) with r :: _ => serialize r | [] => [] end end).
    set (n := if Nat.eqb k 0 then length offered else Nat.min k (length offered)).
    assert (Hn : (n <= length offered)%nat) by (unfold n; destruct (Nat.eqb k 0); lia).
    set (ev := if b then WWrote n else WFail).
    assert (Hok : wop_ok (sc_conn x) (WTry ev)).
    { unfold ev. destruct b; [|exact Logic.I]. cbn [wop_ok]. unfold offered in Hn.
      destruct (c_rbuf (sc_conn x)); [lia|]. destruct (c_rq (sc_conn x)); [exact Logic.I|lia]. }
    pose proof (try_write_no_panic (sc_conn x) ev Hok) as NP.
    pose proof (try_write_parser_same (sc_conn x) ev) as PS.
    destruct (try_write (sc_conn x) ev) as [[c1 res] off] eqn:W. cbn [fst snd] in *.
    assert (I1 : exists ph', CInv c1 ph') by (exists ph; eapply CInv_parser_same; eauto).
    destruct res as [|e|s]; [| |exfalso; eapply NP; reflexivity].
    + do 2 eexists. split; [reflexivity|]. cbn. repeat (split; [reflexivity|]). split; [|exact I1].
      unfold st_mid. cbn. destruct (pending_write c1) eqn:Pd; rewrite ?S0; (split; [|split]); intros; congruence.
    + destruct e.
      * do 2 eexists. split; [reflexivity|]. cbn. repeat (split; [reflexivity|]). split; [|exact I1].
        unfold st_mid. cbn. (split; [|split]); intros; try congruence. eapply try_write_error_not_pending; eauto. discriminate.
      * apply try_write_invalid_not_pending in W. congruence.
      * do 2 eexists. split; [reflexivity|]. cbn. repeat (split; [reflexivity|]). split; [|exact I1].
        unfold st_mid. cbn. (split; [|split]); intros; try congruence. eapply try_write_error_not_pending; eauto. discriminate.
      * do 2 eexists. split; [reflexivity|]. cbn. repeat (split; [reflexivity|]). split; [|exact I1].
        unfold st_mid. cbn. (split; [|split]); intros; try congruence. eapply try_write_error_not_pending; eauto. discriminate.
      * do 2 eexists. split; [reflexivity|]. cbn. repeat (split; [reflexivity|]). split; [|exact I1].
        unfold st_mid. cbn. (split; [|split]); intros; try congruence. eapply try_write_error_not_pending; eauto. discriminate.
  - exists x, []. repeat (split; [reflexivity|]). split; [|eauto].
    unfold st_mid. rewrite S0. (split; [|split]); intros; try congruence; try exact Hst.
Qed.

(* ---------- association lists ---------- *)
Lemma alookup_update_same {A} fd (y : A) l x : alookup fd l = Some x -> alookup fd (aupdate fd y l) = Some y.
Proof.
  induction l as [|[k v] t IH]; cbn; [discriminate|].
  destruct (Nat.eqb k fd) eqn:E; cbn; rewrite E; auto.
Qed.
Lemma alookup_update_other {A} fd fd' (y : A) l : fd <> fd' -> alookup fd' (aupdate fd y l) = alookup fd' l.
Proof.
  intros Hne. induction l as [|[k v] t IH]; cbn; [reflexivity|].
  destruct (Nat.eqb k fd) eqn:E; cbn.
  - apply Nat.eqb_eq in E; subst. destruct (Nat.eqb fd fd') eqn:E2; [apply Nat.eqb_eq in E2; congruence|reflexivity].
  - destruct (Nat.eqb k fd'); auto.
Qed.
Lemma keys_update {A} fd (y : A) l : map fst (aupdate fd y l) = map fst l.
Proof. induction l as [|[k v] t IH]; cbn; [reflexivity|]. destruct (Nat.eqb k fd); cbn; congruence. Qed.
Lemma length_update {A} fd (y : A) l : length (aupdate fd y l) = length l.
Proof. rewrite <- (map_length fst), keys_update, map_length. reflexivity. Qed.
Lemma alookup_none_notin {A} fd (l : list (nat * A)) : alookup fd l = None -> ~ In fd (map fst l).
Proof.
  induction l as [|[k v] t IH]; cbn; [tauto|]. destruct (Nat.eqb k fd) eqn:E; [discriminate|].
  apply Nat.eqb_neq in E. intros H [HA|HA]; [congruence|]. apply IH; auto.
Qed.
Lemma alookup_update_cases {A} fd fd' (y : A) l z : alookup fd' (aupdate fd y l) = Some z ->
  (fd' = fd /\ z = y /\ exists x, alookup fd l = Some x) \/ (fd' <> fd /\ alookup fd' l = Some z).
Proof.
  intros H. destruct (Nat.eq_dec fd fd') as [->|Hne].
  - left. destruct (alookup fd' l) as [x|] eqn:HL.
    + rewrite (alookup_update_same _ y _ _ HL) in H. inversion H; eauto.
    + exfalso. revert H. clear -HL. induction l as [|[k v] t IH]; cbn in *; [discriminate|].
      destruct (Nat.eqb k fd') eqn:E; [discriminate|]. cbn. rewrite E. auto.
  - right. rewrite alookup_update_other in H by auto. auto.
Qed.
Lemma alookup_app_end {A} fd nf (x : A) l :
  alookup fd (l ++ [(nf, x)]) = match alookup fd l with Some v => Some v | None => if Nat.eqb nf fd then Some x else None end.
Proof. induction l as [|[k v] t IH]; cbn; [reflexivity|]. destruct (Nat.eqb k fd); auto. Qed.
Lemma alookup_filter_some {A} f fd (l : list (nat * A)) x :
  alookup fd (filter f l) = Some x -> In (fd, x) l /\ f (fd, x) = true.
Proof.
  induction l as [|[k v] t IH]; cbn; [discriminate|].
  destruct (f (k, v)) eqn:F; cbn.
  - destruct (Nat.eqb k fd) eqn:E.
    + apply Nat.eqb_eq in E; subst. intros H; inversion H; subst. auto.
    + intros H. destruct (IH H). auto.
  - intros H. destruct (IH H). auto.
Qed.
Lemma alookup_in_nodup {A} fd x (l : list (nat * A)) : NoDup (map fst l) -> In (fd, x) l -> alookup fd l = Some x.
Proof.
  induction l as [|[k v] t IH]; cbn; [tauto|]. intros ND [H|H].
  - inversion H; subst. rewrite Nat.eqb_refl. reflexivity.
  - inversion ND; subst. destruct (Nat.eqb k fd) eqn:E.
    + apply Nat.eqb_eq in E; subst. exfalso. apply H2. apply in_map_iff. exists (fd, x). auto.
    + auto.
Qed.
Lemma alookup_some_in {A} fd x (l : list (nat * A)) : alookup fd l = Some x -> In (fd, x) l.
Proof.
  induction l as [|[k v] t IH]; cbn; [discriminate|]. destruct (Nat.eqb k fd) eqn:E.
  - apply Nat.eqb_eq in E; subst. intros H; inversion H; auto.
  - auto.
Qed.
Lemma nodup_filter_keys {A} f (l : list (nat * A)) : NoDup (map fst l) -> NoDup (map fst (filter f l)).
Proof.
  induction l as [|[k v] t IH]; cbn; [auto|]. intros ND. inversion ND; subst.
  destruct (f (k, v)); cbn; auto. constructor; auto.
  intros Hin. apply H1. apply in_map_iff in Hin. destruct Hin as ([a b] & Ha & Hb). cbn in Ha; subst.
  apply filter_In in Hb. apply in_map_iff. exists (k, b). tauto.
Qed.
Lemma NoDup_app_end {A} (l : list A) x : NoDup l -> ~ In x l -> NoDup (l ++ [x]).
Proof.
  induction l as [|a l IH]; intros ND Hn; cbn; [constructor; [tauto|constructor]|].
  inversion ND; subst. constructor.
  - intros Hin. apply in_app_or in Hin. destruct Hin as [Hin|[Hin|[]]]; [tauto|]. subst. apply Hn. left. reflexivity.
  - apply IH; auto. intros Hin. apply Hn. right. exact Hin.
Qed.
Lemma filter_length_le {A} (f : A -> bool) l : (length (filter f l) <= length l)%nat.
Proof. induction l as [|a t IH]; cbn; [lia|]. destruct (f a); cbn; lia. Qed.

(* ---------- tokens ---------- *)
Definition tok := (nat * nat)%type.            (* descriptor, connection instance *)
Definition count_g (g : nat) (ts : list tok) : nat := length (filter (fun t => Nat.eqb (snd t) g) ts).
Definition ytoks (ys : list yield) : list tok := map (fun y => (fst (fst y), snd (fst y))) ys.

Lemma count_g_app g a b : count_g g (a ++ b) = (count_g g a + count_g g b)%nat.
Proof. unfold count_g. rewrite filter_app, app_length. reflexivity. Qed.
Lemma count_g_new g fd g' (rs : list request) :
  count_g g (ytoks (map (fun r => (fd, g', r)) rs)) = if Nat.eqb g' g then length rs else 0%nat.
Proof.
  unfold count_g, ytoks. induction rs as [|r t IH]; cbn; [destruct (Nat.eqb g' g); reflexivity|].
  destruct (Nat.eqb g' g) eqn:E; cbn; rewrite IH; reflexivity.
Qed.
Lemma count_g_pos fd g ts : In (fd, g) ts -> (1 <= count_g g ts)%nat.
Proof.
  unfold count_g. induction ts as [|[a b] t IH]; cbn; [tauto|]. intros [H|H].
  - inversion H; subst. rewrite Nat.eqb_refl. cbn. lia.
  - specialize (IH H). destruct (Nat.eqb b g); cbn; lia.
Qed.
Lemma count_g_zero g ts : (forall fd, ~ In (fd, g) ts) -> count_g g ts = 0%nat.
Proof.
  unfold count_g. induction ts as [|[a b] t IH]; cbn; [reflexivity|]. intros H.
  destruct (Nat.eqb b g) eqn:E.
  - apply Nat.eqb_eq in E; subst. exfalso. apply (H a). left; reflexivity.
  - apply IH. intros fd Hin. apply (H fd). right; exact Hin.
Qed.

(* ---------- the invariant ---------- *)
Record Inv (w : world) (toks : list tok) : Prop := {
  inv_nodup : NoDup (map fst (w_conns w));
  inv_cap : (length (w_conns w) <= MAX_CONNECTIONS)%nat;
  inv_gid_lt : forall fd x, alookup fd (w_conns w) = Some x -> (sc_gid x < w_nextg w)%nat;
  inv_gid_inj : forall fd fd' x x', alookup fd (w_conns w) = Some x -> alookup fd' (w_conns w) = Some x' ->
                                    sc_gid x = sc_gid x' -> fd = fd';
  inv_tok : forall fd g, In (fd, g) toks -> exists x, alookup fd (w_conns w) = Some x /\ sc_gid x = g;
  inv_infl : forall fd x, alookup fd (w_conns w) = Some x -> sc_infl x = N.of_nat (count_g (sc_gid x) toks);
  inv_cc : forall fd x, alookup fd (w_conns w) = Some x -> cc_ok x;
}.

Lemma Inv_world0 : Inv world0 [].
Proof. constructor; cbn; try (intros; discriminate); try tauto; try lia. constructor. Qed.

(* the kernel contract for one event, relative to the current world (K1, K4, K6) *)
Definition evt_ok (w : world) (e : event) : Prop :=
  match e with
  | EvKill => w_killed w = true
  | EvListener nf => alookup nf (w_conns w) = None
  | EvHup fd => exists x, alookup fd (w_conns w) = Some x
  | EvIn fd _ => exists x, alookup fd (w_conns w) = Some x /\ sc_out x = false
  | EvOut fd _ => exists x, alookup fd (w_conns w) = Some x /\ sc_out x = true
  end.

Lemma inv_update w toks fd x y toks' clients' :
  Inv w toks -> alookup fd (w_conns w) = Some x -> sc_gid y = sc_gid x -> cc_ok y ->
  (forall g, g <> sc_gid x -> count_g g toks' = count_g g toks) ->
  sc_infl y = N.of_nat (count_g (sc_gid x) toks') ->
  (forall fd' g, In (fd', g) toks' -> In (fd', g) toks \/ (fd' = fd /\ g = sc_gid x)) ->
  Inv (Server.mkW clients' (aupdate fd y (w_conns w)) (w_backlog w) (w_tokens w) (w_nextg w) (w_limit w) (w_killed w)) toks'.
Proof.
  intros HI HL Hg Hok Hcnt Hinfl Htok. destruct HI as [Ind Icap Ilt Iinj Itok Iinfl Icc].
  constructor; cbn [w_conns w_nextg].
  - rewrite keys_update. exact Ind.
  - rewrite length_update. exact Icap.
  - intros fd' z Hz. apply alookup_update_cases in Hz. destruct Hz as [(-> & -> & _)|(Hne & Hz)].
    + rewrite Hg. eauto.
    + eauto.
  - intros f1 f2 z1 z2 H1 H2 E.
    apply alookup_update_cases in H1. apply alookup_update_cases in H2.
    destruct H1 as [(-> & -> & _)|(N1 & H1)]; destruct H2 as [(-> & -> & _)|(N2 & H2)]; auto.
    + rewrite Hg in E. eapply Iinj; eauto.
    + rewrite Hg in E. eapply Iinj; eauto.
    + eapply Iinj; eauto.
  - intros fd' g Hin. destruct (Htok _ _ Hin) as [Hold|(-> & ->)].
    + destruct (Itok _ _ Hold) as (z & Hz & Hgz). destruct (Nat.eq_dec fd fd') as [<-|Hne].
      * exists y. split; [eapply alookup_update_same; eauto|]. rewrite Hg. congruence.
      * exists z. split; [rewrite alookup_update_other by auto; auto|auto].
    + exists y. split; [eapply alookup_update_same; eauto|auto].
  - intros fd' z Hz. apply alookup_update_cases in Hz. destruct Hz as [(-> & -> & _)|(Hne & Hz)].
    + rewrite Hg. exact Hinfl.
    + rewrite (Iinfl _ _ Hz). f_equal. symmetry. apply Hcnt. intros E. apply Hne. eapply Iinj; eauto.
  - intros fd' z Hz. apply alookup_update_cases in Hz. destruct Hz as [(-> & -> & _)|(Hne & Hz)]; eauto.
Qed.

Lemma conn_win_short c ph : CInv c ph -> (length (c_win c) < BUF)%nat.
Proof. intros [_ St]. eapply stuck_short; eauto. Qed.

(* handling one event: it cannot fail except by the u32 overflow of the in-flight counter, it
   keeps the invariant, and new tokens are exactly the yields *)
Theorem handle_ok w toks e :
  Inv w toks -> evt_ok w e -> e <> EvKill ->
  (exists w' ys, handle_event w e = inl (w', ys) /\ Inv w' (ytoks ys ++ toks) /\ w_killed w' = w_killed w
                 /\ w_nextg w <= w_nextg w')%nat
  \/ handle_event w e = inr EOverflow.
Proof.
  intros HI Hev Hk. destruct e as [fd|fd kk|fd kk|nf|]; [| | | |congruence]; cbn [evt_ok] in Hev; cbn [Server.handle_event].
  - (* hang-up *)
    destruct Hev as (x & HL). rewrite HL. left. do 2 eexists. split; [reflexivity|].
    split; [|split; [reflexivity|cbn; lia]]. cbn [ytoks map app]. unfold set_conn.
    eapply inv_update; eauto.
    + split; [unfold st_ok; cbn; reflexivity|].
      destruct (inv_cc _ _ HI _ _ HL) as [_ [ph I]]. exists ph. eapply CInv_parser_same; [exact I|].
      unfold parser_same. cbn. auto 6.
    + cbn. eapply inv_infl; eauto.
  - (* readable *)
    destruct Hev as (x & HL & Hout). rewrite HL.
    pose proof (inv_cc _ _ HI _ _ HL) as Hok. pose proof Hok as [_ [ph I]].
    set (cl := client_of w (sc_client x)).
    set (n := read_amount kk (BUF - length (c_win (sc_conn x))) (length (k_tosrv cl))).
    assert (Hra : (n <= (BUF - length (c_win (sc_conn x))) /\ n <= (length (k_tosrv cl)) /\ (1 <= (BUF - length (c_win (sc_conn x))) -> 1 <= (length (k_tosrv cl)) -> 1 <= n))%nat)
      by (unfold n, read_amount; destruct (Nat.eqb kk 0) eqn:Ek; [|apply Nat.eqb_neq in Ek]; lia).
    destruct Hra as (Ra1 & Ra2 & Ra3).
    assert (Hevk : ev_ok BUF (sc_conn x) (RData (firstn n (k_tosrv cl)) [])).
    { cbn. rewrite firstn_length. pose proof (conn_win_short _ _ I). lia. }
    destruct (cc_read x (RData (firstn n (k_tosrv cl)) [])) as [[y rs]|err] eqn:R.
    + destruct (cc_read_facts _ _ _ _ Hok Hout Hevk R) as (Hg & Hc & Hio & Hinfl & Hmid & HC).
      left. do 2 eexists. split; [reflexivity|]. split; [|split; [reflexivity|cbn; lia]].
      unfold set_client, set_conn. cbn [w_clients w_conns w_backlog w_tokens w_nextg w_limit w_killed].
      eapply inv_update; eauto.
      * destruct (sc_st y); cbn; auto.
      * split.
        -- apply st_ok_of_mid.
           ++ destruct Hmid as (M1 & M2 & M3). unfold st_mid. destruct (sc_st y) eqn:Sy; cbn; rewrite ?Sy; auto.
           ++ destruct (sc_st y) eqn:Sy; cbn; rewrite ?Sy; intros; congruence.
           ++ destruct (sc_st y) eqn:Sy; cbn; rewrite ?Sy; intros; congruence.
        -- destruct (sc_st y); cbn; exact HC.
      * intros g Hne. rewrite count_g_app, count_g_new.
        destruct (Nat.eqb (sc_gid x) g) eqn:E; [apply Nat.eqb_eq in E; congruence|lia].
      * rewrite count_g_app, count_g_new, Nat.eqb_refl.
        assert (Hi : sc_infl (match sc_st y with AwaitOut => mkSC (sc_conn y) (sc_st y) (sc_infl y) (sc_client y) true (sc_gid y) | _ => y end)
                     = sc_infl y) by (destruct (sc_st y); reflexivity).
        rewrite Hi, Hinfl, (inv_infl _ _ HI _ _ HL). lia.
      * intros fd' g Hin. apply in_app_or in Hin. destruct Hin as [Hin|Hin]; auto.
        right. unfold ytoks in Hin. rewrite map_map in Hin. cbn in Hin. apply in_map_iff in Hin.
        destruct Hin as (r & Hr & _). inversion Hr; auto.
    + right. f_equal. eapply cc_read_err; eauto.
  - (* writable *)
    destruct Hev as (x & HL & Hout). rewrite HL.
    pose proof (inv_cc _ _ HI _ _ HL) as Hok.
    assert (Hs : sc_st x = AwaitOut \/ sc_st x = SClosed).
    { destruct Hok as [Hst _]. unfold st_ok in Hst. destruct (sc_st x); auto. destruct Hst; congruence. }
    destruct (cc_write_facts x (k_can_receive (client_of w (sc_client x))) kk Hok Hs)
      as (y & sent & HW & Hg & Hc & Hinfl & Hio & Hmid & HC).
    rewrite HW. left. do 2 eexists. split; [reflexivity|]. split; [|split; [reflexivity|cbn; lia]].
    cbn [ytoks map app]. unfold set_client, set_conn.
    cbn [w_clients w_conns w_backlog w_tokens w_nextg w_limit w_killed].
    eapply inv_update; eauto.
    + destruct (sc_st y); cbn; auto.
    + split.
      * apply st_ok_of_mid.
        -- destruct Hmid as (M1 & M2 & M3). unfold st_mid. destruct (sc_st y) eqn:Sy; cbn; rewrite ?Sy; auto.
        -- destruct (sc_st y) eqn:Sy; cbn; rewrite ?Sy; intros; congruence.
        -- destruct (sc_st y) eqn:Sy; cbn; rewrite ?Sy; intros; congruence.
      * destruct (sc_st y); cbn; exact HC.
    + assert (Hi : sc_infl (match sc_st y with AwaitIn => mkSC (sc_conn y) (sc_st y) (sc_infl y) (sc_client y) false (sc_gid y) | _ => y end)
                   = sc_infl y) by (destruct (sc_st y); reflexivity).
      rewrite Hi, Hinfl. eapply inv_infl; eauto.
  - (* listener *)
    destruct (w_backlog w) as [|c rest]; [left; do 2 eexists; split; [reflexivity|]; cbn; auto|].
    destruct (Nat.eqb (length (w_conns w)) MAX_CONNECTIONS) eqn:E.
    + left. do 2 eexists. split; [reflexivity|]. split; [|split; [reflexivity|cbn; lia]].
      cbn [ytoks map app]. destruct HI as [Ind Icap Ilt Iinj Itok Iinfl Icc]. constructor; cbn; auto.
    + apply Nat.eqb_neq in E. left. do 2 eexists. split; [reflexivity|]. split; [|split; [reflexivity|cbn; lia]].
      cbn [ytoks map app]. destruct HI as [Ind Icap Ilt Iinj Itok Iinfl Icc]. constructor; cbn [w_conns w_nextg].
      * rewrite map_app. cbn [map fst]. apply NoDup_app_end; [exact Ind|apply alookup_none_notin; exact Hev].
      * rewrite app_length. cbn. lia.
      * intros fd' z. rewrite alookup_app_end. destruct (alookup fd' (w_conns w)) eqn:HL.
        -- intros H; inversion H; subst. specialize (Ilt _ _ HL). lia.
        -- destruct (Nat.eqb nf fd'); [intros H; inversion H; subst; cbn; lia|discriminate].
      * intros f1 f2 z1 z2. rewrite !alookup_app_end.
        destruct (alookup f1 (w_conns w)) eqn:L1; destruct (alookup f2 (w_conns w)) eqn:L2; intros H1 H2 G.
        -- inversion H1; inversion H2; subst. eapply Iinj; eauto.
        -- inversion H1; subst. destruct (Nat.eqb nf f2); [|discriminate]. inversion H2; subst. cbn in G.
           specialize (Ilt _ _ L1). lia.
        -- inversion H2; subst. destruct (Nat.eqb nf f1); [|discriminate]. inversion H1; subst. cbn in G.
           specialize (Ilt _ _ L2). lia.
        -- destruct (Nat.eqb nf f1) eqn:E1; [|discriminate]. destruct (Nat.eqb nf f2) eqn:E2; [|discriminate].
           apply Nat.eqb_eq in E1, E2. congruence.
      * intros fd' g Hin. destruct (Itok _ _ Hin) as (z & Hz & Hg). exists z. split; auto.
        rewrite alookup_app_end, Hz. reflexivity.
      * intros fd' z. rewrite alookup_app_end. destruct (alookup fd' (w_conns w)) eqn:HL.
        -- intros H; inversion H; subst. eapply Iinfl; eauto.
        -- destruct (Nat.eqb nf fd'); [|discriminate]. intros H; inversion H; subst. cbn.
           rewrite count_g_zero; [reflexivity|]. intros fd0 Hin.
           destruct (Itok _ _ Hin) as (z & Hz & Hg). specialize (Ilt _ _ Hz). lia.
      * intros fd' z. rewrite alookup_app_end. destruct (alookup fd' (w_conns w)) eqn:HL.
        -- intros H; inversion H; subst. eapply Icc; eauto.
        -- destruct (Nat.eqb nf fd'); [|discriminate]. intros H; inversion H; subst.
           split; [unfold st_ok; cbn; auto|]. exists PLine. apply CInv_new; assumption.
Qed.

(* ---------- the sweep ---------- *)
Theorem sweep_inv w toks : Inv w toks -> Inv (sweep w) toks.
Proof.
  intros HI. pose proof HI as [Ind Icap Ilt Iinj Itok Iinfl Icc].
  assert (Hsub : forall fd x, alookup fd (w_conns (sweep w)) = Some x ->
                              alookup fd (w_conns w) = Some x /\ is_done x = false).
  { intros fd x H. cbn in H. apply alookup_filter_some in H. destruct H as [Hin Hf]. cbn in Hf.
    split; [apply alookup_in_nodup; auto|]. destruct (is_done x); auto; discriminate. }
  constructor.
  - cbn. apply nodup_filter_keys; auto.
  - cbn. pose proof (filter_length_le (fun p : nat * sconn => negb (is_done (snd p))) (w_conns w)). lia.
  - intros fd x H. apply Hsub in H. destruct H. cbn. eauto.
  - intros f1 f2 z1 z2 H1 H2. apply Hsub in H1. apply Hsub in H2. destruct H1, H2. eauto.
  - intros fd g Hin. destruct (Itok _ _ Hin) as (x & HL & Hg). exists x. split; auto.
    cbn. apply alookup_in_nodup; [apply nodup_filter_keys; auto|].
    apply filter_In. split; [apply alookup_some_in; auto|]. cbn.
    (* a connection with an outstanding token is never reaped *)
    unfold is_done. rewrite (Iinfl _ _ HL), Hg.
    pose proof (count_g_pos _ _ _ Hin).
    assert (E : (N.of_nat (count_g g toks) =? 0) = false) by (apply N.eqb_neq; lia).
    rewrite E, andb_false_r. reflexivity.
  - intros fd x H. apply Hsub in H. destruct H; eauto.
  - intros fd x H. apply Hsub in H. destruct H; eauto.
Qed.

(* C09_release: after the sweep no entry is Closed with nothing pending and nothing in flight *)
Theorem sweep_no_done w fd x : alookup fd (w_conns (sweep w)) = Some x -> is_done x = false.
Proof.
  intros H. cbn in H. apply alookup_filter_some in H. destruct H as [_ Hf]. cbn in Hf.
  destruct (is_done x); auto; discriminate.
Qed.

(* ---------- a whole readiness batch, in any order ---------- *)
Inductive ekey := KKill | KListen | KConn (fd : nat).
Definition ev_key (e : event) : ekey :=
  match e with EvKill => KKill | EvListener _ => KListen | EvHup fd | EvIn fd _ | EvOut fd _ => KConn fd end.

Definition touched (e : event) (fd' : nat) : Prop :=
  match e with EvKill => False | EvListener nf => fd' = nf | EvHup fd | EvIn fd _ | EvOut fd _ => fd' = fd end.

(* C09_noninterference: handling an event leaves every other connection untouched *)
Lemma handle_frame w e w' ys :
  handle_event w e = inl (w', ys) ->
  w_killed w' = w_killed w /\ forall fd', ~ touched e fd' -> alookup fd' (w_conns w') = alookup fd' (w_conns w).
Proof.
  destruct e as [fd|fd kk|fd kk|nf|]; cbn [Server.handle_event touched].
  - destruct (alookup fd (w_conns w)); [|discriminate]. intros H; inversion H; subst; cbn. split; auto.
    intros fd' Hn. apply alookup_update_other. congruence.
  - destruct (alookup fd (w_conns w)) as [x|]; [|discriminate].
    destruct (cc_read x _) as [[y rs]|]; [|discriminate]. intros H; inversion H; subst; cbn. split; auto.
    intros fd' Hn. apply alookup_update_other. congruence.
  - destruct (alookup fd (w_conns w)) as [x|]; [|discriminate].
    destruct (cc_write x _) as [[y sent]|]; [|discriminate]. intros H; inversion H; subst; cbn. split; auto.
    intros fd' Hn. apply alookup_update_other. congruence.
  - destruct (w_backlog w) as [|c rest]; [intros H; inversion H; subst; auto|].
    destruct (Nat.eqb (length (w_conns w)) MAX_CONNECTIONS); intros H; inversion H; subst; cbn; split; auto.
    intros fd' Hn. rewrite alookup_app_end. destruct (alookup fd' (w_conns w)); [reflexivity|].
    destruct (Nat.eqb nf fd') eqn:E; [apply Nat.eqb_eq in E; congruence|reflexivity].
  - discriminate.
Qed.

Lemma evt_ok_frame w e w' ys e' :
  evt_ok w e -> handle_event w e = inl (w', ys) -> evt_ok w e' -> ev_key e' <> ev_key e ->
  (forall nf nf', e = EvListener nf -> e' = EvListener nf' -> False) -> evt_ok w' e'.
Proof.
  intros Hev H Hev' Hk _. destruct (handle_frame _ _ _ _ H) as [Hkill Hfr].
  destruct e' as [fd'|fd' kk'|fd' kk'|nf'|]; cbn [evt_ok] in *.
  - destruct Hev' as (x & HL). exists x. rewrite Hfr; auto.
    intros T. destruct e; cbn in *; try tauto; subst; try congruence.
  - destruct Hev' as (x & HL & Ho). exists x. rewrite Hfr; auto.
    intros T. destruct e; cbn in *; try tauto; subst; try congruence.
  - destruct Hev' as (x & HL & Ho). exists x. rewrite Hfr; auto.
    intros T. destruct e; cbn in *; try tauto; subst; try congruence.
  - rewrite Hfr; auto. intros T. destruct e; cbn in *; try tauto; subst.
    + destruct Hev as (x & HL). congruence.
    + destruct Hev as (x & HL & _). congruence.
    + destruct Hev as (x & HL & _). congruence.
  - congruence.
Qed.

Theorem batch_ok : forall es w toks acc,
  Inv w toks -> Forall (evt_ok w) es -> NoDup (map ev_key es) -> ~ In KKill (map ev_key es) ->
  (exists w' ys, handle_all w es acc = inl (w', acc ++ ys) /\ Inv w' (ytoks ys ++ toks) /\ w_killed w' = w_killed w)
  \/ handle_all w es acc = inr EOverflow.
Proof.
  induction es as [|e t IH]; intros w toks acc HI Hall Hnd Hnk; cbn [Server.handle_all].
  - left. exists w, []. rewrite app_nil_r. auto.
  - inversion Hall as [|? ? He Ht]; subst. inversion Hnd as [|? ? Hnotin Hnd']; subst.
    assert (Hne : e <> EvKill) by (intros ->; apply Hnk; left; reflexivity).
    destruct (handle_ok w toks e HI He Hne) as [(w1 & ys & Hh & I1 & K1 & _)|Hov]; [|right; rewrite Hov; reflexivity].
    rewrite Hh.
    assert (Ht' : Forall (evt_ok w1) t).
    { apply Forall_forall. intros e' Hin. rewrite Forall_forall in Ht.
      eapply evt_ok_frame; eauto.
      - intros E. apply Hnotin. rewrite <- E. apply in_map. exact Hin.
      - intros nf nf' -> ->. apply Hnotin. change (ev_key (EvListener nf)) with (ev_key (EvListener nf')). apply in_map. exact Hin. }
    destruct (IH w1 (ytoks ys ++ toks) (acc ++ ys) I1 Ht' Hnd') as [(w2 & ys2 & H2 & I2 & K2)|Hov].
    + intros Hin. apply Hnk. right. exact Hin.
    + left. exists w2, (ys ++ ys2). split; [rewrite H2, app_assoc; reflexivity|].
      split; [|congruence]. unfold ytoks in *. rewrite map_app, <- app_assoc.
      (* the order of tokens is immaterial: the invariant speaks of membership and counts *)
      destruct I2 as [A1 A2 A3 A4 A5 A6 A7]. constructor; auto.
      * intros fd g Hin. apply A5. apply in_app_or in Hin. destruct Hin as [Hin|Hin].
        -- apply in_or_app. right. apply in_or_app. left. exact Hin.
        -- apply in_app_or in Hin. destruct Hin as [Hin|Hin].
           ++ apply in_or_app. left. exact Hin.
           ++ apply in_or_app. right. apply in_or_app. right. exact Hin.
      * intros fd x HL. rewrite (A6 _ _ HL). f_equal. rewrite !count_g_app. apply Nat.add_shuffle3.
    + right. exact Hov.
Qed.

(* C09_poll_total: for every order of the ready events, the polling function returns normally
   (a yield), never InvalidWrite, never a panic at get_mut(..).unwrap(); the only other outcome is
   the u32 overflow of one connection's in-flight counter (2^32 unanswered requests) *)
Theorem poll_total w toks es :
  Inv w toks -> Forall (evt_ok w) es -> NoDup (map ev_key es) -> ~ In KKill (map ev_key es) -> es <> [] ->
  (exists w' ys, poll_with w es = PYield w' ys /\ Inv w' (ytoks ys ++ toks))
  \/ poll_with w es = Server.PErr EOverflow.
Proof.
  intros HI Hall Hnd Hnk Hne. unfold Server.poll_with. destruct es as [|e t]; [congruence|].
  destruct (batch_ok (e :: t) w toks [] HI Hall Hnd Hnk) as [(w1 & ys & H & I1 & _)|Hov].
  - left. rewrite H. cbn [app]. do 2 eexists. split; [reflexivity|]. apply sweep_inv. exact I1.
  - right. rewrite Hov. reflexivity.
Qed.

(* C18_wins: once the kill switch is signalled its event is in the batch (K4, K6); whatever is
   handled before it, in whatever order, the poll reports the shutdown *)
Theorem poll_kill : forall es w toks acc,
  Inv w toks -> Forall (evt_ok w) es -> NoDup (map ev_key es) -> In EvKill es ->
  handle_all w es acc = inr EShutdown \/ handle_all w es acc = inr EOverflow.
Proof.
  induction es as [|e t IH]; intros w toks acc HI Hall Hnd Hin; [destruct Hin|].
  inversion Hall as [|? ? He Ht]; subst. inversion Hnd as [|? ? Hnotin Hnd']; subst.
  destruct Hin as [->|Hin]; [left; reflexivity|].
  assert (Hne : e <> EvKill).
  { intros ->. apply Hnotin. change KKill with (ev_key EvKill). apply in_map. exact Hin. }
  cbn [Server.handle_all].
  destruct (handle_ok w toks e HI He Hne) as [(w1 & ys & Hh & I1 & K1 & _)|Hov]; [|right; rewrite Hov; reflexivity].
  rewrite Hh. eapply IH; eauto.
  apply Forall_forall. intros e' Hin'. rewrite Forall_forall in Ht.
  eapply evt_ok_frame; eauto.
  - intros E. apply Hnotin. rewrite <- E. apply in_map. exact Hin'.
  - intros nf nf' -> ->. apply Hnotin. change (ev_key (EvListener nf)) with (ev_key (EvListener nf')). apply in_map. exact Hin'.
Qed.

(* ---------- respond ---------- *)
Lemma count_g_remove g t1 t2 fd g' :
  count_g g (t1 ++ (fd, g') :: t2) = (count_g g (t1 ++ t2) + if Nat.eqb g' g then 1 else 0)%nat.
Proof.
  rewrite !count_g_app. unfold count_g at 2. cbn [filter snd]. destruct (Nat.eqb g' g); cbn [length]; unfold count_g; lia.
Qed.

(* answering an outstanding token (fd, g): the call succeeds, only the connection at fd changes,
   and it is still the instance g that yielded the request -- even if the client has gone *)
Theorem respond_ok w t1 t2 fd g r :
  Inv w (t1 ++ (fd, g) :: t2) ->
  exists w' x, respond w fd r = inl w' /\ Inv w' (t1 ++ t2) /\
    alookup fd (w_conns w) = Some x /\ sc_gid x = g /\
    (forall fd', fd' <> fd -> alookup fd' (w_conns w') = alookup fd' (w_conns w)) /\
    w_clients w' = w_clients w.
Proof.
  intros HI. destruct (inv_tok _ _ HI fd g) as (x & HL & Hg); [apply in_or_app; right; left; reflexivity|].
  pose proof (inv_cc _ _ HI _ _ HL) as [Hst [ph I]].
  pose proof (inv_infl _ _ HI _ _ HL) as Hinfl. rewrite Hg, count_g_remove, Nat.eqb_refl in Hinfl.
  unfold respond. rewrite HL.
  set (x1 := match sc_st x with AwaitIn => mkSC (sc_conn x) AwaitOut (sc_infl x) (sc_client x) true (sc_gid x) | _ => x end).
  assert (Hx1 : sc_infl x1 = sc_infl x /\ sc_gid x1 = sc_gid x /\ sc_conn x1 = sc_conn x /\ sc_client x1 = sc_client x)
    by (unfold x1; destruct (sc_st x); auto).
  destruct Hx1 as (E1 & E2 & E3 & E4).
  unfold cc_enqueue. rewrite E1.
  assert (Z : (sc_infl x =? 0) = false) by (apply N.eqb_neq; lia). rewrite Z.
  do 2 eexists. split; [reflexivity|]. split; [|split; [reflexivity|split; [exact Hg|split; [|reflexivity]]]].
  - unfold set_conn. apply (inv_update w _ fd x _ _ _ HI HL).
    + cbn. exact E2.
    + split.
      * unfold st_ok in *. unfold x1. destruct (sc_st x) eqn:S0; cbn; rewrite ?S0; cbn.
        -- split; [reflexivity|apply pending_enqueue].
        -- split; [tauto|apply pending_enqueue].
        -- exact Hst.
      * exists ph. cbn [sc_conn]. rewrite E3. destruct (sc_st x1); [| |exact I];
          (eapply CInv_parser_same; [exact I|unfold parser_same; cbn; auto 6]).
    + intros g0 Hne. rewrite count_g_remove. destruct (Nat.eqb g g0) eqn:E; [apply Nat.eqb_eq in E; congruence|lia].
    + cbn [sc_infl]. rewrite Hg. lia.
    + intros fd' g0 Hin. left. apply in_app_or in Hin. apply in_or_app. destruct Hin; [left; auto|right; right; auto].
  - intros fd' Hne. cbn. apply alookup_update_other. congruence.
Qed.

(* ---------- flush_outgoing_writes ---------- *)
Lemma flush_conn_facts : forall fuel x b sent0,
  cc_ok x ->
  let '(y, sent) := flush_conn fuel x b sent0 in
  sc_gid y = sc_gid x /\ sc_client y = sc_client x /\ sc_infl y = sc_infl x /\ sc_out y = sc_out x /\
  st_mid y /\ (sc_st x <> AwaitOut -> y = x) /\ (exists ph, CInv (sc_conn y) ph).
Proof.
  induction fuel as [|f IH]; intros x b sent0 Hok; cbn [flush_conn].
  - destruct Hok as [Hst HC]. repeat (split; [reflexivity|]). split; [|split; [reflexivity|exact HC]].
    unfold st_mid, st_ok in *. destruct (sc_st x); (split; [|split]); intros; try congruence; tauto.
  - destruct (sc_st x) eqn:S0.
    + destruct Hok as [Hst HC]. repeat (split; [reflexivity|]). split; [|split; [reflexivity|exact HC]].
      unfold st_mid, st_ok in *. rewrite S0 in *. (split; [|split]); intros; try congruence; tauto.
    + destruct (cc_write_facts x b 0 Hok (or_introl S0)) as (y & s & HW & Hg & Hc & Hi & Ho & Hmid & HC).
      rewrite HW.
      (* y satisfies the interest invariant again unless it became AwaitIn with interest OUT; the loop
         only continues while it is AwaitOut *)
      destruct (sc_st y) eqn:Sy.
      * destruct f; cbn [flush_conn]; rewrite ?Sy;
          (split; [exact Hg|split; [exact Hc|split; [exact Hi|split; [exact Ho|split; [exact Hmid|split; [intros; congruence|exact HC]]]]]]).
      * assert (Hoky : cc_ok y).
        { split; [|exact HC]. apply st_ok_of_mid; auto.
          - intros _. rewrite Ho. destruct Hok as [Hst _]. unfold st_ok in Hst. rewrite S0 in Hst. tauto.
          - intros; congruence. }
        specialize (IH y b (sent0 ++ s) Hoky). destruct (flush_conn f y b (sent0 ++ s)) as [z sz].
        destruct IH as (A1 & A2 & A3 & A4 & A5 & _ & A7).
        split; [congruence|]. split; [congruence|]. split; [congruence|]. split; [congruence|].
        split; [exact A5|]. split; [intros; congruence|exact A7].
      * destruct f; cbn [flush_conn]; rewrite ?Sy;
          (split; [exact Hg|split; [exact Hc|split; [exact Hi|split; [exact Ho|split; [exact Hmid|split; [intros; congruence|exact HC]]]]]]).
    + destruct Hok as [Hst HC]. repeat (split; [reflexivity|]). split; [|split; [reflexivity|exact HC]].
      unfold st_mid, st_ok in *. rewrite S0 in *. (split; [|split]); intros; try congruence; tauto.
Qed.

Lemma flush_one_inv w toks fd x :
  Inv w toks -> alookup fd (w_conns w) = Some x -> Inv (flush_one w (fd, x)) toks.
Proof.
  intros HI HL. unfold flush_one.
  pose proof (inv_cc _ _ HI _ _ HL) as Hok.
  pose proof (flush_conn_facts (S (S (length (c_rq (sc_conn x))))) x (k_can_receive (client_of w (sc_client x))) [] Hok) as F.
  destruct (flush_conn _ x _ []) as [y sent].
  destruct F as (Hg & Hc & Hi & Ho & Hmid & Hsame & HC).
  unfold set_client, set_conn. cbn [w_clients w_conns w_backlog w_tokens w_nextg w_limit w_killed].
  eapply inv_update; eauto.
  - destruct (sstate_eqb (sc_st x) AwaitOut && sstate_eqb (sc_st y) AwaitIn); cbn; auto.
  - destruct (sstate_eqb (sc_st x) AwaitOut) eqn:W.
    + assert (Sx : sc_st x = AwaitOut) by (destruct (sc_st x); try discriminate; reflexivity).
      assert (Hox : sc_out x = true) by (destruct Hok as [Hst _]; unfold st_ok in Hst; rewrite Sx in Hst; tauto).
      cbn [andb]. destruct (sstate_eqb (sc_st y) AwaitIn) eqn:Wy.
      * assert (Sy : sc_st y = AwaitIn) by (destruct (sc_st y); try discriminate; reflexivity).
        split; [|exact HC]. unfold st_ok. cbn. rewrite Sy. split; [reflexivity|]. destruct Hmid as (_ & M2 & _). apply M2. exact Sy.
      * split; [|exact HC]. apply st_ok_of_mid; auto.
        -- intros _. congruence.
        -- intros Sy. rewrite Sy in Wy. discriminate.
    + cbn [andb]. assert (Sx : sc_st x <> AwaitOut) by (intros E; rewrite E in W; discriminate).
      rewrite (Hsame Sx). exact Hok.
  - assert (E : sc_infl (if sstate_eqb (sc_st x) AwaitOut && sstate_eqb (sc_st y) AwaitIn
                        then mkSC (sc_conn y) (sc_st y) (sc_infl y) (sc_client y) false (sc_gid y) else y) = sc_infl y)
      by (destruct (sstate_eqb (sc_st x) AwaitOut && sstate_eqb (sc_st y) AwaitIn); reflexivity).
    rewrite E, Hi. eapply inv_infl; eauto.
Qed.

Theorem flush_inv w toks : Inv w toks -> Inv (flush w) toks.
Proof.
  intros HI. unfold flush.
  assert (G : forall l w0, Inv w0 toks -> (forall p, In p l -> alookup (fst p) (w_conns w0) = Some (snd p)) ->
              NoDup (map fst l) -> Inv (fold_left flush_one l w0) toks).
  { induction l as [|[fd x] l IH]; intros w0 I0 Hl Hnd; cbn [fold_left]; [exact I0|].
    inversion Hnd as [|? ? Hnot Hnd']; subst.
    apply IH; [apply flush_one_inv; [exact I0|apply (Hl (fd, x)); left; reflexivity]| |exact Hnd'].
    intros [fd' x'] Hin. cbn [fst snd]. unfold flush_one.
    destruct (flush_conn _ x _ []) as [y sent]. cbn [set_client set_conn w_conns].
    rewrite alookup_update_other; [apply (Hl (fd', x')); right; exact Hin|].
    intros E. subst. apply Hnot. change fd' with (fst (fd', x')). apply in_map. exact Hin. }
  apply G; [exact HI| |apply (inv_nodup _ _ HI)].
  intros [fd x] Hin. cbn. apply alookup_in_nodup; [apply (inv_nodup _ _ HI)|exact Hin].
Qed.

(* ---------- readiness (C08): no lost wake-up, no spin ---------- *)
Definition quiet_conn (w : world) (x : sconn) : Prop :=
  sc_st x = AwaitIn /\ k_hup (client_of w (sc_client x)) = false /\ k_tosrv (client_of w (sc_client x)) = [].

(* once no client input, no unsent output and no waiting client remains -- answered or not --
   nothing is ready: the epoll descriptor stops signalling *)
Theorem no_spin w toks :
  Inv w toks -> w_killed w = false -> w_backlog w = [] ->
  (forall fd x, In (fd, x) (w_conns w) -> quiet_conn w x) -> ready_events w = [].
Proof.
  intros HI Hk Hb Hq. unfold ready_events. rewrite Hk, Hb. cbn [app]. rewrite app_nil_r.
  assert (G : forall l, (forall p, In p l -> In p (w_conns w)) ->
              flat_map (fun p => match conn_event w (fst p) (snd p) with Some e => [e] | None => [] end) l = []).
  { induction l as [|[fd x] l IH]; intros Hsub; [reflexivity|]. cbn [flat_map].
    rewrite IH by (intros p Hp; apply Hsub; right; exact Hp).
    destruct (Hq fd x (Hsub _ (or_introl eq_refl))) as (S0 & Hh & Ht).
    assert (Ho : sc_out x = false).
    { pose proof (inv_cc _ _ HI fd x (alookup_in_nodup _ _ _ (inv_nodup _ _ HI) (Hsub _ (or_introl eq_refl)))) as [Hst _].
      unfold st_ok in Hst. rewrite S0 in Hst. tauto. }
    unfold conn_event. cbn [fst snd]. rewrite Hh, Ho, Ht. reflexivity. }
  apply G. auto.
Qed.

(* no lost wake-up: unread client bytes on a connection awaiting input, unsent output, a hang-up,
   a waiting client or a signalled kill switch each make the poll enabled *)
Theorem no_lost_wakeup w toks fd x :
  Inv w toks -> In (fd, x) (w_conns w) ->
  (k_hup (client_of w (sc_client x)) = true \/ sc_st x = AwaitOut \/
   (sc_st x = AwaitIn /\ k_tosrv (client_of w (sc_client x)) <> [])) ->
  ready_events w <> [].
Proof.
  intros HI Hin Hc. unfold ready_events.
  assert (G : flat_map (fun p => match conn_event w (fst p) (snd p) with Some e => [e] | None => [] end) (w_conns w) <> []).
  { apply in_split in Hin. destruct Hin as (l1 & l2 & E). rewrite E, flat_map_app. cbn [flat_map fst snd].
    assert (Hev : conn_event w fd x <> None).
    { unfold conn_event. destruct (k_hup (client_of w (sc_client x))) eqn:Hh; [discriminate|].
      destruct Hc as [Hc|[Hc|[Hc Hne]]]; [congruence| |].
      - pose proof (inv_cc _ _ HI fd x) as C. rewrite E in C.
        assert (HLk : alookup fd (l1 ++ (fd, x) :: l2) = Some x).
        { apply alookup_in_nodup; [rewrite <- E; apply (inv_nodup _ _ HI)|apply in_or_app; right; left; reflexivity]. }
        destruct (C HLk) as [Hst _]. unfold st_ok in Hst. rewrite Hc in Hst. destruct Hst as [-> _]. discriminate.
      - destruct (sc_out x); [discriminate|]. destruct (k_tosrv (client_of w (sc_client x))); [congruence|discriminate]. }
    destruct (conn_event w fd x); [|congruence]. intros H. apply app_eq_nil in H. destruct H as [_ H]. discriminate. }
  intros H. apply app_eq_nil in H. destruct H as [_ H]. apply app_eq_nil in H. destruct H as [H _]. exact (G H).
Qed.

Theorem backlog_wakes w : w_backlog w <> [] -> ready_events w <> [].
Proof.
  intros Hb. unfold ready_events. destruct (w_backlog w); [congruence|].
  intros H. apply app_eq_nil in H. destruct H as [_ H]. apply app_eq_nil in H. destruct H as [_ H]. discriminate.
Qed.

Theorem kill_wakes w : w_killed w = true -> In EvKill (ready_events w).
Proof. intros Hk. unfold ready_events. rewrite Hk. left. reflexivity. Qed.

Theorem kill_inert w : w_killed w = false -> ~ In EvKill (ready_events w).
Proof.
  intros Hk. unfold ready_events. rewrite Hk. cbn [app]. intros H. apply in_app_or in H. destruct H as [H|H].
  - apply in_flat_map in H. destruct H as ([fd x] & _ & H). unfold conn_event in H. cbn [fst snd] in H.
    destruct (k_hup _); [destruct H as [H|[]]; discriminate|].
    destruct (sc_out x); [destruct H as [H|[]]; discriminate|].
    destruct (k_tosrv _); [destruct H|destruct H as [H|[]]; discriminate].
  - destruct (w_backlog w); [destruct H|destruct H as [H|[]]; discriminate].
Qed.

(* ---------- capacity (C10) ---------- *)
Theorem refuse_iff w nf c rest :
  w_backlog w = c :: rest ->
  exists w', handle_event w (EvListener nf) = inl (w', []) /\ w_backlog w' = rest /\
    if Nat.eqb (length (w_conns w)) MAX_CONNECTIONS
    then (* refused: no entry changes; the client gets exactly the fixed message, if it can
            still receive, and the server's end is closed *)
         w_conns w' = w_conns w /\
         (exists cl', alookup c (w_clients w') = alookup c (aupdate c cl' (w_clients w)) /\ k_place cl' = Gone /\
            k_rx cl' = if k_can_receive (client_of w c) then k_rx (client_of w c) ++ SERVER_FULL_ERROR_MESSAGE
                       else k_rx (client_of w c))
    else exists x, w_conns w' = w_conns w ++ [(nf, x)] /\ sc_st x = AwaitIn /\ sc_infl x = 0 /\
                   c_pmax (sc_conn x) = w_limit w /\ sc_client x = c.
Proof.
  intros Hb. cbn [Server.handle_event]. rewrite Hb.
  destruct (Nat.eqb (length (w_conns w)) MAX_CONNECTIONS).
  - eexists. split; [reflexivity|]. split; [reflexivity|]. split; [reflexivity|].
    eexists. split; [reflexivity|]. split; reflexivity.
  - eexists. split; [reflexivity|]. split; [reflexivity|]. eexists. split; [reflexivity|]. cbn. auto.
Qed.

(* ---------- the executable poll: the canonical batch satisfies the kernel contract ---------- *)
Lemma max_ge l k : In k l -> (k <= fold_right Nat.max 0 l)%nat.
Proof. induction l as [|a l IH]; cbn; [tauto|]. intros [->|H]; [lia|]. specialize (IH H). lia. Qed.

Lemma fresh_fd_unused w : alookup (fresh_fd w) (w_conns w) = None.
Proof.
  destruct (alookup (fresh_fd w) (w_conns w)) as [x|] eqn:E; [|reflexivity].
  apply alookup_some_in in E. assert (H : In (fresh_fd w) (map fst (w_conns w))) by (apply in_map_iff; exists (fresh_fd w, x); auto).
  apply max_ge in H. unfold fresh_fd in H. lia.
Qed.

Lemma conn_events_ok w toks : Inv w toks -> forall l, (forall p, In p l -> In p (w_conns w)) -> NoDup (map fst l) ->
  let es := flat_map (fun p => match conn_event w (fst p) (snd p) with Some e => [e] | None => [] end) l in
  Forall (evt_ok w) es /\ NoDup (map ev_key es) /\ (forall e, In e es -> exists fd, ev_key e = KConn fd /\ In fd (map fst l)).
Proof.
  intros HI. induction l as [|[fd x] l IH]; intros Hsub Hnd; cbn [flat_map].
  - split; [constructor|]. split; [constructor|]. intros e [].
  - inversion Hnd as [|? ? Hnot Hnd']; subst.
    destruct (IH (fun p Hp => Hsub p (or_intror Hp)) Hnd') as (A1 & A2 & A3).
    assert (HL : alookup fd (w_conns w) = Some x).
    { apply alookup_in_nodup; [apply (inv_nodup _ _ HI)|apply Hsub; left; reflexivity]. }
    pose proof (inv_cc _ _ HI _ _ HL) as [Hst _].
    unfold conn_event at 1 3 5. cbn [fst snd].
    destruct (k_hup (client_of w (sc_client x))).
    + cbn [app map]. split; [constructor; [cbn; eauto|exact A1]|]. split.
      * constructor; [|exact A2]. intros Hin. apply in_map_iff in Hin. destruct Hin as (e & He & Hin).
        destruct (A3 e Hin) as (fd' & Hk & Hfd). cbn in He. rewrite Hk in He. inversion He; subst. exact (Hnot Hfd).
      * intros e [<-|Hin]; [exists fd; cbn; auto|]. destruct (A3 e Hin) as (fd' & Hk & Hfd). exists fd'. cbn; auto.
    + destruct (sc_out x) eqn:Ho.
      * cbn [app map]. split; [constructor; [cbn; eauto|exact A1]|]. split.
        -- constructor; [|exact A2]. intros Hin. apply in_map_iff in Hin. destruct Hin as (e & He & Hin).
           destruct (A3 e Hin) as (fd' & Hk & Hfd). cbn in He. rewrite Hk in He. inversion He; subst. exact (Hnot Hfd).
        -- intros e [<-|Hin]; [exists fd; cbn; auto|]. destruct (A3 e Hin) as (fd' & Hk & Hfd). exists fd'. cbn; auto.
      * destruct (k_tosrv (client_of w (sc_client x))).
        -- cbn [app]. split; [exact A1|]. split; [exact A2|].
           intros e Hin. destruct (A3 e Hin) as (fd' & Hk & Hfd). exists fd'. cbn; auto.
        -- cbn [app map]. split; [constructor; [cbn; eauto|exact A1]|]. split.
           ++ constructor; [|exact A2]. intros Hin. apply in_map_iff in Hin. destruct Hin as (e & He & Hin).
              destruct (A3 e Hin) as (fd' & Hk & Hfd). cbn in He. rewrite Hk in He. inversion He; subst. exact (Hnot Hfd).
           ++ intros e [<-|Hin]; [exists fd; cbn; auto|]. destruct (A3 e Hin) as (fd' & Hk & Hfd). exists fd'. cbn; auto.
Qed.

Theorem ready_events_ok w toks : Inv w toks ->
  Forall (evt_ok w) (ready_events w) /\ NoDup (map ev_key (ready_events w)).
Proof.
  intros HI. unfold ready_events.
  destruct (conn_events_ok w toks HI (w_conns w) (fun p H => H) (inv_nodup _ _ HI)) as (A1 & A2 & A3).
  set (ces := flat_map (fun p => match conn_event w (fst p) (snd p) with Some e => [e] | None => [] end) (w_conns w)) in *.
  assert (HB : Forall (evt_ok w) (ces ++ match w_backlog w with [] => [] | _ => [EvListener (fresh_fd w)] end)
              /\ NoDup (map ev_key (ces ++ match w_backlog w with [] => [] | _ => [EvListener (fresh_fd w)] end))
              /\ ~ In KKill (map ev_key (ces ++ match w_backlog w with [] => [] | _ => [EvListener (fresh_fd w)] end))).
  { destruct (w_backlog w).
    - rewrite app_nil_r. split; [exact A1|]. split; [exact A2|].
      intros Hin. apply in_map_iff in Hin. destruct Hin as (e & He & Hin). destruct (A3 e Hin) as (fd & Hk & _). congruence.
    - split; [apply Forall_app; split; [exact A1|constructor; [cbn; apply fresh_fd_unused|constructor]]|]. split.
      + rewrite map_app. cbn [map ev_key]. apply NoDup_app_end; [exact A2|].
        intros Hin. apply in_map_iff in Hin. destruct Hin as (e & He & Hin). destruct (A3 e Hin) as (fd & Hk & _). congruence.
      + rewrite map_app. cbn [map ev_key]. intros Hin. apply in_app_or in Hin. destruct Hin as [Hin|[Hin|[]]]; [|discriminate].
        apply in_map_iff in Hin. destruct Hin as (e & He & Hin). destruct (A3 e Hin) as (fd & Hk & _). congruence. }
  destruct HB as (B1 & B2 & B3).
  destruct (w_killed w) eqn:Hk; cbn [app].
  - split; [constructor; [exact Hk|exact B1]|]. cbn [map ev_key]. constructor; [exact B3|exact B2].
  - split; [exact B1|exact B2].
Qed.

(* the executable poll (canonical event order): blocked, a yield that keeps the invariant,
   the shutdown indication, or the u32 overflow *)
Theorem poll_outcomes w toks : Inv w toks ->
  match poll BUF w with
  | PBlocked => ready_events w = []
  | PYield w' ys => Inv w' (ytoks ys ++ toks) /\ w_killed w = false
  | Server.PErr e => (e = EShutdown /\ w_killed w = true) \/ e = EOverflow
  end.
Proof.
  intros HI. unfold poll. destruct (ready_events_ok w toks HI) as [A1 A2].
  destruct (w_killed w) eqn:Hk.
  - unfold ready_events. rewrite Hk. cbn. left. auto.
  - assert (Hnk : ~ In KKill (map ev_key (ready_events w))).
    { intros Hin. apply in_map_iff in Hin. destruct Hin as (e & He & Hin). destruct e; try discriminate.
      exact (kill_inert w Hk Hin). }
    destruct (ready_events w) as [|e t] eqn:E; [reflexivity|].
    destruct (poll_total w toks (e :: t) HI A1 A2 Hnk ltac:(discriminate)) as [(w' & ys & P & I')|P]; rewrite P; auto.
Qed.

End Srv.
