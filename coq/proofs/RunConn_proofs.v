(* The executable connection interpreter of run/Run.v (domain 6 of the correspondence run: a scripted stream
   with reads of any size, failing reads, short / interrupted / failing writes, enqueues, clears, limit
   changes) never leaves the connection invariant, and every system-call result it feeds to try_read /
   try_write satisfies the contract under which C03 excludes the panic sites. *)
From MH Require Export proofs.ServerYield_proofs.
From Coq Require Import Lia.

Section RC.
Variable BUF : nat.
Hypothesis BUF_min : (2 <= BUF)%nat.
Hypothesis BUF_u32 : N.of_nat BUF < U32_LIMIT.
Notation CInv := (CInv BUF).

Definition KI (k : cst) : Prop := exists ph, CInv (k_conn k) ph.

Lemma drain_parser_same : forall fuel c acc, parser_same c (fst (drain fuel c acc)) /\ c_pmax (fst (drain fuel c acc)) = c_pmax c.
Proof.
  induction fuel as [|f IH]; intros c acc; cbn [drain]; [unfold parser_same; auto 8|].
  unfold pop_parsed_request. destruct (c_parsed c) as [|r q]; [cbn; unfold parser_same; auto 8|].
  destruct (IH (mkConn (c_state c) (c_win c) (c_pending c) (c_body_vec c) (c_body_left c) q
                       (c_rq c) (c_rbuf c) (c_files c) (c_pmax c)) (acc ++ [r])) as ((P1 & P2 & P3 & P4 & P5) & Pm).
  cbn in *. unfold parser_same. auto 10.
Qed.

Lemma read_line_KI hold pre k ev rest' nfd' :
  KI k -> ev_ok BUF (k_conn k) ev -> KI (fst (fst (read_line BUF hold pre k ev rest' nfd'))).
Proof.
  intros [ph I] Hok. unfold read_line.
  destruct (try_read_total BUF BUF_min BUF_u32 (k_conn k) ph ev I Hok) as (c1 & res & sys & ph1 & T & I1 & _).
  rewrite T. set (fu := if hold then O else S (length (c_parsed c1))).
  destruct (drain fu c1 []) as [c2 reqs] eqn:D.
  pose proof (drain_parser_same fu c1 []) as [PS _]. rewrite D in PS. cbn [fst] in *.
  exists ph1. cbn [k_conn]. eapply CInv_parser_same; eauto.
Qed.

Lemma write_line_KI pre k ev : KI k -> KI (fst (write_line pre k ev)).
Proof.
  intros [ph I]. unfold write_line. pose proof (try_write_parser_same (k_conn k) ev) as PS.
  destruct (try_write (k_conn k) ev) as [[c1 res] off]. cbn [fst k_conn] in *. exists ph. eapply CInv_parser_same; eauto.
Qed.

(* the read results the scripted stream produces are within the recvmsg contract *)
Lemma take_step_KI hold pre k n nf : KI k -> KI (fst (fst (take_step BUF hold pre k n nf))).
Proof.
  intros HK. unfold take_step.
  destruct (BUF <=? length (c_win (k_conn k)))%nat eqn:E; [apply read_line_KI; [exact HK|exact Logic.I]|].
  apply Nat.leb_gt in E.
  set (kk := Nat.min (N.to_nat (N.min n (N.of_nat (BUF - length (c_win (k_conn k)))))) (length (k_rest k))).
  assert (Hkk : (kk <= BUF - length (c_win (k_conn k)))%nat) by (unfold kk; lia).
  destruct kk as [|kk'] eqn:Ek; [apply read_line_KI; [exact HK|exact Logic.I]|].
  apply read_line_KI; [exact HK|]. cbn [ev_ok]. rewrite firstn_length. lia.
Qed.

Lemma drain_reads_KI : forall fuel pre k n, KI k -> KI (fst (drain_reads BUF fuel pre k n)).
Proof.
  induction fuel as [|f IH]; intros pre k n HK; cbn [drain_reads]; [exact HK|].
  destruct (k_rest k); [exact HK|].
  pose proof (take_step_KI false pre k n 0 HK) as H1.
  destruct (take_step BUF false pre k n 0) as [[k' line] ok]. cbn [fst] in H1.
  destruct ok; [|exact H1]. specialize (IH pre k' n H1). destruct (drain_reads BUF f pre k' n) as [k'' ls]. exact IH.
Qed.

Lemma set_write_KI k rq rb : KI k -> KI (mkCst (set_write (k_conn k) rq rb) (k_rest k) (k_nextfd k)).
Proof. intros [ph I]. exists ph. cbn [k_conn]. eapply CInv_parser_same; [exact I|]. unfold parser_same. cbn. auto 6. Qed.

Lemma set_max_KI k n : KI k -> KI (mkCst (set_payload_max_size (k_conn k) n) (k_rest k) (k_nextfd k)).
Proof.
  intros [ph [G St]]. exists ph. cbn [k_conn]. split.
  - eapply Good_parser_fields; eauto.
  - cbn. eapply stuck_pmax. exact St.
Qed.

Theorem run_conn_op_KI id i k op : KI k -> KI (fst (run_conn_op BUF id i k op)).
Proof.
  intros HK. unfold run_conn_op.
  repeat match goal with
         | |- context [match ?x with _ => _ end] => is_var x; destruct x
         end;
    try exact HK;
    cbn [fst];
    first [ exact HK
          | apply write_line_KI; exact HK
          | apply drain_reads_KI; exact HK
          | apply set_write_KI; exact HK
          | apply set_max_KI; exact HK
          | match goal with |- context [take_step BUF ?hd ?p k ?n ?nf] =>
              pose proof (take_step_KI hd p k n nf HK) as H1; destruct (take_step BUF hd p k n nf) as [[k' line] ok]; exact H1 end
          | match goal with |- context [read_line BUF ?hd ?p k ?ev ?r ?f] =>
              pose proof (read_line_KI hd p k ev r f HK Logic.I) as H1; destruct (read_line BUF hd p k ev r f) as [[k' line] ok]; exact H1 end ].
Qed.

(* the state after any list of operations *)
Fixpoint run_conn_state (id : N) (i : nat) (k : cst) (ops : list arg) : cst :=
  match ops with
  | [] => k
  | op :: r => run_conn_state id (S i) (fst (run_conn_op BUF id i k op)) r
  end.

Theorem executed_conn_keeps_inv : forall ops id i k, KI k -> KI (run_conn_state id i k ops).
Proof.
  induction ops as [|op r IH]; intros id i k HK; cbn [run_conn_state]; [exact HK|].
  apply IH. apply run_conn_op_KI. exact HK.
Qed.

Corollary executed_conn_from_new ops id L stream :
  KI (run_conn_state id 0 (mkCst (set_payload_max_size conn_new L) stream 0) ops).
Proof.
  apply executed_conn_keeps_inv. exists PLine. cbn [k_conn]. apply CInv_new; assumption.
Qed.

End RC.
