(* Lemmas about the byte-string library. *)
From MH Require Export lib.Bytes lib.Utf8 lib.Str.
From Coq Require Export Lia.

Lemma beq_eq a b : beq a b = true <-> a = b.
Proof.
  revert b; induction a as [|x a IH]; intros [|y b]; cbn; split; intros H; try congruence; try discriminate.
  - apply andb_true_iff in H. destruct H as [H1 H2]. apply N.eqb_eq in H1. apply IH in H2. congruence.
  - inversion H; subst. rewrite N.eqb_refl. cbn. apply IH. reflexivity.
Qed.

Lemma beq_refl a : beq a a = true.
Proof. apply beq_eq. reflexivity. Qed.

Lemma beq_neq a b : beq a b = false <-> a <> b.
Proof.
  split; intros H.
  - intros E. apply beq_eq in E. congruence.
  - destruct (beq a b) eqn:E; auto. apply beq_eq in E. contradiction.
Qed.

Lemma prefixb_spec p l : prefixb p l = true <-> exists r, l = p ++ r.
Proof.
  revert l; induction p as [|x p IH]; intros l; cbn.
  - split; eauto.
  - destruct l as [|y l]; cbn.
    + split; [discriminate|]. intros [r H]. discriminate.
    + split.
      * intros H. apply andb_true_iff in H. destruct H as [H1 H2]. apply N.eqb_eq in H1.
        apply IH in H2. destruct H2 as [r ->]. exists r. congruence.
      * intros [r H]. inversion H; subst. rewrite N.eqb_refl. cbn. apply IH. eauto.
Qed.

Lemma position_some c w n : position c w = Some n ->
  exists a p, w = a ++ c :: p /\ ~ In c a /\ length a = n.
Proof.
  revert n; induction w as [|x w IH]; intros n; cbn; [discriminate|].
  destruct (N.eqb x c) eqn:E.
  - apply N.eqb_eq in E; subst. intros H; inversion H; subst. exists [], w. cbn. auto.
  - destruct (position c w) as [k|]; [|discriminate]. cbn. intros H; inversion H; subst.
    destruct (IH k eq_refl) as (a & p & -> & Hn & Hl).
    exists (x :: a), p. cbn. repeat split; auto.
    apply N.eqb_neq in E. intros [A|A]; [congruence|auto].
Qed.

Lemma position_none c w : position c w = None -> ~ In c w.
Proof.
  induction w as [|x w IH]; cbn; [tauto|].
  destruct (N.eqb x c) eqn:E; [discriminate|].
  destruct (position c w); [discriminate|]. intros _ [A|A].
  - apply N.eqb_neq in E. congruence.
  - apply IH; auto.
Qed.

Lemma position_app c a p : ~ In c a -> position c (a ++ c :: p) = Some (length a).
Proof.
  induction a as [|x a IH]; cbn; intros H.
  - rewrite N.eqb_refl. reflexivity.
  - destruct (N.eqb x c) eqn:E.
    + apply N.eqb_eq in E. exfalso. apply H. auto.
    + rewrite IH by tauto. reflexivity.
Qed.

Lemma skipn_app_exact {A} (a b : list A) : skipn (length a) (a ++ b) = b.
Proof. induction a; cbn; auto. Qed.

Lemma firstn_app_exact {A} (a b : list A) : firstn (length a) (a ++ b) = a.
Proof. induction a; cbn; congruence. Qed.
