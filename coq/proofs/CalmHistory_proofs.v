(* Calm worlds are exactly what well-behaved histories reach: starting from the empty server, any
   sequence of client connects (fresh clients), sends, reads, polls (truthful batches, any order),
   responses for held tokens and flushes keeps the world calm and the invariant true -- so the C08
   progress and delivery theorems apply at every point of every such history. *)
From MH Require Export proofs.Flush_proofs.
From Coq Require Import Lia.

Section CH.
Variable BUF : nat.
Hypothesis BUF_min : (2 <= BUF)%nat.
Hypothesis BUF_u32 : N.of_nat BUF < U32_LIMIT.
Notation Inv := (Inv BUF).

Definition connect_world (w : world) (c : nat) : world :=
  Server.mkW (w_clients w ++ [(c, mkCl true false false [] [] InBacklog)]) (w_conns w) (w_backlog w ++ [c])
             (w_tokens w) (w_nextg w) (w_limit w) (w_killed w).

Inductive calm_step : world * list tok -> world * list tok -> Prop :=
| CPoll w toks es w' ys :
    Forall (evt_live w) es -> NoDup (map ev_key es) -> poll_with BUF w es = PYield w' ys ->
    calm_step (w, toks) (w', ytoks ys ++ toks)
| CRespond w t1 t2 fd g r w' :
    respond w fd r = inl w' -> calm_step (w, t1 ++ (fd, g) :: t2) (w', t1 ++ t2)
| CFlush w toks : calm_step (w, toks) (flush w, toks)
| CConnect w toks c : alookup c (w_clients w) = None -> calm_step (w, toks) (connect_world w c, toks)
| CSend w toks c cl bs : alookup c (w_clients w) = Some cl ->
    calm_step (w, toks) (set_client w c (cl_set_tosrv cl (k_tosrv cl ++ bs)), toks)
| CRead w toks c cl : alookup c (w_clients w) = Some cl ->
    calm_step (w, toks) (set_client w c (mkCl (k_open cl) (k_shut_wr cl) (k_shut_rd cl) (k_tosrv cl) [] (k_place cl)), toks).

Inductive calm_reach : world * list tok -> Prop :=
| CR0 : calm_reach (world0, [])
| CRS s s' : calm_reach s -> calm_step s s' -> calm_reach s'.

Lemma alookup_app_fresh {A} c (v : A) l c0 :
  alookup c l = None ->
  alookup c0 (l ++ [(c, v)]) = match alookup c0 l with Some x => Some x | None => if Nat.eqb c c0 then Some v else None end.
Proof. intros _. apply alookup_app_end. Qed.

Lemma calm_set_client w c cl cl' :
  Calm w -> alookup c (w_clients w) = Some cl -> calm_client cl' -> Calm (set_client w c cl').
Proof.
  intros [C1 C2 C3 C4 C5 C6] Hcl Hcc. constructor; cbn [set_client w_killed w_clients w_conns w_backlog]; auto.
  - intros c0 cl0 H. apply alookup_update_cases in H. destruct H as [(-> & -> & _)|(_ & H)]; eauto.
  - intros fd x H. destruct (C3 _ _ H) as (A1 & A2 & A3). split; [exact A1|]. split; [exact A2|]. apply alookup_update_ex. exact A3.
  - intros c0 Hin. destruct (C6 c0 Hin) as (A1 & A2). split; [apply alookup_update_ex; exact A1|exact A2].
Qed.

Theorem calm_invariant s : calm_reach s -> Calm (fst s) /\ Inv (fst s) (snd s).
Proof.
  induction 1 as [|s s' Hr [HC HI] Hstep].
  - split; [apply Calm_world0|apply Inv_world0; assumption].
  - inversion Hstep as [w toks es w' ys Hl Hnd Hp|w t1 t2 fd g r w' Hr'|w toks|w toks c Hf|w toks c cl bs Hcl|w toks c cl Hcl];
      subst; cbn [fst snd] in *.
    + destruct (poll_progress BUF BUF_min BUF_u32 w toks es w' ys HI HC Hl Hnd Hp) as (A1 & A2 & _). auto.
    + destruct (respond_conserves BUF w t1 t2 fd g r w' HI HC Hr') as (A1 & _).
      destruct (respond_ok BUF BUF_min BUF_u32 w t1 t2 fd g r HI) as (w1 & x & Hr1 & I1 & _).
      rewrite Hr' in Hr1. inversion Hr1; subst. auto.
    + destruct (flush_delivers_all BUF BUF_min BUF_u32 w toks HI HC) as (A1 & A2 & _). auto.
    + split; [|refine (Inv_env BUF w toks _ _ _ HI); reflexivity].
      destruct HC as [C1 C2 C3 C4 C5 C6]. constructor; cbn [connect_world w_killed w_clients w_conns w_backlog]; auto.
      * intros c0 cl0 H. rewrite alookup_app_end in H. destruct (alookup c0 (w_clients w)) eqn:E; [inversion H; subst; eauto|].
        destruct (Nat.eqb c c0); [|discriminate]. inversion H; subst. repeat split.
      * intros fd x H. destruct (C3 _ _ H) as (A1 & A2 & cl & A3). split; [exact A1|]. split; [exact A2|].
        exists cl. rewrite alookup_app_end, A3. reflexivity.
      * (* the new client is not waiting yet *)
        assert (Hnb : ~ In c (w_backlog w)) by (intros Hin; destruct (C6 c Hin) as ((cl & E) & _); congruence).
        clear -C5 Hnb. induction (w_backlog w) as [|a l IH]; cbn; [repeat constructor; intros []|].
        inversion C5 as [|? ? Hn Hd]; subst. constructor.
        -- intros Hin. apply in_app_or in Hin. destruct Hin as [Hin|[<-|[]]]; [exact (Hn Hin)|apply Hnb; left; reflexivity].
        -- apply IH; [exact Hd|intros Hin; apply Hnb; right; exact Hin].
      * intros c0 Hin. apply in_app_or in Hin. destruct Hin as [Hin|[<-|[]]].
        -- destruct (C6 c0 Hin) as ((cl & A1) & A2). split; [|exact A2]. exists cl. rewrite alookup_app_end, A1. reflexivity.
        -- split.
           ++ eexists. rewrite alookup_app_end, Hf, Nat.eqb_refl. reflexivity.
           ++ intros fd x H E. destruct (C3 _ _ H) as (_ & _ & cl & A3). congruence.
    + split; [|refine (Inv_env BUF w toks _ _ _ HI); reflexivity]. eapply calm_set_client; eauto. exact (calm_clients _ HC _ _ Hcl).
    + split; [|refine (Inv_env BUF w toks _ _ _ HI); reflexivity]. eapply calm_set_client; eauto. exact (calm_clients _ HC _ _ Hcl).
Qed.

End CH.
