(* Totality (C03): no reachable state x input reaches a modelled panic site; the one-shot
   parser's slices and subtractions are always in range. *)
From MH Require Export proofs.Impl_proofs proofs.Write_proofs model.OneShot.

(* ---------- generic find ---------- *)
Lemma prefixb_length p l : prefixb p l = true -> (length p <= length l)%nat.
Proof.
  revert l; induction p as [|x p IH]; intros l; cbn; [lia|].
  destruct l as [|y l]; [discriminate|]. intros H. apply andb_true_iff in H. destruct H as [_ H].
  apply IH in H. cbn. lia.
Qed.

Lemma find_some p : forall w i, find p w = Some i ->
  (i + length p <= length w)%nat /\ prefixb p (skipn i w) = true.
Proof.
  induction w as [|a t IH]; intros i; cbn [find]; [discriminate|].
  destruct (prefixb p (a :: t)) eqn:P.
  - intros H; inversion H; subst. split; [apply prefixb_length in P; lia|exact P].
  - destruct (find p t) as [j|]; [|discriminate]. cbn. intros H; inversion H; subst.
    destruct (IH j eq_refl) as [A1 A2]. split; [cbn [length]; lia|exact A2].
Qed.

(* a CRLFCRLF found in a slice that starts with CRLF is at 0 or at >= 2 (never at 1) *)
Lemma crlfcrlf_not_at_1 t : prefixb CRLF t = true -> find CRLFCRLF t <> Some 1%nat.
Proof.
  intros P H. apply find_some in H. destruct H as [_ H].
  destruct t as [|a [|b t']]; try discriminate.
  cbn [skipn] in H. unfold CRLF, CRLFCRLF in *. cbn [prefixb] in *.
  apply andb_true_iff in P. destruct P as [_ P]. apply andb_true_iff in P. destruct P as [P _].
  apply andb_true_iff in H. destruct H as [H _].
  apply N.eqb_eq in P, H. unfold CR, LF in *. congruence.
Qed.

(* ---------- Request::try_from never panics ---------- *)
Theorem request_try_from_total bs max : forall s, request_try_from bs max <> OPanic s.
Proof.
  intros s. unfold request_try_from.
  destruct (match max with Some lim => lim <=? lenN bs | None => false end); [discriminate|].
  destruct (find_crlf bs) as [rle|] eqn:F; [|discriminate].
  pose proof (find_some CRLF bs rle F) as [Hr Hp]. cbn [length CRLF] in Hr.
  unfold slice_to, slice_from.
  assert (E1 : (rle <=? length bs)%nat = true) by (apply Nat.leb_le; lia). rewrite E1.
  destruct (length (firstn rle bs) <? reqline_min_len)%nat; [discriminate|].
  destruct (parse_reqline (firstn rle bs)) as [rl|e]; [|discriminate].
  destruct (find CRLFCRLF (skipn rle bs)) as [he|] eqn:F2; [|discriminate].
  destruct he as [|he']; [discriminate|].
  pose proof (find_some CRLFCRLF _ _ F2) as [Hh _]. cbn [length CRLFCRLF] in Hh. rewrite skipn_length in Hh.
  assert (E3 : (rle + 2 <=? length bs)%nat = true) by (apply Nat.leb_le; lia). rewrite E3.
  destruct (S he' <? 2)%nat eqn:E4.
  { exfalso. apply Nat.ltb_lt in E4. assert (he' = 0%nat) by lia. subst.
    exact (crlfcrlf_not_at_1 _ Hp F2). }
  apply Nat.ltb_ge in E4.
  assert (E5 : (S he' - 2 <=? length (skipn (rle + 2) bs))%nat = true)
    by (apply Nat.leb_le; rewrite skipn_length; lia). rewrite E5.
  destruct (headers_try_from _) as [h|e]; [|discriminate].
  destruct (h_content_length h =? 0); [discriminate|].
  destruct (method_eqb (rl_method rl) Get); [discriminate|].
  assert (E6 : (length (skipn (rle + 2) bs) <? S he' - 2 + 4)%nat = false)
    by (apply Nat.ltb_ge; rewrite skipn_length; lia). rewrite E6.
  destruct (N.of_nat _ <? h_content_length h); [discriminate|].
  assert (E7 : (S he' - 2 + 4 <=? length (skipn (rle + 2) bs))%nat = true)
    by (apply Nat.leb_le; rewrite skipn_length; lia). rewrite E7.
  destruct (lenN _ =? h_content_length h); discriminate.
Qed.

(* the one-shot parser rejects slices whose length reaches the caller's maximum *)
Theorem request_try_from_maxlen bs n :
  request_try_from bs (Some n) = if n <=? lenN bs then OErr InvalidRequest else request_try_from bs None.
Proof. unfold request_try_from. destruct (n <=? lenN bs); reflexivity. Qed.

(* ---------- the connection under any sequence of calls ---------- *)
Section Conn.
Variable BUF : nat.
Hypothesis BUF_min : (2 <= BUF)%nat.
Hypothesis BUF_u32 : N.of_nat BUF < U32_LIMIT.

Inductive cop :=
| CRead (ev : read_ev)
| CWrite (ev : write_ev)
| CEnqueue (r : response)
| CPop
| CClear
| CSetMax (n : N).

(* the contracts of the two system calls: recvmsg returns at most `room` bytes, write accepts at
   most what it was offered *)
Definition cop_ok (c : conn) (o : cop) : Prop :=
  match o with
  | CRead ev => ev_ok BUF c ev
  | CWrite ev => wop_ok c (WTry ev)
  | _ => True
  end.

(* result: the new connection, whether a modelled panic site was reached, and the number of
   system calls made *)
Definition apply_cop (c : conn) (o : cop) : conn * bool * nat :=
  match o with
  | CRead ev => let '(c', res, sys) := try_read BUF c ev in
                (c', match res with RdPanic _ => true | _ => false end, if sys then 1%nat else 0%nat)
  | CWrite ev => let '(c', res, off) := try_write c ev in
                 (c', match res with WrPanic _ => true | _ => false end, match off with Some _ => 1%nat | None => 0%nat end)
  | CEnqueue r => (enqueue_response c r, false, 0%nat)
  | CPop => (snd (pop_parsed_request c), false, 0%nat)
  | CClear => (clear_write_buffer c, false, 0%nat)
  | CSetMax n => (set_payload_max_size c n, false, 0%nat)
  end.

Definition parser_same (c c' : conn) : Prop :=
  c_state c' = c_state c /\ c_win c' = c_win c /\ c_pending c' = c_pending c /\
  c_body_vec c' = c_body_vec c /\ c_body_left c' = c_body_left c.

Lemma CInv_parser_same c c' ph : CInv BUF c ph -> parser_same c c' -> CInv BUF c' ph.
Proof.
  intros [G St] (E1 & E2 & E3 & E4 & E5). split.
  - eapply Good_parser_fields; eauto.
  - rewrite E2. eapply stuck_pmax. exact St.
Qed.

Lemma try_write_parser_same c ev : parser_same c (fst (fst (try_write c ev))).
Proof.
  unfold try_write, parser_same.
  destruct (c_rbuf c) as [b|].
  - destruct ev as [k| |]; [destruct k as [|k]|..]; try (cbn; auto 6; fail).
    destruct (S k =? length b)%nat; [cbn; auto 6|].
    destruct (length b <? S k)%nat; cbn; auto 6.
  - destruct (c_rq c) as [|r q]; [cbn; auto 6|].
    destruct ev as [k| |]; [destruct k as [|k]|..]; try (cbn; auto 6; fail).
    cbn [set_write c_rq]. destruct (S k =? length (serialize r))%nat; [cbn; auto 6|].
    destruct (length (serialize r) <? S k)%nat; cbn; auto 6.
Qed.

Theorem cop_total c ph o : CInv BUF c ph -> cop_ok c o ->
  exists ph', CInv BUF (fst (fst (apply_cop c o))) ph' /\ snd (fst (apply_cop c o)) = false
              /\ (snd (apply_cop c o) <= 1)%nat.
Proof.
  intros I Hok. destruct o as [ev|ev|r| | |n]; cbn [apply_cop cop_ok] in *.
  - destruct (try_read_total BUF BUF_min BUF_u32 c ph ev I Hok) as (c' & res & sys & ph' & T & I' & Hnp & Hs & _).
    rewrite T. exists ph'. cbn [fst snd]. split; [exact I'|]. split.
    + destruct res; try reflexivity. exfalso. eapply Hnp. reflexivity.
    + destruct sys; lia.
  - pose proof (try_write_parser_same c ev) as PS. pose proof (try_write_no_panic c ev Hok) as NP.
    destruct (try_write c ev) as [[c' res] off]. cbn [fst snd] in *. exists ph.
    split; [eapply CInv_parser_same; eauto|]. split.
    + destruct res; try reflexivity. exfalso. eapply NP. reflexivity.
    + destruct off; lia.
  - exists ph. cbn. split; [eapply CInv_parser_same; [exact I|repeat split]|auto].
  - exists ph. unfold pop_parsed_request. destruct (c_parsed c); cbn;
      (split; [eapply CInv_parser_same; [exact I|repeat split]|auto]).
  - exists ph. cbn. split; [eapply CInv_parser_same; [exact I|repeat split]|auto].
  - exists ph. cbn. split; [eapply CInv_parser_same; [exact I|repeat split]|auto].
Qed.

Fixpoint cops_ok (c : conn) (ops : list cop) : Prop :=
  match ops with [] => True | o :: r => cop_ok c o /\ cops_ok (fst (fst (apply_cop c o))) r end.

Fixpoint any_panic (c : conn) (ops : list cop) : bool :=
  match ops with [] => false | o :: r => snd (fst (apply_cop c o)) || any_panic (fst (fst (apply_cop c o))) r end.

(* every sequence of calls -- reads, writes, enqueues, pops, clears, limit changes -- including
   everything done after ParseError, StreamReadError and ConnectionClosed: no panic site is reached *)
Theorem conn_total : forall ops c ph, CInv BUF c ph -> cops_ok c ops -> any_panic c ops = false.
Proof.
  induction ops as [|o r IH]; intros c ph I Hok; [reflexivity|]. destruct Hok as [H1 H2].
  destruct (cop_total c ph o I H1) as (ph' & I' & Hp & _). cbn [any_panic]. rewrite Hp. cbn [orb].
  eapply IH; eauto.
Qed.

End Conn.
