(* Method / Version / MediaType / StatusCode tables and Uri::get_abs_path. *)
From MH Require Export model.Tokens proofs.Bytes_proofs.

Lemma parse_method_iff bs m : parse_method bs = Some m <-> bs = raw_method m.
Proof.
  unfold parse_method.
  destruct (beq bs (B"GET")) eqn:E1; [apply beq_eq in E1|apply beq_neq in E1].
  { subst. destruct m; cbn; split; intros H; try discriminate; try reflexivity; inversion H. }
  destruct (beq bs (B"PUT")) eqn:E2; [apply beq_eq in E2|apply beq_neq in E2].
  { subst. destruct m; cbn; split; intros H; try discriminate; try reflexivity; inversion H. }
  destruct (beq bs (B"PATCH")) eqn:E3; [apply beq_eq in E3|apply beq_neq in E3].
  { subst. destruct m; cbn; split; intros H; try discriminate; try reflexivity; inversion H. }
  split; [discriminate|]. intros ->. destruct m; contradiction.
Qed.

Lemma parse_method_raw m : parse_method (raw_method m) = Some m.
Proof. apply parse_method_iff. reflexivity. Qed.

Lemma parse_method_none bs : parse_method bs = None <-> forall m, bs <> raw_method m.
Proof.
  split.
  - intros H m E. apply parse_method_iff in E. congruence.
  - intros H. destruct (parse_method bs) as [m|] eqn:E; auto. apply parse_method_iff in E. destruct (H m E).
Qed.

Lemma parse_version_iff bs v : parse_version bs = Some v <-> bs = raw_version v.
Proof.
  unfold parse_version.
  destruct (beq bs (B"HTTP/1.0")) eqn:E1; [apply beq_eq in E1|apply beq_neq in E1].
  { subst. destruct v; cbn; split; intros H; try discriminate; try reflexivity; inversion H. }
  destruct (beq bs (B"HTTP/1.1")) eqn:E2; [apply beq_eq in E2|apply beq_neq in E2].
  { subst. destruct v; cbn; split; intros H; try discriminate; try reflexivity; inversion H. }
  split; [discriminate|]. intros ->. destruct v; contradiction.
Qed.

Lemma parse_version_raw v : parse_version (raw_version v) = Some v.
Proof. apply parse_version_iff. reflexivity. Qed.

Lemma parse_version_none bs : parse_version bs = None <-> forall v, bs <> raw_version v.
Proof.
  split.
  - intros H v E. apply parse_version_iff in E. congruence.
  - intros H. destruct (parse_version bs) as [v|] eqn:E; auto. apply parse_version_iff in E. destruct (H v E).
Qed.

(* MediaType::try_from: exactly the canonical spellings modulo surrounding white space, on
   non-empty valid UTF-8 *)
Lemma parse_media_iff bs t :
  parse_media bs = Some t <-> bs <> [] /\ utf8_valid bs = true /\ trim bs = media_str t.
Proof.
  unfold parse_media. destruct bs as [|b bs'].
  { split; [discriminate|]. intros [H _]. contradiction. }
  remember (b :: bs') as bs eqn:Hbs.
  destruct (utf8_valid bs) eqn:U.
  2:{ split; [discriminate|]. intros (_ & H & _). discriminate. }
  destruct (beq (trim bs) (B"text/plain")) eqn:E1; [apply beq_eq in E1|apply beq_neq in E1].
  { rewrite E1. destruct t; cbn; split; intros H; try discriminate; try (inversion H; fail).
    - repeat split; auto. subst; discriminate.
    - reflexivity.
    - destruct H as (_ & _ & H). discriminate. }
  destruct (beq (trim bs) (B"application/json")) eqn:E2; [apply beq_eq in E2|apply beq_neq in E2].
  { rewrite E2. destruct t; cbn; split; intros H; try discriminate; try (inversion H; fail).
    - destruct H as (_ & _ & H). discriminate.
    - repeat split; auto. subst; discriminate.
    - reflexivity. }
  split; [discriminate|]. intros (_ & _ & H). destruct t; contradiction.
Qed.

Lemma parse_media_canonical t : parse_media (media_str t) = Some t.
Proof. destruct t; vm_compute; reflexivity. Qed.

Lemma raw_status_injective a b : raw_status a = raw_status b -> a = b.
Proof. destruct a, b; cbn; intros H; try reflexivity; discriminate. Qed.

Lemma raw_status_three_digits s :
  length (raw_status s) = 3%nat /\ forallb is_digit (raw_status s) = true.
Proof. destruct s; vm_compute; auto. Qed.

Lemma raw_method_injective a b : raw_method a = raw_method b -> a = b.
Proof. destruct a, b; cbn; intros H; try reflexivity; discriminate. Qed.
Lemma raw_version_injective a b : raw_version a = raw_version b -> a = b.
Proof. destruct a, b; cbn; intros H; try reflexivity; discriminate. Qed.

(* ---------- Uri::get_abs_path ---------- *)
Lemma abs_path_origin_form r : abs_path (SLASH :: r) = SLASH :: r.
Proof. reflexivity. Qed.

Lemma abs_path_absolute_form a p :
  ~ In SLASH a -> abs_path (HTTP_SCHEME_PREFIX ++ a ++ SLASH :: p) = SLASH :: p.
Proof.
  intros H. unfold abs_path.
  assert (P : prefixb HTTP_SCHEME_PREFIX (HTTP_SCHEME_PREFIX ++ a ++ SLASH :: p) = true)
    by (apply prefixb_spec; eauto).
  rewrite P. rewrite skipn_app_exact.
  destruct (a ++ SLASH :: p) eqn:E; [destruct a; discriminate|]. rewrite <- E.
  rewrite position_app by exact H. apply skipn_app_exact.
Qed.

Lemma abs_path_no_authority_slash a :
  ~ In SLASH a -> abs_path (HTTP_SCHEME_PREFIX ++ a) = [].
Proof.
  intros H. unfold abs_path.
  assert (P : prefixb HTTP_SCHEME_PREFIX (HTTP_SCHEME_PREFIX ++ a) = true) by (apply prefixb_spec; eauto).
  rewrite P. rewrite skipn_app_exact. destruct a as [|x a]; [reflexivity|].
  destruct (position SLASH (x :: a)) as [n|] eqn:E; [|reflexivity].
  apply position_some in E. destruct E as (a0 & p0 & E & _). exfalso. apply H. rewrite E.
  apply in_or_app. right. left. reflexivity.
Qed.

Lemma abs_path_other u :
  prefixb HTTP_SCHEME_PREFIX u = false -> (forall r, u <> SLASH :: r) -> abs_path u = [].
Proof.
  intros P H. unfold abs_path. rewrite P. destruct u as [|a r]; [reflexivity|].
  destruct (a =? SLASH) eqn:E; [|reflexivity]. apply N.eqb_eq in E. subst. destruct (H r eq_refl).
Qed.

(* every URI falls in exactly one of the four classes above *)
Lemma uri_classes u :
  (exists r, u = SLASH :: r)
  \/ (exists a p, u = HTTP_SCHEME_PREFIX ++ a ++ SLASH :: p /\ ~ In SLASH a)
  \/ (exists a, u = HTTP_SCHEME_PREFIX ++ a /\ ~ In SLASH a)
  \/ (prefixb HTTP_SCHEME_PREFIX u = false /\ forall r, u <> SLASH :: r).
Proof.
  destruct (prefixb HTTP_SCHEME_PREFIX u) eqn:P.
  - apply prefixb_spec in P. destruct P as [w ->].
    destruct (position SLASH w) as [n|] eqn:E.
    + apply position_some in E. destruct E as (a & p & -> & Hn & _). right. left. eauto.
    + apply position_none in E. right. right. left. eauto.
  - destruct u as [|x r].
    + right. right. right. split; auto. intros r; discriminate.
    + destruct (x =? SLASH) eqn:E.
      * apply N.eqb_eq in E; subst. left. eauto.
      * apply N.eqb_neq in E. right. right. right. split; auto. intros r' H. inversion H. contradiction.
Qed.

(* hence: always empty, or a '/'-prefixed suffix of the URI *)
Lemma abs_path_suffix u :
  abs_path u = [] \/ exists pre r, u = pre ++ abs_path u /\ abs_path u = SLASH :: r.
Proof.
  destruct (uri_classes u) as [[r ->]|[(a & p & -> & H)|[(a & -> & H)|[P H]]]].
  - right. exists [], r. rewrite abs_path_origin_form. auto.
  - right. exists (HTTP_SCHEME_PREFIX ++ a), p. rewrite abs_path_absolute_form by exact H.
    rewrite <- app_assoc. auto.
  - left. apply abs_path_no_authority_slash. exact H.
  - left. apply abs_path_other; auto.
Qed.

(* taking the absolute path twice changes nothing: the result is empty or already in origin form *)
Lemma abs_path_idempotent u : abs_path (abs_path u) = abs_path u.
Proof.
  destruct (abs_path_suffix u) as [E|(pre & r & _ & E)]; rewrite E.
  - reflexivity.
  - apply abs_path_origin_form.
Qed.
