(* str::trim ignores white space around a string: trim (pad ++ x ++ pad') = trim x for every byte
   string x and all paddings made of white-space characters (ASCII and the non-ASCII White_Space code
   points in UTF-8).  Used by C15: "whitespace around names and values is ignored". *)
From MH Require Export lib.Str.
From Coq Require Import Lia ZifyBool ZifyN.

(* the UTF-8 encoding of one white-space character *)
Inductive ws_char : bytes -> Prop :=
| ws_c1 a : is_ascii_ws a = true -> ws_char [a]
| ws_c2 a b : ws2 a b = true -> ws_char [a; b]
| ws_c3 a b c : ws3 a b c = true -> ws_char [a; b; c].

(* a string of white-space characters *)
Definition ws_string (p : bytes) : Prop := exists cs, Forall ws_char cs /\ p = concat cs.

Ltac b2p := unfold is_ascii_ws, ws2, ws3, in_range, is_cont in *.
Ltac bgoal := unfold is_ascii_ws, ws2, ws3, in_range, is_cont.

(* the first byte of a white-space character *)
Definition ws_first (a : N) : Prop := a <= 32 \/ a = 194 \/ a = 225 \/ a = 226 \/ a = 227.

Lemma ws_char_first c : ws_char c -> exists a r, c = a :: r /\ ws_first a.
Proof.
  intros [a H|a b H|a b c' H]; eexists _, _; (split; [reflexivity|]); unfold ws_first; b2p; lia.
Qed.

Lemma ws_first_not_ws2 a b : ws_first b -> ws2 a b = false.
Proof. unfold ws_first; intros H. apply not_true_iff_false; intro T. b2p. lia. Qed.
Lemma ws_first_not_ws3_mid a b c : ws_first b -> ws3 a b c = false.
Proof. unfold ws_first; intros H. apply not_true_iff_false; intro T. b2p. lia. Qed.
Lemma ws_first_not_ws3_last a b c : ws_first c -> ws3 a b c = false.
Proof. unfold ws_first; intros H. apply not_true_iff_false; intro T. b2p. lia. Qed.

(* ---------- one step ---------- *)
Lemma strip_prefix_char c r : ws_char c -> strip_ws_prefix (c ++ r) = Some r.
Proof.
  intros [a H|a b H|a b c' H]; cbn [app strip_ws_prefix].
  - rewrite H. reflexivity.
  - assert (A : is_ascii_ws a = false) by (apply not_true_iff_false; intro T; b2p; lia).
    rewrite A, H. reflexivity.
  - assert (A : is_ascii_ws a = false) by (apply not_true_iff_false; intro T; b2p; lia).
    assert (A2 : ws2 a b = false) by (apply not_true_iff_false; intro T; b2p; lia).
    rewrite A, A2, H. reflexivity.
Qed.

Lemma strip_suffix_char c r : ws_char c -> strip_ws_suffix_rev (rev c ++ r) = Some r.
Proof.
  intros [a H|a b H|a b c' H]; cbn [rev app strip_ws_suffix_rev].
  - rewrite H. reflexivity.
  - assert (A : is_ascii_ws b = false) by (apply not_true_iff_false; intro T; b2p; lia).
    rewrite A, H. reflexivity.
  - assert (A : is_ascii_ws c' = false) by (apply not_true_iff_false; intro T; b2p; lia).
    assert (A2 : ws2 b c' = false) by (apply not_true_iff_false; intro T; b2p; lia).
    rewrite A, A2, H. reflexivity.
Qed.

Lemma strip_prefix_shortens l r : strip_ws_prefix l = Some r -> (length r < length l)%nat.
Proof.
  unfold strip_ws_prefix. destruct l as [|a [|b [|c t]]]; try discriminate;
  repeat match goal with |- context [if ?x then _ else _] => destruct x end;
  intros H; inversion H; subst; cbn [length]; lia.
Qed.
Lemma strip_suffix_shortens l r : strip_ws_suffix_rev l = Some r -> (length r < length l)%nat.
Proof.
  unfold strip_ws_suffix_rev. destruct l as [|a [|b [|c t]]]; try discriminate;
  repeat match goal with |- context [if ?x then _ else _] => destruct x end;
  intros H; inversion H; subst; cbn [length]; lia.
Qed.

(* what was stripped from the front does not depend on what follows *)
Lemma strip_prefix_app l r q : strip_ws_prefix l = Some r -> strip_ws_prefix (l ++ q) = Some (r ++ q).
Proof.
  unfold strip_ws_prefix. destruct l as [|a [|b [|c t]]]; try discriminate; cbn [app];
  repeat match goal with |- context [if ?x then _ else _] => destruct x end;
  intros H; inversion H; subst; reflexivity.
Qed.

(* nothing to strip from a non-empty string: still nothing after appending white space *)
Lemma strip_prefix_none_app l q : l <> [] -> strip_ws_prefix l = None -> ws_string q ->
  strip_ws_prefix (l ++ q) = None.
Proof.
  intros Hl Hn (cs & Hcs & ->).
  assert (Hq : concat cs = [] \/ exists a r, concat cs = a :: r /\ ws_first a).
  { clear - Hcs. induction Hcs as [|c cs' Hc _ IH]; [left; reflexivity|]. right. cbn [concat].
    destruct (ws_char_first c Hc) as (a & r & -> & Ha). eexists _, _. split; [reflexivity|exact Ha]. }
  destruct Hq as [->|(a0 & r0 & -> & Ha0)]; [rewrite app_nil_r; exact Hn|].
  unfold strip_ws_prefix in *. destruct l as [|a [|b [|c t]]]; [congruence| | |]; cbn [app].
  - destruct (is_ascii_ws a); [discriminate|]. rewrite (ws_first_not_ws2 a a0 Ha0).
    destruct r0; [reflexivity|]. rewrite (ws_first_not_ws3_mid a a0 _ Ha0). reflexivity.
  - destruct (is_ascii_ws a); [discriminate|]. destruct (ws2 a b); [discriminate|].
    rewrite (ws_first_not_ws3_last a b a0 Ha0). reflexivity.
  - destruct (is_ascii_ws a); [discriminate|]. destruct (ws2 a b); [discriminate|].
    destruct (ws3 a b c); [discriminate|reflexivity].
Qed.

(* ---------- fuel ---------- *)
Section Fuel.
Variable strip : bytes -> option bytes.
Hypothesis shortens : forall l r, strip l = Some r -> (length r < length l)%nat.

Lemma iter_strip_fuel : forall n m l, (length l <= n)%nat -> (length l <= m)%nat ->
  iter_strip strip n l = iter_strip strip m l.
Proof.
  induction n as [|n IH]; intros m l Hn Hm.
  - destruct l; [|cbn in Hn; lia]. destruct m; cbn [iter_strip]; [reflexivity|].
    destruct (strip []) as [r|] eqn:S0; [|reflexivity]. apply shortens in S0. cbn in S0. lia.
  - cbn [iter_strip]. destruct (strip l) as [r|] eqn:S0.
    + pose proof (shortens _ _ S0) as Hs. destruct m; [lia|]. cbn [iter_strip]. rewrite S0.
      apply IH; lia.
    + destruct m; cbn [iter_strip]; [reflexivity|]. rewrite S0. reflexivity.
Qed.

Lemma iter_strip_step n l r : (length l <= n)%nat -> strip l = Some r ->
  iter_strip strip n l = iter_strip strip (length r) r.
Proof.
  intros Hn S0. pose proof (shortens _ _ S0) as Hs. destruct n; [lia|]. cbn [iter_strip]. rewrite S0.
  apply iter_strip_fuel; lia.
Qed.

Lemma iter_strip_stop n l : strip l = None -> iter_strip strip n l = l.
Proof. intros S0. destruct n; cbn [iter_strip]; [reflexivity|]. rewrite S0. reflexivity. Qed.
End Fuel.

(* ---------- trim_start ---------- *)
Lemma trim_start_step l r : strip_ws_prefix l = Some r -> trim_start l = trim_start r.
Proof. intros H. unfold trim_start. apply (iter_strip_step _ strip_prefix_shortens); [lia|exact H]. Qed.
Lemma trim_start_stop l : strip_ws_prefix l = None -> trim_start l = l.
Proof. intros H. unfold trim_start. apply iter_strip_stop. exact H. Qed.

Lemma trim_start_ws p z : ws_string p -> trim_start (p ++ z) = trim_start z.
Proof.
  intros (cs & Hcs & ->). induction Hcs as [|c cs' Hc _ IH]; [reflexivity|].
  cbn [concat]. rewrite <- app_assoc. rewrite (trim_start_step _ _ (strip_prefix_char c _ Hc)). exact IH.
Qed.

Lemma ws_string_nil : ws_string [].
Proof. exists []. split; [constructor|reflexivity]. Qed.

Lemma trim_start_all_ws q : ws_string q -> trim_start q = [].
Proof. intros H. rewrite <- (app_nil_r q). rewrite (trim_start_ws q [] H). reflexivity. Qed.

Lemma trim_start_app_ws : forall n x q, (length x < n)%nat -> ws_string q ->
  (trim_start x = [] /\ trim_start (x ++ q) = []) \/
  (trim_start x <> [] /\ trim_start (x ++ q) = trim_start x ++ q).
Proof.
  induction n as [|n IH]; intros x q Hn Hq; [lia|].
  destruct (strip_ws_prefix x) as [r|] eqn:S0.
  - pose proof (strip_prefix_shortens _ _ S0) as Hs.
    rewrite (trim_start_step _ _ S0), (trim_start_step _ _ (strip_prefix_app _ _ q S0)).
    apply IH; [lia|exact Hq].
  - rewrite (trim_start_stop _ S0). destruct x as [|a t].
    + left. split; [reflexivity|]. cbn [app]. apply trim_start_all_ws. exact Hq.
    + right. split; [discriminate|]. apply trim_start_stop. apply strip_prefix_none_app; [discriminate|exact S0|exact Hq].
Qed.

(* ---------- trim_end ---------- *)
Lemma trim_end_step l r : strip_ws_suffix_rev (rev l) = Some (rev r) -> trim_end l = trim_end r.
Proof.
  intros H. unfold trim_end. f_equal. rewrite <- (rev_length l), <- (rev_length r).
  apply (iter_strip_step _ strip_suffix_shortens); [lia|exact H].
Qed.

Lemma trim_end_ws y q : ws_string q -> trim_end (y ++ q) = trim_end y.
Proof.
  intros (cs & Hcs & ->). induction cs as [|c cs' IH] using rev_ind.
  - cbn [concat]. rewrite app_nil_r. reflexivity.
  - apply Forall_app in Hcs. destruct Hcs as [Hcs' Hc]. inversion Hc as [|? ? Hc1 _]; subst.
    rewrite concat_app. cbn [concat]. rewrite app_nil_r. rewrite app_assoc.
    rewrite (trim_end_step ((y ++ concat cs') ++ c) (y ++ concat cs')).
    + apply IH. exact Hcs'.
    + rewrite rev_app_distr. apply strip_suffix_char. exact Hc1.
Qed.

Lemma trim_end_nil : trim_end [] = [].
Proof. reflexivity. Qed.

(* ---------- the padding theorem ---------- *)
Theorem trim_padding p x q : ws_string p -> ws_string q -> trim (p ++ x ++ q) = trim x.
Proof.
  intros Hp Hq. unfold trim. rewrite (trim_start_ws p _ Hp).
  destruct (trim_start_app_ws (S (length x)) x q ltac:(lia) Hq) as [[E1 E2]|[_ E2]]; rewrite E2.
  - rewrite E1. reflexivity.
  - apply trim_end_ws. exact Hq.
Qed.

(* ---------- white space is ASCII-case-free, colon-free and valid UTF-8 ---------- *)
Lemma ws_char_lower c : ws_char c -> ascii_lower c = c.
Proof.
  assert (L : forall a, (a <= 32 \/ 128 <= a) -> lower_byte a = a).
  { intros a Ha. unfold lower_byte, in_range. destruct (65 <=? a) eqn:E1; [|reflexivity].
    destruct (a <=? 90) eqn:E2; [|reflexivity]. apply N.leb_le in E1, E2. lia. }
  intros [a H|a b H|a b c' H]; unfold ascii_lower; cbn [map]; rewrite !L; try reflexivity; b2p; lia.
Qed.

Lemma ws_string_lower p : ws_string p -> ascii_lower p = p.
Proof.
  intros (cs & Hcs & ->). induction Hcs as [|c cs' Hc _ IH]; [reflexivity|].
  cbn [concat]. unfold ascii_lower in *. rewrite map_app. rewrite IH. f_equal. apply ws_char_lower. exact Hc.
Qed.

Lemma ws_char_no_colon c : ws_char c -> ~ In COLON c.
Proof.
  unfold COLON. intros [a H|a b H|a b c' H] Hin; cbn [In] in Hin; b2p; lia.
Qed.

Lemma ws_string_no_colon p : ws_string p -> ~ In COLON p.
Proof.
  intros (cs & Hcs & ->). induction Hcs as [|c cs' Hc _ IH]; [intros []|].
  cbn [concat]. intros Hin. apply in_app_or in Hin. destruct Hin as [Hin|Hin]; [exact (ws_char_no_colon c Hc Hin)|exact (IH Hin)].
Qed.

Lemma ws_char_utf8 c r : ws_char c -> utf8_valid (c ++ r) = utf8_valid r.
Proof.
  intros [a H|a b H|a b c' H]; cbn [app utf8_valid].
  - assert (E : a <=? 127 = true) by (apply N.leb_le; b2p; lia). rewrite E. reflexivity.
  - assert (a = 194 /\ (b = 133 \/ b = 160)) as [-> Hb] by (b2p; lia).
    change (194 <=? 127) with false. change (in_range 194 223 194) with true. cbv iota.
    assert (E : is_cont b = true) by (unfold is_cont; bgoal; lia). rewrite E. reflexivity.
  - assert (Ha : a = 225 \/ a = 226 \/ a = 227) by (b2p; lia).
    assert (Hb : 128 <= b <= 191) by (b2p; lia).
    assert (Hc : 128 <= c' <= 191) by (b2p; lia).
    assert (E1 : a <=? 127 = false) by (apply N.leb_gt; lia).
    assert (E2 : in_range 194 223 a = false) by (apply not_true_iff_false; intro T; b2p; lia).
    assert (E3 : in_range 224 239 a = true) by (bgoal; lia).
    assert (E4 : a =? 224 = false) by (apply N.eqb_neq; lia).
    assert (E5 : a =? 237 = false) by (apply N.eqb_neq; lia).
    assert (E6 : is_cont b = true) by (unfold is_cont; bgoal; lia).
    assert (E7 : is_cont c' = true) by (unfold is_cont; bgoal; lia).
    rewrite E1, E2, E3, E4, E5, E6, E7. reflexivity.
Qed.

Lemma ws_string_utf8 p r : ws_string p -> utf8_valid (p ++ r) = utf8_valid r.
Proof.
  intros (cs & Hcs & ->). induction Hcs as [|c cs' Hc _ IH]; [reflexivity|].
  cbn [concat]. rewrite <- app_assoc. rewrite (ws_char_utf8 c _ Hc). exact IH.
Qed.

(* non-vacuity: SP, HTAB, NBSP, U+2003 EM SPACE, U+3000 *)
Example ws_example : ws_string [32; 9; 194; 160; 226; 128; 131; 227; 128; 128].
Proof.
  exists [[32]; [9]; [194; 160]; [226; 128; 131]; [227; 128; 128]]. split; [|reflexivity].
  repeat constructor.
Qed.
