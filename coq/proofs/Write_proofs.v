(* The write half of the connection: conservation of bytes under every pattern of short,
   interrupted and failed writes (C06). *)
From MH Require Export model.ConnImpl proofs.Bytes_proofs.

Definition unsent (c : conn) : bytes :=
  match c_rbuf c with Some b => b | None => [] end ++ flat_map serialize (c_rq c).

(* ghost state: bytes the stream accepted and bytes committed (serialisations of the responses
   enqueued), both since the last discard *)
Record wstate := mkW { w_conn : conn; w_acc : bytes; w_com : bytes }.

Inductive wop :=
| WEnq (r : response)
| WTry (ev : write_ev)
| WClear.

(* the environment contract of io::Write::write: it never claims more than it was offered *)
Definition wop_ok (c : conn) (o : wop) : Prop :=
  match o with
  | WTry (WWrote k) =>
      match c_rbuf c with
      | Some b => (k <= length b)%nat
      | None => match c_rq c with r :: _ => (k <= length (serialize r))%nat | [] => True end
      end
  | _ => True
  end.

Definition wstep (w : wstate) (o : wop) : wstate * option wr_result :=
  match o with
  | WEnq r => (mkW (enqueue_response (w_conn w) r) (w_acc w) (w_com w ++ serialize r), None)
  | WClear => (mkW (clear_write_buffer (w_conn w)) [] [], None)
  | WTry ev =>
      let '(c', res, off) := try_write (w_conn w) ev in
      match res with
      | WrErr ConnectionClosed => (mkW c' [] [], Some res)       (* output discarded: a new epoch *)
      | _ =>
        let taken := match ev, off with
                     | WWrote k, Some b => firstn k b
                     | _, _ => []
                     end in
        (mkW c' (w_acc w ++ taken) (w_com w), Some res)
      end
  end.

Definition WInv (w : wstate) : Prop :=
  w_acc w ++ unsent (w_conn w) = w_com w /\ c_rbuf (w_conn w) <> Some [].

Lemma serialize_nonempty r : serialize r <> [].
Proof. unfold serialize, status_line. destruct (rs_version r); discriminate. Qed.

Lemma unsent_set_write c rq rb :
  unsent (set_write c rq rb) = match rb with Some b => b | None => [] end ++ flat_map serialize rq.
Proof. reflexivity. Qed.

Lemma wstep_inv w o : WInv w -> wop_ok (w_conn w) o -> WInv (fst (wstep w o)).
Proof.
  intros [Hc Hb] Hok. destruct w as [c acc com]. cbn [w_conn w_acc w_com] in *.
  destruct o as [r|ev|]; cbn [wstep fst w_conn w_acc w_com].
  - (* enqueue *)
    split; cbn [w_conn w_acc w_com]; [|exact Hb].
    unfold enqueue_response. rewrite unsent_set_write. unfold unsent in Hc.
    rewrite flat_map_app. cbn [flat_map]. rewrite app_nil_r. rewrite <- Hc. rewrite <- !app_assoc. reflexivity.
  - (* try_write *)
    unfold try_write, unsent in *.
    destruct (c_rbuf c) as [b|] eqn:Rb.
    + (* a partly written response is staged *)
      destruct ev as [k| |]; cbn [wop_ok] in Hok; rewrite ?Rb in Hok.
      * destruct k as [|k'].
        { split; cbn; [reflexivity|discriminate]. }
        remember (S k') as k. destruct (k =? length b)%nat eqn:E.
        { apply Nat.eqb_eq in E. split; cbn [fst w_conn w_acc w_com].
          - rewrite unsent_set_write. rewrite E, firstn_all. rewrite <- Hc, <- app_assoc. reflexivity.
          - cbn. discriminate. }
        apply Nat.eqb_neq in E.
        destruct (length b <? k)%nat eqn:E2; [apply Nat.ltb_lt in E2; lia|].
        split; cbn [fst w_conn w_acc w_com].
        { rewrite unsent_set_write. rewrite <- Hc. rewrite <- !app_assoc. f_equal.
          rewrite app_assoc. rewrite firstn_skipn. reflexivity. }
        { cbn. intros H. inversion H as [H1]. apply (f_equal (@length N)) in H1.
          rewrite skipn_length in H1. cbn in H1. lia. }
      * split; cbn [fst w_conn w_acc w_com]; [|rewrite Rb; exact Hb].
        unfold unsent. rewrite Rb, app_nil_r. exact Hc.
      * split; cbn; [reflexivity|discriminate].
    + destruct (c_rq c) as [|r q] eqn:Rq.
      * (* nothing to write: InvalidWrite, state unchanged *)
        split; cbn [fst w_conn w_acc w_com]; [|rewrite Rb; discriminate].
        unfold unsent. rewrite Rb, Rq. destruct ev; rewrite app_nil_r; exact Hc.
      * (* the next response is serialised into the buffer *)
        cbn [flat_map] in Hc. cbn [app] in Hc.
        destruct ev as [k| |]; cbn [wop_ok] in Hok; rewrite ?Rb, ?Rq in Hok.
        -- destruct k as [|k'].
           { split; cbn; [reflexivity|discriminate]. }
           remember (S k') as k. destruct (k =? length (serialize r))%nat eqn:E.
           { apply Nat.eqb_eq in E. split; cbn [fst w_conn w_acc w_com].
             - rewrite unsent_set_write. cbn [set_write c_rq]. rewrite E, firstn_all.
               rewrite <- Hc, <- app_assoc. reflexivity.
             - cbn. discriminate. }
           apply Nat.eqb_neq in E.
           destruct (length (serialize r) <? k)%nat eqn:E2; [apply Nat.ltb_lt in E2; lia|].
           split; cbn [fst w_conn w_acc w_com].
           { rewrite unsent_set_write. cbn [set_write c_rq]. rewrite <- Hc. rewrite <- !app_assoc. f_equal.
             rewrite app_assoc. rewrite firstn_skipn. reflexivity. }
           { cbn. intros H. inversion H as [H1]. apply (f_equal (@length N)) in H1.
             rewrite skipn_length in H1. cbn in H1. lia. }
        -- split; cbn [fst w_conn w_acc w_com].
           { unfold unsent. cbn [set_write c_rbuf c_rq]. rewrite app_nil_r. exact Hc. }
           { cbn. intros H. inversion H as [H1]. exact (serialize_nonempty r H1). }
        -- split; cbn; [reflexivity|discriminate].
  - split; cbn; [reflexivity|discriminate].
Qed.

Fixpoint wrun (w : wstate) (ops : list wop) : wstate :=
  match ops with [] => w | o :: r => wrun (fst (wstep w o)) r end.

Fixpoint wops_ok (w : wstate) (ops : list wop) : Prop :=
  match ops with [] => True | o :: r => wop_ok (w_conn w) o /\ wops_ok (fst (wstep w o)) r end.

Theorem wrun_inv ops : forall w, WInv w -> wops_ok w ops -> WInv (wrun w ops).
Proof.
  induction ops as [|o r IH]; intros w I H; cbn in *; [exact I|].
  destruct H as [H1 H2]. apply IH; [apply wstep_inv; auto|exact H2].
Qed.

Lemma WInv_new c : c_rq c = [] -> c_rbuf c = None -> WInv (mkW c [] []).
Proof. intros H1 H2. split; cbn; unfold unsent; rewrite ?H1, ?H2; [reflexivity|discriminate]. Qed.

(* pending_write is true exactly while some byte remains unsent *)
Lemma pending_iff c : c_rbuf c <> Some [] -> (pending_write c = true <-> unsent c <> []).
Proof.
  intros Hb. unfold pending_write, unsent. destruct (c_rbuf c) as [b|].
  - split; [|auto]. intros _. destruct b; [exfalso; apply Hb; reflexivity|discriminate].
  - destruct (c_rq c) as [|r q]; cbn.
    + split; [discriminate|congruence].
    + split; [|auto]. intros _ H. apply app_eq_nil in H. destruct H as [H _]. exact (serialize_nonempty r H).
Qed.

(* zero bytes written or a non-interrupt error: everything pending is discarded, closed is reported *)
Lemma try_write_failure c ev c' res off :
  unsent c <> [] -> c_rbuf c <> Some [] -> (ev = WWrote 0 \/ ev = WFail) -> try_write c ev = (c', res, off) ->
  res = WrErr ConnectionClosed /\ unsent c' = [] /\ pending_write c' = false.
Proof.
  intros Hu Hb He. unfold try_write.
  destruct (c_rbuf c) as [b|] eqn:Rb.
  - destruct He as [-> | ->]; intros H; inversion H; subst; cbn; auto.
  - destruct (c_rq c) as [|r q] eqn:Rq.
    + exfalso. apply Hu. unfold unsent. rewrite Rb, Rq. reflexivity.
    + destruct He as [-> | ->]; intros H; inversion H; subst; cbn; auto.
Qed.

Lemma try_write_interrupted c c' res off :
  try_write c WIntr = (c', res, off) -> unsent c <> [] -> res = WrOk /\ unsent c' = unsent c.
Proof.
  unfold try_write. destruct (c_rbuf c) as [b|] eqn:Rb.
  - intros H _; inversion H; subst. auto.
  - destruct (c_rq c) as [|r q] eqn:Rq.
    + intros _ Hu. exfalso. apply Hu. unfold unsent. rewrite Rb, Rq. reflexivity.
    + intros H _; inversion H; subst. split; auto. unfold unsent. cbn. rewrite Rb, Rq. cbn. reflexivity.
Qed.

(* nothing pending: InvalidWrite, the stream is not touched, the connection is unchanged *)
Lemma try_write_invalid c ev : unsent c = [] -> c_rbuf c <> Some [] ->
  try_write c ev = (c, WrErr InvalidWrite, None).
Proof.
  intros Hu Hb. unfold try_write, unsent in *. destruct (c_rbuf c) as [b|].
  - destruct b; [exfalso; apply Hb; reflexivity|discriminate Hu].
  - destruct (c_rq c) as [|r q]; [reflexivity|].
    cbn in Hu. apply app_eq_nil in Hu. destruct Hu as [H _]. destruct (serialize_nonempty r H).
Qed.

(* try_write makes at most one write call, and exactly none when it reports InvalidWrite *)
Lemma try_write_offer c ev c' res off :
  try_write c ev = (c', res, off) -> (off = None <-> res = WrErr InvalidWrite).
Proof.
  unfold try_write. destruct (c_rbuf c) as [b|].
  - destruct ev as [k| |]; [destruct k as [|k]|..]; try (intros H; inversion H; subst; split; discriminate).
    destruct (S k =? length b)%nat; [intros H; inversion H; subst; split; discriminate|].
    destruct (length b <? S k)%nat; intros H; inversion H; subst; split; discriminate.
  - destruct (c_rq c) as [|r q]; [intros H; inversion H; subst; split; auto|].
    destruct ev as [k| |]; [destruct k as [|k]|..]; try (intros H; inversion H; subst; split; discriminate).
    cbn [set_write c_rq]. destruct (S k =? length (serialize r))%nat; [intros H; inversion H; subst; split; discriminate|].
    destruct (length (serialize r) <? S k)%nat; intros H; inversion H; subst; split; discriminate.
Qed.

(* no write-result sequence allowed by the contract reaches the modelled panic site *)
Lemma try_write_no_panic c ev : wop_ok c (WTry ev) -> forall s, snd (fst (try_write c ev)) <> WrPanic s.
Proof.
  intros Hok s. unfold try_write. cbn [wop_ok] in Hok.
  destruct (c_rbuf c) as [b|].
  - destruct ev as [k| |]; [destruct k as [|k]|..]; try (cbn [fst snd]; discriminate).
    destruct (S k =? length b)%nat; [cbn [fst snd]; discriminate|].
    destruct (length b <? S k)%nat eqn:E; [apply Nat.ltb_lt in E; lia|cbn [fst snd]; discriminate].
  - destruct (c_rq c) as [|r q]; [cbn [fst snd]; discriminate|].
    destruct ev as [k| |]; [destruct k as [|k]|..]; try (cbn [fst snd]; discriminate).
    cbn [set_write c_rq].
    destruct (S k =? length (serialize r))%nat; [cbn [fst snd]; discriminate|].
    destruct (length (serialize r) <? S k)%nat eqn:E; [apply Nat.ltb_lt in E; lia|cbn [fst snd]; discriminate].
Qed.

(* histories without a discard: accepted bytes are a prefix of the concatenated serialisations *)
Definition no_discard (o : wop) : Prop :=
  match o with WEnq _ => True | WTry (WWrote (S _)) => True | WTry WIntr => True | _ => False end.

Fixpoint enqueued (ops : list wop) : list response :=
  match ops with [] => [] | WEnq r :: t => r :: enqueued t | _ :: t => enqueued t end.

Lemma wstep_no_discard_com w o : no_discard o -> WInv w ->
  w_com (fst (wstep w o)) = w_com w ++ flat_map serialize (enqueued [o]).
Proof.
  intros Hn [Hc Hb]. destruct o as [r|ev|]; cbn in Hn |- *; [rewrite app_nil_r; reflexivity| |contradiction].
  destruct (try_write (w_conn w) ev) as [[c' res] off] eqn:T.
  assert (res <> WrErr ConnectionClosed).
  { unfold try_write in T. destruct (c_rbuf (w_conn w)) as [b|].
    - destruct ev as [k| |]; [destruct k as [|k]|..]; try contradiction.
      + destruct (S k =? length b)%nat; [inversion T; discriminate|].
        destruct (length b <? S k)%nat; inversion T; discriminate.
      + inversion T; discriminate.
    - destruct (c_rq (w_conn w)) as [|r q]; [inversion T; discriminate|].
      destruct ev as [k| |]; [destruct k as [|k]|..]; try contradiction.
      + cbn [set_write c_rq] in T. destruct (S k =? length (serialize r))%nat; [inversion T; discriminate|].
        destruct (length (serialize r) <? S k)%nat; inversion T; discriminate.
      + inversion T; discriminate. }
  destruct res as [|e|s]; cbn; rewrite ?app_nil_r; try reflexivity.
  destruct e; cbn; rewrite ?app_nil_r; try reflexivity. congruence.
Qed.

Theorem wrun_prefix ops : forall w, WInv w -> wops_ok w ops -> Forall no_discard ops ->
  w_acc (wrun w ops) ++ unsent (w_conn (wrun w ops)) = w_com w ++ flat_map serialize (enqueued ops).
Proof.
  induction ops as [|o r IH]; intros w I H Hn; cbn [wrun enqueued].
  - cbn. rewrite app_nil_r. apply I.
  - inversion Hn as [|? ? Ho Hr]; subst. destruct H as [H1 H2].
    rewrite IH; [|apply wstep_inv; auto|exact H2|exact Hr].
    rewrite (wstep_no_discard_com w o Ho I).
    destruct o as [x|ev|]; cbn [enqueued flat_map]; rewrite <- ?app_assoc, ?app_nil_r; reflexivity.
Qed.
