(* C08, progress: with clients that keep their connections open, every poll that the epoll
   descriptor enables strictly decreases a well-founded measure (unread client input + waiting
   clients, then unsent output), in any order of the ready events; so after finitely many such
   polls nothing is ready, and then no client input, no unsent output and no waiting client is left.
   Conservation: what a connection writes goes to its own client, in order. *)
From MH Require Export proofs.Server_proofs.
From Coq Require Import Lia.

(* ---------- sums over association lists ---------- *)
Fixpoint asum {A} (f : A -> nat) (l : list (nat * A)) : nat :=
  match l with [] => 0%nat | (_, v) :: r => (f v + asum f r)%nat end.

Lemma asum_update {A} (f : A -> nat) k v v' (l : list (nat * A)) :
  alookup k l = Some v -> (asum f (aupdate k v' l) + f v = asum f l + f v')%nat.
Proof.
  induction l as [|[k0 v0] r IH]; cbn [alookup aupdate asum]; [discriminate|].
  destruct (Nat.eqb k0 k).
  - intros H; inversion H; subst. cbn [asum]. lia.
  - intros H. cbn [asum]. specialize (IH H). lia.
Qed.

Lemma asum_app {A} (f : A -> nat) (a b : list (nat * A)) : asum f (a ++ b) = (asum f a + asum f b)%nat.
Proof. induction a as [|[k v] r IH]; cbn [app asum]; [reflexivity|]. rewrite IH. lia. Qed.

Lemma alookup_update_ex {A} k k' (v : A) l :
  (exists v0, alookup k' l = Some v0) -> exists v1, alookup k' (aupdate k v l) = Some v1.
Proof.
  intros [v0 H]. destruct (Nat.eq_dec k k') as [->|Hne].
  - exists v. eapply alookup_update_same; eauto.
  - exists v0. rewrite alookup_update_other by exact Hne. exact H.
Qed.

Lemma filter_all {A} (f : A -> bool) l : (forall x, In x l -> f x = true) -> filter f l = l.
Proof.
  induction l as [|a r IH]; intros H; [reflexivity|]. cbn [filter]. rewrite (H a (or_introl eq_refl)).
  f_equal. apply IH. intros x Hx. apply H. right. exact Hx.
Qed.
Lemma filter_none {A} (f : A -> bool) l : (forall x, In x l -> f x = false) -> filter f l = [].
Proof.
  induction l as [|a r IH]; intros H; [reflexivity|]. cbn [filter]. rewrite (H a (or_introl eq_refl)).
  apply IH. intros x Hx. apply H. right. exact Hx.
Qed.

(* ---------- the lexicographic order on pairs of naturals ---------- *)
Definition lexlt (a b : nat * nat) : Prop := (fst a < fst b)%nat \/ (fst a = fst b /\ (snd a < snd b)%nat).
Definition lexle (a b : nat * nat) : Prop := lexlt a b \/ a = b.

Lemma lexlt_trans a b c : lexlt a b -> lexlt b c -> lexlt a c.
Proof. unfold lexlt. destruct a, b, c; cbn. lia. Qed.

Lemma lexlt_wf : well_founded lexlt.
Proof.
  intros [a b]. revert b. induction a as [a IHa] using (well_founded_induction lt_wf).
  induction b as [b IHb] using (well_founded_induction lt_wf).
  constructor. intros [a' b'] [H|[H1 H2]]; cbn in *.
  - apply IHa. exact H.
  - subst a'. apply IHb. exact H2.
Qed.

Lemma serialize_nonempty r : serialize r <> [].
Proof.
  unfold serialize, status_line. destruct (rs_version r); cbn; discriminate.
Qed.

Section Prog.
Variable BUF : nat.
Hypothesis BUF_min : (2 <= BUF)%nat.
Hypothesis BUF_u32 : N.of_nat BUF < U32_LIMIT.

Notation cc_read := (cc_read BUF).
Notation handle_event := (handle_event BUF).
Notation handle_all := (handle_all BUF).
Notation poll_with := (poll_with BUF).
Notation CInv := (CInv BUF).
Notation Inv := (Inv BUF).
Notation cc_ok := (cc_ok BUF).

(* ---------- well-behaved worlds ---------- *)
Definition calm_client (cl : client) : Prop := k_open cl = true /\ k_shut_wr cl = false /\ k_shut_rd cl = false.

Record Calm (w : world) : Prop := {
  calm_nokill : w_killed w = false;
  calm_clients : forall c cl, alookup c (w_clients w) = Some cl -> calm_client cl;
  calm_conns : forall fd x, alookup fd (w_conns w) = Some x ->
      sc_st x <> SClosed /\ c_rbuf (sc_conn x) <> Some [] /\ exists cl, alookup (sc_client x) (w_clients w) = Some cl;
  calm_inj : forall fd fd' x x', alookup fd (w_conns w) = Some x -> alookup fd' (w_conns w) = Some x' ->
      sc_client x = sc_client x' -> fd = fd';
  calm_backlog_nodup : NoDup (w_backlog w);
  calm_backlog : forall c, In c (w_backlog w) ->
      (exists cl, alookup c (w_clients w) = Some cl) /\
      forall fd x, alookup fd (w_conns w) = Some x -> sc_client x <> c;
}.

(* the measure: (unread client input + waiting clients, unsent output) *)
Definition m_in (w : world) : nat := (asum (fun cl => length (k_tosrv cl)) (w_clients w) + length (w_backlog w))%nat.
Definition m_out (w : world) : nat := asum (fun x => length (unsent (sc_conn x))) (w_conns w).
Definition meas (w : world) : nat * nat := (m_in w, m_out w).

(* the kernel contract for a ready event in a calm world (K2: readiness is truthful) *)
Definition evt_live (w : world) (e : event) : Prop :=
  match e with
  | EvIn fd _ => exists x, alookup fd (w_conns w) = Some x /\ sc_out x = false /\
                         k_tosrv (client_of w (sc_client x)) <> []
  | EvOut fd _ => exists x, alookup fd (w_conns w) = Some x /\ sc_out x = true
  | EvListener nf => alookup nf (w_conns w) = None /\ w_backlog w <> []
  | EvHup _ | EvKill => False
  end.

Lemma evt_live_ok w e : evt_live w e -> evt_ok w e.
Proof.
  destruct e as [fd|fd kk|fd kk|nf|]; cbn; try tauto.
  - intros (x & H & Ho & _). eauto.
Qed.

Lemma evt_live_not_kill w e : evt_live w e -> ev_key e <> KKill.
Proof. destruct e; cbn; try discriminate; tauto. Qed.

(* ---------- one connection ---------- *)
Lemma cc_read_calm x b bs y rs :
  cc_ok x -> (length (c_win (sc_conn x)) + length (b :: bs) <= BUF)%nat ->
  cc_read x (RData (b :: bs) []) = inl (y, rs) ->
  sc_st x <> SClosed -> sc_st y <> SClosed /\ c_rbuf (sc_conn y) = c_rbuf (sc_conn x) /\ sc_client y = sc_client x.
Proof.
  intros [Hst [ph I]] Hlen. unfold Server.cc_read.
  destruct (try_read_total BUF BUF_min BUF_u32 (sc_conn x) ph (RData (b :: bs) []) I Hlen)
    as (c1 & res & sys & ph1 & T & I1 & Hnp & _ & Hpm & Hrb).
  rewrite T.
  assert (Hres : res <> RdErr ConnectionClosed /\ forall en, res <> RdErr (StreamReadError en)).
  { revert T. unfold try_read. destruct (BUF <=? _)%nat.
    - intros T; inversion T; subst. split; [discriminate|intros; discriminate].
    - destruct (ConnImpl.read_loop BUF _ _ _ _); intros T; inversion T; subst; split; try discriminate; intros; discriminate. }
  destruct Hres as [Hncc Hnsr].
  destruct res as [|e|s]; [| |exfalso; eapply Hnp; reflexivity].
  - destruct (pop_all (S (length (c_parsed c1))) c1 []) as [c2 reqs] eqn:P.
    pose proof (pop_all_write_side (S (length (c_parsed c1))) c1 []) as (HA & HB & _ & _). rewrite P in HA, HB. cbn [fst] in *.
    destruct (U32_LIMIT <=? _); [discriminate|].
    intros H; inversion H; subst; clear H. intros Hx. cbn [sc_st sc_conn sc_client].
    split; [destruct (pending_write c2); [discriminate|exact Hx]|]. split; [congruence|reflexivity].
  - destruct e as [| |pe|errno|].
    + congruence.
    + exfalso. revert T. unfold try_read. destruct (BUF <=? _)%nat; [intros T; inversion T|].
      destruct (ConnImpl.read_loop BUF _ _ _ _); intros T; inversion T.
    + (* ParseError *)
      destruct (U32_LIMIT <=? _); [discriminate|].
      intros H; inversion H; subst; clear H. intros Hx. cbn [sc_st sc_conn sc_client].
      rewrite pending_enqueue. split; [discriminate|]. split; [|reflexivity].
      assert (E : forall c r, c_rbuf (enqueue_response c r) = c_rbuf c) by reflexivity. rewrite E.
      pose proof (pop_all_write_side (S (length (c_parsed c1))) c1 []) as (_ & HB & _ & _). transitivity (c_rbuf c1); [exact HB|exact Hrb].
    + exfalso. exact (Hnsr errno eq_refl).
    + exfalso. revert T. unfold try_read. destruct (BUF <=? _)%nat; [intros T; inversion T|].
      destruct (ConnImpl.read_loop BUF _ _ _ _); intros T; inversion T.
Qed.

(* one write of a staged buffer b with the kernel accepting n bytes, 1 <= n <= |b| *)
Lemma staged_write (c1 : conn) (b : bytes) n :
  (1 <= n <= length b)%nat ->
  exists c2, (match n with
              | O => (clear_write_buffer c1, WrErr ConnectionClosed, Some b)
              | S _ => if (n =? length b)%nat then (set_write c1 (c_rq c1) None, WrOk, Some b)
                       else if (length b <? n)%nat then (c1, WrPanic 50, Some b)
                       else (set_write c1 (c_rq c1) (Some (skipn n b)), WrOk, Some b)
              end) = (c2, WrOk, Some b) /\
             c_rq c2 = c_rq c1 /\ c_rbuf c2 <> Some [] /\
             b = firstn n b ++ match c_rbuf c2 with Some r => r | None => [] end /\
             (n = length b -> c_rbuf c2 = None) /\ parser_same c1 c2.
Proof.
  intros Hn. destruct n as [|n']; [lia|].
  destruct (Nat.eqb (S n') (length b)) eqn:E.
  - apply Nat.eqb_eq in E. eexists. split; [reflexivity|]. cbn [set_write c_rq c_rbuf].
    split; [reflexivity|]. split; [discriminate|]. split; [rewrite E, firstn_all, app_nil_r; reflexivity|].
    split; [reflexivity|]. unfold parser_same. cbn. auto.
  - apply Nat.eqb_neq in E. assert (L : (length b <? S n')%nat = false) by (apply Nat.ltb_ge; lia). rewrite L.
    eexists. split; [reflexivity|]. cbn [set_write c_rq c_rbuf].
    split; [reflexivity|]. split.
    + remember (skipn (S n') b) as r eqn:Er. intros H. injection H as ->.
      apply (f_equal (@length _)) in Er. rewrite skipn_length in Er. cbn [length] in Er. lia.
    + split; [symmetry; apply firstn_skipn|]. split; [lia|]. unfold parser_same. cbn. auto.
Qed.

Lemma cc_write_calm x k :
  sc_st x = AwaitOut -> pending_write (sc_conn x) = true -> c_rbuf (sc_conn x) <> Some [] ->
  exists y sent, cc_write x true k = inl (y, sent) /\ sent <> [] /\
    unsent (sc_conn x) = sent ++ unsent (sc_conn y) /\
    sc_st y <> SClosed /\ c_rbuf (sc_conn y) <> Some [] /\ sc_client y = sc_client x /\
    (sc_st y = AwaitIn \/ sc_st y = AwaitOut).
Proof.
  intros S0 Hp Hrb. unfold cc_write. rewrite S0.
  set (offered := match c_rbuf (sc_conn x) with Some b => b
                  | None => match c_rq (sc_conn x) with r :: _ => serialize r | [] => [] end end).
  assert (Hoff : offered <> []).
  { unfold offered, pending_write in *. destruct (c_rbuf (sc_conn x)) as [b|]; [congruence|].
    destruct (c_rq (sc_conn x)) as [|r q]; [discriminate|apply serialize_nonempty]. }
  set (n := if Nat.eqb k 0 then length offered else Nat.min k (length offered)).
  assert (Hn : (1 <= n <= length offered)%nat).
  { unfold n. destruct offered; [congruence|]. cbn [length]. destruct (Nat.eqb k 0) eqn:E; [lia|]. apply Nat.eqb_neq in E. lia. }
  assert (Hsent : firstn n offered <> []).
  { destruct offered; [congruence|]. destruct n; [lia|]. discriminate. }
  unfold try_write.
  destruct (c_rbuf (sc_conn x)) as [b|] eqn:Rb.
  - (* a buffer is in flight *)
    change offered with b in *.
    destruct (staged_write (sc_conn x) b n Hn) as (c2 & W & Hq & Hb2 & Hsplit & _ & _). rewrite W.
    do 2 eexists. split; [reflexivity|]. cbn [sc_conn sc_st sc_client].
    split; [exact Hsent|]. split.
    + unfold unsent. rewrite Rb, Hq. rewrite Hsplit at 1. rewrite <- app_assoc. reflexivity.
    + split; [destruct (pending_write c2); discriminate|]. split; [exact Hb2|]. split; [reflexivity|].
      destruct (pending_write c2); auto.
  - destruct (c_rq (sc_conn x)) as [|r q] eqn:Rq; [exfalso; apply Hoff; reflexivity|].
    change offered with (serialize r) in *.
    destruct (staged_write (set_write (sc_conn x) q (Some (serialize r))) (serialize r) n Hn) as (c2 & W & Hq & Hb2 & Hsplit & _ & _).
    rewrite W.
    do 2 eexists. split; [reflexivity|]. cbn [sc_conn sc_st sc_client].
    split; [exact Hsent|]. split.
    + unfold unsent. rewrite Rb, Rq, Hq. cbn [flat_map set_write c_rq app]. rewrite Hsplit at 1. rewrite <- app_assoc. reflexivity.
    + split; [destruct (pending_write c2); discriminate|]. split; [exact Hb2|]. split; [reflexivity|].
      destruct (pending_write c2); auto.
Qed.

(* ---------- conservation: what a connection writes reaches its own client, in order ---------- *)
(* responses the server generates itself while reading *)
Definition server_generated (r : response) : Prop :=
  (exists v, r = response_new v Continue) \/ (exists e, r = bad_request_response e).

Lemma conts_generated outs : Forall server_generated (conts_of outs).
Proof.
  induction outs as [|o r IH]; cbn [conts_of]; [constructor|]. destruct o; [exact IH|].
  constructor; [left; eauto|exact IH].
Qed.

Lemma try_read_rq c ph b bs fds c1 res sys :
  CInv c ph -> (length (c_win c) + length (b :: bs) <= BUF)%nat ->
  try_read BUF c (RData (b :: bs) fds) = (c1, res, sys) ->
  exists rs, c_rq c1 = c_rq c ++ rs /\ Forall server_generated rs.
Proof.
  intros I Hlen T.
  pose proof (try_read_data BUF BUF_min BUF_u32 c ph (b :: bs) fds I ltac:(discriminate) Hlen) as D.
  destruct (runT BUF (c_pmax c) ph (c_win c ++ b :: bs) []) as [ph' carry outs|outs e|].
  - destruct D as (c' & T' & _ & _ & P). rewrite T in T'. inversion T'; subst.
    exists (conts_of outs). split; [apply (post_rq _ _ _ P)|apply conts_generated].
  - destruct D as (c' & T' & P). rewrite T in T'. inversion T'; subst.
    exists (conts_of outs). split; [apply (post_rq _ _ _ P)|apply conts_generated].
  - destruct D.
Qed.

Lemma cc_read_rq x b bs y rs :
  cc_ok x -> (length (c_win (sc_conn x)) + length (b :: bs) <= BUF)%nat ->
  cc_read x (RData (b :: bs) []) = inl (y, rs) ->
  exists gen, c_rq (sc_conn y) = c_rq (sc_conn x) ++ gen /\ Forall server_generated gen.
Proof.
  intros [Hst [ph I]] Hlen. unfold Server.cc_read.
  destruct (try_read BUF (sc_conn x) (RData (b :: bs) [])) as [[c1 res] sys] eqn:T.
  destruct (try_read_rq _ ph b bs [] c1 res sys I Hlen T) as (g1 & Hg1 & Fg1).
  destruct res as [|e|s]; [| |discriminate].
  - destruct (pop_all (S (length (c_parsed c1))) c1 []) as [c2 reqs] eqn:P.
    pose proof (pop_all_write_side (S (length (c_parsed c1))) c1 []) as (HA & _). rewrite P in HA. cbn [fst] in HA.
    destruct (U32_LIMIT <=? _); [discriminate|]. intros H; inversion H; subst. cbn [sc_conn].
    exists g1. split; [congruence|exact Fg1].
  - destruct e as [| |pe|errno|].
    + intros H; inversion H; subst. cbn [sc_conn]. exists g1. auto.
    + destruct (U32_LIMIT <=? _); [discriminate|]. intros H; inversion H; subst. cbn [sc_conn]. exists g1. auto.
    + destruct (U32_LIMIT <=? _); [discriminate|]. intros H; inversion H; subst. cbn [sc_conn].
      exists (g1 ++ [bad_request_response pe]).
      pose proof (pop_all_write_side (S (length (c_parsed c1))) c1 []) as (HA & _).
      split.
      * assert (E : forall c r, c_rq (enqueue_response c r) = c_rq c ++ [r]) by reflexivity. rewrite E.
        rewrite app_assoc. f_equal. transitivity (c_rq c1); [exact HA|exact Hg1].
      * apply Forall_app. split; [exact Fg1|]. constructor; [right; eauto|constructor].
    + exfalso. revert T. unfold try_read. destruct (BUF <=? _)%nat; [intros T; inversion T|].
      destruct (ConnImpl.read_loop BUF _ _ _ _); intros T; inversion T.
    + destruct (U32_LIMIT <=? _); [discriminate|]. intros H; inversion H; subst. cbn [sc_conn]. exists g1. auto.
Qed.

(* ---------- the shape of the world after one live event ---------- *)
Definition cl_set_tosrv (cl : client) (t : bytes) : client :=
  mkCl (k_open cl) (k_shut_wr cl) (k_shut_rd cl) t (k_rx cl) (k_place cl).
Definition cl_add_rx (cl : client) (s : bytes) : client :=
  mkCl (k_open cl) (k_shut_wr cl) (k_shut_rd cl) (k_tosrv cl) (k_rx cl ++ s) (k_place cl).

Lemma client_of_lookup w c cl : alookup c (w_clients w) = Some cl -> client_of w c = cl.
Proof. intros H. unfold client_of. rewrite H. reflexivity. Qed.

Lemma shape_in w toks fd kk w' ys :
  Inv w toks -> Calm w -> evt_live w (EvIn fd kk) -> handle_event w (EvIn fd kk) = inl (w', ys) ->
  exists x y cl n,
    alookup fd (w_conns w) = Some x /\ alookup (sc_client x) (w_clients w) = Some cl /\
    (1 <= n <= length (k_tosrv cl))%nat /\
    w' = set_client (set_conn w fd y) (sc_client x) (cl_set_tosrv cl (skipn n (k_tosrv cl))) /\
    sc_client y = sc_client x /\ sc_st y <> SClosed /\ c_rbuf (sc_conn y) = c_rbuf (sc_conn x) /\
    k_rx (cl_set_tosrv cl (skipn n (k_tosrv cl))) = k_rx cl /\
    exists gen, c_rq (sc_conn y) = c_rq (sc_conn x) ++ gen /\ Forall server_generated gen.
Proof.
  intros HI HC (x & HL & Ho & Hne). cbn [Server.handle_event]. rewrite HL.
  destruct (calm_conns _ HC _ _ HL) as (Hst & Hrb & cl & Hcl).
  rewrite (client_of_lookup _ _ _ Hcl) in *.
  destruct (inv_cc _ _ _ HI _ _ HL) as [Hok [ph I]].
  assert (Hshort : (length (c_win (sc_conn x)) < BUF)%nat) by (eapply conn_win_short; eauto).
  set (n := read_amount kk (BUF - length (c_win (sc_conn x))) (length (k_tosrv cl))).
  assert (Hra : (n <= (BUF - length (c_win (sc_conn x))) /\ n <= (length (k_tosrv cl)) /\ (1 <= (BUF - length (c_win (sc_conn x))) -> 1 <= (length (k_tosrv cl)) -> 1 <= n))%nat)
    by (unfold n, read_amount; destruct (Nat.eqb kk 0) eqn:Ek; [|apply Nat.eqb_neq in Ek]; lia).
  destruct Hra as (Ra1 & Ra2 & Ra3).
  assert (Hn : (1 <= n <= length (k_tosrv cl))%nat).
  { split; [|exact Ra2]. apply Ra3; [lia|]. destruct (k_tosrv cl); [congruence|]. cbn [length]. lia. }
  destruct (firstn n (k_tosrv cl)) as [|b bs] eqn:Fn.
  { exfalso. assert (L : length (firstn n (k_tosrv cl)) = n) by (rewrite firstn_length; lia). rewrite Fn in L. cbn in L. lia. }
  assert (Hlen : (length (c_win (sc_conn x)) + length (b :: bs) <= BUF)%nat).
  { rewrite <- Fn, firstn_length. lia. }
  destruct (cc_read x (RData (b :: bs) [])) as [[y rs]|err] eqn:R; [|discriminate].
  destruct (cc_read_calm x b bs y rs (conj Hok (ex_intro _ ph I)) Hlen R Hst) as (Hy & Hyb & Hyc).
  destruct (cc_read_rq x b bs y rs (conj Hok (ex_intro _ ph I)) Hlen R) as (gen & Hgen & Fgen).
  intros H; inversion H; subst w' ys; clear H.
  set (y' := match sc_st y with AwaitOut => mkSC (sc_conn y) (sc_st y) (sc_infl y) (sc_client y) true (sc_gid y) | _ => y end).
  exists x, y', cl, n. split; [reflexivity|]. split; [exact Hcl|]. split; [exact Hn|]. split; [reflexivity|].
  unfold y'. destruct (sc_st y) eqn:Sy; cbn [sc_client sc_st sc_conn]; rewrite ?Sy; eauto 10.
Qed.

Lemma shape_out w toks fd kk w' ys :
  Inv w toks -> Calm w -> evt_live w (EvOut fd kk) -> handle_event w (EvOut fd kk) = inl (w', ys) ->
  exists x y cl sent,
    alookup fd (w_conns w) = Some x /\ alookup (sc_client x) (w_clients w) = Some cl /\
    sent <> [] /\ unsent (sc_conn x) = sent ++ unsent (sc_conn y) /\
    w' = set_client (set_conn w fd y) (sc_client x) (cl_add_rx cl sent) /\
    sc_client y = sc_client x /\ sc_st y <> SClosed /\ c_rbuf (sc_conn y) <> Some [].
Proof.
  intros HI HC (x & HL & Ho). cbn [Server.handle_event]. rewrite HL.
  destruct (calm_conns _ HC _ _ HL) as (Hst & Hrb & cl & Hcl).
  rewrite (client_of_lookup _ _ _ Hcl) in *.
  destruct (inv_cc _ _ _ HI _ _ HL) as [Hok _].
  assert (S0 : sc_st x = AwaitOut /\ pending_write (sc_conn x) = true).
  { unfold st_ok in Hok. destruct (sc_st x); [destruct Hok; congruence|tauto|congruence]. }
  destruct S0 as [S0 Hp].
  destruct (calm_clients _ HC _ _ Hcl) as (K1 & K2 & K3).
  assert (Hcr : k_can_receive cl = true) by (unfold k_can_receive; rewrite K1, K3; reflexivity).
  rewrite Hcr.
  destruct (cc_write_calm x kk S0 Hp Hrb) as (y & sent & W & Hs & Hu & Hy & Hyb & Hyc & Hyst).
  rewrite W. intros H; inversion H; subst w' ys; clear H.
  set (y' := match sc_st y with AwaitIn => mkSC (sc_conn y) (sc_st y) (sc_infl y) (sc_client y) false (sc_gid y) | _ => y end).
  exists x, y', cl, sent. split; [reflexivity|]. split; [exact Hcl|]. split; [exact Hs|].
  assert (E : sc_conn y' = sc_conn y /\ sc_client y' = sc_client y /\ sc_st y' = sc_st y).
  { unfold y'. destruct (sc_st y) eqn:Sy; cbn; auto. }
  destruct E as (E1 & E2 & E3). rewrite E1, E2, E3. auto 10.
Qed.

Definition refused_world (w : world) (c : nat) (cl : client) (rest : list nat) : world :=
  Server.mkW (aupdate c (mkCl (k_open cl) (k_shut_wr cl) (k_shut_rd cl) []
                           (if k_can_receive cl then k_rx cl ++ SERVER_FULL_ERROR_MESSAGE else k_rx cl) Gone) (w_clients w))
      (w_conns w) rest (w_tokens w) (w_nextg w) (w_limit w) (w_killed w).
Definition accepted_world (w : world) (c : nat) (cl : client) (rest : list nat) (nf : nat) : world :=
  Server.mkW (aupdate c (mkCl (k_open cl) (k_shut_wr cl) (k_shut_rd cl) (k_tosrv cl) (k_rx cl) (Accepted nf)) (w_clients w))
      (w_conns w ++ [(nf, mkSC (set_payload_max_size conn_new (w_limit w)) AwaitIn 0 c false (w_nextg w))])
      rest (w_tokens w) (S (w_nextg w)) (w_limit w) (w_killed w).

Lemma shape_listen w nf w' ys :
  Calm w -> evt_live w (EvListener nf) -> handle_event w (EvListener nf) = inl (w', ys) ->
  exists c rest cl, w_backlog w = c :: rest /\ alookup c (w_clients w) = Some cl /\
    (w' = refused_world w c cl rest \/ w' = accepted_world w c cl rest nf).
Proof.
  intros HC (Hnf & Hb). cbn [Server.handle_event]. destruct (w_backlog w) as [|c rest] eqn:Bk; [congruence|].
  destruct (calm_backlog _ HC c) as ((cl & Hcl) & _); [rewrite Bk; left; reflexivity|].
  rewrite (client_of_lookup _ _ _ Hcl).
  destruct (Nat.eqb (length (w_conns w)) MAX_CONNECTIONS); intros H; inversion H; subst w' ys; clear H;
    exists c, rest, cl; (split; [reflexivity|]); (split; [exact Hcl|]); [left|right]; reflexivity.
Qed.

(* ---------- a connection event: the world after it ---------- *)
Lemma calm_update w fd x y cl cl' :
  Calm w -> alookup fd (w_conns w) = Some x -> alookup (sc_client x) (w_clients w) = Some cl ->
  calm_client cl' -> sc_client y = sc_client x -> sc_st y <> SClosed -> c_rbuf (sc_conn y) <> Some [] ->
  Calm (set_client (set_conn w fd y) (sc_client x) cl').
Proof.
  intros HC HL Hcl Hcc Hyc Hys Hyb. destruct HC as [C1 C2 C3 C4 C5 C6].
  constructor; cbn [set_client set_conn w_killed w_clients w_conns w_backlog].
  - exact C1.
  - intros c0 cl0 H. apply alookup_update_cases in H. destruct H as [(-> & -> & _)|(_ & H)]; eauto.
  - intros fd0 x0 H. apply alookup_update_cases in H. destruct H as [(-> & -> & _)|(_ & H)].
    + split; [exact Hys|]. split; [exact Hyb|]. apply alookup_update_ex. rewrite Hyc. eauto.
    + destruct (C3 _ _ H) as (A1 & A2 & A3). split; [exact A1|]. split; [exact A2|]. apply alookup_update_ex. exact A3.
  - intros f1 f2 x1 x2 H1 H2 E.
    apply alookup_update_cases in H1. apply alookup_update_cases in H2.
    destruct H1 as [(-> & -> & _)|(N1 & H1)]; destruct H2 as [(-> & -> & _)|(N2 & H2)]; auto.
    + rewrite Hyc in E. eapply C4; eauto.
    + rewrite Hyc in E. eapply C4; eauto.
    + eapply C4; eauto.
  - exact C5.
  - intros c0 Hin. destruct (C6 c0 Hin) as (A1 & A2). split; [apply alookup_update_ex; exact A1|].
    intros fd0 x0 H. apply alookup_update_cases in H. destruct H as [(-> & -> & _)|(_ & H)].
    + rewrite Hyc. eapply A2; eauto.
    + eapply A2; eauto.
Qed.

Lemma meas_update w fd x y cl cl' :
  alookup fd (w_conns w) = Some x -> alookup (sc_client x) (w_clients w) = Some cl ->
  (m_in (set_client (set_conn w fd y) (sc_client x) cl') + length (k_tosrv cl) = m_in w + length (k_tosrv cl'))%nat /\
  (m_out (set_client (set_conn w fd y) (sc_client x) cl') + length (unsent (sc_conn x)) = m_out w + length (unsent (sc_conn y)))%nat.
Proof.
  intros HL Hcl. unfold m_in, m_out. cbn [set_client set_conn w_clients w_conns w_backlog].
  pose proof (asum_update (fun cl => length (k_tosrv cl)) _ _ cl' _ Hcl) as A.
  pose proof (asum_update (fun x => length (unsent (sc_conn x))) _ _ y _ HL) as A'.
  cbn beta in *. lia.
Qed.

Lemma calm_flags cl t : calm_client cl -> calm_client (cl_set_tosrv cl t).
Proof. intros H. exact H. Qed.
Lemma calm_flags_rx cl s : calm_client cl -> calm_client (cl_add_rx cl s).
Proof. intros H. exact H. Qed.

(* one live event: the world stays calm and the measure strictly decreases *)
Theorem live_event_progress w toks e w' ys :
  Inv w toks -> Calm w -> evt_live w e -> handle_event w e = inl (w', ys) ->
  Calm w' /\ lexlt (meas w') (meas w).
Proof.
  intros HI HC Hlive H. destruct e as [fd|fd kk|fd kk|nf|]; try (destruct Hlive; fail).
  - (* input *)
    destruct (shape_in w toks fd kk w' ys HI HC Hlive H) as (x & y & cl & n & HL & Hcl & Hn & -> & Hyc & Hys & Hyb & _).
    destruct (calm_conns _ HC _ _ HL) as (_ & Hrb & _).
    split.
    + eapply calm_update; eauto. apply calm_flags. eapply calm_clients; eauto. congruence.
    + destruct (meas_update w fd x y cl (cl_set_tosrv cl (skipn n (k_tosrv cl))) HL Hcl) as [M1 _].
      left. unfold meas. cbn [fst]. cbn [cl_set_tosrv k_tosrv] in M1. rewrite skipn_length in M1. lia.
  - (* output *)
    destruct (shape_out w toks fd kk w' ys HI HC Hlive H) as (x & y & cl & sent & HL & Hcl & Hs & Hu & -> & Hyc & Hys & Hyb).
    split.
    + eapply calm_update; eauto. apply calm_flags_rx. eapply calm_clients; eauto.
    + destruct (meas_update w fd x y cl (cl_add_rx cl sent) HL Hcl) as [M1 M2].
      right. unfold meas. cbn [fst snd]. cbn [cl_add_rx k_tosrv] in M1. rewrite Hu, app_length in M2.
      destruct sent; [congruence|]. cbn [length] in M2. lia.
  - (* a waiting client *)
    destruct Hlive as (Hnf & Hb).
    destruct (shape_listen w nf w' ys HC (conj Hnf Hb) H) as (c & rest & cl & Bk & Hcl & Hw).
    destruct HC as [C1 C2 C3 C4 C5 C6]. rewrite Bk in C5, C6. inversion C5 as [|? ? Hnotin Hnd]; subst.
    destruct (C6 c (or_introl eq_refl)) as (_ & Hcfresh).
    destruct Hw as [->| ->].
    + split.
      * constructor; cbn [refused_world w_killed w_clients w_conns w_backlog]; auto.
        -- intros c0 cl0 H0. apply alookup_update_cases in H0. destruct H0 as [(-> & -> & _)|(_ & H0)]; eauto.
           exact (C2 _ _ Hcl).
        -- intros fd0 x0 H0. destruct (C3 _ _ H0) as (A1 & A2 & A3). split; [exact A1|]. split; [exact A2|].
           apply alookup_update_ex. exact A3.
        -- intros c0 Hin. destruct (C6 c0 (or_intror Hin)) as (A1 & A2). split; [apply alookup_update_ex; exact A1|exact A2].
      * left. unfold meas, m_in. cbn [fst refused_world w_clients w_backlog]. rewrite Bk. cbn [length].
        pose proof (asum_update (fun cl => length (k_tosrv cl)) _ _
          (mkCl (k_open cl) (k_shut_wr cl) (k_shut_rd cl) [] (if k_can_receive cl then k_rx cl ++ SERVER_FULL_ERROR_MESSAGE else k_rx cl) Gone) _ Hcl) as A.
        cbn beta in A. cbn [k_tosrv length] in A. lia.
    + split.
      * constructor; cbn [accepted_world w_killed w_clients w_conns w_backlog]; auto.
        -- intros c0 cl0 H0. apply alookup_update_cases in H0. destruct H0 as [(-> & -> & _)|(_ & H0)]; eauto.
           exact (C2 _ _ Hcl).
        -- intros fd0 x0 H0. rewrite alookup_app_end in H0.
           destruct (alookup fd0 (w_conns w)) as [v|] eqn:E0.
           ++ inversion H0; subst. destruct (C3 _ _ E0) as (A1 & A2 & A3). split; [exact A1|]. split; [exact A2|].
              apply alookup_update_ex. exact A3.
           ++ destruct (Nat.eqb nf fd0); [|discriminate]. inversion H0; subst. cbn [sc_st sc_conn sc_client].
              split; [discriminate|]. split; [cbn; discriminate|]. apply alookup_update_ex. eauto.
        -- intros f1 f2 x1 x2 H1 H2 E. rewrite alookup_app_end in H1, H2.
           destruct (alookup f1 (w_conns w)) as [v1|] eqn:E1; destruct (alookup f2 (w_conns w)) as [v2|] eqn:E2.
           ++ inversion H1; inversion H2; subst. eapply C4; eauto.
           ++ destruct (Nat.eqb nf f2); [|discriminate]. inversion H1; inversion H2; subst. cbn [sc_client] in E.
              exfalso. eapply Hcfresh; eauto.
           ++ destruct (Nat.eqb nf f1); [|discriminate]. inversion H1; inversion H2; subst. cbn [sc_client] in E.
              exfalso. eapply Hcfresh; eauto.
           ++ destruct (Nat.eqb nf f1) eqn:N1; [|discriminate]. destruct (Nat.eqb nf f2) eqn:N2; [|discriminate].
              apply Nat.eqb_eq in N1, N2. congruence.
        -- intros c0 Hin. destruct (C6 c0 (or_intror Hin)) as (A1 & A2). split; [apply alookup_update_ex; exact A1|].
           intros fd0 x0 H0. rewrite alookup_app_end in H0.
           destruct (alookup fd0 (w_conns w)) as [v|] eqn:E0.
           ++ inversion H0; subst. eapply A2; eauto.
           ++ destruct (Nat.eqb nf fd0); [|discriminate]. inversion H0; subst. cbn [sc_client].
              intros ->. exact (Hnotin Hin).
      * left. unfold meas, m_in. cbn [fst accepted_world w_clients w_backlog]. rewrite Bk. cbn [length].
        pose proof (asum_update (fun cl => length (k_tosrv cl)) _ _
          (mkCl (k_open cl) (k_shut_wr cl) (k_shut_rd cl) (k_tosrv cl) (k_rx cl) (Accepted nf)) _ Hcl) as A.
        cbn beta in A. cbn [k_tosrv] in A. lia.
Qed.

(* ---------- readiness of the other events of the batch is not disturbed ---------- *)
Lemma client_of_update_other w fd y c cl' c' : c' <> c ->
  client_of (set_client (set_conn w fd y) c cl') c' = client_of w c'.
Proof.
  intros Hne. unfold client_of. cbn [set_client set_conn w_clients]. rewrite alookup_update_other by congruence. reflexivity.
Qed.

Lemma live_frame w toks e w' ys e' :
  Inv w toks -> Calm w -> evt_live w e -> handle_event w e = inl (w', ys) ->
  evt_live w e' -> ev_key e' <> ev_key e -> evt_live w' e'.
Proof.
  intros HI HC Hlive H Hlive' Hk.
  assert (Conn : forall fd x y cl cl', alookup fd (w_conns w) = Some x -> alookup (sc_client x) (w_clients w) = Some cl ->
            w' = set_client (set_conn w fd y) (sc_client x) cl' -> ev_key e = KConn fd -> evt_live w' e').
  { intros fd x y cl cl' HL Hcl -> Ek. rewrite Ek in Hk.
    destruct e' as [fd'|fd' kk'|fd' kk'|nf'|]; try (destruct Hlive'; fail); cbn [ev_key] in Hk.
    - destruct Hlive' as (x' & HL' & Ho' & Ht'). assert (Hne : fd' <> fd) by congruence.
      exists x'. cbn [evt_live set_client set_conn w_conns]. rewrite alookup_update_other by congruence.
      split; [exact HL'|]. split; [exact Ho'|]. rewrite client_of_update_other; [exact Ht'|].
      intros E. apply Hne. symmetry. eapply (calm_inj _ HC); eauto.
    - destruct Hlive' as (x' & HL' & Ho'). assert (Hne : fd' <> fd) by congruence.
      exists x'. cbn [set_client set_conn w_conns]. rewrite alookup_update_other by congruence. auto.
    - destruct Hlive' as (Hnf & Hb). cbn [evt_live set_client set_conn w_conns w_backlog]. split; [|exact Hb].
      rewrite alookup_update_other; [exact Hnf|]. intros ->. congruence. }
  destruct e as [fd|fd kk|fd kk|nf|]; try (destruct Hlive; fail).
  - destruct (shape_in w toks fd kk w' ys HI HC Hlive H) as (x & y & cl & n & HL & Hcl & _ & Hw & _).
    eapply Conn; eauto.
  - destruct (shape_out w toks fd kk w' ys HI HC Hlive H) as (x & y & cl & sent & HL & Hcl & _ & _ & Hw & _).
    eapply Conn; eauto.
  - destruct (shape_listen w nf w' ys HC Hlive H) as (c & rest & cl & Bk & Hcl & Hw).
    destruct Hlive as (Hnf & _).
    destruct (calm_backlog _ HC c) as (_ & Hcfresh); [rewrite Bk; left; reflexivity|].
    assert (Cl : forall c', c' <> c -> client_of w' c' = client_of w c').
    { intros c' Hne. unfold client_of. destruct Hw as [-> | ->]; cbn [refused_world accepted_world w_clients];
        rewrite alookup_update_other by congruence; reflexivity. }
    assert (Cn : forall fd' x', alookup fd' (w_conns w) = Some x' -> alookup fd' (w_conns w') = Some x').
    { intros fd' x' HL'. destruct Hw as [-> | ->]; cbn [refused_world accepted_world w_conns]; [exact HL'|].
      rewrite alookup_app_end, HL'. reflexivity. }
    destruct e' as [fd'|fd' kk'|fd' kk'|nf'|]; try (destruct Hlive'; fail); cbn [ev_key] in Hk.
    + destruct Hlive' as (x' & HL' & Ho' & Ht'). exists x'. split; [apply Cn; exact HL'|]. split; [exact Ho'|].
      rewrite Cl; [exact Ht'|]. eapply Hcfresh; eauto.
    + destruct Hlive' as (x' & HL' & Ho'). exists x'. split; [apply Cn; exact HL'|exact Ho'].
    + congruence.
Qed.

(* ---------- a whole batch, in any order ---------- *)
Theorem batch_progress : forall es w toks acc w' ys,
  Inv w toks -> Calm w -> Forall (evt_live w) es -> NoDup (map ev_key es) ->
  handle_all w es acc = inl (w', ys) ->
  Calm w' /\ (es = [] /\ w' = w \/ es <> [] /\ lexlt (meas w') (meas w)).
Proof.
  induction es as [|e t IH]; intros w toks acc w' ys HI HC Hall Hnd; cbn [Server.handle_all].
  - intros H; inversion H; subst. split; [exact HC|]. left. auto.
  - inversion Hall as [|? ? He Ht]; subst. inversion Hnd as [|? ? Hnotin Hnd']; subst.
    destruct (handle_event w e) as [[w1 ys1]|err] eqn:Hh; [|discriminate].
    intros H.
    destruct (live_event_progress w toks e w1 ys1 HI HC He Hh) as [HC1 Hlt].
    assert (HI1 : Inv w1 (ytoks ys1 ++ toks)).
    { destruct (handle_ok BUF BUF_min BUF_u32 w toks e HI (evt_live_ok _ _ He)) as [(w1' & ys1' & Hh' & I1 & _)|Hov].
      - intros ->. destruct He.
      - rewrite Hh in Hh'. inversion Hh'; subst. exact I1.
      - rewrite Hh in Hov. discriminate. }
    assert (Ht' : Forall (evt_live w1) t).
    { apply Forall_forall. intros e' Hin. rewrite Forall_forall in Ht.
      apply (live_frame w toks e w1 ys1 e' HI HC He Hh (Ht _ Hin)). intros E. apply Hnotin. rewrite <- E. apply in_map. exact Hin. }
    destruct (IH w1 _ _ w' ys HI1 HC1 Ht' Hnd' H) as [HC' [[-> ->]|[_ Hlt']]].
    + split; [exact HC1|]. right. split; [discriminate|exact Hlt].
    + split; [exact HC'|]. right. split; [discriminate|]. eapply lexlt_trans; eauto.
Qed.

(* sweeping a calm world removes nothing *)
Lemma sweep_calm w : Calm w -> NoDup (map fst (w_conns w)) -> sweep w = w.
Proof.
  intros HC Hnd. unfold sweep.
  assert (Hd : forall p, In p (w_conns w) -> is_done (snd p) = false).
  { intros [fd x] Hin. cbn [snd]. destruct (calm_conns _ HC fd x (alookup_in_nodup _ _ _ Hnd Hin)) as (Hs & _).
    unfold is_done. destruct (sc_st x); [reflexivity|reflexivity|congruence]. }
  rewrite (filter_none _ _ Hd). cbn [fold_left].
  rewrite filter_all by (intros p Hp; rewrite (Hd p Hp); reflexivity).
  destruct w; reflexivity.
Qed.

(* C08 progress: every poll enabled by truthful readiness, in any order of the ready events,
   strictly decreases the measure and keeps the world calm *)
Theorem poll_progress w toks es w' ys :
  Inv w toks -> Calm w -> Forall (evt_live w) es -> NoDup (map ev_key es) ->
  poll_with w es = PYield w' ys ->
  Calm w' /\ Inv w' (ytoks ys ++ toks) /\ lexlt (meas w') (meas w).
Proof.
  intros HI HC Hall Hnd. unfold Server.poll_with. destruct es as [|e t] eqn:Ees; [discriminate|]. rewrite <- Ees in *.
  destruct (handle_all w es []) as [[w1 ys1]|err] eqn:Hh; [|discriminate].
  intros H; inversion H; subst w' ys; clear H.
  destruct (batch_progress es w toks [] w1 ys1 HI HC Hall Hnd Hh) as [HC1 [[E _]|[_ Hlt]]]; [congruence|].
  assert (Hnk : ~ In KKill (map ev_key es)).
  { intros Hin. apply in_map_iff in Hin. destruct Hin as (e0 & Hk & Hin). rewrite Forall_forall in Hall.
    exact (evt_live_not_kill _ _ (Hall _ Hin) Hk). }
  assert (Hok : Forall (evt_ok w) es) by (eapply Forall_impl; [|exact Hall]; apply evt_live_ok).
  destruct (batch_ok BUF BUF_min BUF_u32 es w toks [] HI Hok Hnd Hnk) as [(w2 & ys2 & H2 & I2 & _)|Hov]; [|congruence].
  rewrite Hh in H2. cbn [app] in H2. inversion H2; subst w2 ys2.
  rewrite (sweep_calm w1 HC1 (inv_nodup _ _ _ I2)). auto.
Qed.

(* the executable readiness of a calm world is truthful *)
Lemma ready_events_live w toks : Inv w toks -> Calm w -> Forall (evt_live w) (ready_events w).
Proof.
  intros HI HC. apply Forall_forall. intros e Hin. unfold ready_events in Hin.
  rewrite (calm_nokill _ HC) in Hin. cbn [app] in Hin. apply in_app_or in Hin. destruct Hin as [Hin|Hin].
  - apply in_flat_map in Hin. destruct Hin as ([fd x] & Hp & Hin). cbn [fst snd] in Hin.
    pose proof (alookup_in_nodup _ _ _ (inv_nodup _ _ _ HI) Hp) as HL.
    destruct (calm_conns _ HC _ _ HL) as (_ & _ & cl & Hcl).
    destruct (calm_clients _ HC _ _ Hcl) as (K1 & K2 & K3).
    unfold conn_event in Hin. rewrite (client_of_lookup _ _ _ Hcl) in Hin.
    unfold k_hup in Hin. rewrite K1, K2 in Hin. cbn [negb orb] in Hin.
    destruct (sc_out x) eqn:Ho.
    + destruct Hin as [<-|[]]. exists x. auto.
    + destruct (k_tosrv cl) eqn:Kt; [destruct Hin|]. destruct Hin as [<-|[]]. exists x.
      split; [exact HL|]. split; [exact Ho|]. rewrite (client_of_lookup _ _ _ Hcl), Kt. discriminate.
  - destruct (w_backlog w) eqn:Bk; [destruct Hin|]. destruct Hin as [<-|[]]. split; [apply (fresh_fd_unused BUF BUF_min BUF_u32)|rewrite Bk; discriminate].
Qed.

Theorem canonical_poll_progress w toks w' ys :
  Inv w toks -> Calm w -> poll BUF w = PYield w' ys ->
  Calm w' /\ Inv w' (ytoks ys ++ toks) /\ lexlt (meas w') (meas w).
Proof.
  intros HI HC. unfold poll. apply poll_progress; auto.
  - eapply ready_events_live; eauto.
  - apply (ready_events_ok BUF BUF_min BUF_u32 w toks HI).
Qed.

(* no infinite polling: every chain of polls (each with an arbitrary truthful batch in an
   arbitrary order) is finite *)
Definition poll_step (w' w : world) : Prop :=
  exists toks es ys, Inv w toks /\ Calm w /\ Forall (evt_live w) es /\ NoDup (map ev_key es) /\
                     poll_with w es = PYield w' ys.

Theorem no_infinite_polling : forall w, Acc poll_step w.
Proof.
  intros w. remember (meas w) as m eqn:Em. revert w Em.
  induction m as [m IH] using (well_founded_induction lexlt_wf). intros w ->.
  constructor. intros w' (toks & es & ys & HI & HC & Hall & Hnd & Hp).
  destruct (poll_progress w toks es w' ys HI HC Hall Hnd Hp) as (_ & _ & Hlt).
  eapply IH; [exact Hlt|reflexivity].
Qed.

(* when nothing is ready in a calm world, nothing is left to do *)
Theorem blocked_means_done w toks :
  Inv w toks -> Calm w -> ready_events w = [] ->
  w_backlog w = [] /\
  forall fd x, alookup fd (w_conns w) = Some x ->
    sc_st x = AwaitIn /\ unsent (sc_conn x) = [] /\ k_tosrv (client_of w (sc_client x)) = [].
Proof.
  intros HI HC Hr. split.
  - destruct (w_backlog w) eqn:Bk; [reflexivity|]. exfalso. apply (backlog_wakes w); [rewrite Bk; discriminate|exact Hr].
  - intros fd x HL. pose proof (alookup_some_in _ _ _ HL) as Hin.
    destruct (calm_conns _ HC _ _ HL) as (Hs & Hrb & cl & Hcl).
    destruct (inv_cc _ _ _ HI _ _ HL) as [Hok _].
    assert (S0 : sc_st x = AwaitIn).
    { destruct (sc_st x) eqn:S0; [reflexivity| |congruence].
      exfalso. apply (no_lost_wakeup BUF w toks fd x HI Hin); [right; left; exact S0|exact Hr]. }
    split; [exact S0|]. split.
    + unfold st_ok in Hok. rewrite S0 in Hok. destruct Hok as [_ Hp].
      destruct (unsent (sc_conn x)) eqn:U; [reflexivity|]. exfalso.
      assert (pending_write (sc_conn x) = true) by (apply (pending_iff _ Hrb); rewrite U; discriminate). congruence.
    + destruct (k_tosrv (client_of w (sc_client x))) eqn:Kt; [reflexivity|]. exfalso.
      apply (no_lost_wakeup BUF w toks fd x HI Hin); [right; right; split; [exact S0|rewrite Kt; discriminate]|exact Hr].
Qed.

(* the executable driver: poll while the epoll descriptor signals *)
Inductive drive_res := DQuiet (w : world) (ys : list yield) | DOverflow | DFuel.
Fixpoint drive (n : nat) (w : world) (acc : list yield) : drive_res :=
  match n with
  | O => DFuel
  | S k => match poll BUF w with
           | PBlocked => DQuiet w acc
           | PYield w' ys => drive k w' (acc ++ ys)
           | Server.PErr _ => DOverflow
           end
  end.

Theorem drive_terminates : forall w toks acc, Inv w toks -> Calm w ->
  exists n, match drive n w acc with
            | DQuiet w' ys' => ready_events w' = [] /\ Calm w' /\ (exists toks', Inv w' toks') /\ exists ys, ys' = acc ++ ys
            | DOverflow => True
            | DFuel => False
            end.
Proof.
  intros w. remember (meas w) as m eqn:Em. revert w Em.
  induction m as [m IH] using (well_founded_induction lexlt_wf). intros w -> toks acc HI HC.
  pose proof (poll_outcomes BUF BUF_min BUF_u32 w toks HI) as PO.
  destruct (poll BUF w) as [|w' ys|e] eqn:P.
  - exists 1%nat. cbn [drive]. rewrite P. split; [exact PO|]. split; [exact HC|]. split; [eauto|]. exists []. rewrite app_nil_r. reflexivity.
  - destruct (canonical_poll_progress w toks w' ys HI HC P) as (HC' & HI' & Hlt).
    destruct (IH _ Hlt w' eq_refl _ (acc ++ ys) HI' HC') as [n Hn].
    exists (S n). cbn [drive]. rewrite P. destruct (drive n w' (acc ++ ys)) as [w2 ys2| |]; auto.
    destruct Hn as (A1 & A2 & A3 & ys3 & ->). split; [exact A1|]. split; [exact A2|]. split; [exact A3|].
    exists (ys ++ ys3). rewrite app_assoc. reflexivity.
  - exists 1%nat. cbn [drive]. rewrite P. exact Logic.I.
Qed.

Lemma Calm_world0 : Calm world0.
Proof. constructor; cbn; try (intros; discriminate); try tauto. constructor. Qed.



(* the bytes a client has been or will be sent on a connection: received-but-unread ++ unsent *)
Definition wire (w : world) (x : sconn) : bytes := k_rx (client_of w (sc_client x)) ++ unsent (sc_conn x).

Lemma unsent_grow c c' gen : c_rq c' = c_rq c ++ gen -> c_rbuf c' = c_rbuf c ->
  unsent c' = unsent c ++ flat_map serialize gen.
Proof. intros H1 H2. unfold unsent. rewrite H1, H2, flat_map_app, app_assoc. reflexivity. Qed.

Definition conserved (w w' : world) : Prop :=
  forall fd x, alookup fd (w_conns w) = Some x ->
    exists x' gen, alookup fd (w_conns w') = Some x' /\ sc_client x' = sc_client x /\
                   wire w' x' = wire w x ++ flat_map serialize gen /\ Forall server_generated gen.

Lemma conserved_refl w : conserved w w.
Proof. intros fd x HL. exists x, []. cbn. rewrite app_nil_r. auto. Qed.

Lemma conserved_trans w1 w2 w3 : conserved w1 w2 -> conserved w2 w3 -> conserved w1 w3.
Proof.
  intros H12 H23 fd x HL. destruct (H12 fd x HL) as (x2 & g2 & L2 & C2 & W2 & F2).
  destruct (H23 fd x2 L2) as (x3 & g3 & L3 & C3 & W3 & F3).
  exists x3, (g2 ++ g3). split; [exact L3|]. split; [congruence|]. split.
  - rewrite W3, W2, flat_map_app, app_assoc. reflexivity.
  - apply Forall_app. auto.
Qed.

Lemma wire_other w fd y c cl' x' : sc_client x' <> c ->
  wire (set_client (set_conn w fd y) c cl') x' = wire w x'.
Proof. intros Hne. unfold wire. rewrite client_of_update_other by exact Hne. reflexivity. Qed.

Lemma client_of_update_same w fd y c cl cl' : alookup c (w_clients w) = Some cl ->
  client_of (set_client (set_conn w fd y) c cl') c = cl'.
Proof.
  intros H. unfold client_of. cbn [set_client set_conn w_clients]. rewrite (alookup_update_same _ cl' _ _ H). reflexivity.
Qed.

Theorem event_conserves w toks e w' ys :
  Inv w toks -> Calm w -> evt_live w e -> handle_event w e = inl (w', ys) -> conserved w w'.
Proof.
  intros HI HC Hlive H.
  assert (Conn : forall fd x y cl cl' gen,
            alookup fd (w_conns w) = Some x -> alookup (sc_client x) (w_clients w) = Some cl ->
            w' = set_client (set_conn w fd y) (sc_client x) cl' -> sc_client y = sc_client x ->
            k_rx cl' ++ unsent (sc_conn y) = (k_rx cl ++ unsent (sc_conn x)) ++ flat_map serialize gen ->
            Forall server_generated gen -> conserved w w').
  { intros fd x y cl cl' gen HL Hcl -> Hyc Hw Fg fd0 x0 HL0.
    destruct (Nat.eq_dec fd0 fd) as [->|Hne].
    - rewrite HL in HL0. inversion HL0; subst x0. exists y, gen.
      cbn [set_client set_conn w_conns]. split; [eapply alookup_update_same; eauto|]. split; [exact Hyc|]. split; [|exact Fg].
      unfold wire. rewrite Hyc, (client_of_update_same _ _ _ _ cl _ Hcl), (client_of_lookup _ _ _ Hcl). exact Hw.
    - exists x0, []. cbn [set_client set_conn w_conns]. rewrite alookup_update_other by congruence.
      split; [exact HL0|]. split; [reflexivity|]. split; [|constructor]. cbn [flat_map]. rewrite app_nil_r.
      apply wire_other. intros E. apply Hne. eapply (calm_inj _ HC); eauto. }
  destruct e as [fd|fd kk|fd kk|nf|]; try (destruct Hlive; fail).
  - destruct (shape_in w toks fd kk w' ys HI HC Hlive H) as (x & y & cl & n & HL & Hcl & _ & Hw & Hyc & _ & Hyb & Hrx & gen & Hgen & Fgen).
    eapply (Conn fd x y cl _ gen HL Hcl Hw Hyc); [|exact Fgen].
    rewrite Hrx. rewrite (unsent_grow _ _ gen Hgen Hyb). rewrite app_assoc. reflexivity.
  - destruct (shape_out w toks fd kk w' ys HI HC Hlive H) as (x & y & cl & sent & HL & Hcl & _ & Hu & Hw & Hyc & _).
    eapply (Conn fd x y cl _ [] HL Hcl Hw Hyc); [|constructor].
    cbn [cl_add_rx k_rx flat_map]. rewrite Hu, app_nil_r, app_assoc. reflexivity.
  - destruct (shape_listen w nf w' ys HC Hlive H) as (c & rest & cl & Bk & Hcl & Hw).
    destruct Hlive as (Hnf & _).
    destruct (calm_backlog _ HC c) as (_ & Hcfresh); [rewrite Bk; left; reflexivity|].
    intros fd0 x0 HL0. exists x0, []. cbn [flat_map]. rewrite app_nil_r.
    assert (Cl : client_of w' (sc_client x0) = client_of w (sc_client x0)).
    { unfold client_of. destruct Hw as [-> | ->]; cbn [refused_world accepted_world w_clients];
        rewrite alookup_update_other; try reflexivity; intros E; eapply Hcfresh; eauto. }
    split; [|split; [reflexivity|split; [unfold wire; rewrite Cl; reflexivity|constructor]]].
    destruct Hw as [-> | ->]; cbn [refused_world accepted_world w_conns]; [exact HL0|].
    rewrite alookup_app_end, HL0. reflexivity.
Qed.

Theorem batch_conserves : forall es w toks acc w' ys,
  Inv w toks -> Calm w -> Forall (evt_live w) es -> NoDup (map ev_key es) ->
  handle_all w es acc = inl (w', ys) -> conserved w w'.
Proof.
  induction es as [|e t IH]; intros w toks acc w' ys HI HC Hall Hnd; cbn [Server.handle_all].
  - intros H; inversion H; subst. apply conserved_refl.
  - inversion Hall as [|? ? He Ht]; subst. inversion Hnd as [|? ? Hnotin Hnd']; subst.
    destruct (handle_event w e) as [[w1 ys1]|err] eqn:Hh; [|discriminate].
    intros H.
    destruct (live_event_progress w toks e w1 ys1 HI HC He Hh) as [HC1 _].
    assert (HI1 : Inv w1 (ytoks ys1 ++ toks)).
    { destruct (handle_ok BUF BUF_min BUF_u32 w toks e HI (evt_live_ok _ _ He)) as [(w1' & ys1' & Hh' & I1 & _)|Hov].
      - intros ->. destruct He.
      - rewrite Hh in Hh'. inversion Hh'; subst. exact I1.
      - rewrite Hh in Hov. discriminate. }
    assert (Ht' : Forall (evt_live w1) t).
    { apply Forall_forall. intros e' Hin. rewrite Forall_forall in Ht.
      apply (live_frame w toks e w1 ys1 e' HI HC He Hh (Ht _ Hin)). intros E. apply Hnotin. rewrite <- E. apply in_map. exact Hin. }
    eapply conserved_trans; [eapply event_conserves; eauto|]. eapply IH; eauto.
Qed.

(* C07/C08: over a poll, every connection's wire (bytes its client has received but not yet
   read, followed by the connection's unsent output) is only ever EXTENDED, and only by responses
   the server generated for that client's own input (100 Continue, 400) *)
Theorem poll_conserves w toks es w' ys :
  Inv w toks -> Calm w -> Forall (evt_live w) es -> NoDup (map ev_key es) ->
  poll_with w es = PYield w' ys -> conserved w w'.
Proof.
  intros HI HC Hall Hnd. unfold Server.poll_with. destruct es as [|e t] eqn:Ees; [discriminate|]. rewrite <- Ees in *.
  destruct (handle_all w es []) as [[w1 ys1]|err] eqn:Hh; [|discriminate].
  intros H; inversion H; subst w' ys; clear H.
  destruct (batch_progress es w toks [] w1 ys1 HI HC Hall Hnd Hh) as [HC1 _].
  assert (Hnk : ~ In KKill (map ev_key es)).
  { intros Hin. apply in_map_iff in Hin. destruct Hin as (e0 & Hk & Hin). rewrite Forall_forall in Hall.
    exact (evt_live_not_kill _ _ (Hall _ Hin) Hk). }
  assert (Hok : Forall (evt_ok w) es) by (eapply Forall_impl; [|exact Hall]; apply evt_live_ok).
  destruct (batch_ok BUF BUF_min BUF_u32 es w toks [] HI Hok Hnd Hnk) as [(w2 & ys2 & H2 & I2 & _)|Hov]; [|congruence].
  rewrite Hh in H2. cbn [app] in H2. inversion H2; subst w2 ys2.
  rewrite (sweep_calm w1 HC1 (inv_nodup _ _ _ I2)). eapply batch_conserves; eauto.
Qed.

(* responding: the response is appended to the wire of the connection named by the token, every
   other wire is unchanged, the world stays calm *)
Theorem respond_conserves w t1 t2 fd g r w' :
  Inv w (t1 ++ (fd, g) :: t2) -> Calm w -> respond w fd r = inl w' ->
  Calm w' /\
  (exists x x', alookup fd (w_conns w) = Some x /\ sc_gid x = g /\ alookup fd (w_conns w') = Some x' /\
                sc_client x' = sc_client x /\ wire w' x' = wire w x ++ serialize r) /\
  forall fd0 x0, fd0 <> fd -> alookup fd0 (w_conns w) = Some x0 -> alookup fd0 (w_conns w') = Some x0 /\ wire w' x0 = wire w x0.
Proof.
  intros HI HC. destruct (inv_tok _ _ _ HI fd g) as (x & HL & Hg); [apply in_or_app; right; left; reflexivity|].
  destruct (calm_conns _ HC _ _ HL) as (Hs & Hrb & cl & Hcl).
  unfold respond. rewrite HL.
  set (x1 := match sc_st x with AwaitIn => mkSC (sc_conn x) AwaitOut (sc_infl x) (sc_client x) true (sc_gid x) | _ => x end).
  assert (Hx1 : sc_conn x1 = sc_conn x /\ sc_client x1 = sc_client x /\ sc_st x1 = AwaitOut /\ sc_infl x1 = sc_infl x).
  { unfold x1. destruct (sc_st x) eqn:S0; cbn; auto. congruence. }
  destruct Hx1 as (E1 & E2 & E3 & E4).
  unfold cc_enqueue. rewrite E3, E1, E4. destruct (sc_infl x =? 0); [discriminate|].
  intros H; inversion H; subst w'; clear H.
  set (y := mkSC (enqueue_response (sc_conn x) r) AwaitOut (sc_infl x - 1) (sc_client x1) (sc_out x1) (sc_gid x1)).
  assert (Hw : set_conn w fd y = set_client (set_conn w fd y) (sc_client x) cl).
  { unfold set_client, set_conn. cbn. f_equal. clear -Hcl. induction (w_clients w) as [|[k v] t IH]; cbn in *; [reflexivity|].
    destruct (Nat.eqb k (sc_client x)) eqn:E; [inversion Hcl; subst; reflexivity|]. f_equal. apply IH. exact Hcl. }
  split; [|split].
  - rewrite Hw. apply (calm_update w fd x y cl cl HC HL Hcl).
    + eapply calm_clients; eauto.
    + exact E2.
    + cbn. discriminate.
    + cbn. exact Hrb.
  - exists x, y. split; [reflexivity|]. split; [exact Hg|]. cbn [set_conn w_conns]. split; [eapply alookup_update_same; eauto|].
    split; [exact E2|]. unfold wire. cbn [sc_client sc_conn y]. rewrite E2.
    assert (Ecl : client_of (set_conn w fd y) (sc_client x) = client_of w (sc_client x)) by reflexivity. rewrite Ecl.
    rewrite (unsent_grow (sc_conn x) (enqueue_response (sc_conn x) r) [r]); [|reflexivity|reflexivity].
    cbn [flat_map]. rewrite app_nil_r, app_assoc. reflexivity.
  - intros fd0 x0 Hne HL0. cbn [set_conn w_conns]. rewrite alookup_update_other by congruence. split; [exact HL0|reflexivity].
Qed.


(* polling to quiescence: terminates, conserves every wire, and leaves nothing unsent *)
Theorem drive_delivers : forall w toks acc, Inv w toks -> Calm w ->
  exists n, match drive n w acc with
            | DQuiet w' ys' => ready_events w' = [] /\ Calm w' /\ (exists toks', Inv w' toks') /\ conserved w w' /\
                               exists ys, ys' = acc ++ ys
            | DOverflow => True
            | DFuel => False
            end.
Proof.
  intros w. remember (meas w) as m eqn:Em. revert w Em.
  induction m as [m IH] using (well_founded_induction lexlt_wf). intros w -> toks acc HI HC.
  pose proof (poll_outcomes BUF BUF_min BUF_u32 w toks HI) as PO.
  destruct (poll BUF w) as [|w' ys|e] eqn:P.
  - exists 1%nat. cbn [drive]. rewrite P. split; [exact PO|]. split; [exact HC|]. split; [eauto|].
    split; [apply conserved_refl|]. exists []. rewrite app_nil_r. reflexivity.
  - destruct (canonical_poll_progress w toks w' ys HI HC P) as (HC' & HI' & Hlt).
    assert (Cs : conserved w w').
    { unfold poll in P.
      apply (poll_conserves w toks (ready_events w) w' ys HI HC (ready_events_live w toks HI HC)
               (proj2 (ready_events_ok BUF BUF_min BUF_u32 w toks HI)) P). }
    destruct (IH _ Hlt w' eq_refl _ (acc ++ ys) HI' HC') as [n Hn].
    exists (S n). cbn [drive]. rewrite P. destruct (drive n w' (acc ++ ys)) as [w2 ys2| |]; auto.
    destruct Hn as (A1 & A2 & A3 & A4 & ys3 & ->). split; [exact A1|]. split; [exact A2|]. split; [exact A3|].
    split; [eapply conserved_trans; eauto|]. exists (ys ++ ys3). rewrite app_assoc. reflexivity.
  - exists 1%nat. cbn [drive]. rewrite P. exact Logic.I.
Qed.

(* C08 end to end: the application answers a request it holds; polling while the epoll descriptor
   signals terminates, and at that point the client of that connection has been sent -- in its
   receive queue, after everything sent before -- the whole response, followed only by responses
   the server generated for that client's later input; nothing is left unsent anywhere *)
Theorem response_delivered w t1 t2 fd g r w1 :
  Inv w (t1 ++ (fd, g) :: t2) -> Calm w -> respond w fd r = inl w1 ->
  exists n, match drive n w1 [] with
            | DQuiet w2 _ =>
                ready_events w2 = [] /\
                exists x x2 gen, alookup fd (w_conns w) = Some x /\ sc_gid x = g /\
                  alookup fd (w_conns w2) = Some x2 /\ sc_client x2 = sc_client x /\ unsent (sc_conn x2) = [] /\
                  k_rx (client_of w2 (sc_client x)) = wire w x ++ serialize r ++ flat_map serialize gen /\
                  Forall server_generated gen
            | DOverflow => True
            | DFuel => False
            end.
Proof.
  intros HI HC Hr.
  destruct (respond_conserves w t1 t2 fd g r w1 HI HC Hr) as (HC1 & (x & x1 & HL & Hg & HL1 & Hc1 & Hw1) & _).
  destruct (respond_ok BUF BUF_min BUF_u32 w t1 t2 fd g r HI) as (w1' & x' & Hr' & HI1 & _).
  rewrite Hr in Hr'. inversion Hr'; subst w1'.
  destruct (drive_delivers w1 _ [] HI1 HC1) as [n Hn]. exists n.
  destruct (drive n w1 []) as [w2 ys2| |]; auto.
  destruct Hn as (Hq & HC2 & (toks2 & HI2) & Cs & _). split; [exact Hq|].
  destruct (Cs fd x1 HL1) as (x2 & gen & HL2 & Hc2 & Hw2 & Fg).
  destruct (blocked_means_done w2 toks2 HI2 HC2 Hq) as (_ & Hdone). destruct (Hdone fd x2 HL2) as (_ & Hu & _).
  exists x, x2, gen. split; [exact HL|]. split; [exact Hg|]. split; [exact HL2|]. split; [congruence|]. split; [exact Hu|].
  split; [|exact Fg]. unfold wire in Hw2 at 1. rewrite Hu, app_nil_r in Hw2. rewrite Hc2, Hc1 in Hw2.
  rewrite Hw2, Hw1, <- app_assoc. reflexivity.
Qed.

End Prog.

(* ---------- non-vacuity: a reachable calm world that holds a token ---------- *)
Definition wA : world :=
  Server.mkW [(0%nat, mkCl true false false (B"GET /a HTTP/1.1" ++ CRLF ++ CRLF) [] InBacklog)] [] [0%nat] [] 0 MAX_PAYLOAD_SIZE false.

Lemma wA_inv : Inv 1024 wA [].
Proof. constructor; cbn; try (intros; discriminate); try tauto; try lia. constructor. Qed.

Lemma wA_calm : Calm wA.
Proof.
  constructor; cbn [wA w_killed w_clients w_conns w_backlog alookup]; try (intros; discriminate); auto.
  - intros c cl. destruct (Nat.eqb 0 c); [|discriminate]. intros H; inversion H; subst. repeat split.
  - repeat constructor. intros [].
  - intros c [<-|[]]. split; [eexists; reflexivity|]. intros; discriminate.
Qed.

Lemma BUF1024_min : (2 <= 1024)%nat. Proof. lia. Qed.
Lemma BUF1024_u32 : N.of_nat 1024 < U32_LIMIT. Proof. vm_compute. reflexivity. Qed.

(* after two polls (accept, then read) the application holds the token (1, 0) in a calm world *)
Example token_world_reachable :
  exists w, Inv 1024 w ([] ++ (1%nat, 0%nat) :: []) /\ Calm w /\ exists w1, respond w 1 (response_new Http11 NoContent) = inl w1.
Proof.
  destruct (poll 1024 wA) as [|wB ysB|] eqn:PB; try (vm_compute in PB; discriminate).
  destruct (canonical_poll_progress 1024 BUF1024_min BUF1024_u32 wA [] wB ysB wA_inv wA_calm PB) as (CB & IB & _).
  destruct (poll 1024 wB) as [|wC ysC|] eqn:PC;
    try (vm_compute in PB; inversion PB; subst; vm_compute in PC; discriminate).
  destruct (canonical_poll_progress 1024 BUF1024_min BUF1024_u32 wB _ wC ysC IB CB PC) as (CC & IC & _).
  exists wC.
  assert (E : ytoks ysC ++ ytoks ysB ++ [] = [] ++ (1%nat, 0%nat) :: []).
  { vm_compute in PB. inversion PB; subst. vm_compute in PC. inversion PC; subst. reflexivity. }
  rewrite E in IC. split; [exact IC|]. split; [exact CC|].
  vm_compute in PB. inversion PB; subst. vm_compute in PC. inversion PC; subst. vm_compute. eauto.
Qed.

(* a write event that accepts a single byte (K3 promises no more): the client receives exactly one byte,
   the connection keeps its OUT interest and the rest stays queued *)
Definition wC : world :=
  match poll 1024 wA with
  | PYield wB _ => match poll 1024 wB with PYield w _ => w | _ => wA end
  | _ => wA
  end.
Example one_byte_write_example :
  match respond wC 1 (response_new Http11 NoContent) with
  | inl w1 =>
      match handle_event 1024 w1 (EvOut 1 1) with
      | inl (w2, _) =>
          length (k_rx (client_of w2 0)) = 1%nat /\
          match alookup 1%nat (w_conns w2), alookup 1%nat (w_conns w1) with
          | Some y, Some x => sc_st y = AwaitOut /\ sc_out y = true /\
                              length (unsent (sc_conn y)) = (length (unsent (sc_conn x)) - 1)%nat /\
                              (2 <= length (unsent (sc_conn x)))%nat
          | _, _ => False
          end
      | _ => False
      end
  | _ => False
  end.
Proof. vm_compute. repeat split; lia. Qed.
