(* The one-shot parser against the connection parser (C14): whenever Request::try_from accepts
   a slice, the connection fed the same bytes (within the line and payload limits) delivers as
   its first request exactly the same request. *)
From MH Require Export proofs.Grammar_conv.

(* ---------- generic find: nothing earlier ---------- *)
Lemma find_none_before p : forall w i, find p w = Some i -> forall k, (k < i)%nat -> prefixb p (skipn k w) = false.
Proof.
  induction w as [|a t IH]; intros i H k Hk; [discriminate|].
  cbn [find] in H. destruct (prefixb p (a :: t)) eqn:P.
  - inversion H; subst. lia.
  - destruct (find p t) as [j|] eqn:F; [|discriminate]. cbn in H. inversion H; subst.
    destruct k as [|k]; [exact P|]. cbn [skipn]. apply (IH j eq_refl). lia.
Qed.

Lemma find_crlf_append_cr x : find_crlf x = None -> find_crlf (x ++ [CR]) = None.
Proof.
  induction x as [|a t IH]; intros H.
  - reflexivity.
  - rewrite find_crlf_cons in H. destruct (starts_crlf (a :: t)) eqn:S0; [discriminate|].
    destruct (find_crlf t) eqn:F; [discriminate|].
    cbn [app]. rewrite find_crlf_cons. rewrite (IH eq_refl).
    assert (S1 : starts_crlf (a :: t ++ [CR]) = false).
    { destruct t as [|b t']; cbn.
      - unfold starts_crlf, CRLF. cbn [prefixb]. change (LF =? CR) with false. cbn [andb]. apply andb_false_r.
      - exact S0. }
    rewrite S1. reflexivity.
Qed.

(* ---------- str::split("\r\n") ---------- *)
Fixpoint join_crlf (ls : list bytes) : bytes :=
  match ls with
  | [] => []
  | [x] => x
  | x :: r => x ++ CRLF ++ join_crlf r
  end.

Lemma join_crlf_cons x r : r <> [] -> join_crlf (x :: r) = x ++ CRLF ++ join_crlf r.
Proof. destruct r; [congruence|reflexivity]. Qed.

Lemma with_crlf_join ls : ls <> [] -> Grammar_proofs.with_crlf ls = join_crlf ls ++ CRLF.
Proof.
  induction ls as [|x r IH]; [congruence|]. intros _. destruct r as [|y r'].
  - cbn. rewrite app_nil_r. reflexivity.
  - change (Grammar_proofs.with_crlf (x :: y :: r')) with ((x ++ CRLF) ++ Grammar_proofs.with_crlf (y :: r')).
    assert (Hne : y :: r' <> []) by discriminate.
    rewrite (IH Hne). rewrite (join_crlf_cons x (y :: r') Hne). rewrite <- !app_assoc. reflexivity.
Qed.

(* the accumulator of split_crlf_aux never holds a CRLF and never ends in a CR that the next
   byte would complete *)
Definition acc_ok (cur l : bytes) : Prop :=
  find_crlf (rev cur) = None /\ ~ (exists c', cur = CR :: c' /\ exists t, l = LF :: t).

Lemma find_crlf_snoc_none x a : find_crlf x = None -> ~ (exists y, x = y ++ [CR] /\ a = LF) -> find_crlf (x ++ [a]) = None.
Proof.
  induction x as [|b t IH]; intros H Hn.
  - cbn [app]. unfold find_crlf, CRLF. cbn [find prefixb]. rewrite andb_false_r. reflexivity.
  - rewrite find_crlf_cons in H. destruct (starts_crlf (b :: t)) eqn:S0; [discriminate|].
    destruct (find_crlf t) eqn:F; [discriminate|].
    cbn [app]. rewrite find_crlf_cons.
    assert (S1 : starts_crlf (b :: t ++ [a]) = false).
    { destruct t as [|c t']; cbn [app].
      - unfold starts_crlf, CRLF. cbn [prefixb]. destruct (CR =? b) eqn:E1; [|reflexivity].
        destruct (LF =? a) eqn:E2; [|cbn; reflexivity].
        exfalso. apply Hn. exists []. apply N.eqb_eq in E1, E2. subst. auto.
      - exact S0. }
    rewrite S1. rewrite IH; [reflexivity|reflexivity|].
    intros (y & Ey & Ea). apply Hn. exists (b :: y). subst. auto.
Qed.

Lemma split_crlf_aux_spec : forall n l cur, (length l < n)%nat -> acc_ok cur l ->
  let ls := split_crlf_aux cur l in
  ls <> [] /\ join_crlf ls = rev cur ++ l /\ Forall (fun x => find_crlf x = None) ls.
Proof.
  induction n as [|n IH]; intros l cur Hn [Hc Hb]; [lia|]. cbn zeta.
  destruct l as [|a t]; cbn [split_crlf_aux].
  - split; [discriminate|]. split; [cbn; rewrite app_nil_r; reflexivity|]. constructor; [exact Hc|constructor].
  - destruct t as [|b t'].
    + split; [discriminate|]. split; [cbn; reflexivity|]. constructor; [|constructor].
      cbn [rev]. apply find_crlf_snoc_none; [exact Hc|].
      intros (y & Ey & Ea). apply Hb. destruct cur as [|c c']; [destruct y; discriminate|].
      cbn [rev] in Ey. apply app_inj_tail in Ey. destruct Ey as [_ Ec]. subst. eauto.
    + destruct ((a =? CR) && (b =? LF)) eqn:E.
      * apply andb_true_iff in E. destruct E as [E1 E2]. apply N.eqb_eq in E1, E2. subst.
        destruct (IH t' [] ltac:(cbn in Hn; lia)) as (A1 & A2 & A3).
        { split; [reflexivity|]. intros (c' & Hx & _). discriminate. }
        split; [discriminate|]. split.
        -- rewrite join_crlf_cons by exact A1. rewrite A2. cbn. reflexivity.
        -- constructor; [exact Hc|exact A3].
      * destruct (IH (b :: t') (a :: cur) ltac:(cbn in Hn |- *; lia)) as (A1 & A2 & A3).
        { split.
          - cbn [rev]. apply find_crlf_snoc_none; [exact Hc|].
            intros (y & Ey & Ea). apply Hb. destruct cur as [|c c']; [destruct y; discriminate|].
            cbn [rev] in Ey. apply app_inj_tail in Ey. destruct Ey as [_ Ec]. subst. eauto.
          - intros (c' & Hx & t0 & Ht). inversion Hx; inversion Ht; subst.
            rewrite !N.eqb_refl in E. discriminate. }
        split; [exact A1|]. split; [|exact A3].
        rewrite A2. cbn [rev]. rewrite <- app_assoc. reflexivity.
Qed.

Lemma split_crlf_spec l :
  split_crlf l <> [] /\ join_crlf (split_crlf l) = l /\ Forall (fun x => find_crlf x = None) (split_crlf l).
Proof.
  unfold split_crlf. apply (split_crlf_aux_spec (S (length l)) l []); [lia|].
  split; [reflexivity|]. intros (c' & Hx & _). discriminate.
Qed.

(* an empty piece means a CRLFCRLF inside CRLF ++ block ++ CRLF *)
Lemma empty_piece_cc : forall ls, In [] ls ->
  exists X Y, CRLF ++ join_crlf ls ++ CRLF = X ++ CRLFCRLF ++ Y /\ (length X < length (join_crlf ls) + 2)%nat.
Proof.
  induction ls as [|x r IH]; intros Hin; [destruct Hin|].
  destruct r as [|y r'].
  - destruct Hin as [->|[]]. exists [], []. cbn. split; [reflexivity|lia].
  - assert (Hne : y :: r' <> []) by discriminate. rewrite (join_crlf_cons x (y :: r') Hne).
    destruct Hin as [->|Hin].
    + exists [], (join_crlf (y :: r') ++ CRLF). cbn [app length]. split; [reflexivity|lia].
    + destruct (IH Hin) as (X & Y & E & HL). exists (CRLF ++ x ++ X), Y.
      split.
      * replace (CRLF ++ (x ++ CRLF ++ join_crlf (y :: r')) ++ CRLF)
          with (CRLF ++ x ++ (CRLF ++ join_crlf (y :: r') ++ CRLF)) by (rewrite <- !app_assoc; reflexivity).
        rewrite E. rewrite <- !app_assoc. reflexivity.
      * rewrite !app_length. cbn [length CRLF]. lia.
Qed.

Section OneShot.
Variable BUF : nat.
Hypothesis BUF_min : (2 <= BUF)%nat.
Variable L : N.

(* the request line and the header block exactly as Request::try_from cuts them *)
Definition oneshot_parts (bs : bytes) : option (bytes * bytes) :=
  match find_crlf bs with
  | None => None
  | Some rle =>
    match find CRLFCRLF (skipn rle bs) with
    | None => None
    | Some he => Some (firstn rle bs, firstn (he - 2) (skipn (rle + 2) bs))
    end
  end.

Definition within_line_limit (bs : bytes) : Prop :=
  forall rlb block, oneshot_parts bs = Some (rlb, block) ->
    (length rlb + 2 <= BUF)%nat /\ Forall (fun l => (length l + 2 <= BUF)%nat) (split_crlf block).

Lemma headers_fold_no_empty : forall ls h, ~ In [] ls -> headers_fold h ls = fold_lines h ls.
Proof.
  induction ls as [|l r IH]; intros h Hn; [reflexivity|]. cbn [headers_fold fold_lines].
  destruct l as [|x l']; [exfalso; apply Hn; left; reflexivity|].
  destruct (parse_header_tolerant h (x :: l')); [|reflexivity]. apply IH. intros Hin. apply Hn. right. exact Hin.
Qed.

Theorem oneshot_implies_conn bs rl h body :
  request_try_from bs None = OOk rl h body -> within_line_limit bs -> h_content_length h <= L ->
  first_req (outs_of (parse_stream BUF L bs)) = Some (rl, h, body).
Proof.
  intros Hone Hlim HL. unfold request_try_from in Hone.
  destruct (find_crlf bs) as [rle|] eqn:F; [|discriminate].
  pose proof (find_some CRLF bs rle F) as [Hr Hp]. cbn [length CRLF] in Hr.
  unfold slice_to, slice_from in Hone.
  assert (E1 : (rle <=? length bs)%nat = true) by (apply Nat.leb_le; lia). rewrite E1 in Hone.
  set (rlb := firstn rle bs) in *.
  destruct (length rlb <? reqline_min_len)%nat; [discriminate|].
  destruct (parse_reqline rlb) as [rl0|e] eqn:Prl; [|discriminate].
  set (tail := skipn rle bs) in *.
  destruct (find CRLFCRLF tail) as [he|] eqn:F2; [|discriminate].
  (* the request line as the connection sees it *)
  assert (Lrlb : length rlb = rle) by (unfold rlb; rewrite firstn_length; lia).
  assert (Ebs : bs = rlb ++ CRLF ++ skipn (rle + 2) bs).
  { rewrite <- (firstn_skipn rle bs) at 1. fold rlb. f_equal. fold tail.
    rewrite (prefixb_split _ _ Hp) at 1. cbn [length CRLF]. f_equal. unfold tail. symmetry. apply skipn_add. }
  assert (Hok : line_ok BUF rlb).
  { split.
    - pose proof (find_crlf_first bs rle F) as H1.
      assert (E : firstn (rle + 1) bs = rlb ++ [CR]).
      { rewrite Ebs at 1. rewrite firstn_app, Lrlb. replace (rle + 1 - rle)%nat with 1%nat by lia.
        rewrite firstn_all2 by lia. reflexivity. }
      rewrite E in H1. exact H1.
    - destruct (Hlim rlb (firstn (he - 2) (skipn (rle + 2) bs))) as [H1 _]; [|exact H1].
      unfold oneshot_parts. rewrite F. fold tail. rewrite F2. reflexivity. }
  pose proof (find_some CRLFCRLF tail he F2) as [Hh Hpc]. cbn [length CRLFCRLF] in Hh.
  assert (Ltail : length tail = (length bs - rle)%nat) by (unfold tail; apply skipn_length).
  set (hb := skipn (rle + 2) bs) in *.
  assert (Etail : tail = CRLF ++ hb).
  { rewrite (prefixb_split _ _ Hp) at 1. cbn [length CRLF]. f_equal. unfold tail, hb. symmetry. apply skipn_add. }
  destruct he as [|he'].
  - (* no header block *)
    inversion Hone; subst rl0 h body; clear Hone.
    assert (Ehb : hb = CRLF ++ skipn 2 hb).
    { pose proof (prefixb_split _ _ Hpc) as Hs. cbn [skipn length CRLFCRLF] in Hs.
      rewrite Etail in Hs. cbn [app CRLF CRLFCRLF] in Hs. inversion Hs as [Hs']. rewrite Hs' at 1.
      cbn [skipn]. reflexivity. }
    apply (first_delivery_iff BUF BUF_min L).
    exists rlb, rl, [], headers_default, [], (skipn 2 hb).
    split; [rewrite Ebs at 1; fold hb; rewrite Ehb at 1; cbn; reflexivity|].
    split; [exact Prl|]. split; [exact Hok|]. split; [constructor|]. split; [reflexivity|].
    split; [cbn [h_content_length headers_default]; apply N.le_0_l|]. split; reflexivity.
  - (* a header block *)
    assert (E3 : (rle + 2 <=? length bs)%nat = true) by (apply Nat.leb_le; lia). rewrite E3 in Hone.
    destruct (S he' <? 2)%nat eqn:E4; [discriminate|]. apply Nat.ltb_ge in E4.
    assert (Lhb : length hb = (length bs - (rle + 2))%nat) by (unfold hb; apply skipn_length).
    assert (E5 : (S he' - 2 <=? length hb)%nat = true) by (apply Nat.leb_le; lia). rewrite E5 in Hone.
    set (block := firstn (S he' - 2) hb) in *.
    destruct (headers_try_from block) as [h0|e] eqn:Hh0; [|discriminate].
    (* hb = block ++ CRLFCRLF ++ after *)
    assert (Lblock : length block = (S he' - 2)%nat) by (unfold block; rewrite firstn_length; lia).
    assert (Ehb : hb = block ++ CRLFCRLF ++ skipn (S he' - 2 + 4) hb).
    { rewrite <- (firstn_skipn (S he' - 2) hb) at 1. fold block. f_equal.
      assert (Es : skipn (S he') tail = skipn (S he' - 2) hb).
      { rewrite Etail. replace (S he') with (2 + (S he' - 2))%nat at 1 by lia. rewrite skipn_add. reflexivity. }
      rewrite <- Es. rewrite (prefixb_split _ _ Hpc) at 1. cbn [length CRLFCRLF]. f_equal.
      rewrite Es. symmetry. apply skipn_add. }
    set (after := skipn (S he' - 2 + 4) hb) in *.
    (* the pieces of the block: none is empty, since the CRLFCRLF found is the first one *)
    destruct (split_crlf_spec block) as (Sne & Sjoin & Sfree).
    assert (Snoempty : ~ In [] (split_crlf block)).
    { intros Hin. destruct (empty_piece_cc _ Hin) as (X & Y & EX & LX). rewrite Sjoin in EX, LX.
      assert (Hk : prefixb CRLFCRLF (skipn (length X) tail) = true).
      { rewrite Etail, Ehb. apply prefixb_spec.
        exists (Y ++ CRLF ++ after).
        assert (Eq : CRLF ++ block ++ CRLFCRLF ++ after = (CRLF ++ block ++ CRLF) ++ CRLF ++ after).
        { rewrite <- !app_assoc. reflexivity. }
        rewrite Eq, EX. rewrite <- !app_assoc. rewrite skipn_app_exact. reflexivity. }
      rewrite (find_none_before CRLFCRLF tail (S he') F2 (length X)) in Hk; [discriminate|lia]. }
    assert (Hfold : fold_lines headers_default (split_crlf block) = Ok h0).
    { unfold headers_try_from in Hh0. destruct (utf8_valid block); [|discriminate].
      rewrite headers_fold_no_empty in Hh0 by exact Snoempty. exact Hh0. }
    assert (Hall : Forall (fun l => l <> [] /\ line_ok BUF l) (split_crlf block)).
    { destruct (Hlim rlb block) as [_ H2].
      { unfold oneshot_parts. rewrite F. fold tail. rewrite F2. fold hb. reflexivity. }
      rewrite Forall_forall in *. intros l Hl. split; [intros ->; exact (Snoempty Hl)|].
      split; [apply find_crlf_append_cr; apply Sfree; exact Hl|apply H2; exact Hl]. }
    assert (Estream : bs = rlb ++ CRLF ++ Grammar_proofs.with_crlf (split_crlf block) ++ CRLF ++ after).
    { rewrite Ebs at 1. fold hb. rewrite Ehb at 1. rewrite with_crlf_join by exact Sne. rewrite Sjoin.
      rewrite <- !app_assoc. reflexivity. }
    apply (first_delivery_iff BUF BUF_min L).
    destruct (h_content_length h0 =? 0) eqn:Z.
    + inversion Hone; subst rl0 h body; clear Hone.
      exists rlb, rl, (split_crlf block), h0, [], after.
      split; [exact Estream|]. split; [exact Prl|]. split; [exact Hok|]. split; [exact Hall|].
      split; [exact Hfold|]. split; [exact HL|]. apply N.eqb_eq in Z. split; [cbn; lia|].
      unfold delivered_body. rewrite Z. cbn. reflexivity.
    + destruct (method_eqb (rl_method rl0) Get); [discriminate|].
      destruct (length hb <? S he' - 2 + 4)%nat; [discriminate|].
      destruct (N.of_nat (length hb - (S he' - 2 + 4)) <? h_content_length h0); [discriminate|].
      destruct (S he' - 2 + 4 <=? length hb)%nat; [|discriminate]. fold after in Hone.
      destruct (lenN after =? h_content_length h0) eqn:Eb; [|discriminate].
      inversion Hone; subst rl0 h body; clear Hone. apply N.eqb_eq in Eb.
      exists rlb, rl, (split_crlf block), h0, after, [].
      split; [rewrite app_nil_r; exact Estream|]. split; [exact Prl|]. split; [exact Hok|]. split; [exact Hall|].
      split; [exact Hfold|]. split; [exact HL|]. split; [exact Eb|].
      unfold delivered_body. rewrite Z. reflexivity.
Qed.

End OneShot.
