(* C07, provenance for ALL histories (clients may close, descriptors may be reused):
   - every connection instance (gid) is bound to one client for its whole life, and instance numbers
     are never reused, so a token (fd, g) always means "the connection accepted for client beta g";
   - bytes enter a client's receive queue only from the unsent output of a connection bound to that
     client (or as the 503 refusal of that very client);
   - unsent output of a connection receives only server-generated replies produced while reading that
     connection, and responses supplied with a token of that connection's instance. *)
From MH Require Export proofs.Progress_proofs.
From Coq Require Import Lia.

Section Prov.
Variable BUF : nat.
Hypothesis BUF_min : (2 <= BUF)%nat.
Hypothesis BUF_u32 : N.of_nat BUF < U32_LIMIT.

Notation cc_read := (cc_read BUF).
Notation handle_event := (handle_event BUF).
Notation handle_all := (handle_all BUF).
Notation poll_with := (poll_with BUF).
Notation Inv := (Inv BUF).

(* ---------- identities are kept by reads and writes ---------- *)
Lemma cc_read_ids x ev y rs : cc_read x ev = inl (y, rs) -> sc_gid y = sc_gid x /\ sc_client y = sc_client x.
Proof.
  unfold Server.cc_read. destruct (try_read BUF (sc_conn x) ev) as [[c1 res] sys].
  destruct res as [|e|s]; [| |discriminate].
  - destruct (pop_all _ c1 []) as [c2 reqs]. destruct (U32_LIMIT <=? _); [discriminate|].
    intros H; inversion H; subst; auto.
  - destruct e; try (intros H; inversion H; subst; auto; fail);
      (destruct (U32_LIMIT <=? _); [discriminate|]; intros H; inversion H; subst; auto).
Qed.

Lemma cc_write_ids x b k y sent : cc_write x b k = inl (y, sent) ->
  sc_gid y = sc_gid x /\ sc_client y = sc_client x /\ exists rest, unsent (sc_conn x) = sent ++ rest.
Proof.
  unfold cc_write.
  set (offered := match c_rbuf (sc_conn x) with Some b0 => b0
                  | None => match c_rq (sc_conn x) with r :: _ => serialize r | [] => [] end end).
  set (n := if Nat.eqb k 0 then length offered else Nat.min k (length offered)).
  assert (Hoff : exists rest, unsent (sc_conn x) = firstn n offered ++ rest).
  { assert (H0 : exists rest, unsent (sc_conn x) = offered ++ rest).
    { unfold unsent, offered. destruct (c_rbuf (sc_conn x)); [eauto|].
      destruct (c_rq (sc_conn x)); cbn [flat_map app]; [exists []; reflexivity|eauto]. }
    destruct H0 as [rest H0]. exists (skipn n offered ++ rest). rewrite app_assoc, firstn_skipn. exact H0. }
  assert (G : forall ev,
    (let '(c1, res, _) := try_write (sc_conn x) ev in
     match res with
     | WrPanic _ => inr EPanic
     | WrErr InvalidWrite => inr EInvalidWrite
     | WrErr _ => inl (mkSC c1 SClosed (sc_infl x) (sc_client x) (sc_out x) (sc_gid x), [])
     | WrOk => inl (mkSC c1 (if pending_write c1 then sc_st x else AwaitIn) (sc_infl x) (sc_client x) (sc_out x) (sc_gid x),
                    if b then firstn n offered else [])
     end) = inl (y, sent) ->
    sc_gid y = sc_gid x /\ sc_client y = sc_client x /\ exists rest, unsent (sc_conn x) = sent ++ rest).
  { intros ev. destruct (try_write (sc_conn x) ev) as [[c1 res] off]. destruct res as [|e|s]; [| |discriminate].
    - intros H; inversion H; subst. split; [reflexivity|]. split; [reflexivity|].
      destruct b; [exact Hoff|eexists; reflexivity].
    - destruct e; try discriminate; intros H; inversion H; subst; (split; [reflexivity|]); (split; [reflexivity|]);
        eexists; reflexivity. }
  destruct (sc_st x); [apply G|apply G|].
  intros H; inversion H; subst. split; [reflexivity|]. split; [reflexivity|]. eexists. reflexivity.
Qed.

(* ---------- the birth record ---------- *)
Definition bound (beta : nat -> nat) (w : world) : Prop :=
  forall fd x, alookup fd (w_conns w) = Some x -> beta (sc_gid x) = sc_client x.

(* one event: the record is only ever extended, at instance numbers not used before; yields carry
   the descriptor and the instance of the connection that was read *)
Theorem event_binding w toks e w' ys beta :
  Inv w toks -> handle_event w e = inl (w', ys) -> bound beta w ->
  exists beta', (forall g, (g < w_nextg w)%nat -> beta' g = beta g) /\ bound beta' w' /\
    (w_nextg w <= w_nextg w')%nat /\
    forall fd g r, In (fd, g, r) ys -> exists x, alookup fd (w_conns w) = Some x /\ sc_gid x = g /\ exists kk, e = EvIn fd kk.
Proof.
  intros HI H Hb.
  assert (Upd : forall fd x y clients', alookup fd (w_conns w) = Some x -> sc_gid y = sc_gid x -> sc_client y = sc_client x ->
            bound beta (Server.mkW clients' (aupdate fd y (w_conns w)) (w_backlog w) (w_tokens w) (w_nextg w) (w_limit w) (w_killed w))).
  { intros fd x y cl' HL Hg Hc fd0 x0 H0. cbn [w_conns] in H0. apply alookup_update_cases in H0.
    destruct H0 as [(-> & -> & _)|(_ & H0)]; [rewrite Hg, Hc; eauto|eauto]. }
  destruct e as [fd|fd kk|fd kk|nf|]; cbn [Server.handle_event] in H.
  - destruct (alookup fd (w_conns w)) as [x|] eqn:HL; [|discriminate]. inversion H; subst w' ys; clear H.
    exists beta. split; [auto|]. split; [|split; [cbn; lia|intros ? ? ? []]].
    unfold set_conn. eapply Upd; eauto.
  - destruct (alookup fd (w_conns w)) as [x|] eqn:HL; [|discriminate].
    destruct (cc_read x _) as [[y rs]|] eqn:R; [|discriminate]. inversion H; subst w' ys; clear H.
    destruct (cc_read_ids _ _ _ _ R) as [Hg Hc].
    exists beta. split; [auto|]. split; [|split; [cbn; lia|]].
    + unfold set_client, set_conn. cbn [w_clients w_conns w_backlog w_tokens w_nextg w_limit w_killed].
      eapply Upd; eauto; destruct (sc_st y); cbn; auto.
    + intros fd0 g r Hin. apply in_map_iff in Hin. destruct Hin as (r0 & E & _). inversion E; subst. eauto.
  - destruct (alookup fd (w_conns w)) as [x|] eqn:HL; [|discriminate].
    destruct (cc_write x _) as [[y sent]|] eqn:W; [|discriminate]. inversion H; subst w' ys; clear H.
    destruct (cc_write_ids _ _ _ _ _ W) as (Hg & Hc & _).
    exists beta. split; [auto|]. split; [|split; [cbn; lia|intros ? ? ? []]].
    unfold set_client, set_conn. cbn [w_clients w_conns w_backlog w_tokens w_nextg w_limit w_killed].
    eapply Upd; eauto; destruct (sc_st y); cbn; auto.
  - destruct (w_backlog w) as [|c rest] eqn:Bk.
    + inversion H; subst. exists beta. split; [auto|]. split; [exact Hb|]. split; [lia|intros ? ? ? []].
    + destruct (Nat.eqb (length (w_conns w)) MAX_CONNECTIONS).
      * inversion H; subst w' ys; clear H. exists beta. split; [auto|]. split; [exact Hb|]. split; [cbn; lia|intros ? ? ? []].
      * inversion H; subst w' ys; clear H.
        exists (fun g => if Nat.eqb g (w_nextg w) then c else beta g).
        split; [intros g Hlt; destruct (Nat.eqb g (w_nextg w)) eqn:E; [apply Nat.eqb_eq in E; lia|reflexivity]|].
        split; [|split; [cbn; lia|intros ? ? ? []]].
        intros fd0 x0 H0. cbn [w_conns] in H0. rewrite alookup_app_end in H0.
        destruct (alookup fd0 (w_conns w)) as [v|] eqn:E0.
        -- inversion H0; subst. pose proof (inv_gid_lt _ _ _ HI _ _ E0) as Hlt.
           destruct (Nat.eqb (sc_gid x0) (w_nextg w)) eqn:E; [apply Nat.eqb_eq in E; lia|eauto].
        -- destruct (Nat.eqb nf fd0); [|discriminate]. inversion H0; subst. cbn [sc_gid sc_client].
           rewrite Nat.eqb_refl. reflexivity.
  - discriminate.
Qed.

Lemma sweep_binding w toks beta : Inv w toks -> bound beta w -> bound beta (sweep w) /\ w_nextg (sweep w) = w_nextg w.
Proof.
  intros HI Hb. split; [|reflexivity]. intros fd x H. cbn in H. apply alookup_filter_some in H. destruct H as [Hin _].
  apply Hb with fd. apply alookup_in_nodup; [apply (inv_nodup _ _ _ HI)|exact Hin].
Qed.

Theorem batch_binding : forall es w toks acc w' ys beta,
  Inv w toks -> Forall (evt_ok w) es -> NoDup (map ev_key es) -> ~ In KKill (map ev_key es) ->
  handle_all w es acc = inl (w', ys) -> bound beta w ->
  exists beta', (forall g, (g < w_nextg w)%nat -> beta' g = beta g) /\ bound beta' w' /\ (w_nextg w <= w_nextg w')%nat.
Proof.
  induction es as [|e t IH]; intros w toks acc w' ys beta HI Hall Hnd Hnk; cbn [Server.handle_all].
  - intros H Hb; inversion H; subst. exists beta. auto.
  - inversion Hall as [|? ? He Ht]; subst. inversion Hnd as [|? ? Hnotin Hnd']; subst.
    assert (Hne : e <> EvKill) by (intros ->; apply Hnk; left; reflexivity).
    destruct (handle_event w e) as [[w1 ys1]|err] eqn:Hh; [|discriminate].
    intros H Hb.
    destruct (handle_ok BUF BUF_min BUF_u32 w toks e HI He Hne) as [(w1' & ys1' & Hh' & I1 & _)|Hov]; [|congruence].
    rewrite Hh in Hh'. inversion Hh'; subst w1' ys1'.
    destruct (event_binding w toks e w1 ys1 beta HI Hh Hb) as (b1 & A1 & B1 & N1 & _).
    assert (Ht' : Forall (evt_ok w1) t).
    { apply Forall_forall. intros e' Hin. rewrite Forall_forall in Ht.
      eapply (evt_ok_frame BUF); eauto.
      - intros E. apply Hnotin. rewrite <- E. apply in_map. exact Hin.
      - intros nf nf' -> ->. apply Hnotin. change (ev_key (EvListener nf)) with (ev_key (EvListener nf')). apply in_map. exact Hin. }
    destruct (IH w1 _ _ w' ys b1 I1 Ht' Hnd' ltac:(intros Hin; apply Hnk; right; exact Hin) H B1) as (b2 & A2 & B2 & N2).
    exists b2. split; [|split; [exact B2|lia]].
    intros g Hg. rewrite A2 by lia. apply A1. exact Hg.
Qed.

(* a whole poll, any event order *)
Theorem poll_binding w toks es w' ys beta :
  Inv w toks -> Forall (evt_ok w) es -> NoDup (map ev_key es) -> ~ In KKill (map ev_key es) ->
  poll_with w es = PYield w' ys -> bound beta w ->
  exists beta', (forall g, (g < w_nextg w)%nat -> beta' g = beta g) /\ bound beta' w' /\ (w_nextg w <= w_nextg w')%nat /\
                Inv w' (ytoks ys ++ toks).
Proof.
  intros HI Hall Hnd Hnk. unfold Server.poll_with. destruct es as [|e t] eqn:Ees; [discriminate|]. rewrite <- Ees in *.
  destruct (handle_all w es []) as [[w1 ys1]|err] eqn:Hh; [|discriminate].
  intros H Hb; inversion H; subst w' ys; clear H.
  destruct (batch_binding es w toks [] w1 ys1 beta HI Hall Hnd Hnk Hh Hb) as (b1 & A1 & B1 & N1).
  destruct (batch_ok BUF BUF_min BUF_u32 es w toks [] HI Hall Hnd Hnk) as [(w2 & ys2 & H2 & I2 & _)|Hov]; [|congruence].
  rewrite Hh in H2. cbn [app] in H2. inversion H2; subst w2 ys2.
  destruct (sweep_binding w1 _ b1 I2 B1) as [B2 N2].
  exists b1. split; [exact A1|]. split; [exact B2|]. split; [rewrite N2; exact N1|]. eapply sweep_inv; eauto.
Qed.

Theorem respond_binding w t1 t2 fd g r w' beta :
  Inv w (t1 ++ (fd, g) :: t2) -> respond w fd r = inl w' -> bound beta w ->
  bound beta w' /\ w_nextg w' = w_nextg w /\ Inv w' (t1 ++ t2) /\
  exists x, alookup fd (w_conns w) = Some x /\ sc_gid x = g /\ sc_client x = beta g.
Proof.
  intros HI Hr Hb.
  destruct (respond_ok BUF BUF_min BUF_u32 w t1 t2 fd g r HI) as (w1 & x & Hr' & I1 & HL & Hg & _).
  rewrite Hr in Hr'. inversion Hr'; subst w1.
  split; [|split; [|split; [exact I1|]]].
  - revert Hr. unfold respond. rewrite HL.
    set (x1 := match sc_st x with AwaitIn => mkSC (sc_conn x) AwaitOut (sc_infl x) (sc_client x) true (sc_gid x) | _ => x end).
    assert (E : sc_gid x1 = sc_gid x /\ sc_client x1 = sc_client x) by (unfold x1; destruct (sc_st x); cbn; auto).
    unfold cc_enqueue. destruct (sc_infl x1 =? 0); [discriminate|]. intros H; inversion H; subst w'.
    intros fd0 x0 H0. cbn [set_conn w_conns] in H0. apply alookup_update_cases in H0.
    destruct H0 as [(-> & -> & _)|(_ & H0)]; [|eauto]. cbn [sc_gid sc_client]. destruct E as [-> ->]. eauto.
  - revert Hr. unfold respond. rewrite HL. destruct (cc_enqueue _ r); [|discriminate]. intros H; inversion H; reflexivity.
  - exists x. split; [exact HL|]. split; [exact Hg|]. rewrite <- Hg. symmetry. eauto.
Qed.

(* ---------- where received bytes come from ---------- *)
Lemma krx_update (cls : list (nat * client)) c cl' c0 :
  k_rx (match alookup c0 (aupdate c cl' cls) with Some cl => cl | None => dead_client end) =
  if Nat.eqb c0 c then match alookup c cls with Some _ => k_rx cl' | None => [] end
  else k_rx (match alookup c0 cls with Some cl => cl | None => dead_client end).
Proof.
  destruct (Nat.eqb c0 c) eqn:E.
  - apply Nat.eqb_eq in E. subst c0. destruct (alookup c cls) as [cl|] eqn:L.
    + rewrite (alookup_update_same _ cl' _ _ L). reflexivity.
    + assert (N : alookup c (aupdate c cl' cls) = None).
      { clear -L. induction cls as [|[k v] t IH]; cbn in *; [reflexivity|]. destruct (Nat.eqb k c) eqn:E; [discriminate|].
        cbn. rewrite E. auto. }
      rewrite N. reflexivity.
  - apply Nat.eqb_neq in E. rewrite alookup_update_other by congruence. reflexivity.
Qed.

Theorem event_delivery w e w' ys c :
  handle_event w e = inl (w', ys) ->
  exists d, k_rx (client_of w' c) = k_rx (client_of w c) ++ d /\
    (d = [] \/
     (exists fd kk x rest, e = EvOut fd kk /\ alookup fd (w_conns w) = Some x /\ sc_client x = c /\ unsent (sc_conn x) = d ++ rest) \/
     (exists nf rest, e = EvListener nf /\ w_backlog w = c :: rest /\ d = SERVER_FULL_ERROR_MESSAGE)).
Proof.
  destruct e as [fd|fd kk|fd kk|nf|]; cbn [Server.handle_event].
  - destruct (alookup fd (w_conns w)); [|discriminate]. intros H; inversion H; subst. exists []. rewrite app_nil_r. auto.
  - destruct (alookup fd (w_conns w)) as [x|]; [|discriminate].
    destruct (cc_read x _) as [[y rs]|]; [|discriminate]. intros H; inversion H; subst w' ys; clear H.
    exists []. rewrite app_nil_r. split; [|auto].
    unfold client_of at 1. cbn [set_client set_conn w_clients]. rewrite krx_update.
    destruct (Nat.eqb c (sc_client x)) eqn:E; [|reflexivity]. apply Nat.eqb_eq in E. subst c.
    unfold client_of. destruct (alookup (sc_client x) (w_clients w)); reflexivity.
  - destruct (alookup fd (w_conns w)) as [x|] eqn:HL; [|discriminate].
    destruct (cc_write x _) as [[y sent]|] eqn:W; [|discriminate]. intros H; inversion H; subst w' ys; clear H.
    destruct (cc_write_ids _ _ _ _ _ W) as (_ & _ & rest & Hu).
    unfold client_of at 1. cbn [set_client set_conn w_clients]. rewrite krx_update.
    destruct (Nat.eqb c (sc_client x)) eqn:E.
    + apply Nat.eqb_eq in E. subst c. unfold client_of. destruct (alookup (sc_client x) (w_clients w)) as [cl|].
      * exists sent. cbn [k_rx]. split; [reflexivity|]. right. left. exists fd, kk, x, rest. auto.
      * exists []. cbn. auto.
    + exists []. rewrite app_nil_r. auto.
  - destruct (w_backlog w) as [|c0 rest] eqn:Bk.
    + intros H; inversion H; subst. exists []. rewrite app_nil_r. auto.
    + destruct (Nat.eqb (length (w_conns w)) MAX_CONNECTIONS); intros H; inversion H; subst w' ys; clear H;
        unfold client_of at 1; cbn [w_clients]; rewrite krx_update;
        (destruct (Nat.eqb c c0) eqn:E; [apply Nat.eqb_eq in E; subst c0|exists []; rewrite app_nil_r; auto]).
      * unfold client_of. destruct (alookup c (w_clients w)) as [cl|]; [|exists []; cbn; auto]. cbn [k_rx].
        destruct (k_can_receive cl).
        -- exists SERVER_FULL_ERROR_MESSAGE. split; [reflexivity|]. right. right. exists nf, rest. auto.
        -- exists []. rewrite app_nil_r. auto.
      * unfold client_of. destruct (alookup c (w_clients w)) as [cl|]; exists []; cbn; rewrite ?app_nil_r; auto.
  - discriminate.
Qed.

Lemma sweep_delivery w c : k_rx (client_of (sweep w) c) = k_rx (client_of w c).
Proof.
  unfold sweep, client_of. cbn [w_clients].
  set (dead := filter (fun p : nat * sconn => is_done (snd p)) (w_conns w)).
  generalize dead. intros l. generalize (w_clients w). induction l as [|p l IH]; intros cls; cbn [fold_left]; [reflexivity|].
  rewrite IH. destruct (alookup (sc_client (snd p)) cls) as [cl|] eqn:L; [|reflexivity].
  rewrite krx_update. rewrite L. cbn [k_rx]. destruct (Nat.eqb c (sc_client (snd p))) eqn:E; [|reflexivity].
  apply Nat.eqb_eq in E. subst c. rewrite L. reflexivity.
Qed.

Lemma respond_delivery w fd r w' c : respond w fd r = inl w' -> client_of w' c = client_of w c.
Proof.
  unfold respond. destruct (alookup fd (w_conns w)); [|intros H; inversion H; reflexivity].
  destruct (cc_enqueue _ r); [|discriminate]. intros H; inversion H; reflexivity.
Qed.

(* what responding adds to a connection's unsent output, in any world: the response, on the
   connection named by the token, if it is not closed; nothing anywhere else *)
Theorem respond_unsent w fd r w' :
  respond w fd r = inl w' ->
  forall fd0 x0, alookup fd0 (w_conns w) = Some x0 ->
    exists x1, alookup fd0 (w_conns w') = Some x1 /\ sc_gid x1 = sc_gid x0 /\ sc_client x1 = sc_client x0 /\
      unsent (sc_conn x1) = unsent (sc_conn x0) ++
        (if Nat.eqb fd0 fd then match sc_st x0 with SClosed => [] | _ => serialize r end else []).
Proof.
  unfold respond. destruct (alookup fd (w_conns w)) as [x|] eqn:HL.
  2: { intros H; inversion H; subst. intros fd0 x0 H0. exists x0. rewrite H0.
       destruct (Nat.eqb fd0 fd) eqn:E; [apply Nat.eqb_eq in E; congruence|]. rewrite app_nil_r. auto. }
  set (x1 := match sc_st x with AwaitIn => mkSC (sc_conn x) AwaitOut (sc_infl x) (sc_client x) true (sc_gid x) | _ => x end).
  assert (E : sc_gid x1 = sc_gid x /\ sc_client x1 = sc_client x /\ sc_conn x1 = sc_conn x /\
              (sc_st x1 = SClosed <-> sc_st x = SClosed)).
  { unfold x1. destruct (sc_st x) eqn:S0; cbn; rewrite ?S0; repeat split; auto; discriminate. }
  destruct E as (E1 & E2 & E3 & E4).
  unfold cc_enqueue. destruct (sc_infl x1 =? 0); [discriminate|]. intros H; inversion H; subst w'; clear H.
  intros fd0 x0 H0. cbn [set_conn w_conns]. destruct (Nat.eqb fd0 fd) eqn:E.
  - apply Nat.eqb_eq in E. subst fd0. rewrite HL in H0. inversion H0; subst x0.
    eexists. split; [eapply alookup_update_same; eauto|]. cbn [sc_gid sc_client sc_conn].
    split; [exact E1|]. split; [exact E2|]. rewrite E3.
    destruct (sc_st x1) eqn:S1; destruct (sc_st x) eqn:S0;
      try (exfalso; destruct E4 as [E4a E4b]; (discriminate (E4a eq_refl) || discriminate (E4b eq_refl)));
      try (rewrite app_nil_r; reflexivity);
      (rewrite (unsent_grow (sc_conn x) (enqueue_response (sc_conn x) r) [r]); [cbn [flat_map]; rewrite app_nil_r; reflexivity|reflexivity|reflexivity]).
  - apply Nat.eqb_neq in E. exists x0. rewrite alookup_update_other by congruence. rewrite app_nil_r. auto.
Qed.

(* what reading adds to a connection's unsent output, in any world: replies the server generated
   from that connection's own input *)
Theorem read_unsent_rb w toks fd kk w' ys :
  Inv w toks -> evt_ok w (EvIn fd kk) -> handle_event w (EvIn fd kk) = inl (w', ys) ->
  exists x y gen, alookup fd (w_conns w) = Some x /\ alookup fd (w_conns w') = Some y /\
    unsent (sc_conn y) = unsent (sc_conn x) ++ flat_map serialize gen /\ Forall server_generated gen /\
    (forall fd0, fd0 <> fd -> alookup fd0 (w_conns w') = alookup fd0 (w_conns w)) /\
    c_rbuf (sc_conn y) = c_rbuf (sc_conn x) /\ sc_gid y = sc_gid x /\ sc_client y = sc_client x /\
    w_conns w' = aupdate fd y (w_conns w) /\ w_backlog w' = w_backlog w /\ w_nextg w' = w_nextg w /\
    (exists rs, ys = map (fun r => (fd, sc_gid x, r)) rs) /\
    (sc_st x <> SClosed -> k_tosrv (client_of w (sc_client x)) <> [] -> sc_st y <> SClosed).
Proof.
  intros HI (x & HL & Ho). cbn [Server.handle_event]. rewrite HL.
  destruct (inv_cc _ _ _ HI _ _ HL) as [Hok [ph I]].
  assert (Hshort : (length (c_win (sc_conn x)) < BUF)%nat) by (eapply conn_win_short; eauto).
  set (cl := client_of w (sc_client x)).
  set (n := read_amount kk (BUF - length (c_win (sc_conn x))) (length (k_tosrv cl))).
  assert (Hra : (n <= (BUF - length (c_win (sc_conn x))) /\ n <= (length (k_tosrv cl)) /\ (1 <= (BUF - length (c_win (sc_conn x))) -> 1 <= (length (k_tosrv cl)) -> 1 <= n))%nat)
    by (unfold n, read_amount; destruct (Nat.eqb kk 0) eqn:Ek; [|apply Nat.eqb_neq in Ek]; lia).
  destruct Hra as (Ra1 & Ra2 & Ra3).
  destruct (cc_read x (RData (firstn n (k_tosrv cl)) [])) as [[y rs]|] eqn:R; [|discriminate].
  intros H; inversion H; subst w' ys; clear H.
  set (y' := match sc_st y with AwaitOut => mkSC (sc_conn y) (sc_st y) (sc_infl y) (sc_client y) true (sc_gid y) | _ => y end).
  assert (Ey : sc_conn y' = sc_conn y) by (unfold y'; destruct (sc_st y); reflexivity).
  assert (G : exists gen, c_rq (sc_conn y) = c_rq (sc_conn x) ++ gen /\ c_rbuf (sc_conn y) = c_rbuf (sc_conn x) /\ Forall server_generated gen).
  { destruct (firstn n (k_tosrv cl)) as [|b bs] eqn:Fn.
    - (* nothing to read: end of stream *)
      revert R. unfold Server.cc_read, try_read.
      assert (E : (BUF <=? length (c_win (sc_conn x)))%nat = false) by (apply Nat.leb_gt; lia). rewrite E.
      intros R; inversion R; subst. exists []. cbn. rewrite app_nil_r. auto.
    - assert (Hlen : (length (c_win (sc_conn x)) + length (b :: bs) <= BUF)%nat).
      { rewrite <- Fn, firstn_length. lia. }
      destruct (cc_read_rq BUF BUF_min BUF_u32 x b bs y rs (conj Hok (ex_intro _ ph I)) Hlen R) as (gen & Hg & Fg).
      exists gen. split; [exact Hg|]. split; [|exact Fg].
      (* the staged buffer is untouched by a read *)
      revert R. unfold Server.cc_read.
      destruct (try_read_total BUF BUF_min BUF_u32 (sc_conn x) ph (RData (b :: bs) []) I Hlen) as (c1 & res & sys & ph1 & T & _ & _ & _ & _ & Hrb).
      rewrite T. destruct res as [|e|s]; [| |discriminate].
      + destruct (pop_all (S (length (c_parsed c1))) c1 []) as [c2 reqs] eqn:P.
        pose proof (pop_all_write_side (S (length (c_parsed c1))) c1 []) as (_ & HB & _). rewrite P in HB. cbn [fst] in HB.
        destruct (U32_LIMIT <=? _); [discriminate|]. intros R; inversion R; subst. cbn [sc_conn]. congruence.
      + pose proof (pop_all_write_side (S (length (c_parsed c1))) c1 []) as (_ & HB & _).
        destruct e; try (intros R; inversion R; subst; cbn [sc_conn]; congruence; fail);
          (destruct (U32_LIMIT <=? _); [discriminate|]; intros R; inversion R; subst; cbn [sc_conn]);
          try congruence;
          assert (Eq : forall c r0, c_rbuf (enqueue_response c r0) = c_rbuf c) by reflexivity; rewrite Eq;
          try congruence; transitivity (c_rbuf c1); [exact HB|exact Hrb]. }
  destruct G as (gen & Hg & Hrb & Fg).
  assert (Hopen : sc_st x <> SClosed -> k_tosrv cl <> [] -> sc_st y <> SClosed).
  { intros Sx Hdata. destruct (firstn n (k_tosrv cl)) as [|b bs] eqn:Fn.
    - exfalso. assert (H1 : (1 <= n)%nat) by (apply Ra3; [lia|destruct (k_tosrv cl); [congruence|cbn; lia]]).
      destruct n; [lia|]. destruct (k_tosrv cl); [congruence|discriminate Fn].
    - assert (Hlen : (length (c_win (sc_conn x)) + length (b :: bs) <= BUF)%nat).
      { rewrite <- Fn, firstn_length. lia. }
      destruct (cc_read_calm BUF BUF_min BUF_u32 x b bs y rs (conj Hok (ex_intro _ ph I)) Hlen R Sx) as [Hy _]. exact Hy. }
  destruct (cc_read_ids _ _ _ _ R) as [Hgid Hcl].
  exists x, y', gen. split; [reflexivity|]. cbn [set_client set_conn w_conns w_backlog w_nextg].
  split; [eapply alookup_update_same; eauto|]. split; [rewrite Ey; apply unsent_grow; assumption|]. split; [exact Fg|].
  split; [intros fd0 Hne; apply alookup_update_other; congruence|].
  split; [rewrite Ey; exact Hrb|].
  split; [unfold y'; destruct (sc_st y); cbn; exact Hgid|].
  split; [unfold y'; destruct (sc_st y); cbn; exact Hcl|].
  split; [reflexivity|]. split; [reflexivity|]. split; [reflexivity|]. split; [exists rs; reflexivity|].
  intros Sx Hdata. assert (E : sc_st y' = sc_st y) by (unfold y'; destruct (sc_st y) eqn:S0; cbn; auto). rewrite E. auto.
Qed.

Theorem read_unsent w toks fd kk w' ys :
  Inv w toks -> evt_ok w (EvIn fd kk) -> handle_event w (EvIn fd kk) = inl (w', ys) ->
  exists x y gen, alookup fd (w_conns w) = Some x /\ alookup fd (w_conns w') = Some y /\
    unsent (sc_conn y) = unsent (sc_conn x) ++ flat_map serialize gen /\ Forall server_generated gen /\
    forall fd0, fd0 <> fd -> alookup fd0 (w_conns w') = alookup fd0 (w_conns w).
Proof.
  intros HI He H. destruct (read_unsent_rb w toks fd kk w' ys HI He H) as (x & y & gen & A1 & A2 & A3 & A4 & A5 & _).
  exists x, y, gen. auto.
Qed.

(* ---------- whole histories ---------- *)
(* one step of a history: a poll with any contract-abiding batch in any order, a response for a
   token the application holds, or anything the clients / the environment do (send, close, shut down,
   read, connect, signal the kill switch, change the limit): such a step leaves the server's
   connection table and instance counter alone *)
Inductive hstep : world * list tok -> world * list tok -> Prop :=
| HPoll w toks es w' ys :
    Forall (evt_ok w) es -> NoDup (map ev_key es) -> ~ In KKill (map ev_key es) ->
    poll_with w es = PYield w' ys -> hstep (w, toks) (w', ytoks ys ++ toks)
| HRespond w t1 t2 fd g r w' :
    respond w fd r = inl w' -> hstep (w, t1 ++ (fd, g) :: t2) (w', t1 ++ t2)
| HEnv w toks w' :
    w_conns w' = w_conns w -> w_nextg w' = w_nextg w -> hstep (w, toks) (w', toks).

(* a history, newest state first *)
Inductive history : list (world * list tok) -> Prop :=
| H0 : history [(world0, [])]
| HS s s' tr : history (s :: tr) -> hstep s s' -> history (s' :: s :: tr).

Lemma Inv_env w toks w' : w_conns w' = w_conns w -> w_nextg w' = w_nextg w -> Inv w toks -> Inv w' toks.
Proof. intros E1 E2 [A1 A2 A3 A4 A5 A6 A7]. constructor; rewrite ?E1, ?E2; auto. Qed.

Lemma bound_older beta beta' w n toks :
  Inv w toks -> (w_nextg w <= n)%nat -> (forall g, (g < n)%nat -> beta' g = beta g) -> bound beta w -> bound beta' w.
Proof.
  intros HI Hn Hag Hb fd x HL. rewrite Hag; [eauto|]. pose proof (inv_gid_lt _ _ _ HI _ _ HL). lia.
Qed.

(* C07: there is ONE assignment of clients to connection instances that is right at every moment
   of the history: whenever instance g is in the table -- under whatever descriptor number, reused or
   not -- it serves client beta g.  The invariant holds throughout, so (C07_token_inv) a token (fd, g)
   held at any moment names a table entry whose instance is g, i.e. client beta g. *)
Theorem one_binding tr : history tr ->
  exists beta, Forall (fun s => bound beta (fst s) /\ Inv (fst s) (snd s)) tr /\
               match tr with s :: _ => Forall (fun s0 => (w_nextg (fst s0) <= w_nextg (fst s))%nat) tr | [] => True end.
Proof.
  induction 1 as [|s s' tr Htr IH Hstep].
  - exists (fun _ => 0%nat). split; [constructor; [|constructor]|constructor; [cbn; lia|constructor]].
    split; [intros fd x H; discriminate|apply Inv_world0; assumption].
  - destruct IH as (beta & Hall & Hmono). inversion Hall as [|? ? [Hb HI] Hrest]; subst.
    assert (Step : exists beta', (forall g, (g < w_nextg (fst s))%nat -> beta' g = beta g) /\ bound beta' (fst s') /\
                                 Inv (fst s') (snd s') /\ (w_nextg (fst s) <= w_nextg (fst s'))%nat).
    { inversion Hstep as [w toks es w' ys Hok Hnd Hnk Hp|w t1 t2 fd g r w' Hr|w toks w' E1 E2]; subst; cbn [fst snd] in *.
      - destruct (poll_binding w toks es w' ys beta HI Hok Hnd Hnk Hp Hb) as (b' & Ag & Bd & Nx & I'). exists b'. auto.
      - destruct (respond_binding w t1 t2 fd g r w' beta HI Hr Hb) as (Bd & Nx & I' & _). exists beta. split; [auto|]. split; [exact Bd|]. split; [exact I'|lia].
      - exists beta. split; [auto|]. split; [intros fd x HL; rewrite E1 in HL; eauto|]. split; [eapply Inv_env; eauto|lia]. }
    destruct Step as (beta' & Hag & Hb' & HI' & Hn).
    exists beta'. split.
    + constructor; [split; assumption|].
      apply Forall_forall. intros s0 Hin.
      rewrite Forall_forall in Hall, Hmono. destruct (Hall s0 Hin) as [Hb0 HI0]. split; [|exact HI0].
      apply (bound_older beta beta' (fst s0) (w_nextg (fst s)) (snd s0) HI0 (Hmono s0 Hin) Hag Hb0).
    + constructor; [lia|]. apply Forall_forall. intros s0 Hin. rewrite Forall_forall in Hmono. specialize (Hmono s0 Hin). lia.
Qed.

Lemma canonical_hstep w toks w' ys :
  Inv w toks -> w_killed w = false -> poll BUF w = PYield w' ys -> hstep (w, toks) (w', ytoks ys ++ toks).
Proof.
  intros HI Hk P. destruct (ready_events_ok BUF BUF_min BUF_u32 w toks HI) as [A1 A2].
  apply HPoll with (es := ready_events w); auto.
  intros Hin. apply in_map_iff in Hin. destruct Hin as (e & He & Hin). destruct e; try discriminate.
  exact (kill_inert w Hk Hin).
Qed.

End Prov.

(* non-vacuity: a history in which the application comes to hold a token *)
Example history_example : exists tr w, history 1024 ((w, [(1%nat, 0%nat)]) :: tr).
Proof.
  destruct (poll 1024 wA) as [|wB ysB|] eqn:PB; try (vm_compute in PB; discriminate).
  destruct (canonical_poll_progress 1024 BUF1024_min BUF1024_u32 wA [] wB ysB wA_inv wA_calm PB) as (CB & IB & _).
  destruct (poll 1024 wB) as [|wC ysC|] eqn:PC;
    try (vm_compute in PB; inversion PB; subst; vm_compute in PC; discriminate).
  assert (E : ytoks ysC ++ ytoks ysB ++ [] = [(1%nat, 0%nat)]).
  { vm_compute in PB. inversion PB; subst. vm_compute in PC. inversion PC; subst. reflexivity. }
  exists [(wB, ytoks ysB ++ []); (wA, []); (world0, [])], wC. rewrite <- E.
  apply HS; [apply HS; [apply HS; [apply H0|]|]|].
  - apply HEnv; reflexivity.
  - apply (canonical_hstep 1024 BUF1024_min BUF1024_u32); [exact wA_inv|reflexivity|exact PB].
  - apply (canonical_hstep 1024 BUF1024_min BUF1024_u32); [exact IB|exact (calm_nokill _ CB)|exact PC].
Qed.
