(* Response serialisation: shape, the Content-Length rule, and the round trip through an
   independent reader for any concatenation of responses (C05). *)
From MH Require Export model.Response model.Reader proofs.Bytes_proofs.
From Coq Require Import ZArith.

(* ---------- decimal rendering ---------- *)
Definition digit_ok (d : N) : Prop := 48 <= d <= 57.

Lemma digits_value_digit a d rest : d < 10 ->
  digits_value a ((48 + d) :: rest) = digits_value (a * 10 + d) rest.
Proof.
  intros H. cbn [digits_value]. unfold is_digit, in_range.
  assert (E1 : (48 <=? 48 + d) = true) by (apply N.leb_le; lia).
  assert (E2 : (48 + d <=? 57) = true) by (apply N.leb_le; lia).
  rewrite E1, E2. cbn [andb]. f_equal. lia.
Qed.

Lemma pow10_succ f : 10 ^ N.of_nat (S f) = 10 * 10 ^ N.of_nat f.
Proof. rewrite Nat2N.inj_succ, N.pow_succ_r'. reflexivity. Qed.

Lemma dec_fuel_spec f : forall n acc, n < 10 ^ N.of_nat (S f) ->
  exists ds, dec_fuel (S f) n acc = ds ++ acc /\ ds <> [] /\ Forall digit_ok ds /\
    forall a rest, digits_value a (ds ++ rest) = digits_value (a * 10 ^ N.of_nat (length ds) + n) rest.
Proof.
  assert (Small : forall n acc, n < 10 ->
    exists ds, (48 + n) :: acc = ds ++ acc /\ ds <> [] /\ Forall digit_ok ds /\
      forall a rest, digits_value a (ds ++ rest) = digits_value (a * 10 ^ N.of_nat (length ds) + n) rest).
  { intros n acc H. exists [48 + n]. split; [reflexivity|]. split; [discriminate|]. split.
    - constructor; [unfold digit_ok; lia|constructor].
    - intros a rest. cbn [app length]. rewrite digits_value_digit by lia.
      f_equal; change (N.of_nat 1) with 1; rewrite N.pow_1_r; reflexivity. }
  induction f as [|f IH]; intros n acc Hn.
  - assert (Hs : n < 10) by (change (10 ^ N.of_nat 1) with 10 in Hn; exact Hn).
    cbn [dec_fuel]. assert (E : (n <? 10) = true) by (apply N.ltb_lt; lia). rewrite E.
    apply Small; exact Hs.
  - cbn [dec_fuel]. destruct (n <? 10) eqn:E.
    + apply N.ltb_lt in E. apply Small; exact E.
    + apply N.ltb_ge in E.
      assert (Hq : n / 10 < 10 ^ N.of_nat (S f)).
      { rewrite pow10_succ in Hn. apply N.div_lt_upper_bound; lia. }
      destruct (IH (n / 10) ((48 + n mod 10) :: acc) Hq) as (ds & Hd & Hne & Hdig & Hval).
      exists (ds ++ [48 + n mod 10]). split; [|split; [|split]].
      * rewrite <- app_assoc. exact Hd.
      * destruct ds; discriminate.
      * apply Forall_app. split; [exact Hdig|]. constructor; [|constructor].
        assert (Hm : n mod 10 < 10) by (apply N.mod_lt; lia). unfold digit_ok.
        generalize dependent (n mod 10). clear. intros r Hr. lia.
      * intros a rest. rewrite <- app_assoc. cbn [app]. rewrite Hval.
        assert (Hm : n mod 10 < 10) by (apply N.mod_lt; lia).
        rewrite digits_value_digit by exact Hm. f_equal.
        rewrite app_length. cbn [length]. rewrite Nat.add_1_r, pow10_succ.
        pose proof (N.div_mod n 10 ltac:(lia)) as Hdm.
        remember (n / 10) as q. remember (n mod 10) as r. remember (10 ^ N.of_nat (length ds)) as P.
        clear - Hdm. lia.
Qed.

Lemma dec_fuel_enough n : n < 10 ^ N.of_nat (S (N.to_nat (N.log2 n))).
Proof.
  rewrite Nat2N.inj_succ, N2Nat.id.
  destruct n as [|p]; [cbn; lia|].
  pose proof (N.log2_spec (N.pos p) ltac:(lia)) as [_ H].
  eapply N.lt_le_trans; [exact H|]. apply N.pow_le_mono_l. lia.
Qed.

Lemma dec_spec n :
  dec n <> [] /\ Forall digit_ok (dec n) /\ digits_value 0 (dec n) = Some n.
Proof.
  unfold dec. destruct (dec_fuel_spec _ n [] (dec_fuel_enough n)) as (ds & Hd & Hne & Hdig & Hval).
  rewrite Hd, app_nil_r. repeat split; auto.
  specialize (Hval 0 []). rewrite app_nil_r in Hval. rewrite Hval. cbn. reflexivity.
Qed.

Lemma digit_ok_not_lf ds : Forall digit_ok ds -> ~ In LF ds.
Proof.
  intros H Hin. rewrite Forall_forall in H. specialize (H _ Hin). unfold digit_ok, LF in H. lia.
Qed.

(* ---------- find_crlf ---------- *)
Lemma find_crlf_at l t : ~ In LF l -> find_crlf (l ++ CR :: LF :: t) = Some (length l).
Proof.
  unfold find_crlf. induction l as [|x l IH]; intros H.
  - reflexivity.
  - cbn [app find length].
    assert (P : prefixb CRLF (x :: l ++ CR :: LF :: t) = false).
    { unfold CRLF. cbn [prefixb]. destruct (N.eqb CR x) eqn:E; [|reflexivity]. cbn [andb].
      destruct l as [|y l']; cbn [app prefixb]; [reflexivity|].
      destruct (N.eqb LF y) eqn:E2; [|reflexivity]. apply N.eqb_eq in E2. exfalso. apply H. right. left. auto. }
    rewrite P. rewrite IH; [reflexivity|]. intros Hin. apply H. right. exact Hin.
Qed.

(* ---------- the header block as lines ---------- *)
Definition clen_lines (r : response) : list bytes :=
  match rs_content_length r with
  | Some n =>
      [raw_header HContentType ++ [COLON; SP] ++ media_str (rs_content_type r);
       raw_header HContentLength ++ [COLON; SP] ++ decZ n]
      ++ (if rs_accept_encoding r then [raw_header HAcceptEncoding ++ [COLON; SP] ++ B"identity"] else [])
  | None => []
  end.

Definition header_lines (r : response) : list bytes :=
  [raw_header HServer ++ [COLON; SP] ++ rs_server r; B"Connection: keep-alive"]
  ++ (match rs_allow r with [] => [] | ms => [B"Allow: " ++ join_methods ms] end)
  ++ (if rs_deprecation r then [B"Deprecation: true"] else [])
  ++ clen_lines r.

Definition with_crlf (ls : list bytes) : bytes := flat_map (fun l => l ++ CRLF) ls.

Lemma with_crlf_app a b : with_crlf (a ++ b) = with_crlf a ++ with_crlf b.
Proof. unfold with_crlf. apply flat_map_app. Qed.

Lemma header_block_lines r : header_block r = with_crlf (header_lines r) ++ CRLF.
Proof.
  unfold header_block, header_lines, clen_lines, allow_line, deprecation_line.
  rewrite !with_crlf_app.
  destruct (rs_allow r) as [|m ms]; destruct (rs_deprecation r); destruct (rs_content_length r) as [n|];
    try destruct (rs_accept_encoding r); unfold with_crlf;
    repeat (progress (rewrite ?flat_map_app; cbn [flat_map]; rewrite ?app_nil_r, ?app_nil_l, <- ?app_assoc)); reflexivity.
Qed.

(* C05_shape: the serialised bytes, spelled out *)
Lemma serialize_shape r :
  serialize r =
  raw_version (rs_version r) ++ [SP] ++ raw_status (rs_status r) ++ [SP] ++ CRLF
  ++ with_crlf (header_lines r) ++ CRLF
  ++ match rs_body r with Some b => b | None => [] end.
Proof.
  unfold serialize, status_line. rewrite header_block_lines. rewrite <- !app_assoc. reflexivity.
Qed.

(* ---------- reading the header lines back ---------- *)
Lemma read_header_lines_ok ls : forall fuel t acc,
  Forall (fun l => l <> [] /\ ~ In LF l) ls -> (length ls < fuel)%nat ->
  read_header_lines fuel (with_crlf ls ++ CR :: LF :: t) acc = Some (rev acc ++ ls, t).
Proof.
  induction ls as [|l ls IH]; intros fuel t acc Hall Hf.
  - destruct fuel; [cbn in Hf; lia|]. cbn. rewrite app_nil_r. reflexivity.
  - destruct fuel; [cbn in Hf; lia|]. inversion Hall as [|? ? [Hne Hlf] Hrest]; subst.
    cbn [with_crlf flat_map read_header_lines]. fold (with_crlf ls).
    rewrite <- !app_assoc. cbn [CRLF app].
    rewrite (find_crlf_at l _ Hlf).
    destruct l as [|x l']; [congruence|].
    change (length (x :: l')) with (S (length l')). cbv beta iota.
    change (S (length l')) with (length (x :: l')). remember (x :: l') as l eqn:El. clear El x l'.
    assert (S1 : skipn (length l + 2) (l ++ CR :: LF :: with_crlf ls ++ CR :: LF :: t) = with_crlf ls ++ CR :: LF :: t).
    { rewrite skipn_app. rewrite skipn_all2 by lia. replace (length l + 2 - length l)%nat with 2%nat by lia. reflexivity. }
    rewrite S1. rewrite firstn_app_exact.
    rewrite IH; [|exact Hrest|cbn in Hf; lia]. cbn [rev]. rewrite <- app_assoc. reflexivity.
Qed.

(* ---------- which line carries the length ---------- *)
Definition lf_free (l : bytes) : Prop := ~ In LF l.

Lemma join_methods_lf ms : lf_free (join_methods ms).
Proof.
  unfold lf_free. induction ms as [|m ms IH]; cbn; [tauto|].
  destruct ms as [|m' ms'].
  - destruct m; cbn; unfold LF; intros H; repeat (destruct H as [H|H]; [discriminate|]); exact H.
  - intros H. apply in_app_or in H. destruct H as [H|H].
    + destruct m; cbn in H; unfold LF in H; repeat (destruct H as [H|H]; [discriminate|]); exact H.
    + cbn [app] in H. destruct H as [H|[H|H]]; [discriminate|discriminate|]. apply IH. exact H.
Qed.

Lemma decZ_nonneg_lf n : lf_free (decZ (Z.of_N n)).
Proof.
  unfold lf_free. destruct n as [|p]; cbn [Z.of_N decZ].
  - apply digit_ok_not_lf. apply (dec_spec 0).
  - apply digit_ok_not_lf. apply (dec_spec (N.pos p)).
Qed.

Definition framing_ok (r : response) : Prop :=
  lf_free (rs_server r) /\
  match rs_content_length r with
  | Some n => n = Z.of_N (lenN (match rs_body r with Some b => b | None => [] end))
  | None => match rs_body r with Some b => b = [] | None => True end
  end.

Lemma header_lines_ok r : framing_ok r -> Forall (fun l => l <> [] /\ ~ In LF l) (header_lines r).
Proof.
  intros [Hs Hc]. unfold header_lines, clen_lines.
  repeat (apply Forall_app; split).
  - constructor; [|constructor; [|constructor]].
    + split; [discriminate|]. cbn. unfold LF. intros H. repeat (destruct H as [H|H]; [discriminate|]). exact (Hs H).
    + split; [discriminate|]. cbn. unfold LF. intros H. repeat (destruct H as [H|H]; [discriminate|]). exact H.
  - destruct (rs_allow r) as [|m ms]; [constructor|]. constructor; [|constructor].
    split; [discriminate|]. intros H. apply in_app_or in H. destruct H as [H|H].
    + cbn in H. unfold LF in H. repeat (destruct H as [H|H]; [discriminate|]). exact H.
    + exact (join_methods_lf _ H).
  - destruct (rs_deprecation r); [|constructor]. constructor; [|constructor].
    split; [discriminate|]. cbn. unfold LF. intros H. repeat (destruct H as [H|H]; [discriminate|]). exact H.
  - destruct (rs_content_length r) as [n|]; [|constructor]. subst n.
    apply Forall_app; split.
    + constructor; [|constructor; [|constructor]].
      * split; [discriminate|]. destruct (rs_content_type r); cbn; unfold LF; intros H;
          repeat (destruct H as [H|H]; [discriminate|]); exact H.
      * split; [discriminate|]. intros H. cbn [raw_header app] in H. apply in_app_or in H. destruct H as [H|H].
        -- cbn in H. unfold LF in H. repeat (destruct H as [H|H]; [discriminate|]). exact H.
        -- cbn [app] in H. destruct H as [H|[H|H]]; [discriminate|discriminate|].
           exact (decZ_nonneg_lf _ H).
    + destruct (rs_accept_encoding r); [|constructor]. constructor; [|constructor].
      split; [discriminate|]. cbn. unfold LF. intros H. repeat (destruct H as [H|H]; [discriminate|]). exact H.
Qed.

Lemma cl_skip l rest : prefixb CL_PREFIX l = false -> content_length_of (l :: rest) = content_length_of rest.
Proof. intros H. cbn [content_length_of]. rewrite H. reflexivity. Qed.

Lemma cl_skip_app pre rest : Forall (fun l => prefixb CL_PREFIX l = false) pre ->
  content_length_of (pre ++ rest) = content_length_of rest.
Proof.
  induction pre as [|l pre IH]; intros H; [reflexivity|]. inversion H; subst.
  rewrite <- app_comm_cons. rewrite cl_skip by assumption. apply IH. assumption.
Qed.

Lemma cl_tail r :
  (match rs_content_length r with
   | Some n => n = Z.of_N (lenN (match rs_body r with Some b => b | None => [] end))
   | None => True end) ->
  content_length_of (clen_lines r) =
  match rs_content_length r with
  | Some _ => ClValue (lenN (match rs_body r with Some b => b | None => [] end))
  | None => ClAbsent
  end.
Proof.
  intros Hc. unfold clen_lines.
  destruct (rs_content_length r) as [n|]; [|reflexivity]. subst n.
  rewrite <- !app_comm_cons, app_nil_l.
  rewrite cl_skip by (destruct (rs_content_type r); reflexivity).
  set (n := lenN _).
  assert (D : decZ (Z.of_N n) = dec n) by (destruct n; reflexivity).
  rewrite D. destruct (dec_spec n) as (Hne & _ & Hv).
  cbn [content_length_of].
  assert (P4 : forall v, prefixb CL_PREFIX (raw_header HContentLength ++ COLON :: SP :: v) = true) by reflexivity.
  rewrite P4.
  assert (S4 : forall v, skipn (length CL_PREFIX) (raw_header HContentLength ++ COLON :: SP :: v) = v) by reflexivity.
  rewrite S4. rewrite app_nil_l.
  destruct (dec n) eqn:E; [congruence|]. rewrite Hv. reflexivity.
Qed.

Lemma content_length_of_lines r : framing_ok r ->
  content_length_of (header_lines r) =
  match rs_content_length r with
  | Some _ => ClValue (lenN (match rs_body r with Some b => b | None => [] end))
  | None => ClAbsent
  end.
Proof.
  intros [Hs Hc]. unfold header_lines. rewrite !app_assoc. rewrite cl_skip_app.
  - apply cl_tail. destruct (rs_content_length r); auto.
  - repeat (apply Forall_app; split).
    + constructor; [reflexivity|constructor; [reflexivity|constructor]].
    + destruct (rs_allow r); constructor; [reflexivity|constructor].
    + destruct (rs_deprecation r); constructor; [reflexivity|constructor].
Qed.

Definition view (r : response) : bytes * list bytes * bytes :=
  (raw_version (rs_version r) ++ [SP] ++ raw_status (rs_status r) ++ [SP],
   header_lines r,
   match rs_body r with Some b => b | None => [] end).

Lemma status_line_find r t :
  find_crlf (raw_version (rs_version r) ++ [SP] ++ raw_status (rs_status r) ++ [SP] ++ CRLF ++ t)
  = Some (length (raw_version (rs_version r) ++ [SP] ++ raw_status (rs_status r) ++ [SP])).
Proof.
  rewrite !app_assoc. rewrite <- (app_assoc _ CRLF t). cbn [CRLF app].
  apply find_crlf_at.
  destruct (rs_version r), (rs_status r); cbn; unfold LF; intros H;
    repeat (destruct H as [H|H]; [discriminate|]); exact H.
Qed.

(* the round trip for one response followed by anything *)
Theorem read_serialize r t : framing_ok r -> read_response (serialize r ++ t) = Some (view r, t).
Proof.
  intros Hok. rewrite serialize_shape. unfold read_response.
  set (sl := raw_version (rs_version r) ++ [SP] ++ raw_status (rs_status r) ++ [SP]).
  set (body := match rs_body r with Some b => b | None => [] end).
  assert (E : (raw_version (rs_version r) ++ [SP] ++ raw_status (rs_status r) ++ [SP] ++ CRLF
               ++ with_crlf (header_lines r) ++ CRLF ++ body) ++ t
              = sl ++ CRLF ++ with_crlf (header_lines r) ++ CRLF ++ body ++ t).
  { unfold sl. rewrite <- !app_assoc. reflexivity. }
  rewrite E. clear E.
  assert (F : find_crlf (sl ++ CRLF ++ with_crlf (header_lines r) ++ CRLF ++ body ++ t) = Some (length sl)).
  { unfold sl. rewrite <- !app_assoc. apply status_line_find. }
  rewrite F.
  assert (S1 : skipn (length sl + 2) (sl ++ CRLF ++ with_crlf (header_lines r) ++ CRLF ++ body ++ t)
               = with_crlf (header_lines r) ++ CR :: LF :: body ++ t).
  { rewrite skipn_app. rewrite skipn_all2 by lia. replace (length sl + 2 - length sl)%nat with 2%nat by lia. reflexivity. }
  rewrite S1. rewrite firstn_app_exact.
  rewrite read_header_lines_ok; [|apply header_lines_ok; exact Hok|].
  2:{ rewrite !app_length. cbn [length CRLF].
      assert (L : forall ls, Forall (fun l => l <> [] /\ ~ In LF l) ls -> (length ls <= length (with_crlf ls))%nat).
      { induction ls as [|l ls IH]; intros Hall; [cbn; lia|]. inversion Hall; subst.
        specialize (IH H2). unfold with_crlf in *. cbn [flat_map length]. rewrite !app_length.
        change (length CRLF) with 2%nat. lia. }
      specialize (L _ (header_lines_ok r Hok)). lia. }
  cbn [rev app]. rewrite (content_length_of_lines r Hok).
  destruct Hok as [Hs Hc]. fold body in Hc |- *.
  destruct (rs_content_length r) as [n|].
  - assert (Lb : (lenN (body ++ t) <? lenN body) = false).
    { apply N.ltb_ge. unfold lenN. rewrite app_length. lia. }
    rewrite Lb. unfold lenN. rewrite Nat2N.id. rewrite firstn_app_exact, skipn_app_exact. reflexivity.
  - assert (body = []) by (unfold body in *; destruct (rs_body r); auto). rewrite H.
    unfold view. fold sl. fold body. rewrite H. reflexivity.
Qed.

(* any concatenation of responses on a keep-alive stream *)
Theorem read_concat rs : forall fuel, Forall framing_ok rs -> (length rs < fuel)%nat ->
  read_responses fuel (flat_map serialize rs) = Some (map view rs).
Proof.
  induction rs as [|r rs IH]; intros fuel Hall Hf.
  - destruct fuel; reflexivity.
  - destruct fuel; [cbn in Hf; lia|]. inversion Hall; subst.
    cbn [flat_map map read_responses].
    destruct (serialize r ++ flat_map serialize rs) eqn:E.
    { exfalso. apply app_eq_nil in E. destruct E as [E _]. revert E. rewrite serialize_shape.
      destruct (rs_version r); discriminate. }
    rewrite <- E. rewrite read_serialize by assumption. rewrite IH; [reflexivity|assumption|cbn in Hf; lia].
Qed.

(* ---------- the Content-Length rule over builder programs ---------- *)
Fixpoint last_body (prog : list builder_op) (cur : option bytes) : option bytes :=
  match prog with
  | [] => cur
  | SetBody b :: r => last_body r (Some b)
  | _ :: r => last_body r cur
  end.

Definition no_explicit_length (o : builder_op) : Prop :=
  match o with SetContentLength _ => False | _ => True end.

Lemma fold_body_length prog : forall r, Forall no_explicit_length prog ->
  rs_body (fold_left apply_op prog r) = last_body prog (rs_body r) /\
  rs_content_length (fold_left apply_op prog r) =
    match last_body prog None with
    | Some b => Some (as_i32 (lenN b))
    | None => rs_content_length r
    end /\
  rs_status (fold_left apply_op prog r) = rs_status r /\ rs_version (fold_left apply_op prog r) = rs_version r.
Proof.
  induction prog as [|o prog IH]; intros r Hall; cbn [fold_left last_body]; [auto|].
  inversion Hall as [|? ? Ho Hr]; subst.
  destruct (IH (apply_op r o) Hr) as (Hb & Hl & Hs & Hv). rewrite Hb, Hl, Hs, Hv.
  destruct o; cbn in Ho |- *; try contradiction; auto.
  (* SetBody *)
  split; [reflexivity|]. split; [|auto].
  assert (G : forall p c, last_body p (Some c) = match last_body p None with Some x => Some x | None => Some c end).
  { induction p as [|o' p' IHp]; intros c; cbn [last_body]; [reflexivity|]. destruct o'; try apply IHp.
    rewrite (IHp b0). destruct (last_body p' None); reflexivity. }
  rewrite G. destruct (last_body prog None); reflexivity.
Qed.

(* Content-Length present <-> status not in {100, 204} or a body was set; its value is the
   length of the last body set, else 0 *)
Theorem length_rule v s prog : Forall no_explicit_length prog ->
  let r := build v s prog in
  rs_body r = last_body prog None /\
  rs_content_length r =
    match last_body prog None with
    | Some b => Some (as_i32 (lenN b))
    | None => match s with Continue | NoContent => None | _ => Some 0%Z end
    end.
Proof.
  intros Hall. cbn zeta. unfold build.
  destruct (fold_body_length prog (response_new v s) Hall) as (Hb & Hl & _). split; [exact Hb|].
  rewrite Hl. destruct (last_body prog None); [reflexivity|]. destruct s; reflexivity.
Qed.

Lemma as_i32_small n : n < 2147483648 -> as_i32 n = Z.of_N n.
Proof.
  intros H. unfold as_i32.
  assert (E : (Z.of_N n mod 4294967296)%Z = Z.of_N n) by (apply Z.mod_small; lia).
  rewrite E. destruct (Z.of_N n <? 2147483648)%Z eqn:L; [reflexivity|]. apply Z.ltb_ge in L. lia.
Qed.

Fixpoint last_server (prog : list builder_op) (cur : bytes) : bytes :=
  match prog with
  | [] => cur
  | SetServer s :: r => last_server r s
  | _ :: r => last_server r cur
  end.

Lemma fold_server prog : forall r, rs_server (fold_left apply_op prog r) = last_server prog (rs_server r).
Proof.
  induction prog as [|o prog IH]; intros r; cbn [fold_left last_server]; [reflexivity|].
  rewrite IH. destruct o; reflexivity.
Qed.

(* every response built through the seven builder calls, with bodies below 2^31 bytes and a
   server identity free of line feeds, is framed consistently *)
Theorem build_framing_ok v s prog :
  Forall no_explicit_length prog ->
  (forall b, last_body prog None = Some b -> lenN b < 2147483648) ->
  lf_free (last_server prog DEFAULT_SERVER) ->
  framing_ok (build v s prog).
Proof.
  intros Hall Hsmall Hsrv. destruct (length_rule v s prog Hall) as [Hb Hl].
  split.
  - unfold build. rewrite fold_server. exact Hsrv.
  - rewrite Hl, Hb. destruct (last_body prog None) as [b|] eqn:E.
    + rewrite as_i32_small by (apply Hsmall; reflexivity). reflexivity.
    + destruct s; cbn; auto.
Qed.

(* ---------- the sink ---------- *)
(* write_all hands the sink exactly the data, however the sink splits the writes *)
Lemma write_all_spec script : forall data acc acc' script',
  write_all script data acc = Some (acc', script') -> acc' = acc ++ data.
Proof.
  induction script as [|e sc IH]; intros data acc acc' script'.
  - destruct data; cbn; [intros H; inversion H; rewrite app_nil_r; reflexivity|discriminate].
  - destruct data as [|d data'] eqn:Ed; [cbn; intros H; inversion H; rewrite app_nil_r; reflexivity|].
    cbn [write_all]. destruct e as [k| |].
    + destruct k as [|k]; [discriminate|]. intros H. apply IH in H. rewrite H.
      rewrite <- app_assoc. rewrite firstn_skipn. reflexivity.
    + intros H. apply IH in H. exact H.
    + discriminate.
Qed.
