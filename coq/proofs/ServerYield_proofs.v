(* C08 "each complete request is yielded exactly once": in one poll, wherever the IN event of a connection
   stands in the batch, the yields that carry that connection's descriptor are exactly the requests the
   specification parser completes on carry ++ the bytes read, in order, tagged with the connection's
   instance; no other event of the batch yields anything under that descriptor. *)
From MH Require Export proofs.ServerExpect_proofs.
From Coq Require Import Lia.

Definition yields_of (fd : nat) (ys : list yield) : list yield := filter (fun y => Nat.eqb (fst (fst y)) fd) ys.

Lemma yields_of_app fd a b : yields_of fd (a ++ b) = yields_of fd a ++ yields_of fd b.
Proof. unfold yields_of. apply filter_app. Qed.

Lemma yields_of_own fd g (rs : list request) : yields_of fd (map (fun r => (fd, g, r)) rs) = map (fun r => (fd, g, r)) rs.
Proof. unfold yields_of. induction rs as [|r rs IH]; cbn [map filter fst]; [reflexivity|]. rewrite Nat.eqb_refl, IH. reflexivity. Qed.

Lemma yields_of_other fd fd0 g (rs : list request) : fd0 <> fd -> yields_of fd (map (fun r => (fd0, g, r)) rs) = [].
Proof.
  intros Hne. unfold yields_of. induction rs as [|r rs IH]; cbn [map filter fst]; [reflexivity|].
  destruct (Nat.eqb fd0 fd) eqn:E; [apply Nat.eqb_eq in E; congruence|exact IH].
Qed.

Section SY.
Variable BUF : nat.
Hypothesis BUF_min : (2 <= BUF)%nat.
Hypothesis BUF_u32 : N.of_nat BUF < U32_LIMIT.
Notation CInv := (CInv BUF).
Notation Inv := (Inv BUF).
Notation handle_event := (handle_event BUF).
Notation handle_all := (handle_all BUF).

(* an event that does not name fd yields nothing under fd *)
Lemma other_event_yields w e w' ys fd :
  handle_event w e = inl (w', ys) -> ev_key e <> KConn fd -> yields_of fd ys = [].
Proof.
  destruct e as [fd0|fd0 kk|fd0 kk|nf|]; cbn [Server.handle_event ev_key].
  - destruct (alookup fd0 (w_conns w)); [|discriminate]. intros H _; inversion H; reflexivity.
  - destruct (alookup fd0 (w_conns w)) as [x|]; [|discriminate]. destruct (cc_read BUF x _) as [[y rs]|]; [|discriminate].
    intros H Hk; inversion H; subst. apply yields_of_other. congruence.
  - destruct (alookup fd0 (w_conns w)) as [x|]; [|discriminate]. destruct (cc_write x _ _) as [[y s]|]; [|discriminate].
    intros H _; inversion H; reflexivity.
  - destruct (w_backlog w); [intros H _; inversion H; reflexivity|]. destruct (Nat.eqb _ _); intros H _; inversion H; reflexivity.
  - discriminate.
Qed.

Lemma handle_all_acc : forall es w acc,
  handle_all w es acc = match handle_all w es [] with inl (w', ys') => inl (w', acc ++ ys') | inr e => inr e end.
Proof.
  induction es as [|e t IH]; intros w acc; cbn [Server.handle_all]; [rewrite app_nil_r; reflexivity|].
  destruct (handle_event w e) as [[w1 ys1]|]; [|reflexivity].
  rewrite (IH w1 (acc ++ ys1)), (IH w1 ([] ++ ys1)). cbn [app].
  destruct (handle_all w1 t []) as [[w' y]|]; [rewrite app_assoc; reflexivity|reflexivity].
Qed.

(* a batch none of whose events names fd yields nothing under fd *)
Lemma other_batch_yields : forall es w w' ys fd,
  handle_all w es [] = inl (w', ys) -> ~ In (KConn fd) (map ev_key es) -> yields_of fd ys = [].
Proof.
  induction es as [|e t IH]; intros w w' ys fd; cbn [Server.handle_all].
  - intros H _; inversion H; reflexivity.
  - destruct (handle_event w e) as [[w1 ys1]|] eqn:Hh; [|discriminate]. rewrite handle_all_acc. cbn [app].
    destruct (handle_all w1 t []) as [[w2 y2]|] eqn:H2; [|discriminate].
    intros H Hnot; inversion H; subst. rewrite yields_of_app.
    rewrite (other_event_yields w e w1 ys1 fd Hh) by (intros E; apply Hnot; left; exact E).
    rewrite (IH w1 w' y2 fd H2) by (intros Hin; apply Hnot; right; exact Hin). reflexivity.
Qed.

(* the yields of one poll under descriptor fd *)
Theorem batch_yields_exact pre post w toks w' ys fd kk x ph :
  Inv w toks -> Calm w ->
  Forall (evt_live w) (pre ++ EvIn fd kk :: post) -> NoDup (map ev_key (pre ++ EvIn fd kk :: post)) ->
  handle_all w (pre ++ EvIn fd kk :: post) [] = inl (w', ys) ->
  alookup fd (w_conns w) = Some x -> CInv (sc_conn x) ph ->
  let c := sc_conn x in
  let t := k_tosrv (client_of w (sc_client x)) in
  let d := firstn (read_amount kk (BUF - length (c_win c)) (length t)) t in
  yields_of fd ys =
  match runT BUF (c_pmax c) ph (c_win c ++ d) [] with
  | RMore _ _ outs => map (fun r => (fd, sc_gid x, r)) (c_parsed c ++ reqs_of outs (c_files c))
  | _ => []
  end.
Proof.
  intros HI HC Hall Hnd Hrun HL I. cbn zeta.
  rewrite handle_all_app in Hrun.
  apply Forall_app in Hall. destruct Hall as [Hpre Hrest]. inversion Hrest as [|? ? Hin_live Hpost]; subst.
  rewrite map_app in Hnd. cbn [map ev_key] in Hnd.
  destruct (NoDup_app_split _ _ Hnd) as (Hnd_pre & Hnd_rest & Hdisj).
  inversion Hnd_rest as [|? ? Hnot_post Hnd_post]; subst.
  assert (Hnot_pre : ~ In (KConn fd) (map ev_key pre)).
  { intros Hin. apply (Hdisj _ Hin). left. reflexivity. }
  destruct (handle_all w pre []) as [[w1 ys1]|] eqn:Hp; [|discriminate].
  cbn [Server.handle_all] in Hrun.
  destruct (handle_event w1 (EvIn fd kk)) as [[w2 ys2]|] eqn:Hin; [|discriminate].
  rewrite handle_all_acc in Hrun. destruct (handle_all w2 post []) as [[w3 ys3]|] eqn:Hq; [|discriminate].
  inversion Hrun; subst w3 ys; clear Hrun.
  destruct (untouched_batch BUF BUF_min BUF_u32 pre w toks [] w1 ys1 fd x HI HC Hpre Hnd_pre Hnot_pre Hp HL) as (L1 & C1 & HC1 & toks1 & HI1).
  assert (Live1 : evt_live w1 (EvIn fd kk)).
  { apply (live_after_batch BUF BUF_min BUF_u32 pre w toks [] w1 ys1 (EvIn fd kk) HI HC Hpre Hnd_pre Hnot_pre Hp Hin_live). }
  assert (Hne1 : k_tosrv (client_of w1 (sc_client x)) <> []).
  { destruct Live1 as (x1 & HLx & _ & Ht). rewrite L1 in HLx. inversion HLx; subst. exact Ht. }
  pose proof (server_read_exact BUF BUF_min BUF_u32 w1 toks1 fd kk w2 ys2 x ph HI1 L1 I Hne1 Hin) as SR. cbn zeta in SR.
  rewrite C1 in SR. destruct SR as (_ & y & _ & _ & _ & _ & SRm).
  rewrite !yields_of_app.
  rewrite (other_batch_yields pre w w1 ys1 fd Hp Hnot_pre), (other_batch_yields post w2 w' ys3 fd Hq Hnot_post).
  cbn [app]. rewrite app_nil_r.
  destruct (runT BUF (c_pmax (sc_conn x)) ph _ []) as [ph' carry outs|outs e|]; [| |destruct SRm].
  - destruct SRm as (_ & _ & _ & -> & _). apply yields_of_own.
  - destruct SRm as (_ & _ & _ & -> & _). reflexivity.
Qed.

(* ---------- a write leaves the parser half of the connection alone ---------- *)
Lemma try_write_keeps c ev :
  let c1 := fst (fst (try_write c ev)) in
  c_parsed c1 = c_parsed c /\ c_files c1 = c_files c /\ c_pmax c1 = c_pmax c.
Proof.
  unfold try_write.
  destruct (c_rbuf c) as [b|].
  - destruct ev as [k| |]; [destruct k as [|k]|..]; try (cbn; auto; fail).
    destruct (S k =? length b)%nat; [cbn; auto|]. destruct (length b <? S k)%nat; cbn; auto.
  - destruct (c_rq c) as [|r q]; [cbn; auto|].
    destruct ev as [k| |]; [destruct k as [|k]|..]; try (cbn; auto; fail).
    cbn [set_write c_rq]. destruct (S k =? length (serialize r))%nat; [cbn; auto|].
    destruct (length (serialize r) <? S k)%nat; cbn; auto.
Qed.

Lemma cc_write_keeps x b k y sent : cc_write x b k = inl (y, sent) ->
  parser_same (sc_conn x) (sc_conn y) /\ c_parsed (sc_conn y) = c_parsed (sc_conn x) /\
  c_files (sc_conn y) = c_files (sc_conn x) /\ c_pmax (sc_conn y) = c_pmax (sc_conn x) /\
  sc_gid y = sc_gid x /\ sc_client y = sc_client x.
Proof.
  unfold cc_write. destruct (sc_st x).
  3: { intros H; inversion H; subst. unfold parser_same. auto 10. }
  all: match goal with |- context [try_write ?c ?ev] =>
         pose proof (try_write_parser_same c ev) as PS; pose proof (try_write_keeps c ev) as (K1 & K2 & K3);
         destruct (try_write c ev) as [[c1 res] off]; cbn [fst] in * end;
       destruct res as [|e|s]; [| |discriminate];
       [intros H; inversion H; subst; cbn [sc_conn sc_gid sc_client]; auto 10
       |destruct e; try discriminate; intros H; inversion H; subst; cbn [sc_conn sc_gid sc_client]; auto 10].
Qed.

(* one OUT event: the parser half of its connection, its client's pending input and the yields are untouched *)
Lemma write_event_frame w fd kk w' ys x :
  handle_event w (EvOut fd kk) = inl (w', ys) -> alookup fd (w_conns w) = Some x ->
  ys = [] /\
  exists y, alookup fd (w_conns w') = Some y /\ parser_same (sc_conn x) (sc_conn y) /\
    c_parsed (sc_conn y) = c_parsed (sc_conn x) /\ c_files (sc_conn y) = c_files (sc_conn x) /\
    c_pmax (sc_conn y) = c_pmax (sc_conn x) /\ sc_gid y = sc_gid x /\ sc_client y = sc_client x /\
    k_tosrv (client_of w' (sc_client x)) = k_tosrv (client_of w (sc_client x)).
Proof.
  cbn [Server.handle_event]. intros H HL. rewrite HL in H.
  destruct (cc_write x _ kk) as [[y sent]|] eqn:W; [|discriminate]. inversion H; subst w' ys; clear H.
  destruct (cc_write_keeps _ _ _ _ _ W) as (PS & K1 & K2 & K3 & G & C).
  split; [reflexivity|].
  set (y' := match sc_st y with AwaitIn => mkSC (sc_conn y) (sc_st y) (sc_infl y) (sc_client y) false (sc_gid y) | _ => y end).
  assert (E : sc_conn y' = sc_conn y /\ sc_gid y' = sc_gid y /\ sc_client y' = sc_client y) by (unfold y'; destruct (sc_st y); auto).
  destruct E as (E1 & E2 & E3).
  exists y'. cbn [set_client set_conn w_conns]. split; [eapply alookup_update_same; eauto|].
  rewrite E1, E2, E3. repeat (split; [assumption|]).
  unfold client_of at 1. cbn [set_client set_conn w_clients].
  unfold client_of. destruct (alookup (sc_client x) (w_clients w)) as [cl|] eqn:Lc.
  - rewrite (alookup_update_same _ _ _ _ Lc). reflexivity.
  - assert (N0 : forall (cl' : client) l, alookup (sc_client x) l = None -> alookup (sc_client x) (aupdate (sc_client x) cl' l) = None).
    { intros cl' l. induction l as [|[k0 v0] t IH]; cbn; [auto|]. destruct (Nat.eqb k0 (sc_client x)) eqn:E; [discriminate|]. cbn. rewrite E. exact IH. }
    rewrite (N0 _ _ Lc). reflexivity.
Qed.

(* ---------- a batch around the one event that names fd ---------- *)
Lemma batch_split_at pre e post w toks w' ys fd x :
  Inv w toks -> Calm w ->
  Forall (evt_live w) (pre ++ e :: post) -> NoDup (map ev_key (pre ++ e :: post)) -> ev_key e = KConn fd ->
  handle_all w (pre ++ e :: post) [] = inl (w', ys) -> alookup fd (w_conns w) = Some x ->
  exists w1 ys1 w2 ys2 ys3 toks1,
    handle_event w1 e = inl (w2, ys2) /\ ys = ys1 ++ ys2 ++ ys3 /\
    alookup fd (w_conns w1) = Some x /\ client_of w1 (sc_client x) = client_of w (sc_client x) /\
    Inv w1 toks1 /\ Calm w1 /\ evt_live w1 e /\ yields_of fd ys1 = [] /\ yields_of fd ys3 = [] /\
    (forall y, alookup fd (w_conns w2) = Some y ->
       alookup fd (w_conns w') = Some y /\ client_of w' (sc_client y) = client_of w2 (sc_client y)) /\
    Calm w' /\ exists toks', Inv w' toks'.
Proof.
  intros HI HC Hall Hnd Hk Hrun HL.
  rewrite handle_all_app in Hrun.
  apply Forall_app in Hall. destruct Hall as [Hpre Hrest]. inversion Hrest as [|? ? Hin_live Hpost]; subst.
  rewrite map_app in Hnd. cbn [map] in Hnd. rewrite Hk in Hnd.
  destruct (NoDup_app_split _ _ Hnd) as (Hnd_pre & Hnd_rest & Hdisj).
  inversion Hnd_rest as [|? ? Hnot_post Hnd_post]; subst.
  assert (Hnot_pre : ~ In (KConn fd) (map ev_key pre)).
  { intros Hin. apply (Hdisj _ Hin). left. reflexivity. }
  destruct (handle_all w pre []) as [[w1 ys1]|] eqn:Hp; [|discriminate].
  cbn [Server.handle_all] in Hrun.
  destruct (handle_event w1 e) as [[w2 ys2]|] eqn:Hin; [|discriminate].
  rewrite handle_all_acc in Hrun. destruct (handle_all w2 post []) as [[w3 ys3]|] eqn:Hq; [|discriminate].
  inversion Hrun; subst w3 ys; clear Hrun.
  destruct (untouched_batch BUF BUF_min BUF_u32 pre w toks [] w1 ys1 fd x HI HC Hpre Hnd_pre Hnot_pre Hp HL) as (L1 & C1 & HC1 & toks1 & HI1).
  assert (Live1 : evt_live w1 e).
  { apply (live_after_batch BUF BUF_min BUF_u32 pre w toks [] w1 ys1 e HI HC Hpre Hnd_pre); [rewrite Hk; exact Hnot_pre|exact Hp|exact Hin_live]. }
  destruct (live_event_progress BUF BUF_min BUF_u32 w1 toks1 e w2 ys2 HI1 HC1 Live1 Hin) as [HC2 _].
  assert (HI2 : Inv w2 (ytoks ys2 ++ toks1)).
  { destruct (handle_ok BUF BUF_min BUF_u32 w1 toks1 e HI1 (evt_live_ok _ _ Live1)) as [(w2' & ys2' & Hh' & I2 & _)|Hov].
    - intros ->. destruct Live1.
    - rewrite Hin in Hh'. inversion Hh'; subst. exact I2.
    - rewrite Hin in Hov. discriminate. }
  assert (Hpost2 : Forall (evt_live w2) post).
  { apply Forall_forall. intros e0 Hin0. rewrite Forall_forall in Hpost.
    assert (K0 : ev_key e0 <> ev_key e) by (rewrite Hk; intros E; apply Hnot_post; rewrite <- E; apply in_map; exact Hin0).
    assert (L0 : evt_live w1 e0).
    { apply (live_after_batch BUF BUF_min BUF_u32 pre w toks [] w1 ys1 e0 HI HC Hpre Hnd_pre); [|exact Hp|exact (Hpost _ Hin0)].
      intros Hin1. apply (Hdisj _ Hin1). right. apply in_map. exact Hin0. }
    apply (live_frame BUF BUF_min BUF_u32 w1 toks1 e w2 ys2 e0 HI1 HC1 Live1 Hin L0 K0). }
  exists w1, ys1, w2, ys2, ys3, toks1.
  split; [exact Hin|]. split; [rewrite app_assoc; reflexivity|]. split; [exact L1|]. split; [exact C1|]. split; [exact HI1|]. split; [exact HC1|].
  split; [exact Live1|]. split; [exact (other_batch_yields pre w w1 ys1 fd Hp Hnot_pre)|].
  split; [exact (other_batch_yields post w2 w' ys3 fd Hq Hnot_post)|].
  assert (Fin : Calm w' /\ exists toks', Inv w' toks').
  { destruct post as [|p0 pt].
    - cbn in Hq. inversion Hq; subst. eauto.
    - (* use untouched_batch on any existing connection is not needed: progress lemmas give Calm and Inv *)
      destruct (batch_progress BUF BUF_min BUF_u32 (p0 :: pt) w2 _ [] w' ys3 HI2 HC2 Hpost2 Hnd_post Hq) as [HCf _].
      split; [exact HCf|].
      assert (Hnk : ~ In KKill (map ev_key (p0 :: pt))).
      { intros Hin1. apply in_map_iff in Hin1. destruct Hin1 as (e1 & Hk1 & Hin1). rewrite Forall_forall in Hpost2.
        exact (evt_live_not_kill _ _ (Hpost2 _ Hin1) Hk1). }
      assert (Hok : Forall (evt_ok w2) (p0 :: pt)) by (eapply Forall_impl; [|exact Hpost2]; apply evt_live_ok).
      destruct (batch_ok BUF BUF_min BUF_u32 (p0 :: pt) w2 _ [] HI2 Hok Hnd_post Hnk) as [(w4 & ys4 & H4 & I4 & _)|Hov]; [|congruence].
      rewrite Hq in H4. inversion H4; subst. eauto. }
  split; [|exact Fin].
  intros y L2.
  destruct (untouched_batch BUF BUF_min BUF_u32 post w2 _ [] w' ys3 fd y HI2 HC2 Hpost2 Hnd_post Hnot_post Hq L2) as (L3 & C3 & _ & _).
  auto.
Qed.

(* the OUT event of fd in a batch: parser half, pending input and yields under fd untouched *)
Lemma batch_write_frame pre post w toks w' ys fd kk x :
  Inv w toks -> Calm w ->
  Forall (evt_live w) (pre ++ EvOut fd kk :: post) -> NoDup (map ev_key (pre ++ EvOut fd kk :: post)) ->
  handle_all w (pre ++ EvOut fd kk :: post) [] = inl (w', ys) -> alookup fd (w_conns w) = Some x ->
  yields_of fd ys = [] /\ Calm w' /\ (exists toks', Inv w' toks') /\
  exists y, alookup fd (w_conns w') = Some y /\ parser_same (sc_conn x) (sc_conn y) /\
    c_parsed (sc_conn y) = c_parsed (sc_conn x) /\ c_files (sc_conn y) = c_files (sc_conn x) /\
    c_pmax (sc_conn y) = c_pmax (sc_conn x) /\ sc_gid y = sc_gid x /\ sc_client y = sc_client x /\
    k_tosrv (client_of w' (sc_client x)) = k_tosrv (client_of w (sc_client x)).
Proof.
  intros HI HC Hall Hnd Hrun HL.
  destruct (batch_split_at pre (EvOut fd kk) post w toks w' ys fd x HI HC Hall Hnd eq_refl Hrun HL)
    as (w1 & ys1 & w2 & ys2 & ys3 & toks1 & Hin & -> & L1 & C1 & HI1 & HC1 & Live1 & Y1 & Y3 & After & HCf & HIf).
  destruct (write_event_frame w1 fd kk w2 ys2 x Hin L1) as (-> & y & L2 & PS & K1 & K2 & K3 & G & C & T).
  destruct (After y L2) as (L3 & C3).
  split; [rewrite !yields_of_app, Y1, Y3; reflexivity|]. split; [exact HCf|]. split; [exact HIf|].
  exists y. split; [exact L3|]. repeat (split; [assumption|]).
  rewrite <- C, C3, C, T, C1. reflexivity.
Qed.

(* the IN event of fd in a batch, when the bytes read are not rejected: everything about fd afterwards *)
Lemma batch_read_full pre post w toks w' ys fd kk x ph ph' carry outs :
  Inv w toks -> Calm w ->
  Forall (evt_live w) (pre ++ EvIn fd kk :: post) -> NoDup (map ev_key (pre ++ EvIn fd kk :: post)) ->
  handle_all w (pre ++ EvIn fd kk :: post) [] = inl (w', ys) ->
  alookup fd (w_conns w) = Some x -> CInv (sc_conn x) ph ->
  let c := sc_conn x in
  let t := k_tosrv (client_of w (sc_client x)) in
  let d := firstn (read_amount kk (BUF - length (c_win c)) (length t)) t in
  runT BUF (c_pmax c) ph (c_win c ++ d) [] = RMore ph' carry outs ->
  d <> [] /\
  yields_of fd ys = map (fun r => (fd, sc_gid x, r)) (c_parsed c ++ reqs_of outs (c_files c)) /\
  Calm w' /\ (exists toks', Inv w' toks') /\
  exists y, alookup fd (w_conns w') = Some y /\ sc_gid y = sc_gid x /\ sc_client y = sc_client x /\
    CInv (sc_conn y) ph' /\ c_win (sc_conn y) = carry /\ c_parsed (sc_conn y) = [] /\
    c_files (sc_conn y) = files_after outs (c_files c) /\ c_pmax (sc_conn y) = c_pmax c /\
    k_tosrv (client_of w' (sc_client x)) = skipn (length d) t.
Proof.
  intros HI HC Hall Hnd Hrun HL I. cbn zeta. intros HR.
  destruct (batch_split_at pre (EvIn fd kk) post w toks w' ys fd x HI HC Hall Hnd eq_refl Hrun HL)
    as (w1 & ys1 & w2 & ys2 & ys3 & toks1 & Hin & -> & L1 & C1 & HI1 & HC1 & Live1 & Y1 & Y3 & After & HCf & HIf).
  assert (Hne1 : k_tosrv (client_of w1 (sc_client x)) <> []).
  { destruct Live1 as (x1 & HLx & _ & Ht). rewrite L1 in HLx. inversion HLx; subst. exact Ht. }
  pose proof (server_read_exact BUF BUF_min BUF_u32 w1 toks1 fd kk w2 ys2 x ph HI1 L1 I Hne1 Hin) as SR. cbn zeta in SR.
  rewrite C1 in SR. rewrite HR in SR. destruct SR as (Hd & y & L2 & G & C & T & A1 & A2 & _ & A4 & A5 & A6 & A7).
  destruct (After y L2) as (L3 & C3).
  split; [exact Hd|]. split; [rewrite !yields_of_app, Y1, Y3, A4, app_nil_r; cbn [app]; apply yields_of_own|].
  split; [exact HCf|]. split; [exact HIf|].
  exists y. split; [exact L3|]. repeat (split; [assumption|]).
  rewrite <- C, C3, C. exact T.
Qed.

(* ---------- which event of the canonical batch names fd ---------- *)
Lemma conn_event_key w g x e : conn_event w g x = Some e -> ev_key e = KConn g.
Proof.
  unfold conn_event. destruct (k_hup _); [intros H; inversion H; reflexivity|].
  destruct (sc_out x); [intros H; inversion H; reflexivity|].
  destruct (k_tosrv _); [discriminate|intros H; inversion H; reflexivity].
Qed.

Lemma ready_event_of w fd x :
  NoDup (map fst (w_conns w)) -> alookup fd (w_conns w) = Some x ->
  match conn_event w fd x with
  | Some e => In e (ready_events w)
  | None => ~ In (KConn fd) (map ev_key (ready_events w))
  end.
Proof.
  intros Hnd HL. destruct (conn_event w fd x) as [e|] eqn:Ce.
  - unfold ready_events. apply in_or_app. right. apply in_or_app. left. apply in_flat_map.
    exists (fd, x). split; [apply alookup_some_in; exact HL|]. cbn [fst snd]. rewrite Ce. left. reflexivity.
  - unfold ready_events. rewrite !map_app. intros Hin. apply in_app_or in Hin. destruct Hin as [Hin|Hin].
    + destruct (w_killed w); cbn in Hin; [destruct Hin as [Hin|[]]; discriminate|destruct Hin].
    + apply in_app_or in Hin. destruct Hin as [Hin|Hin].
      * apply in_map_iff in Hin. destruct Hin as (e & Hk & Hin). apply in_flat_map in Hin.
        destruct Hin as ([g x'] & Hp & Hin). cbn [fst snd] in Hin.
        destruct (conn_event w g x') as [e'|] eqn:Ce'; [|destruct Hin]. destruct Hin as [<-|[]].
        rewrite (conn_event_key _ _ _ _ Ce') in Hk. inversion Hk; subst g.
        rewrite (alookup_in_nodup _ _ _ Hnd Hp) in HL. inversion HL; subst x'. congruence.
      * destruct (w_backlog w); cbn in Hin; [destruct Hin|destruct Hin as [Hin|[]]; discriminate].
Qed.

Lemma files_after_nil outs : files_after outs [] = [].
Proof. unfold files_after. destruct (has_request outs); reflexivity. Qed.

(* ---------- across polls: every request of the pending input exactly once, in order ---------- *)
Theorem drive_yields_exact : forall w toks acc fd x ph phF carryF outsF,
  Inv w toks -> Calm w -> alookup fd (w_conns w) = Some x -> CInv (sc_conn x) ph ->
  c_parsed (sc_conn x) = [] -> c_files (sc_conn x) = [] ->
  runT BUF (c_pmax (sc_conn x)) ph (c_win (sc_conn x) ++ k_tosrv (client_of w (sc_client x))) [] = RMore phF carryF outsF ->
  exists n, match drive BUF n w acc with
            | DQuiet w2 ys =>
                yields_of fd ys = yields_of fd acc ++ map (fun r => (fd, sc_gid x, r)) (reqs_of outsF []) /\
                exists x2, alookup fd (w_conns w2) = Some x2 /\ CInv (sc_conn x2) phF /\ c_win (sc_conn x2) = carryF /\
                           sc_gid x2 = sc_gid x /\ k_tosrv (client_of w2 (sc_client x)) = []
            | DOverflow => True
            | DFuel => False
            end.
Proof.
  intros w. remember (meas w) as m eqn:Em. revert w Em.
  induction m as [m IH] using (well_founded_induction lexlt_wf).
  intros w -> toks acc fd x ph phF carryF outsF HI HC HL I Hp0 Hf0 HR.
  pose proof (poll_outcomes BUF BUF_min BUF_u32 w toks HI) as PO.
  pose proof (ready_events_live BUF BUF_min BUF_u32 w toks HI HC) as Hlive.
  destruct (ready_events_ok BUF BUF_min BUF_u32 w toks HI) as [_ Hnd].
  destruct (poll BUF w) as [|w1 ys1|e] eqn:P.
  - (* quiescent: nothing is pending *)
    exists 1%nat. cbn [drive]. rewrite P.
    destruct (blocked_means_done BUF w toks HI HC PO) as (_ & Hdone). destruct (Hdone fd x HL) as (_ & _ & Ht).
    rewrite Ht, app_nil_r in HR. destruct I as [G St].
    rewrite (stuck_runT BUF _ _ _ [] St) in HR. inversion HR; subst phF carryF outsF.
    cbn [reqs_of map]. rewrite app_nil_r. split; [reflexivity|].
    exists x. split; [exact HL|]. split; [split; assumption|]. auto.
  - (* one more poll *)
    destruct (canonical_poll_progress BUF BUF_min BUF_u32 w toks w1 ys1 HI HC P) as (HC1 & HI1 & Hlt).
    assert (Step : exists x1 ph1 outs1,
              alookup fd (w_conns w1) = Some x1 /\ CInv (sc_conn x1) ph1 /\ c_parsed (sc_conn x1) = [] /\ c_files (sc_conn x1) = [] /\
              sc_gid x1 = sc_gid x /\ sc_client x1 = sc_client x /\
              runT BUF (c_pmax (sc_conn x1)) ph1 (c_win (sc_conn x1) ++ k_tosrv (client_of w1 (sc_client x1))) [] = RMore phF carryF outs1 /\
              yields_of fd ys1 ++ map (fun r => (fd, sc_gid x, r)) (reqs_of outs1 []) = map (fun r => (fd, sc_gid x, r)) (reqs_of outsF [])).
    { unfold poll, Server.poll_with in P.
      destruct (ready_events w) as [|e0 es0] eqn:Ere; [discriminate|]. rewrite <- Ere in *.
      destruct (handle_all w (ready_events w) []) as [[w1' ys1']|] eqn:Hh; [|discriminate].
      inversion P; subst w1 ys1; clear P.
      assert (Hsw : forall toksx, Inv w1' toksx -> Calm w1' -> sweep w1' = w1').
      { intros toksx Ix Cx. apply sweep_calm; [exact Cx|apply (inv_nodup _ _ _ Ix)]. }
      pose proof (ready_event_of w fd x (inv_nodup _ _ _ HI) HL) as RE.
      destruct (calm_conns _ HC _ _ HL) as (_ & _ & cl & Hcl).
      destruct (calm_clients _ HC _ _ Hcl) as (K1 & K2 & K3).
      unfold conn_event in RE. rewrite (client_of_lookup _ _ _ Hcl) in RE. unfold k_hup in RE. rewrite K1, K2 in RE. cbn [negb orb] in RE.
      destruct (sc_out x) eqn:So.
      + (* output pending on fd: nothing is read this time *)
        apply in_split in RE. destruct RE as (pre & post & Ere2). rewrite Ere2 in Hlive, Hnd, Hh.
        destruct (batch_write_frame pre post w toks w1' ys1' fd 0 x HI HC Hlive Hnd Hh HL)
          as (Y & HCb & (toksb & HIb) & y & L1 & PS & Kp & Kf & Km & G1 & C1 & T1).
        rewrite (Hsw toksb HIb HCb) in *.
        exists y, ph, outsF. split; [exact L1|]. split; [eapply CInv_parser_same; eauto|].
        split; [congruence|]. split; [congruence|]. split; [exact G1|]. split; [exact C1|].
        split; [|rewrite Y; reflexivity].
        destruct PS as (_ & Ew & _). rewrite Km, Ew, C1, T1. exact HR.
      + destruct (k_tosrv cl) as [|t0 ts] eqn:Kt.
        * (* nothing pending on fd: untouched *)
          assert (Hnk : ~ In KKill (map ev_key (ready_events w))).
          { intros Hin. apply in_map_iff in Hin. destruct Hin as (e1 & Hk1 & Hin). rewrite Forall_forall in Hlive.
            exact (evt_live_not_kill _ _ (Hlive _ Hin) Hk1). }
          destruct (untouched_batch BUF BUF_min BUF_u32 (ready_events w) w toks [] w1' ys1' fd x HI HC Hlive Hnd RE Hh HL)
            as (L1 & C1 & HCb & toksb & HIb).
          rewrite (Hsw toksb HIb HCb) in *.
          exists x, ph, outsF. split; [exact L1|]. split; [exact I|]. split; [exact Hp0|]. split; [exact Hf0|].
          split; [reflexivity|]. split; [reflexivity|]. split; [rewrite C1; exact HR|].
          rewrite (other_batch_yields (ready_events w) w w1' ys1' fd Hh RE). reflexivity.
        * (* input pending on fd: one read *)
          apply in_split in RE. destruct RE as (pre & post & Ere2). rewrite Ere2 in Hlive, Hnd, Hh.
          set (c := sc_conn x) in *. set (t := k_tosrv (client_of w (sc_client x))) in *.
          set (d := firstn (read_amount 0 (BUF - length (c_win c)) (length t)) t).
          assert (Et : t = d ++ skipn (length d) t).
          { unfold d. rewrite firstn_length. set (n := read_amount 0 (BUF - length (c_win c)) (length t)).
            assert (Hn : (n <= length t)%nat) by (unfold n, read_amount; cbn [Nat.eqb]; lia).
            rewrite Nat.min_l by exact Hn. symmetry. apply firstn_skipn. }
          assert (HR2 : runT BUF (c_pmax c) ph ((c_win c ++ d) ++ skipn (length d) t) [] = RMore phF carryF outsF).
          { rewrite <- app_assoc, <- Et. exact HR. }
          rewrite (runT_app' BUF (c_pmax c) ph (c_win c ++ d) (skipn (length d) t) []) in HR2.
          destruct (runT BUF (c_pmax c) ph (c_win c ++ d) []) as [ph' carry o|o e|] eqn:Rd; [|discriminate|discriminate].
          rewrite (runT_acc BUF (c_pmax c) (S (rank ph' (carry ++ skipn (length d) t))) ph' _ o) in HR2 by lia.
          destruct (runT BUF (c_pmax c) ph' (carry ++ skipn (length d) t) []) as [phx cx o'|? ?|] eqn:Rr; [|discriminate|discriminate].
          inversion HR2; subst phx cx outsF; clear HR2.
          destruct (batch_read_full pre post w toks w1' ys1' fd 0 x ph ph' carry o HI HC Hlive Hnd Hh HL I Rd)
            as (_ & Y & HCb & (toksb & HIb) & y & L1 & G1 & C1 & I1 & W1 & P1 & F1 & M1 & T1).
          rewrite (Hsw toksb HIb HCb) in *.
          exists y, ph', o'. split; [exact L1|]. split; [exact I1|]. split; [exact P1|].
          split; [rewrite F1; replace (c_files (sc_conn x)) with (@nil nat) by (symmetry; exact Hf0); apply files_after_nil|]. split; [exact G1|]. split; [exact C1|].
          split; [rewrite M1, W1, C1, T1; exact Rr|].
          rewrite Y. fold c. rewrite Hp0, Hf0. cbn [app].
          rewrite <- map_app. f_equal. rewrite reqs_of_app, files_after_nil. reflexivity. }
    destruct Step as (x1 & ph1 & outs1 & L1 & I1 & P1 & F1 & G1 & C1 & R1 & Y1).
    destruct (IH _ Hlt w1 eq_refl _ (acc ++ ys1) fd x1 ph1 phF carryF outs1 HI1 HC1 L1 I1 P1 F1 R1) as [n Hn].
    exists (S n). cbn [drive]. rewrite P.
    destruct (drive BUF n w1 (acc ++ ys1)) as [w2 ys2| |]; auto.
    destruct Hn as (Hy & x2 & L2 & I2 & W2 & G2 & T2).
    split.
    + rewrite Hy, yields_of_app, G1, <- app_assoc, Y1. reflexivity.
    + exists x2. split; [exact L2|]. split; [exact I2|]. split; [exact W2|]. split; [congruence|]. rewrite <- C1. exact T2.
  - exists 1%nat. cbn [drive]. rewrite P. exact Logic.I.
Qed.

End SY.

(* ---------- C11 at the server ---------- *)
Section SErr.
Variable BUF : nat.
Hypothesis BUF_min : (2 <= BUF)%nat.
Hypothesis BUF_u32 : N.of_nat BUF < U32_LIMIT.

(* a read whose bytes the parser rejects: nothing is yielded -- not the rejected request, not the requests
   completed earlier in the same read -- the 400 is queued, and the connection's parser is that of a new
   connection: waiting for a request line, empty window, nothing parsed, no descriptors, same limit *)
Theorem server_rejected_read w toks fd kk w' ys x ph outs e :
  Inv BUF w toks -> alookup fd (w_conns w) = Some x -> CInv BUF (sc_conn x) ph ->
  k_tosrv (client_of w (sc_client x)) <> [] ->
  handle_event BUF w (EvIn fd kk) = inl (w', ys) ->
  let c := sc_conn x in
  let t := k_tosrv (client_of w (sc_client x)) in
  let d := firstn (read_amount kk (BUF - length (c_win c)) (length t)) t in
  runT BUF (c_pmax c) ph (c_win c ++ d) [] = RErr outs e ->
  ys = [] /\
  exists y, alookup fd (w_conns w') = Some y /\ sc_gid y = sc_gid x /\ sc_client y = sc_client x /\
    CInv BUF (sc_conn y) PLine /\ c_win (sc_conn y) = [] /\ c_parsed (sc_conn y) = [] /\ c_files (sc_conn y) = [] /\
    c_pmax (sc_conn y) = c_pmax c /\
    unsent (sc_conn y) = unsent c ++ flat_map serialize (conts_of outs ++ [bad_request_response e]).
Proof.
  intros HI HL I Hne Hin. cbn zeta. intros HR.
  pose proof (server_read_exact BUF BUF_min BUF_u32 w toks fd kk w' ys x ph HI HL I Hne Hin) as SR. cbn zeta in SR.
  rewrite HR in SR. destruct SR as (_ & y & L & G & C & _ & A1 & A2 & A3 & A4 & A5 & A6 & A7).
  split; [exact A4|]. exists y. auto 12.
Qed.

(* and from such a state everything that follows is handled as by a new connection: polling while ready
   yields exactly the requests of the whole-stream parser started afresh on the input that follows *)
Theorem server_continues_as_new w toks acc fd x phF carryF outsF :
  Inv BUF w toks -> Calm w -> alookup fd (w_conns w) = Some x ->
  CInv BUF (sc_conn x) PLine -> c_win (sc_conn x) = [] -> c_parsed (sc_conn x) = [] -> c_files (sc_conn x) = [] ->
  parse_stream BUF (c_pmax (sc_conn x)) (k_tosrv (client_of w (sc_client x))) = RMore phF carryF outsF ->
  exists n, match drive BUF n w acc with
            | DQuiet w2 ys =>
                yields_of fd ys = yields_of fd acc ++ map (fun r => (fd, sc_gid x, r)) (reqs_of outsF []) /\
                exists x2, alookup fd (w_conns w2) = Some x2 /\ CInv BUF (sc_conn x2) phF /\ c_win (sc_conn x2) = carryF /\
                           sc_gid x2 = sc_gid x /\ k_tosrv (client_of w2 (sc_client x)) = []
            | DOverflow => True
            | DFuel => False
            end.
Proof.
  intros HI HC HL I Hw Hp Hf HR.
  apply (drive_yields_exact BUF BUF_min BUF_u32 w toks acc fd x PLine phF carryF outsF HI HC HL I Hp Hf).
  rewrite Hw. exact HR.
Qed.
End SErr.

(* non-vacuity: a client connects having sent two pipelined requests; after the accepting poll, polling while
   ready yields exactly those two requests, in order, once each, under the connection's descriptor *)
Definition wP : world :=
  Server.mkW [(0%nat, mkCl true false false
                 (B"GET /a HTTP/1.1" ++ CRLF ++ CRLF ++ B"PUT /b HTTP/1.0" ++ CRLF ++ B"Content-Length: 2" ++ CRLF ++ CRLF ++ B"hi") [] InBacklog)]
             [] [0%nat] [] 0 MAX_PAYLOAD_SIZE false.
Example two_requests_example :
  match poll 1024 wP with
  | PYield wQ _ =>
      match drive 1024 8 wQ [] with
      | DQuiet _ ys => map (fun y => rl_uri (r_line (snd y))) (yields_of 1 ys) = [B"/a"; B"/b"] /\ length ys = 2%nat
      | _ => False
      end
  | _ => False
  end.
Proof. vm_compute. split; reflexivity. Qed.
