(* C14, the converse: whenever the connection parser turns a byte slice into exactly one
   request with nothing left over, the one-shot parser accepts the slice with the same result --
   except for GET requests that declare a body, which only the one-shot parser rejects. *)
From MH Require Export proofs.Oneshot_proofs.

(* ---------- UTF-8: valid ++ anything ---------- *)
Lemma utf8_valid_app : forall n a b, (length a < n)%nat -> utf8_valid a = true -> utf8_valid (a ++ b) = utf8_valid b.
Proof.
  induction n as [|n IH]; intros a b Hn Ha; [lia|].
  destruct a as [|b0 r0]; [reflexivity|]. cbn [app]. cbn [utf8_valid] in Ha |- *.
  destruct (b0 <=? 127); [apply IH; [cbn in Hn; lia|exact Ha]|].
  destruct (in_range 194 223 b0).
  { destruct r0 as [|b1 r1]; [discriminate|]. cbn [app]. apply andb_true_iff in Ha. destruct Ha as [C V].
    rewrite C. cbn [andb]. apply IH; [cbn in Hn; lia|exact V]. }
  destruct (in_range 224 239 b0).
  { destruct r0 as [|b1 [|b2 r2]]; try discriminate. cbn [app].
    apply andb_true_iff in Ha. destruct Ha as [Ha V]. apply andb_true_iff in Ha. destruct Ha as [C1 C2].
    rewrite C1, C2. cbn [andb]. apply IH; [cbn in Hn; lia|exact V]. }
  destruct (in_range 240 244 b0); [|discriminate].
  destruct r0 as [|b1 [|b2 [|b3 r3]]]; try discriminate. cbn [app].
  apply andb_true_iff in Ha. destruct Ha as [Ha V]. apply andb_true_iff in Ha. destruct Ha as [Ha C3].
  apply andb_true_iff in Ha. destruct Ha as [C1 C2].
  rewrite C1, C2, C3. cbn [andb]. apply IH; [cbn in Hn; lia|exact V].
Qed.

Lemma utf8_valid_concat a b : utf8_valid a = true -> utf8_valid (a ++ b) = utf8_valid b.
Proof. apply (utf8_valid_app (S (length a))). lia. Qed.

Lemma tolerant_ok_utf8 h l h' : parse_header_tolerant h l = Ok h' -> utf8_valid l = true.
Proof.
  unfold parse_header_tolerant, parse_header_line. destruct (utf8_valid l); [reflexivity|discriminate].
Qed.

Lemma fold_lines_utf8 : forall hs h hd, fold_lines h hs = Ok hd -> Forall (fun l => utf8_valid l = true) hs.
Proof.
  induction hs as [|l r IH]; intros h hd H; [constructor|]. cbn [fold_lines] in H.
  destruct (parse_header_tolerant h l) as [h1|e] eqn:P; [|discriminate].
  constructor; [eapply tolerant_ok_utf8; eauto|eapply IH; eauto].
Qed.

Lemma join_utf8 hs : Forall (fun l => utf8_valid l = true) hs -> utf8_valid (join_crlf hs) = true.
Proof.
  induction hs as [|x r IH]; intros H; [reflexivity|]. inversion H; subst.
  destruct r as [|y r']; [assumption|].
  assert (Hne : y :: r' <> []) by discriminate. rewrite (join_crlf_cons x (y :: r') Hne).
  rewrite utf8_valid_concat by assumption. cbn [CRLF app utf8_valid]. apply IH. assumption.
Qed.

(* ---------- split("\r\n") of a join ---------- *)
Lemma find_crlf_has x y : exists i, find_crlf (x ++ CRLF ++ y) = Some i.
Proof.
  induction x as [|c x IH]; [exists 0%nat; reflexivity|].
  cbn [app]. rewrite find_crlf_cons. destruct (starts_crlf (c :: x ++ CRLF ++ y)); [eauto|].
  destruct IH as [i ->]. cbn. eauto.
Qed.

Lemma split_aux_cons2 cur a b t :
  split_crlf_aux cur (a :: b :: t) =
  if (a =? CR) && (b =? LF) then rev cur :: split_crlf_aux [] t else split_crlf_aux (a :: cur) (b :: t).
Proof. reflexivity. Qed.
Lemma split_aux_one cur a : split_crlf_aux cur [a] = [rev (a :: cur)].
Proof. reflexivity. Qed.
Lemma split_aux_nil cur : split_crlf_aux cur [] = [rev cur].
Proof. reflexivity. Qed.

Lemma split_aux_nocrlf : forall n l cur, (length l < n)%nat -> find_crlf (rev cur ++ l) = None ->
  split_crlf_aux cur l = [rev cur ++ l].
Proof.
  induction n as [|n IH]; intros l cur Hn H; [lia|].
  destruct l as [|a [|b t']].
  - rewrite split_aux_nil, app_nil_r. reflexivity.
  - rewrite split_aux_one. reflexivity.
  - rewrite split_aux_cons2. destruct ((a =? CR) && (b =? LF)) eqn:E.
    + apply andb_true_iff in E. destruct E as [E1 E2]. apply N.eqb_eq in E1, E2. subst.
      destruct (find_crlf_has (rev cur) t') as [i Hi]. cbn [CRLF app] in Hi. congruence.
    + rewrite IH; [cbn [rev]; rewrite <- app_assoc; reflexivity|cbn in Hn |- *; lia|].
      cbn [rev]. rewrite <- app_assoc. exact H.
Qed.

Lemma split_aux_crlf : forall l cur rest, find_crlf (rev cur ++ l ++ [CR]) = None ->
  split_crlf_aux cur (l ++ CRLF ++ rest) = (rev cur ++ l) :: split_crlf_aux [] rest.
Proof.
  induction l as [|a l' IH]; intros cur rest H.
  - cbn [app CRLF]. rewrite split_aux_cons2. rewrite !N.eqb_refl. cbn [andb]. rewrite app_nil_r. reflexivity.
  - assert (Hstep : split_crlf_aux cur ((a :: l') ++ CRLF ++ rest) = split_crlf_aux (a :: cur) (l' ++ CRLF ++ rest)).
    { cbn [app]. destruct l' as [|b l''].
      - cbn [app CRLF]. rewrite split_aux_cons2. change (CR =? LF) with false. rewrite andb_false_r. reflexivity.
      - cbn [app]. rewrite split_aux_cons2. destruct ((a =? CR) && (b =? LF)) eqn:E; [|reflexivity].
        apply andb_true_iff in E. destruct E as [E1 E2]. apply N.eqb_eq in E1, E2. subst.
        destruct (find_crlf_has (rev cur) (l'' ++ [CR])) as [i Hi]. cbn [CRLF app] in Hi, H. congruence. }
    rewrite Hstep. rewrite IH.
    + cbn [rev]. rewrite <- app_assoc. reflexivity.
    + cbn [rev]. rewrite <- app_assoc. exact H.
Qed.

Lemma find_crlf_drop_cr x : find_crlf (x ++ [CR]) = None -> find_crlf x = None.
Proof.
  intros H. destruct (find_crlf x) as [i|] eqn:E; [|reflexivity].
  rewrite (find_crlf_app_some _ [CR] _ E) in H. discriminate.
Qed.

Lemma split_join : forall hs, hs <> [] -> Forall (fun l => find_crlf (l ++ [CR]) = None) hs ->
  split_crlf (join_crlf hs) = hs.
Proof.
  induction hs as [|x r IH]; intros Hne H; [congruence|]. inversion H as [|? ? Hx Hr]; subst.
  destruct r as [|y r'].
  - cbn [join_crlf]. unfold split_crlf. rewrite (split_aux_nocrlf (S (length x)) x []) by (try lia; apply find_crlf_drop_cr; exact Hx).
    reflexivity.
  - assert (Hn2 : y :: r' <> []) by discriminate. rewrite (join_crlf_cons x (y :: r') Hn2).
    unfold split_crlf. rewrite (split_aux_crlf x [] (join_crlf (y :: r')) Hx). cbn [rev app].
    f_equal. apply (IH Hn2 Hr).
Qed.

(* ---------- where the first CRLFCRLF is ---------- *)
Lemma option_map_id {A} (o : option A) : option_map (fun i => i) o = o.
Proof. destruct o; reflexivity. Qed.

Lemma find_skip p : forall a w, (forall k, (k < length a)%nat -> prefixb p (skipn k (a ++ w)) = false) ->
  find p (a ++ w) = option_map (fun i => (length a + i)%nat) (find p w).
Proof.
  induction a as [|c a IH]; intros w H.
  - cbn. symmetry. apply option_map_id.
  - cbn [app find]. pose proof (H 0%nat ltac:(cbn; lia)) as H0. cbn [skipn app] in H0. rewrite H0. rewrite IH.
    + destruct (find p w); reflexivity.
    + intros k Hk. apply (H (S k)). cbn. lia.
Qed.

Lemma cc_two w : prefixb CRLFCRLF w = starts_crlf w && starts_crlf (skipn 2 w).
Proof.
  unfold starts_crlf, CRLFCRLF, CRLF. destruct w as [|a [|b [|c [|d t]]]]; cbn [prefixb skipn];
    rewrite ?andb_false_r; try reflexivity. rewrite !andb_true_r. rewrite andb_assoc. reflexivity.
Qed.

Lemma starts_none : forall y, find_crlf y = None -> forall k, starts_crlf (skipn k y) = false.
Proof.
  induction y as [|a t IH]; intros H k.
  - rewrite skipn_nil. reflexivity.
  - rewrite find_crlf_cons in H. destruct (starts_crlf (a :: t)) eqn:S0; [discriminate|].
    destruct (find_crlf t) eqn:F; [discriminate|]. destruct k; [exact S0|]. cbn [skipn]. apply IH. reflexivity.
Qed.

Lemma starts_two u t : u <> [] -> starts_crlf (u ++ CR :: t) = starts_crlf (u ++ [CR]).
Proof. destruct u as [|a [|b u']]; [congruence|reflexivity|reflexivity]. Qed.

Lemma skip_piece x rest : x <> [] -> find_crlf (x ++ [CR]) = None ->
  find CRLFCRLF (CRLF ++ x ++ CRLF ++ rest) = option_map (fun i => (length x + 2 + i)%nat) (find CRLFCRLF (CRLF ++ rest)).
Proof.
  intros Hne Hx.
  assert (Hreg : forall j, (j < length x)%nat -> starts_crlf (skipn j (x ++ CRLF ++ rest)) = false).
  { intros j Hj. rewrite skipn_app. replace (j - length x)%nat with 0%nat by lia. cbn [skipn CRLF app].
    assert (Hu : skipn j x <> []).
    { intros E. apply (f_equal (@length N)) in E. rewrite skipn_length in E. cbn in E. lia. }
    rewrite (starts_two _ _ Hu).
    pose proof (starts_none _ Hx j) as Hs. rewrite skipn_app in Hs.
    replace (j - length x)%nat with 0%nat in Hs by lia. exact Hs. }
  replace (CRLF ++ x ++ CRLF ++ rest) with ((CRLF ++ x) ++ CRLF ++ rest) by (rewrite <- app_assoc; reflexivity).
  rewrite find_skip.
  - rewrite app_length. cbn [length CRLF]. destruct (find CRLFCRLF (CRLF ++ rest)); cbn; [f_equal; lia|reflexivity].
  - intros k Hk. rewrite app_length in Hk. cbn [length CRLF] in Hk. rewrite cc_two.
    rewrite <- app_assoc.
    destruct k as [|[|k]].
    + pose proof (Hreg 0%nat ltac:(destruct x; [congruence|cbn; lia])) as H0. cbn [skipn CRLF app] in H0 |- *.
      rewrite H0. apply andb_false_r.
    + cbn [skipn CRLF app]. unfold starts_crlf at 1. unfold CRLF. cbn [prefixb]. change (CR =? LF) with false. reflexivity.
    + change (skipn (S (S k)) (CRLF ++ x ++ CRLF ++ rest)) with (skipn k (x ++ CRLF ++ rest)).
      rewrite (Hreg k ltac:(lia)). reflexivity.
Qed.

Lemma cc_position : forall hs body, hs <> [] ->
  Forall (fun l => l <> [] /\ find_crlf (l ++ [CR]) = None) hs ->
  find CRLFCRLF (CRLF ++ join_crlf hs ++ CRLFCRLF ++ body) = Some (length (join_crlf hs) + 2)%nat.
Proof.
  induction hs as [|x r IH]; intros body Hne H; [congruence|]. inversion H as [|? ? [Hx1 Hx2] Hr]; subst.
  destruct r as [|y r'].
  - cbn [join_crlf]. change (CRLFCRLF ++ body) with (CRLF ++ CRLF ++ body). rewrite (skip_piece x _ Hx1 Hx2).
    change (find CRLFCRLF (CRLF ++ CRLF ++ body)) with (Some 0%nat). cbn. f_equal. lia.
  - assert (Hn2 : y :: r' <> []) by discriminate. rewrite (join_crlf_cons x (y :: r') Hn2).
    rewrite <- !app_assoc. rewrite (skip_piece x _ Hx1 Hx2). rewrite (IH body Hn2 Hr). cbn.
    f_equal. rewrite !app_length. cbn [length CRLF]. lia.
Qed.

(* ---------- the theorem ---------- *)
Section Conv.
Variable BUF : nat.
Hypothesis BUF_min : (2 <= BUF)%nat.
Variable L : N.

Lemma reqline_min_length rlb rl : parse_reqline rlb = Ok rl -> (reqline_min_len <= length rlb)%nat.
Proof.
  intros H. apply reqline_accept_iff in H. destruct H as (-> & Hne & _ & _).
  rewrite app_length. cbn [length]. rewrite app_length. cbn [length].
  destruct (rl_uri rl) as [|u0 u']; [congruence|]. cbn [length].
  unfold reqline_min_len. destruct (rl_method rl), (rl_version rl); cbn; lia.
Qed.

(* bs is exactly one well-formed request, as the connection parser sees it *)
Definition exactly_one (bs : bytes) (rl : request_line) (hd : headers) (b : option bytes) : Prop :=
  exists rlb hs body,
    bs = rlb ++ CRLF ++ Grammar_proofs.with_crlf hs ++ CRLF ++ body /\
    parse_reqline rlb = Ok rl /\ line_ok BUF rlb /\
    Forall (fun l => l <> [] /\ line_ok BUF l) hs /\ fold_lines headers_default hs = Ok hd /\
    h_content_length hd <= L /\ lenN body = h_content_length hd /\ b = delivered_body hd body.

Theorem conn_implies_oneshot bs rl hd b :
  exactly_one bs rl hd b ->
  request_try_from bs None =
    if negb (h_content_length hd =? 0) && method_eqb (rl_method rl) Get then OErr InvalidRequest
    else OOk rl hd b.
Proof.
  intros (rlb & hs & body & -> & Prl & [Hr1 Hr2] & Hall & Hf & Hlim & Hlen & ->).
  unfold request_try_from.
  assert (F : find_crlf (rlb ++ CRLF ++ Grammar_proofs.with_crlf hs ++ CRLF ++ body) = Some (length rlb))
    by (apply find_crlf_at_end; exact Hr1).
  rewrite F. unfold slice_to, slice_from.
  assert (E1 : (length rlb <=? length (rlb ++ CRLF ++ Grammar_proofs.with_crlf hs ++ CRLF ++ body))%nat = true)
    by (apply Nat.leb_le; rewrite app_length; lia). rewrite E1.
  rewrite firstn_app_exact.
  assert (Emin : (length rlb <? reqline_min_len)%nat = false)
    by (apply Nat.ltb_ge; eapply reqline_min_length; eauto). rewrite Emin. rewrite Prl.
  rewrite skipn_app_exact.
  assert (E3 : (length rlb + 2 <=? length (rlb ++ CRLF ++ Grammar_proofs.with_crlf hs ++ CRLF ++ body))%nat = true)
    by (apply Nat.leb_le; rewrite !app_length; cbn [length CRLF]; lia). rewrite E3.
  assert (S3 : skipn (length rlb + 2) (rlb ++ CRLF ++ Grammar_proofs.with_crlf hs ++ CRLF ++ body)
               = Grammar_proofs.with_crlf hs ++ CRLF ++ body).
  { rewrite skipn_app. rewrite skipn_all2 by lia. replace (length rlb + 2 - length rlb)%nat with 2%nat by lia. reflexivity. }
  rewrite S3.
  destruct hs as [|x r].
  - (* no header lines *)
    cbn [Grammar_proofs.with_crlf flat_map app] in *. inversion Hf; subst hd.
    change (find CRLFCRLF (CRLF ++ CRLF ++ body)) with (Some 0%nat). cbn.
    assert (body = []) by (destruct body; [reflexivity|unfold lenN in Hlen; cbn in Hlen; lia]). subst. reflexivity.
  - set (hs := x :: r) in *. assert (Hne : hs <> []) by discriminate.
    assert (Hall' : Forall (fun l => l <> [] /\ find_crlf (l ++ [CR]) = None) hs).
    { rewrite Forall_forall in *. intros l Hl. destruct (Hall l Hl) as [A1 [A2 _]]. auto. }
    rewrite with_crlf_join by exact Hne. rewrite <- !app_assoc.
    change (CRLF ++ CRLF ++ body) with (CRLFCRLF ++ body).
    rewrite (cc_position hs body Hne Hall').
    set (j := length (join_crlf hs)).
    replace (j + 2)%nat with (S (S j)) by lia. cbv beta iota.
    assert (E4 : (S (S j) <? 2)%nat = false) by (apply Nat.ltb_ge; lia). rewrite E4.
    replace (S (S j) - 2)%nat with j by lia.
    assert (E5 : (j <=? length (join_crlf hs ++ CRLFCRLF ++ body))%nat = true)
      by (apply Nat.leb_le; rewrite app_length; unfold j; lia). rewrite E5.
    unfold j. rewrite firstn_app_exact.
    (* the header block parses to the same headers *)
    assert (Hblk : headers_try_from (join_crlf hs) = Ok hd).
    { unfold headers_try_from. rewrite (join_utf8 hs (fold_lines_utf8 _ _ _ Hf)).
      rewrite split_join; [|exact Hne|].
      - rewrite headers_fold_no_empty; [exact Hf|].
        intros Hin. rewrite Forall_forall in Hall. destruct (Hall [] Hin) as [A _]. congruence.
      - rewrite Forall_forall in *. intros l Hl. apply (Hall' l Hl). }
    rewrite Hblk. unfold delivered_body.
    destruct (h_content_length hd =? 0) eqn:Z; [reflexivity|]. cbn [negb andb].
    destruct (method_eqb (rl_method rl) Get); [reflexivity|].
    assert (E6 : (length (join_crlf hs ++ CRLFCRLF ++ body) <? length (join_crlf hs) + 4)%nat = false)
      by (apply Nat.ltb_ge; rewrite !app_length; cbn [length CRLFCRLF]; lia). rewrite E6.
    assert (Lb : (length (join_crlf hs ++ CRLFCRLF ++ body) - (length (join_crlf hs) + 4))%nat = length body)
      by (rewrite !app_length; cbn [length CRLFCRLF]; lia). rewrite Lb.
    assert (E7 : (N.of_nat (length body) <? h_content_length hd) = false)
      by (apply N.ltb_ge; unfold lenN in Hlen; lia). rewrite E7.
    assert (E8 : (length (join_crlf hs) + 4 <=? length (join_crlf hs ++ CRLFCRLF ++ body))%nat = true)
      by (apply Nat.leb_le; rewrite !app_length; cbn [length CRLFCRLF]; lia). rewrite E8.
    assert (S8 : skipn (length (join_crlf hs) + 4) (join_crlf hs ++ CRLFCRLF ++ body) = body).
    { rewrite skipn_app. rewrite skipn_all2 by lia.
      replace (length (join_crlf hs) + 4 - length (join_crlf hs))%nat with 4%nat by lia. reflexivity. }
    rewrite S8. assert (E9 : (lenN body =? h_content_length hd) = true) by (apply N.eqb_eq; exact Hlen).
    rewrite E9. reflexivity.
Qed.

End Conv.
