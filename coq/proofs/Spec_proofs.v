(* ConnSpec: one [step] on a window is stable under appending more bytes, hence parsing a
   stream in one go equals parsing it in any sequence of chunks (the core of C01). *)
From MH Require Export model.ConnSpec proofs.Bytes_proofs.

(* ---------- find_crlf ---------- *)
Definition starts_crlf (l : bytes) : bool := prefixb CRLF l.

Lemma find_crlf_cons a t :
  find_crlf (a :: t) = if starts_crlf (a :: t) then Some 0%nat else option_map S (find_crlf t).
Proof. reflexivity. Qed.

Lemma starts_crlf_len l : starts_crlf l = true -> (2 <= length l)%nat.
Proof. destruct l as [|a [|b t]]; cbn; try discriminate; try lia; try (rewrite andb_false_r; discriminate). Qed.

Lemma starts_crlf_app l b : starts_crlf l = true -> starts_crlf (l ++ b) = true.
Proof.
  destruct l as [|x [|y t]]; cbn; try discriminate; auto; try (rewrite andb_false_r; discriminate).
Qed.

Lemma starts_crlf_app_inv l b : (2 <= length l)%nat -> starts_crlf (l ++ b) = starts_crlf l.
Proof. destruct l as [|x [|y t]]; cbn; intros; try lia. reflexivity. Qed.

Lemma find_crlf_bound l i : find_crlf l = Some i -> (i + 2 <= length l)%nat.
Proof.
  revert i; induction l as [|a t IH]; intros i H; [discriminate|].
  rewrite find_crlf_cons in H. destruct (starts_crlf (a :: t)) eqn:Hs.
  - inversion H; subst. apply starts_crlf_len in Hs. lia.
  - destruct (find_crlf t) as [j|]; [|discriminate]. cbn in H; inversion H; subst.
    specialize (IH j eq_refl). cbn [length]. lia.
Qed.

Lemma find_crlf_app_some a b i : find_crlf a = Some i -> find_crlf (a ++ b) = Some i.
Proof.
  revert i; induction a as [|x t IH]; intros i H; [discriminate|].
  rewrite find_crlf_cons in H. rewrite <- app_comm_cons, find_crlf_cons.
  destruct (starts_crlf (x :: t)) eqn:Hs.
  - rewrite app_comm_cons. rewrite (starts_crlf_app _ b Hs). exact H.
  - destruct (find_crlf t) as [j|] eqn:E; [|discriminate]. cbn in H; inversion H; subst.
    rewrite (IH j eq_refl).
    pose proof (find_crlf_bound _ _ E) as Hb.
    rewrite app_comm_cons. rewrite starts_crlf_app_inv by (cbn [length]; lia). rewrite Hs. reflexivity.
Qed.

(* the first CRLF of a ++ b when a has none: it starts at the last byte of a or inside b *)
Lemma find_crlf_none_prefix a i : find_crlf a = Some i -> forall k, (k < i)%nat -> starts_crlf (skipn k a) = false.
Proof.
  revert i; induction a as [|x t IH]; intros i H k Hk; [discriminate|].
  rewrite find_crlf_cons in H. destruct (starts_crlf (x :: t)) eqn:Hs.
  - inversion H; subst. lia.
  - destruct (find_crlf t) as [j|] eqn:E; [|discriminate]. cbn in H; inversion H; subst.
    destruct k as [|k]; [exact Hs|]. cbn [skipn]. apply (IH j eq_refl). lia.
Qed.

Lemma firstn_app_le {A} (n : nat) (a b : list A) : (n <= length a)%nat -> firstn n (a ++ b) = firstn n a.
Proof. intros H. rewrite firstn_app. replace (n - length a)%nat with 0%nat by lia. cbn. apply app_nil_r. Qed.

Lemma skipn_app_le {A} (n : nat) (a b : list A) : (n <= length a)%nat -> skipn n (a ++ b) = skipn n a ++ b.
Proof. intros H. rewrite skipn_app. replace (n - length a)%nat with 0%nat by lia. reflexivity. Qed.

Section Spec.
Variable BUF : nat.
Variable L : N.

Notation take_line := (take_line BUF).
Notation step := (step BUF L).
Notation run := (run BUF L).
Notation runT := (runT BUF L).
Notation feed := (feed BUF L).

(* ---------- take_line is stable under appending ---------- *)
Lemma take_line_line a b l rest :
  take_line a = LLine l rest -> take_line (a ++ b) = LLine l (rest ++ b).
Proof.
  unfold ConnSpec.take_line. destruct (find_crlf (firstn BUF a)) as [i|] eqn:E.
  - intros H; inversion H; subst; clear H.
    rewrite firstn_app. rewrite (find_crlf_app_some _ _ _ E).
    pose proof (find_crlf_bound _ _ E) as Hb. rewrite firstn_length in Hb.
    rewrite firstn_app_le by lia. rewrite skipn_app_le by lia. reflexivity.
  - destruct (BUF <=? length a)%nat; discriminate.
Qed.

Lemma take_line_toolong a b :
  take_line a = LTooLong -> take_line (a ++ b) = LTooLong /\ firstn BUF (a ++ b) = firstn BUF a.
Proof.
  unfold ConnSpec.take_line. destruct (find_crlf (firstn BUF a)) as [i|] eqn:E; [discriminate|].
  destruct (BUF <=? length a)%nat eqn:Hl; [|discriminate]. intros _.
  apply Nat.leb_le in Hl. rewrite firstn_app_le by lia. rewrite E.
  rewrite app_length. destruct (BUF <=? length a + length b)%nat eqn:L2; [auto|].
  apply Nat.leb_gt in L2; lia.
Qed.

Lemma take_line_shrinks w l rest : take_line w = LLine l rest -> (length rest + 2 <= length w)%nat.
Proof.
  unfold ConnSpec.take_line. destruct (find_crlf (firstn BUF w)) as [i|] eqn:E.
  - intros H; inversion H; subst. pose proof (find_crlf_bound _ _ E) as Hb.
    rewrite firstn_length in Hb. rewrite skipn_length. lia.
  - destruct (BUF <=? length w)%nat; discriminate.
Qed.

(* ---------- step is stable under appending ---------- *)
Lemma lenN_app a b : lenN (a ++ b) = lenN a + lenN b.
Proof. unfold lenN. rewrite app_length. lia. Qed.

Lemma step_done ph a b ph' rest o :
  step ph a = SDone ph' rest o -> step ph (a ++ b) = SDone ph' (rest ++ b) o.
Proof.
  destruct ph as [|rl h|rl h acc lft]; cbn [ConnSpec.step].
  - destruct (take_line a) as [l r| |] eqn:T; try discriminate.
    rewrite (take_line_line _ b _ _ T).
    destruct (parse_reqline l); [|discriminate]. intros H; inversion H; subst; reflexivity.
  - destruct (take_line a) as [l r| |] eqn:T; try discriminate.
    rewrite (take_line_line _ b _ _ T).
    destruct l as [|x l'].
    + destruct (h_content_length h =? 0); [intros H; inversion H; subst; reflexivity|].
      destruct (L <? h_content_length h); [discriminate|].
      intros H; inversion H; subst; reflexivity.
    + destruct (parse_header_tolerant h (x :: l')); [|discriminate]. intros H; inversion H; subst; reflexivity.
  - destruct (lft <=? lenN a) eqn:Hl; [|discriminate].
    apply N.leb_le in Hl. intros H; inversion H; subst; clear H.
    assert (Hl2 : (lft <=? lenN (a ++ b)) = true) by (apply N.leb_le; rewrite lenN_app; lia).
    rewrite Hl2. unfold lenN in Hl.
    rewrite firstn_app_le, skipn_app_le by lia. reflexivity.
Qed.

Lemma step_err ph a b e : step ph a = SErr e -> step ph (a ++ b) = SErr e.
Proof.
  destruct ph as [|rl h|rl h acc lft]; cbn [ConnSpec.step].
  - destruct (take_line a) as [l r| |] eqn:T; try discriminate.
    + rewrite (take_line_line _ b _ _ T). destruct (parse_reqline l); [discriminate|auto].
    + destruct (take_line_toolong _ b T) as [T2 _]. rewrite T2; auto.
  - destruct (take_line a) as [l r| |] eqn:T; try discriminate.
    + rewrite (take_line_line _ b _ _ T). destruct l as [|x l'].
      * destruct (h_content_length h =? 0); [discriminate|].
        destruct (L <? h_content_length h); [auto|discriminate].
      * destruct (parse_header_tolerant h (x :: l')); [discriminate|auto].
    + destruct (take_line_toolong _ b T) as [T2 F]. rewrite T2, F; auto.
  - destruct (lft <=? lenN a); discriminate.
Qed.

Lemma step_more ph a b ph' c :
  step ph a = SMore ph' c -> step ph (a ++ b) = step ph' (c ++ b).
Proof.
  destruct ph as [|rl h|rl h acc lft]; cbn [ConnSpec.step].
  - destruct (take_line a) as [l r| |] eqn:T; try discriminate.
    + destruct (parse_reqline l); discriminate.
    + intros H; inversion H; subst; reflexivity.
  - destruct (take_line a) as [l r| |] eqn:T; try discriminate.
    + destruct l as [|x l'].
      * destruct (h_content_length h =? 0); [discriminate|]. destruct (L <? h_content_length h); discriminate.
      * destruct (parse_header_tolerant h (x :: l')); discriminate.
    + intros H; inversion H; subst; reflexivity.
  - destruct (lft <=? lenN a) eqn:Hl; [discriminate|]. apply N.leb_gt in Hl.
    intros H; inversion H; subst; clear H. cbn [app ConnSpec.step].
    rewrite lenN_app.
    destruct (lft <=? lenN a + lenN b) eqn:L2; destruct (lft - lenN a <=? lenN b) eqn:L3;
      try apply N.leb_le in L2; try apply N.leb_le in L3;
      try apply N.leb_gt in L2; try apply N.leb_gt in L3; try lia.
    + unfold lenN in *. rewrite skipn_app, firstn_app.
      rewrite (skipn_all2 a) by lia. rewrite (firstn_all2 a) by lia.
      rewrite <- !app_assoc. cbn [app].
      replace (N.to_nat lft - length a)%nat with (N.to_nat (lft - N.of_nat (length a))) by lia.
      reflexivity.
    + rewrite <- app_assoc. replace (lft - lenN a - lenN b) with (lft - (lenN a + lenN b)) by lia. reflexivity.
Qed.

(* ---------- run: fuel monotonicity and sufficiency ---------- *)
Lemma run_mono fuel : forall ph w acc r,
  run fuel ph w acc = r -> r <> ROutOfFuel -> forall k, run (fuel + k) ph w acc = r.
Proof.
  induction fuel as [|f IH]; intros ph w acc r H Hr k; cbn in H; [congruence|].
  cbn [Nat.add ConnSpec.run]. destruct (step ph w) as [ph' rest o|ph' c|e]; auto.
Qed.

Lemma step_rank ph w ph' rest o : step ph w = SDone ph' rest o -> (rank ph' rest < rank ph w)%nat.
Proof.
  destruct ph as [|rl h|rl h acc lft]; cbn [ConnSpec.step].
  - destruct (take_line w) as [l r| |] eqn:T; try discriminate.
    destruct (parse_reqline l); [|discriminate]. intros H; inversion H; subst.
    apply take_line_shrinks in T. unfold rank; lia.
  - destruct (take_line w) as [l r| |] eqn:T; try discriminate.
    apply take_line_shrinks in T.
    destruct l as [|x l'].
    + destruct (h_content_length h =? 0); [intros H; inversion H; subst; unfold rank; lia|].
      destruct (L <? h_content_length h); [discriminate|].
      intros H; inversion H; subst. unfold rank. destruct (h_content_length h); lia.
    + destruct (parse_header_tolerant h (x :: l')); [|discriminate]. intros H; inversion H; subst. unfold rank; lia.
  - destruct (lft <=? lenN w) eqn:Hl; [|discriminate]. apply N.leb_le in Hl. unfold lenN in Hl.
    intros H; inversion H; subst. unfold rank. rewrite skipn_length. destruct lft; lia.
Qed.

Lemma run_enough fuel : forall ph w acc, (rank ph w < fuel)%nat -> run fuel ph w acc <> ROutOfFuel.
Proof.
  induction fuel as [|f IH]; intros ph w acc H; [lia|].
  cbn [ConnSpec.run]. destruct (step ph w) as [ph' rest o|ph' c|e] eqn:St; try discriminate.
  apply IH. apply step_rank in St. lia.
Qed.

Lemma runT_unfold ph w acc :
  runT ph w acc =
  match step ph w with
  | SDone ph' rest o => runT ph' rest (acc ++ o)
  | SMore ph' c => RMore ph' c acc
  | SErr e => RErr acc e
  end.
Proof.
  unfold ConnSpec.runT at 1. cbn [ConnSpec.run]. destruct (step ph w) as [ph' rest o|ph' c|e] eqn:St; auto.
  pose proof (step_rank _ _ _ _ _ St) as Hr.
  replace (rank ph w) with (S (rank ph' rest) + (rank ph w - S (rank ph' rest)))%nat by lia.
  apply run_mono; [reflexivity|]. apply run_enough; lia.
Qed.

Lemma runT_not_out_of_fuel ph w acc : runT ph w acc <> ROutOfFuel.
Proof. unfold ConnSpec.runT. apply run_enough. lia. Qed.

(* the accumulator is only ever extended *)
Lemma runT_acc : forall n ph w acc, (rank ph w < n)%nat ->
  runT ph w acc = match runT ph w [] with
                  | RMore ph' c o => RMore ph' c (acc ++ o)
                  | RErr o e => RErr (acc ++ o) e
                  | ROutOfFuel => ROutOfFuel
                  end.
Proof.
  induction n as [|n IH]; intros ph w acc Hn; [lia|].
  rewrite (runT_unfold ph w acc), (runT_unfold ph w []).
  destruct (step ph w) as [ph' rest o|ph' c|e] eqn:St; try (rewrite app_nil_r; reflexivity).
  pose proof (step_rank _ _ _ _ _ St) as Hr.
  rewrite (IH ph' rest (acc ++ o)) by lia. rewrite (IH ph' rest ([] ++ o)) by lia.
  destruct (runT ph' rest []); cbn [app]; rewrite ?app_assoc; reflexivity.
Qed.

(* ---------- batch = incremental ---------- *)
Theorem runT_app : forall n ph a b acc, (rank ph a < n)%nat ->
  runT ph (a ++ b) acc =
  match runT ph a acc with
  | RMore ph' c o => runT ph' (c ++ b) o
  | RErr o e => RErr o e
  | ROutOfFuel => ROutOfFuel
  end.
Proof.
  induction n as [|n IH]; intros ph a b acc Hn; [lia|].
  rewrite (runT_unfold ph a). rewrite (runT_unfold ph (a ++ b)).
  destruct (step ph a) as [ph' rest o|ph' c|e] eqn:St.
  - rewrite (step_done _ _ b _ _ _ St). apply IH. apply step_rank in St. lia.
  - rewrite (step_more _ _ b _ _ St). rewrite <- runT_unfold. reflexivity.
  - rewrite (step_err _ _ b _ St). reflexivity.
Qed.

Corollary runT_app' ph a b acc :
  runT ph (a ++ b) acc =
  match runT ph a acc with
  | RMore ph' c o => runT ph' (c ++ b) o
  | RErr o e => RErr o e
  | ROutOfFuel => ROutOfFuel
  end.
Proof. apply (runT_app (S (rank ph a))). lia. Qed.

(* a carry left by a step is "stuck": stepping on it again changes nothing *)
Lemma step_more_stuck ph w ph' c : step ph w = SMore ph' c -> step ph' c = SMore ph' c.
Proof.
  destruct ph as [|rl h|rl h acc0 lft]; cbn [ConnSpec.step]; intros St.
  - destruct (take_line w) as [l r| |] eqn:T; try discriminate.
    + destruct (parse_reqline l); discriminate.
    + inversion St; subst. cbn [ConnSpec.step]. rewrite T. reflexivity.
  - destruct (take_line w) as [l r| |] eqn:T; try discriminate.
    + destruct l as [|x l'].
      * destruct (h_content_length h =? 0); [discriminate|]. destruct (L <? h_content_length h); discriminate.
      * destruct (parse_header_tolerant h (x :: l')); discriminate.
    + inversion St; subst. cbn [ConnSpec.step]. rewrite T. reflexivity.
  - destruct (lft <=? lenN w) eqn:Hl; [discriminate|]. apply N.leb_gt in Hl.
    inversion St; subst. cbn [ConnSpec.step].
    assert (E : (lft - lenN w <=? lenN []) = false) by (apply N.leb_gt; cbn; lia).
    rewrite E. rewrite app_nil_r. cbn. f_equal. f_equal. lia.
Qed.

Lemma runT_more_stuck : forall n ph w acc ph' c o, (rank ph w < n)%nat ->
  runT ph w acc = RMore ph' c o -> step ph' c = SMore ph' c.
Proof.
  induction n as [|n IH]; intros ph w acc ph' c o Hn H; [lia|].
  rewrite runT_unfold in H. destruct (step ph w) as [ph1 rest o1|ph1 c1|e] eqn:St.
  - apply step_rank in St. eapply IH; [|exact H]. lia.
  - inversion H; subst. eapply step_more_stuck; eauto.
  - discriminate.
Qed.

Lemma runT_idem : forall n ph w acc ph' c o, (rank ph w < n)%nat ->
  runT ph w acc = RMore ph' c o -> runT ph' c o = RMore ph' c o.
Proof.
  intros n ph w acc ph' c o Hn H. rewrite runT_unfold.
  rewrite (runT_more_stuck n ph w acc ph' c o Hn H). reflexivity.
Qed.

Lemma stuck_runT ph c acc : step ph c = SMore ph c -> runT ph c acc = RMore ph c acc.
Proof. intros H. rewrite runT_unfold, H. reflexivity. Qed.

Theorem feed_eq_parse : forall chunks ph carry acc,
  runT ph carry acc = RMore ph carry acc ->
  feed ph carry acc chunks = runT ph (carry ++ concat chunks) acc.
Proof.
  induction chunks as [|k ks IH]; intros ph carry acc Hstuck; cbn [ConnSpec.feed concat].
  - rewrite app_nil_r. symmetry. exact Hstuck.
  - rewrite app_assoc. rewrite (runT_app' ph (carry ++ k) (concat ks) acc).
    destruct (runT ph (carry ++ k) acc) as [ph' c o| |] eqn:R; try reflexivity.
    apply IH. eapply runT_idem; [|exact R]. apply Nat.lt_succ_diag_r.
Qed.

(* C01 at the level of the specification: any two ways of cutting the same stream into chunks
   give the same deliveries, interim responses and first error *)
Lemma runT_empty_line : (0 < BUF)%nat -> runT PLine [] [] = RMore PLine [] [].
Proof.
  intros HB. rewrite runT_unfold. cbn [ConnSpec.step]. unfold ConnSpec.take_line.
  rewrite firstn_nil. cbn [find_crlf find length].
  destruct (BUF <=? 0)%nat eqn:E; [apply Nat.leb_le in E; lia|reflexivity].
Qed.

Theorem feed_whole_stream chunks : (0 < BUF)%nat ->
  feed PLine [] [] chunks = ConnSpec.parse_stream BUF L (concat chunks).
Proof. intros HB. rewrite feed_eq_parse by (apply runT_empty_line; exact HB). reflexivity. Qed.

Theorem feed_schedule_independent chunks1 chunks2 : (0 < BUF)%nat ->
  concat chunks1 = concat chunks2 ->
  feed PLine [] [] chunks1 = feed PLine [] [] chunks2.
Proof. intros HB H. rewrite !feed_whole_stream by exact HB. rewrite H. reflexivity. Qed.

End Spec.
