(* The request grammar (C02): request-line shape and error precedence; a well-formed
   encoding is delivered with its fields verbatim. *)
From MH Require Export proofs.Limits_proofs proofs.Headers_proofs.

(* ---------- the request line ---------- *)
Lemma split_request_line_some l m u v :
  split_request_line l = Some (m, u, v) <->
  (l = m ++ SP :: u ++ SP :: v /\ ~ In SP m /\ ~ In SP u).
Proof.
  unfold split_request_line. split.
  - destruct (split_at SP l) as [[m0 rest]|] eqn:S1; [|discriminate].
    destruct (split_at SP rest) as [[u0 v0]|] eqn:S2; [|discriminate].
    intros H; inversion H; subst. apply split_at_some in S1, S2.
    destruct S1 as [-> H1]. destruct S2 as [-> H2]. auto.
  - intros (-> & H1 & H2). rewrite (split_at_app SP m _ H1). rewrite (split_at_app SP u _ H2). reflexivity.
Qed.

Lemma split_request_line_none l :
  split_request_line l = None <->
  (~ In SP l \/ exists m rest, l = m ++ SP :: rest /\ ~ In SP m /\ ~ In SP rest).
Proof.
  unfold split_request_line. split.
  - destruct (split_at SP l) as [[m0 rest]|] eqn:S1.
    + destruct (split_at SP rest) as [[u0 v0]|] eqn:S2; [discriminate|]. intros _. right.
      apply split_at_some in S1. destruct S1 as [-> H1]. apply split_at_none in S2. eauto.
    + intros _. left. apply split_at_none. exact S1.
  - intros [H|(m & rest & -> & H1 & H2)].
    + apply split_at_none in H. rewrite H. reflexivity.
    + rewrite (split_at_app SP m _ H1). apply split_at_none in H2. rewrite H2. reflexivity.
Qed.

(* error precedence within a request line: malformed shape, then method, then URI, then version *)
Theorem reqline_precedence l :
  match split_request_line l with
  | None => parse_reqline l = Err InvalidRequest
  | Some (m, u, v) =>
    match parse_method m with
    | None => parse_reqline l = Err InvalidHttpMethod
    | Some m' =>
      match uri_try_from u with
      | Err w => parse_reqline l = Err (InvalidUri w)
      | Ok u' =>
        match parse_version v with
        | None => parse_reqline l = Err InvalidHttpVersion
        | Some v' => parse_reqline l = Ok (mkRL m' u' v')
        end
      end
    end
  end.
Proof.
  unfold parse_reqline. destruct (split_request_line l) as [[[m u] v]|]; [|reflexivity].
  destruct (parse_method m); [|reflexivity]. destruct (uri_try_from u); [|reflexivity].
  destruct (parse_version v); reflexivity.
Qed.

Lemma uri_try_from_ok u u' : uri_try_from u = Ok u' <-> (u' = u /\ u <> [] /\ utf8_valid u = true).
Proof.
  unfold uri_try_from. destruct u as [|a r]; [split; [discriminate|intros (_ & H & _); congruence]|].
  destruct (utf8_valid (a :: r)); split; try discriminate.
  - intros H; inversion H. repeat split; auto. discriminate.
  - intros (-> & _ & _). reflexivity.
  - intros (_ & _ & H). discriminate.
Qed.

(* a request line is accepted iff it is METHOD SP URI SP VERSION with a non-empty UTF-8 URI
   without spaces; the parsed fields are exactly those bytes *)
Theorem reqline_accept_iff l rl :
  parse_reqline l = Ok rl <->
  (l = raw_method (rl_method rl) ++ SP :: rl_uri rl ++ SP :: raw_version (rl_version rl)
   /\ rl_uri rl <> [] /\ utf8_valid (rl_uri rl) = true /\ ~ In SP (rl_uri rl)).
Proof.
  split.
  - intros H. pose proof (reqline_precedence l) as P.
    destruct (split_request_line l) as [[[m u] v]|] eqn:S; [|congruence].
    destruct (parse_method m) as [m'|] eqn:Pm; [|congruence].
    destruct (uri_try_from u) as [u'|w] eqn:Pu; [|congruence].
    destruct (parse_version v) as [v'|] eqn:Pv; [|congruence].
    rewrite H in P. inversion P; subst. cbn [rl_method rl_uri rl_version].
    apply parse_method_iff in Pm. apply parse_version_iff in Pv. apply uri_try_from_ok in Pu.
    apply split_request_line_some in S. destruct S as (-> & _ & Hu). destruct Pu as (-> & Hne & Hv). subst.
    auto.
  - intros (-> & Hne & Hv & Hsp). destruct rl as [m u v]. cbn [rl_method rl_uri rl_version] in *.
    unfold parse_reqline.
    assert (S : split_request_line (raw_method m ++ SP :: u ++ SP :: raw_version v) = Some (raw_method m, u, raw_version v)).
    { apply split_request_line_some. split; [reflexivity|]. split; [|exact Hsp].
      destruct m; cbn; unfold SP; intros H; repeat (destruct H as [H|H]; [discriminate|]); exact H. }
    rewrite S, parse_method_raw.
    assert (U : uri_try_from u = Ok u) by (apply uri_try_from_ok; auto). rewrite U, parse_version_raw. reflexivity.
Qed.

(* ---------- a well-formed encoding is delivered ---------- *)
Section Enc.
Variable BUF : nat.
Hypothesis BUF_min : (2 <= BUF)%nat.
Variable L : N.
Notation runT := (runT BUF L).
Notation step := (step BUF L).

(* a line that contains no CRLF, does not end in CR, and fits the buffer with its CRLF *)
Definition line_ok (l : bytes) : Prop := find_crlf (l ++ [CR]) = None /\ (length l + 2 <= BUF)%nat.

(* the line-by-line header rule (UnsupportedValue ignored) *)
Fixpoint fold_lines (h : headers) (hs : list bytes) : res headers req_err :=
  match hs with
  | [] => Ok h
  | l :: r => match parse_header_tolerant h l with Ok h' => fold_lines h' r | Err e => Err e end
  end.

Definition with_crlf (ls : list bytes) : bytes := flat_map (fun l => l ++ CRLF) ls.

Lemma take_line_ok l t : line_ok l -> take_line BUF (l ++ CRLF ++ t) = LLine l t.
Proof. intros [H1 H2]. apply (line_limit_iff BUF BUF_min l t H1). exact H2. Qed.

Lemma header_lines_run rl : forall hs h h' t acc,
  Forall (fun l => l <> [] /\ line_ok l) hs -> fold_lines h hs = Ok h' ->
  runT (PHdr rl h) (with_crlf hs ++ t) acc = runT (PHdr rl h') t acc.
Proof.
  induction hs as [|l hs IH]; intros h h' t acc Hall Hf.
  - cbn in Hf. inversion Hf. reflexivity.
  - inversion Hall as [|? ? [Hne Hok] Hrest]; subst. cbn [fold_lines] in Hf.
    destruct (parse_header_tolerant h l) as [h1|e] eqn:P; [|discriminate].
    cbn [with_crlf flat_map]. fold (with_crlf hs). rewrite <- !app_assoc.
    rewrite runT_unfold. cbn [ConnSpec.step]. rewrite (take_line_ok l _ Hok).
    destruct l as [|x l']; [congruence|]. rewrite P. rewrite app_nil_r. apply IH; assumption.
Qed.

Definition interim (rl : request_line) (h : headers) : list out :=
  if (h_content_length h =? 0) then [] else if h_expect h then [OContinue (rl_version rl)] else [].
Definition delivered_body (h : headers) (body : bytes) : option bytes :=
  if (h_content_length h =? 0) then None else Some body.

(* METHOD SP URI SP VERSION CRLF *(header CRLF) CRLF body: the request is delivered, with the
   parsed request line, the folded headers and exactly the Content-Length bytes that follow the
   header terminator; parsing continues on the rest *)
Theorem wellformed_delivered rlb rl hs hd body rest acc :
  parse_reqline rlb = Ok rl -> line_ok rlb ->
  Forall (fun l => l <> [] /\ line_ok l) hs -> fold_lines headers_default hs = Ok hd ->
  h_content_length hd <= L -> lenN body = h_content_length hd ->
  runT PLine (rlb ++ CRLF ++ with_crlf hs ++ CRLF ++ body ++ rest) acc =
  runT PLine rest (acc ++ interim rl hd ++ [ORequest rl hd (delivered_body hd body)]).
Proof.
  intros Prl Hrl Hall Hf Hlim Hlen.
  rewrite runT_unfold. cbn [ConnSpec.step]. rewrite (take_line_ok rlb _ Hrl). rewrite Prl. rewrite app_nil_r.
  rewrite (header_lines_run rl hs headers_default hd _ acc Hall Hf).
  rewrite runT_unfold. rewrite (size_limit_accept BUF BUF_min L rl hd _ Hlim).
  unfold interim, delivered_body.
  destruct (h_content_length hd =? 0) eqn:Z.
  - apply N.eqb_eq in Z. assert (body = []) by (destruct body; [reflexivity|unfold lenN in Hlen; cbn in Hlen; lia]).
    subst body. cbn [app]. reflexivity.
  - rewrite runT_unfold. cbn [ConnSpec.step].
    assert (Le : (h_content_length hd <=? lenN (body ++ rest)) = true).
    { apply N.leb_le. rewrite lenN_app. lia. }
    rewrite Le. rewrite <- Hlen. unfold lenN. rewrite Nat2N.id.
    rewrite firstn_app_exact, skipn_app_exact. cbn [app]. rewrite <- app_assoc. reflexivity.
Qed.

End Enc.
