(* HttpRoutes: key injectivity, first registration wins, dispatch = lookup, stamping. *)
From MH Require Export model.Router proofs.Tokens_proofs.

Lemma route_key_injective m p m' p' : route_key m p = route_key m' p' -> m = m' /\ p = p'.
Proof.
  unfold route_key, method_to_str.
  destruct m, m'; cbn; intros H; inversion H; auto.
Qed.

Lemma method_eqb_eq a b : method_eqb a b = true <-> a = b.
Proof. destruct a, b; cbn; split; intros H; try reflexivity; try discriminate. Qed.

Section R.
Variable handler : Type.
Variable run_handler : handler -> request -> response.
Notation routes := (routes handler).
Notation table_get := (table_get handler).
Notation add_route := (add_route handler).
Notation handle_http_request := (handle_http_request handler run_handler).

Definition reg := (method * bytes * handler)%type.

(* the first registration, in registration order, for (method, full path) *)
Fixpoint first_match (m : method) (full prefix : bytes) (regs : list reg) : option handler :=
  match regs with
  | [] => None
  | (m', p', h) :: r =>
      if method_eqb m m' && beq full (prefix ++ p') then Some h else first_match m full prefix r
  end.

Definition register_all (rt : routes) (regs : list reg) : routes :=
  fold_left (fun rt (x : reg) => let '(m, p, h) := x in fst (add_route rt m p h)) regs rt.

Lemma table_get_app k t k' h :
  table_get k (t ++ [(k', h)]) =
  match table_get k t with Some x => Some x | None => if beq k k' then Some h else None end.
Proof.
  induction t as [|[k0 h0] t IH]; cbn; [reflexivity|].
  destruct (beq k k0); auto.
Qed.

Lemma add_route_prefix rt m p h : rt_prefix (fst (add_route rt m p h)) = rt_prefix rt
                                  /\ rt_server_id (fst (add_route rt m p h)) = rt_server_id rt.
Proof. unfold Router.add_route. destruct (table_get _ _); cbn; auto. Qed.

(* C17_duplicate: registering an existing (method, path) is refused and changes nothing *)
Lemma add_route_duplicate rt m p h h0 :
  table_get (route_key m (rt_prefix rt ++ p)) (rt_table rt) = Some h0 ->
  add_route rt m p h = (rt, Some (route_key m (rt_prefix rt ++ p))).
Proof. unfold Router.add_route. intros ->. reflexivity. Qed.

Lemma add_route_fresh rt m p h :
  table_get (route_key m (rt_prefix rt ++ p)) (rt_table rt) = None ->
  snd (add_route rt m p h) = None /\
  rt_table (fst (add_route rt m p h)) = rt_table rt ++ [(route_key m (rt_prefix rt ++ p), h)].
Proof. unfold Router.add_route. intros ->. cbn. auto. Qed.

Lemma key_eqb m full m' full' :
  beq (route_key m full) (route_key m' full') = method_eqb m m' && beq full full'.
Proof.
  destruct (method_eqb m m' && beq full full') eqn:E.
  - apply andb_true_iff in E. destruct E as [E1 E2]. apply method_eqb_eq in E1. apply beq_eq in E2.
    subst. apply beq_refl.
  - apply beq_neq. intros H. apply route_key_injective in H. destruct H as [-> ->].
    assert (method_eqb m' m' = true) by (apply method_eqb_eq; reflexivity).
    rewrite H, beq_refl in E. discriminate.
Qed.

Lemma register_all_lookup regs : forall rt m full,
  table_get (route_key m full) (rt_table (register_all rt regs)) =
  match table_get (route_key m full) (rt_table rt) with
  | Some h => Some h
  | None => first_match m full (rt_prefix rt) regs
  end.
Proof.
  induction regs as [|[[m' p'] h'] regs IH]; intros rt m full; cbn [register_all fold_left first_match].
  - destruct (table_get _ _); reflexivity.
  - fold (register_all (fst (add_route rt m' p' h')) regs). rewrite IH.
    destruct (add_route_prefix rt m' p' h') as [Hp _]. rewrite Hp.
    destruct (table_get (route_key m' (rt_prefix rt ++ p')) (rt_table rt)) as [h0|] eqn:D.
    + rewrite (add_route_duplicate rt m' p' h' h0 D). cbn [fst].
      destruct (table_get (route_key m full) (rt_table rt)) as [h1|] eqn:G; [reflexivity|].
      (* the duplicate key is not the one looked up, else the lookup would have succeeded *)
      destruct (method_eqb m m' && beq full (rt_prefix rt ++ p')) eqn:E; [|reflexivity].
      apply andb_true_iff in E. destruct E as [E1 E2]. apply method_eqb_eq in E1. apply beq_eq in E2.
      subst. congruence.
    + destruct (add_route_fresh rt m' p' h' D) as [_ Ht]. rewrite Ht, table_get_app.
      destruct (table_get (route_key m full) (rt_table rt)) as [h1|] eqn:G; [reflexivity|].
      rewrite key_eqb. destruct (method_eqb m m' && beq full (rt_prefix rt ++ p')); reflexivity.
Qed.

(* C17_dispatch: on a table built by any sequence of registrations, lookup = first registration *)
Theorem dispatch_lookup sid prefix regs m full :
  table_get (route_key m full) (rt_table (register_all (routes_new handler sid prefix) regs))
  = first_match m full prefix regs.
Proof. rewrite register_all_lookup. reflexivity. Qed.

Lemma register_all_ids regs : forall rt,
  rt_prefix (register_all rt regs) = rt_prefix rt /\ rt_server_id (register_all rt regs) = rt_server_id rt.
Proof.
  induction regs as [|[[m p] h] regs IH]; intros rt; cbn [register_all fold_left]; [auto|].
  fold (register_all (fst (add_route rt m p h)) regs).
  destruct (IH (fst (add_route rt m p h))) as [HA HB]. destruct (add_route_prefix rt m p h) as [C D].
  split; congruence.
Qed.

Definition stamp (sid : bytes) (r : response) : response :=
  apply_op (apply_op r (SetServer sid)) (SetContentType ApplicationJson).

(* the router invokes exactly the first-registered handler for (method, abs_path), once, and
   no other; 404 (HTTP/1.1) when there is none; every response is stamped *)
Theorem handle_spec sid prefix regs req :
  let rt := register_all (routes_new handler sid prefix) regs in
  handle_http_request rt req =
  match first_match (rl_method (r_line req)) (abs_path (rl_uri (r_line req))) prefix regs with
  | Some h => (Some h, stamp sid (run_handler h req))
  | None => (None, stamp sid (response_new Http11 NotFound))
  end.
Proof.
  cbn zeta. unfold Router.handle_http_request. rewrite dispatch_lookup.
  destruct (register_all_ids regs (routes_new handler sid prefix)) as [_ Hs]. rewrite Hs. cbn [rt_server_id routes_new].
  destruct (first_match _ _ _ _); reflexivity.
Qed.

Lemma stamp_fields sid r :
  rs_server (stamp sid r) = sid /\ rs_content_type (stamp sid r) = ApplicationJson
  /\ rs_status (stamp sid r) = rs_status r /\ rs_body (stamp sid r) = rs_body r
  /\ rs_version (stamp sid r) = rs_version r /\ rs_content_length (stamp sid r) = rs_content_length r.
Proof. unfold stamp. cbn. auto 6. Qed.

(* first_match finds a registration for exactly this method and prefix ++ path *)
Lemma first_match_some m full prefix regs h :
  first_match m full prefix regs = Some h ->
  exists pre p post, regs = pre ++ (m, p, h) :: post /\ full = prefix ++ p
    /\ forall m' p' h', In (m', p', h') pre -> ~ (m' = m /\ prefix ++ p' = full).
Proof.
  clear run_handler. induction regs as [|[[m' p'] h'] regs IH]; cbn; [discriminate|].
  destruct (method_eqb m m' && beq full (prefix ++ p')) eqn:E.
  - intros H; inversion H; subst. apply andb_true_iff in E. destruct E as [E1 E2].
    apply method_eqb_eq in E1. apply beq_eq in E2. subst.
    exists [], p', regs. cbn. repeat split; auto.
  - intros H. destruct (IH H) as (pre & p & post & -> & -> & Hpre).
    exists ((m', p', h') :: pre), p, post. cbn. repeat split; auto.
    intros m2 p2 h2 [A|A].
    + inversion A; subst. intros [-> HB]. rewrite HB in E.
      assert (method_eqb m m = true) by (apply method_eqb_eq; reflexivity).
      rewrite H0, beq_refl in E. discriminate.
    + eauto.
Qed.

Lemma first_match_none m full prefix regs :
  first_match m full prefix regs = None ->
  forall p h, In (m, p, h) regs -> prefix ++ p <> full.
Proof.
  clear run_handler. induction regs as [|[[m' p'] h'] regs IH]; cbn; [tauto|].
  destruct (method_eqb m m' && beq full (prefix ++ p')) eqn:E; [discriminate|].
  intros H p h [A|A].
  - inversion A; subst. intros HB. rewrite <- HB in E.
    assert (method_eqb m m = true) by (apply method_eqb_eq; reflexivity).
    rewrite H0, beq_refl in E. discriminate.
  - eauto.
Qed.

(* non-interference: a registration for another (method, full path) never changes which handler
   answers (method m, path full), wherever it sits in the registration order *)
Lemma first_match_other_irrelevant m full prefix pre m' p' h' post :
  ~ (m' = m /\ prefix ++ p' = full) ->
  first_match m full prefix (pre ++ (m', p', h') :: post) = first_match m full prefix (pre ++ post).
Proof.
  clear run_handler. intros HN. induction pre as [|[[m2 p2] h2] pre IH]; cbn [app first_match].
  - destruct (method_eqb m m' && beq full (prefix ++ p')) eqn:E; [|reflexivity].
    apply andb_prop in E. destruct E as [E1 E2].
    apply method_eqb_eq in E1. apply beq_eq in E2. subst. exfalso. apply HN. auto.
  - rewrite IH. reflexivity.
Qed.
End R.
