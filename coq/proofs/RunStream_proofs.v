(* C07 over the EXECUTED histories: the server interpreter of run/Run.v -- the one the correspondence run executes
   against the real server on real sockets -- only ever produces histories that satisfy the hypotheses of the
   whole-stream theorem (truthful batches, closed directions stay closed, ...), provided every connect operation
   uses a client number not used before (a client socket connects once).  The bookkeeping (what each client has
   received, what the application supplied, what was yielded) is computed alongside by ghost_sop. *)
From MH Require Export proofs.RunInv_proofs proofs.Stream_proofs.
From Coq Require Import Lia.

Section RS.
Variable BUF : nat.
Hypothesis BUF_min : (2 <= BUF)%nat.
Hypothesis BUF_u32 : N.of_nat BUF < U32_LIMIT.
Notation Inv := (Inv BUF).
Notation SI := (SI BUF).

Definition RS (w : world) (G : ghost) : Prop :=
  exists beta log, SI w (ytoks (w_tokens w)) (g_rcv G) (g_sup G) (g_yld G) (g_seen G) beta log.

(* ---------- the bookkeeping of one interpreter operation ---------- *)
Definition ghost_poll (w : world) (G : ghost) : ghost :=
  match poll BUF w with
  | PYield w' ys => gpoll G w w' ys
  | _ => G
  end.

Fixpoint ghost_poll_many (fuel : nat) (pre : bytes) (w : world) (G : ghost) : ghost :=
  match fuel with
  | O => G
  | S f => match poll BUF w with
           | PYield _ _ => ghost_poll_many f pre (fst (srv_poll BUF pre w)) (ghost_poll w G)
           | _ => G
           end
  end.

Definition ghost_respond (w : world) (G : ghost) (k : N) (mk : request -> response) : ghost :=
  match w_tokens w with
  | [] => G
  | _ => match nth_error (w_tokens w) (N.to_nat (k mod N.of_nat (length (w_tokens w)))) with
         | None => G
         | Some (_, gi, rq) => gresp G gi (mk rq)
         end
  end.

Definition gflush (G : ghost) (w : world) : ghost :=
  mkG (fun c => g_rcv G c ++ delta w (flush w) c) (g_sup G) (g_yld G) (g_seen G).

Definition ghost_sop (id : N) (i : nat) (w : world) (G : ghost) (o : sop) : ghost :=
  let pre := B"srv " ++ dec id ++ B" " ++ decn i ++ B" " in
  match o with
  | SConnect c => genv G [c]
  | SPoll => ghost_poll w G
  | SPollMany k => ghost_poll_many (N.to_nat k) pre w G
  | SRespond k r => ghost_respond w G k (fun _ => response_of r)
  | SEcho k => ghost_respond w G k (fun rq => apply_op (response_new Http11 OK) (SetBody (B"echo:" ++ rl_uri (r_line rq))))
  | SFlush => gflush G w
  | _ => G
  end.

Definition fresh_ok (G : ghost) (o : sop) : Prop :=
  match o with SConnect c => ~ In c (g_seen G) | _ => True end.

(* ---------- environment operations ---------- *)
Lemma RS_env w w' G : RS w G -> env_ok w w' (g_seen G) [] -> w_tokens w' = w_tokens w -> RS w' G.
Proof.
  intros (beta & log & S) He Et. exists beta, log. rewrite Et.
  pose proof (env_stream BUF _ _ _ _ _ _ _ _ _ _ S He) as S'. rewrite app_nil_r in S'. exact S'.
Qed.

Lemma client_of_set w c cl' c0 :
  client_of (set_client w c cl') c0 =
  if Nat.eqb c0 c then match alookup c (w_clients w) with Some _ => cl' | None => dead_client end else client_of w c0.
Proof.
  unfold client_of, set_client. cbn [w_clients]. destruct (Nat.eqb c0 c) eqn:E.
  - apply Nat.eqb_eq in E. subst c0. destruct (alookup c (w_clients w)) as [cl|] eqn:L.
    + rewrite (alookup_update_same _ cl' _ _ L). reflexivity.
    + rewrite flags_update_none by exact L. rewrite L. reflexivity.
  - apply Nat.eqb_neq in E. rewrite alookup_update_other by congruence. reflexivity.
Qed.

Lemma set_client_env w c cl' seen :
  (k_hup (client_of w c) = true -> k_hup cl' = true) ->
  (k_can_receive (client_of w c) = false -> k_can_receive cl' = false) ->
  env_ok w (set_client w c cl') seen [].
Proof.
  intros M1 M2. unfold env_ok. cbn [set_client w_conns w_nextg w_backlog]. rewrite app_nil_r.
  split; [reflexivity|]. split; [reflexivity|]. split; [reflexivity|]. split; [constructor|]. split; [intros c0 []|].
  intros c0 _. change (Server.mkW (aupdate c cl' (w_clients w)) (w_conns w) (w_backlog w) (w_tokens w) (w_nextg w) (w_limit w) (w_killed w))
    with (set_client w c cl').
  rewrite client_of_set. destruct (Nat.eqb c0 c) eqn:E; [|auto]. apply Nat.eqb_eq in E. subst c0.
  unfold client_of in *. destruct (alookup c (w_clients w)) as [cl|]; auto.
Qed.

Lemma same_clients_env w w' seen :
  w_conns w' = w_conns w -> w_nextg w' = w_nextg w -> w_backlog w' = w_backlog w -> w_clients w' = w_clients w ->
  env_ok w w' seen [].
Proof.
  intros E1 E2 E3 E4. unfold env_ok. rewrite app_nil_r.
  split; [exact E1|]. split; [exact E2|]. split; [exact E3|]. split; [constructor|]. split; [intros c0 []|].
  intros c0 _. unfold client_of. rewrite E4. auto.
Qed.

(* ---------- one poll ---------- *)
Lemma srv_poll_RS pre w G : RS w G -> RS (fst (srv_poll BUF pre w)) (ghost_poll w G).
Proof.
  intros (beta & log & S). unfold srv_poll, ghost_poll.
  pose proof (si_inv _ _ _ _ _ _ _ _ _ S) as HI.
  pose proof (poll_outcomes BUF BUF_min BUF_u32 w _ HI) as PO.
  destruct (poll BUF w) as [|w' ys|e] eqn:P; cbn [fst]; [exists beta, log; exact S| |exists beta, log; exact S].
  destruct PO as [_ Hk].
  pose proof (canonical_gstep BUF BUF_min BUF_u32 w (ytoks (w_tokens w)) G beta log w' ys S Hk P) as St.
  destruct (gstep_SI BUF BUF_min BUF_u32 (w, ytoks (w_tokens w), G) _ beta log S St) as (beta' & log' & S'). cbn [SIg] in S'.
  exists beta', log'. cbn [w_tokens]. rewrite (poll_tokens _ _ _ _ P).
  set (w'' := Server.mkW (w_clients w') (w_conns w') (w_backlog w') (w_tokens w ++ map (fun p => snd p) (sort_yields ys))
                         (w_nextg w') (w_limit w') (w_killed w')).
  assert (He : env_ok w' w'' (g_seen (gpoll G w w' ys)) []) by (apply same_clients_env; reflexivity).
  pose proof (env_stream BUF _ _ _ _ _ _ _ _ _ _ S' He) as S2. rewrite app_nil_r in S2.
  destruct (sort_yields_same ys) as [T1 T2].
  refine (SI_toks BUF _ (ytoks ys ++ ytoks (w_tokens w)) _ _ _ _ _ _ _ _ _ S2).
  - intros t. rewrite !ytoks_app, !in_app_iff. destruct (T1 t) as [Ta Tb].
    split; intros [H|H]; [right; exact (Tb H)|left; exact H|right; exact H|left; exact (Ta H)].
  - intros g. rewrite !ytoks_app, !count_g_app. rewrite Nat.add_comm. f_equal. symmetry. exact (T2 g).
Qed.

Lemma srv_poll_many_RS : forall fuel pre w G, RS w G -> RS (fst (srv_poll_many BUF fuel pre w)) (ghost_poll_many fuel pre w G).
Proof.
  induction fuel as [|f IH]; intros pre w G HS; cbn [srv_poll_many ghost_poll_many]; [exact HS|].
  pose proof (srv_poll_RS pre w G HS) as H1. unfold ghost_poll in *.
  destruct (srv_poll BUF pre w) as [w' line] eqn:SP. cbn [fst] in H1.
  destruct (poll BUF w) as [|w1 ys|e] eqn:P; cbn [fst]; [exact H1| |exact H1].
  specialize (IH pre w' _ H1). destruct (srv_poll_many BUF f pre w') as [w'' ls]. exact IH.
Qed.

(* ---------- a response ---------- *)
Lemma respond_at_RS pre w G k mk : RS w G -> RS (fst (respond_at pre w k mk)) (ghost_respond w G k mk).
Proof.
  intros HS. unfold respond_at, ghost_respond. destruct (w_tokens w) as [|t0 ts] eqn:Tk; [exact HS|]. rewrite <- Tk.
  set (idx := N.to_nat (k mod N.of_nat (length (w_tokens w)))).
  destruct (nth_error (w_tokens w) idx) as [[[g gi] rq]|] eqn:Nth; [|exact HS].
  set (w1 := Server.mkW (w_clients w) (w_conns w) (w_backlog w) (remove_nth idx (w_tokens w)) (w_nextg w) (w_limit w) (w_killed w)).
  pose proof (RunInv_proofs.nth_error_split _ _ _ Nth) as Sp.
  destruct HS as (beta & log & S0).
  assert (S1 : SI w1 (ytoks (firstn idx (w_tokens w)) ++ (g, gi) :: ytoks (skipn (S idx) (w_tokens w)))
                  (g_rcv G) (g_sup G) (g_yld G) (g_seen G) beta log).
  { assert (He : env_ok w w1 (g_seen G) []) by (apply same_clients_env; reflexivity).
    pose proof (env_stream BUF _ _ _ _ _ _ _ _ _ _ S0 He) as S'. rewrite app_nil_r in S'.
    rewrite Sp in S' at 1. unfold ytoks in *. rewrite map_app in S'. exact S'. }
  pose proof (si_inv _ _ _ _ _ _ _ _ _ S1) as I1.
  destruct (respond_ok BUF BUF_min BUF_u32 w1 _ _ g gi (mk rq) I1) as (w2 & x & Hr & _).
  rewrite Hr. cbn [fst].
  destruct (respond_stream BUF BUF_min BUF_u32 w1 _ _ g gi (mk rq) w2 _ _ _ _ beta log S1 Hr) as (_ & log' & S2).
  exists beta, log'.
  assert (Tk2 : w_tokens w2 = remove_nth idx (w_tokens w)).
  { revert Hr. unfold respond. destruct (alookup g (w_conns w1)); [|intros H; inversion H; reflexivity].
    destruct (cc_enqueue _ _); [|discriminate]. intros H; inversion H; reflexivity. }
  rewrite Tk2, remove_nth_split. unfold ytoks in *. rewrite map_app. apply S2. reflexivity.
Qed.

(* ---------- flush ---------- *)
Lemma flush_RS w G : RS w G -> RS (flush w) (gflush G w).
Proof.
  intros (beta & log & S). exists beta, log. destruct (flush_tokens w) as (-> & _).
  destruct (flush_stream BUF BUF_min BUF_u32 w _ _ _ _ _ beta log S) as (d0 & Hk0 & S').
  apply S'. intros c. cbn [gflush g_rcv]. unfold delta. rewrite (Hk0 c), skipn_app, skipn_all, Nat.sub_diag. reflexivity.
Qed.

(* ---------- every operation ---------- *)
Theorem run_sop_RS id i hk w G o :
  RS w G -> fresh_ok G o -> RS (fst (run_sop BUF id i hk w o)) (ghost_sop id i w G o).
Proof.
  intros HS Hf. destruct o; cbn [run_sop ghost_sop fst].
  - (* connect *)
    cbn [fresh_ok] in Hf. destruct HS as (beta & log & S). exists beta, log. cbn [w_tokens genv g_rcv g_sup g_yld g_seen].
    apply (env_stream BUF _ _ _ _ _ _ _ _ _ [c] S).
    unfold env_ok. cbn [w_conns w_nextg w_backlog].
    split; [reflexivity|]. split; [reflexivity|]. split; [reflexivity|].
    split; [repeat constructor; intros []|]. split; [intros c0 [<-|[]]; exact Hf|].
    intros c0 Hin. unfold client_of. cbn [w_clients]. rewrite alookup_app_end.
    destruct (alookup c0 (w_clients w)) as [cl|]; [auto|].
    destruct (Nat.eqb c c0) eqn:E; [|auto]. apply Nat.eqb_eq in E. subst c0. contradiction.
  - (* send *)
    match goal with |- context [if ?cnd then _ else _] => destruct cnd end; cbn [fst]; [|exact HS].
    apply (RS_env w); [exact HS| |reflexivity]. apply set_client_env; auto.
  - (* close *)
    apply (RS_env w); [exact HS| |reflexivity]. apply set_client_env; intros _; reflexivity.
  - (* shutdown(WR) *)
    apply (RS_env w); [exact HS| |reflexivity]. apply set_client_env.
    + intros _. unfold k_hup. cbn. apply Bool.orb_true_r.
    + auto.
  - (* shutdown(RD) *)
    apply (RS_env w); [exact HS| |reflexivity]. apply set_client_env.
    + auto.
    + intros _. unfold k_can_receive. cbn. apply Bool.andb_false_r.
  - (* client reads *)
    apply (RS_env w); [exact HS| |reflexivity]. apply set_client_env; auto.
  - (* poll *)
    pose proof (srv_poll_RS (B"srv " ++ dec id ++ B" " ++ decn i ++ B" ") w G HS) as H1.
    destruct (srv_poll BUF _ w). exact H1.
  - apply respond_at_RS. exact HS.
  - apply respond_at_RS. exact HS.
  - apply flush_RS. exact HS.
  - (* kill *)
    destruct hk; cbn [fst]; [|exact HS]. apply (RS_env w); [exact HS| |reflexivity]. apply same_clients_env; reflexivity.
  - (* limit *)
    apply (RS_env w); [exact HS| |reflexivity]. apply same_clients_env; reflexivity.
  - apply srv_poll_many_RS. exact HS.
  - exact HS.
Qed.

(* ---------- every executed history ---------- *)
Fixpoint ghost_ops (id : N) (i : nat) (hk : bool) (w : world) (G : ghost) (ops : list arg) : ghost :=
  match ops with
  | [] => G
  | op :: r => ghost_ops id (S i) hk (fst (run_srv_op BUF id i hk w op)) (ghost_sop id i w G (decode_sop op)) r
  end.

Fixpoint fresh_ops (G : ghost) (id : N) (i : nat) (hk : bool) (w : world) (ops : list arg) : Prop :=
  match ops with
  | [] => True
  | op :: r => fresh_ok G (decode_sop op) /\
               fresh_ops (ghost_sop id i w G (decode_sop op)) id (S i) hk (fst (run_srv_op BUF id i hk w op)) r
  end.

Theorem run_srv_ops_RS : forall ops id i hk w G,
  RS w G -> fresh_ops G id i hk w ops -> RS (fst (run_srv_ops BUF id i hk w ops)) (ghost_ops id i hk w G ops).
Proof.
  induction ops as [|op r IH]; intros id i hk w G HS Hf; cbn [run_srv_ops ghost_ops]; [exact HS|].
  destruct Hf as [Hf1 Hf2].
  pose proof (run_sop_RS id i hk w G (decode_sop op) HS Hf1) as H1. rewrite <- run_srv_op_sop in H1.
  destruct (run_srv_op BUF id i hk w op) as [w' ls]. cbn [fst] in *.
  specialize (IH id (S i) hk w' _ H1 Hf2). destruct (run_srv_ops BUF id (S i) hk w' r) as [w'' ls']. exact IH.
Qed.

Lemma RS_world0 : RS world0 ghost0.
Proof. exists (fun _ => 0%nat), (fun _ => []). apply (SI_world0 BUF BUF_min BUF_u32). Qed.

(* the seen-list of the bookkeeping is just the connect operations so far: freshness is a condition on the
   operation list alone *)
Lemma ghost_sop_seen id i w G o :
  g_seen (ghost_sop id i w G o) = match o with SConnect c => g_seen G ++ [c] | _ => g_seen G end.
Proof.
  destruct o; cbn [ghost_sop genv gflush g_seen]; try reflexivity.
  - unfold ghost_poll. destruct (poll BUF w); reflexivity.
  - unfold ghost_respond. destruct (w_tokens w); [reflexivity|]. destruct (nth_error _ _) as [[[? ?] ?]|]; reflexivity.
  - unfold ghost_respond. destruct (w_tokens w); [reflexivity|]. destruct (nth_error _ _) as [[[? ?] ?]|]; reflexivity.
  - generalize (B"srv " ++ dec id ++ B" " ++ decn i ++ B" "). generalize w G. induction (N.to_nat k) as [|f IH]; intros w0 G0 pre; cbn [ghost_poll_many]; [reflexivity|].
    destruct (poll BUF w0) eqn:P; try reflexivity. rewrite IH. unfold ghost_poll. rewrite P. reflexivity.
Qed.

Fixpoint connects_fresh (seen : list nat) (ops : list arg) : Prop :=
  match ops with
  | [] => True
  | op :: r => match decode_sop op with
               | SConnect c => ~ In c seen /\ connects_fresh (seen ++ [c]) r
               | _ => connects_fresh seen r
               end
  end.

Lemma connects_fresh_ops : forall ops G id i hk w, connects_fresh (g_seen G) ops -> fresh_ops G id i hk w ops.
Proof.
  induction ops as [|op r IH]; intros G id i hk w H; cbn [fresh_ops connects_fresh] in *; [exact I|].
  pose proof (ghost_sop_seen id i w G (decode_sop op)) as Es.
  destruct (decode_sop op) eqn:D; cbn [fresh_ok];
    try (split; [exact I|]; apply IH; rewrite Es; exact H).
  destruct H as [H1 H2]. split; [exact H1|]. apply IH. rewrite Es. exact H2.
Qed.

(* C07 over executed histories: after ANY operation list in which every connect uses a new client number, the
   whole-stream statement holds for the interpreter's world, the tokens it holds and the bookkeeping computed
   alongside *)
Theorem executed_histories_stream ops id hk :
  connects_fresh [] ops ->
  let w := fst (run_srv_ops BUF id 0 hk world0 ops) in
  stream_statement w (ytoks (w_tokens w)) (ghost_ops id 0 hk world0 ghost0 ops).
Proof.
  intros Hf. cbn zeta.
  destruct (run_srv_ops_RS ops id 0 hk world0 ghost0 RS_world0 (connects_fresh_ops ops ghost0 id 0 hk world0 Hf)) as (beta & log & S).
  eapply SI_statement; eauto.
Qed.

End RS.
