(* C15: white space around header names and values is ignored. *)
From MH Require Export proofs.Headers_proofs proofs.Trim_proofs proofs.Oneshot_conv.
From Coq Require Import Lia.

Lemma ws_string_valid q : ws_string q -> utf8_valid q = true.
Proof. intros H. rewrite <- (app_nil_r q). rewrite (ws_string_utf8 q [] H). reflexivity. Qed.

Lemma padded_valid p k q : ws_string p -> ws_string q -> utf8_valid k = true -> utf8_valid (p ++ k ++ q) = true.
Proof.
  intros Hp Hq Hk. rewrite (ws_string_utf8 p _ Hp). rewrite (utf8_valid_concat k q Hk). apply ws_string_valid. exact Hq.
Qed.

Theorem header_name_padding p k q : ws_string p -> ws_string q -> utf8_valid k = true ->
  header_try_from (p ++ k ++ q) = header_try_from k.
Proof.
  intros Hp Hq Hk. unfold header_try_from. rewrite (padded_valid p k q Hp Hq Hk), Hk.
  unfold ascii_lower. rewrite !map_app. fold (ascii_lower p) (ascii_lower k) (ascii_lower q).
  rewrite (ws_string_lower p Hp), (ws_string_lower q Hq). rewrite (trim_padding p _ q Hp Hq). reflexivity.
Qed.

Theorem padding_ignored h p k q p' v q' :
  ws_string p -> ws_string q -> ws_string p' -> ws_string q' ->
  utf8_valid k = true -> utf8_valid v = true -> ~ In COLON k ->
  parse_header_tolerant h ((p ++ k ++ q) ++ COLON :: (p' ++ v ++ q')) = parse_header_tolerant h (k ++ COLON :: v) \/
  (parse_header_tolerant h ((p ++ k ++ q) ++ COLON :: (p' ++ v ++ q'))
     = Err (HeaderError (InvalidValue (p ++ k ++ q) (p' ++ v ++ q'))) /\
   parse_header_tolerant h (k ++ COLON :: v) = Err (HeaderError (InvalidValue k v))).
Proof.
  intros Hp Hq Hp' Hq' Hk Hv Hc.
  assert (Hc2 : ~ In COLON (p ++ k ++ q)).
  { intros Hin. apply in_app_or in Hin. destruct Hin as [Hin|Hin]; [exact (ws_string_no_colon p Hp Hin)|].
    apply in_app_or in Hin. destruct Hin as [Hin|Hin]; [exact (Hc Hin)|exact (ws_string_no_colon q Hq Hin)]. }
  assert (V1 : utf8_valid ((p ++ k ++ q) ++ COLON :: (p' ++ v ++ q')) = true).
  { rewrite (utf8_valid_concat _ _ (padded_valid p k q Hp Hq Hk)).
    change (COLON :: (p' ++ v ++ q')) with ([COLON] ++ (p' ++ v ++ q')). rewrite (utf8_valid_concat [COLON] _ eq_refl).
    apply padded_valid; assumption. }
  assert (V2 : utf8_valid (k ++ COLON :: v) = true).
  { rewrite (utf8_valid_concat _ _ Hk). change (COLON :: v) with ([COLON] ++ v). rewrite (utf8_valid_concat [COLON] _ eq_refl). exact Hv. }
  unfold parse_header_tolerant, parse_header_line. rewrite V1, V2.
  rewrite (line_split _ _ Hc2), (line_split _ _ Hc).
  rewrite (header_name_padding p k q Hp Hq Hk). rewrite (trim_padding p' v q' Hp' Hq').
  unfold ascii_lower. 
  destruct (header_try_from k) as [[]|].
  - destruct (parse_u32 (trim v)); [left; reflexivity|right; split; reflexivity].
  - destruct (parse_media (trim v)); left; reflexivity.
  - destruct (beq (trim v) (B"100-continue")); left; reflexivity.
  - destruct (beq (trim v) (B"chunked")); [left; reflexivity|]. destruct (beq (trim v) (B"identity")); left; reflexivity.
  - left; reflexivity.
  - destruct (parse_media (trim v)); left; reflexivity.
  - left. reflexivity.
  - left. rewrite (trim_padding p k q Hp Hq). reflexivity.
Qed.

(* the same for whole blocks, line by line: padding every line changes neither acceptance nor the
   resulting Headers *)
Corollary padding_ok h p k q p' v q' h' :
  ws_string p -> ws_string q -> ws_string p' -> ws_string q' ->
  utf8_valid k = true -> utf8_valid v = true -> ~ In COLON k ->
  (parse_header_tolerant h ((p ++ k ++ q) ++ COLON :: (p' ++ v ++ q')) = Ok h' <->
   parse_header_tolerant h (k ++ COLON :: v) = Ok h').
Proof.
  intros Hp Hq Hp' Hq' Hk Hv Hc.
  destruct (padding_ignored h p k q p' v q' Hp Hq Hp' Hq' Hk Hv Hc) as [E|[E1 E2]].
  - rewrite E. reflexivity.
  - rewrite E1, E2. split; discriminate.
Qed.
