(* Decision rules of the specification: the payload limit, the line limit, and when a
   100-continue is emitted (C04, C13). *)
From MH Require Export proofs.Spec_proofs.

Section Rules.
Variable BUF : nat.
Hypothesis BUF_min : (2 <= BUF)%nat.
Variable L : N.

Notation take_line := (take_line BUF).
Notation step := (step BUF L).
Notation runT := (runT BUF L).

Lemma take_line_blank t : take_line (CRLF ++ t) = LLine [] t.
Proof.
  unfold ConnSpec.take_line. destruct BUF as [|[|b]]; [lia|lia|]. reflexivity.
Qed.

(* ---------- C04: the payload limit ---------- *)
(* at the blank line that ends a header block: size-limit error iff declared length > L;
   no byte after the terminator is needed (t is arbitrary, possibly empty) *)
Lemma size_limit_iff rl h t e :
  step (PHdr rl h) (CRLF ++ t) = SErr e <->
  (e = SizeLimitExceeded L (h_content_length h) /\ L < h_content_length h).
Proof.
  cbn [ConnSpec.step]. rewrite take_line_blank.
  destruct (h_content_length h =? 0) eqn:Z.
  - apply N.eqb_eq in Z. split; [discriminate|]. intros [_ H]. lia.
  - destruct (L <? h_content_length h) eqn:Lt.
    + apply N.ltb_lt in Lt. split; [intros H; inversion H; auto|]. intros [-> _]. reflexivity.
    + apply N.ltb_ge in Lt. split; [discriminate|]. intros [_ H]. lia.
Qed.

Lemma size_limit_accept rl h t :
  h_content_length h <= L ->
  step (PHdr rl h) (CRLF ++ t) =
    if h_content_length h =? 0 then SDone PLine t [ORequest rl h None]
    else SDone (PBody rl h [] (h_content_length h)) t (if h_expect h then [OContinue (rl_version rl)] else []).
Proof.
  intros H. cbn [ConnSpec.step]. rewrite take_line_blank.
  destruct (h_content_length h =? 0); [reflexivity|].
  assert (E : (L <? h_content_length h) = false) by (apply N.ltb_ge; exact H). rewrite E. reflexivity.
Qed.

(* every delivered body has exactly the declared length, which is within the limit *)
Definition phase_ok (ph : phase) : Prop :=
  match ph with
  | PBody rl h acc lft => lenN acc + lft = h_content_length h /\ h_content_length h <= L /\ 1 <= lft
  | _ => True
  end.
Definition out_ok (o : out) : Prop :=
  match o with
  | ORequest rl h (Some b) => lenN b = h_content_length h /\ h_content_length h <= L /\ 1 <= h_content_length h
  | ORequest rl h None => h_content_length h = 0
  | OContinue _ => True
  end.

Lemma step_ok ph w :
  phase_ok ph ->
  match step ph w with
  | SDone ph' _ o => phase_ok ph' /\ Forall out_ok o
  | SMore ph' _ => phase_ok ph'
  | SErr _ => True
  end.
Proof.
  intros Hp. destruct ph as [|rl h|rl h acc lft]; cbn [ConnSpec.step].
  - destruct (take_line w) as [l r| |]; auto. destruct (parse_reqline l); cbn; auto.
  - destruct (take_line w) as [l r| |]; cbn; auto.
    destruct l as [|x l'].
    + destruct (h_content_length h =? 0) eqn:Z.
      * apply N.eqb_eq in Z. cbn. split; auto.
      * destruct (L <? h_content_length h) eqn:Lt; [exact I|].
        apply N.ltb_ge in Lt. apply N.eqb_neq in Z. cbn. split.
        -- unfold lenN. cbn. lia.
        -- destruct (h_expect h); repeat constructor.
    + destruct (parse_header_tolerant h (x :: l')); cbn; auto.
  - cbn in Hp. destruct Hp as (Hs & Hl & H1).
    destruct (lft <=? lenN w) eqn:Le.
    + apply N.leb_le in Le. cbn. split; auto. constructor; [|constructor]. cbn.
      rewrite lenN_app. unfold lenN in *. rewrite firstn_length. split; [lia|]. split; lia.
    + apply N.leb_gt in Le. cbn. rewrite lenN_app. lia.
Qed.

Theorem run_outs_ok : forall n ph w acc, (rank ph w < n)%nat ->
  phase_ok ph -> Forall out_ok acc ->
  match runT ph w acc with
  | RMore ph' _ o => phase_ok ph' /\ Forall out_ok o
  | RErr o _ => Forall out_ok o
  | ROutOfFuel => False
  end.
Proof.
  induction n as [|n IH]; intros ph w acc Hn Hp Ha; [lia|].
  rewrite runT_unfold. pose proof (step_ok ph w Hp) as S.
  destruct (step ph w) as [ph' rest o|ph' c|e] eqn:St; auto.
  destruct S as [Hp' Ho]. apply IH; auto.
  - apply step_rank in St. lia.
  - apply Forall_app. auto.
Qed.

Corollary parse_stream_outs_ok s :
  match parse_stream BUF L s with
  | RMore _ _ o => Forall out_ok o
  | RErr o _ => Forall out_ok o
  | ROutOfFuel => False
  end.
Proof.
  unfold parse_stream. pose proof (run_outs_ok (S (rank PLine s)) PLine s [] ltac:(lia) I (Forall_nil _)) as H.
  destruct (runT PLine s []); tauto.
Qed.

(* ---------- C04: the line limit ---------- *)
Lemma find_crlf_firstn_none w k : find_crlf w = None -> find_crlf (firstn k w) = None.
Proof.
  intros H. destruct (find_crlf (firstn k w)) as [i|] eqn:E; [|reflexivity].
  rewrite <- (firstn_skipn k w) in H. rewrite (find_crlf_app_some _ _ _ E) in H. discriminate.
Qed.

Lemma find_crlf_at_end l : find_crlf (l ++ [CR]) = None -> forall t, find_crlf (l ++ CRLF ++ t) = Some (length l).
Proof.
  induction l as [|x l IH]; intros H t.
  - reflexivity.
  - cbn [app] in H |- *. rewrite find_crlf_cons in H |- *.
    destruct (starts_crlf (x :: l ++ [CR])) eqn:S1; [discriminate|].
    destruct (find_crlf (l ++ [CR])) eqn:F; [discriminate|].
    assert (S2 : starts_crlf (x :: l ++ CRLF ++ t) = false).
    { destruct l as [|y l'].
      - unfold starts_crlf, CRLF. cbn [prefixb app]. change (LF =? CR) with false.
        cbn [andb]. apply andb_false_r.
      - cbn [app] in S1 |- *. unfold starts_crlf, CRLF in *. cbn [prefixb] in *. exact S1. }
    rewrite S2. rewrite (IH eq_refl t). reflexivity.
Qed.

(* a terminated line l CRLF (with no earlier CRLF) at the head of the window is rejected for
   its length iff it is longer than BUF bytes including its CRLF *)
Theorem line_limit_iff l t :
  find_crlf (l ++ [CR]) = None ->
  (take_line (l ++ CRLF ++ t) = LTooLong <-> (BUF < length l + 2)%nat) /\
  ((length l + 2 <= BUF)%nat -> take_line (l ++ CRLF ++ t) = LLine l t).
Proof.
  intros Hl. pose proof (find_crlf_at_end l Hl t) as F.
  assert (Len : length (l ++ CRLF ++ t) = (length l + 2 + length t)%nat).
  { rewrite !app_length. cbn. lia. }
  assert (Fit : (length l + 2 <= BUF)%nat -> take_line (l ++ CRLF ++ t) = LLine l t).
  { intros H. unfold ConnSpec.take_line.
    assert (E : firstn BUF (l ++ CRLF ++ t) = (l ++ CRLF) ++ firstn (BUF - (length l + 2)) t).
    { rewrite app_assoc. rewrite firstn_app. rewrite firstn_all2 by (rewrite app_length; cbn; lia).
      rewrite app_length. reflexivity. }
    rewrite E. rewrite <- app_assoc. rewrite (find_crlf_at_end l Hl).
    rewrite firstn_app_exact.
    rewrite skipn_app. rewrite skipn_all2 by lia.
    replace (length l + 2 - length l)%nat with 2%nat by lia. reflexivity. }
  split; [|exact Fit]. split.
  - intros H. destruct (Nat.lt_ge_cases BUF (length l + 2)) as [|Hle]; [assumption|].
    rewrite (Fit Hle) in H. discriminate.
  - intros H. unfold ConnSpec.take_line.
    assert (E : find_crlf (firstn BUF (l ++ CRLF ++ t)) = None).
    { assert (P : firstn BUF (l ++ CRLF ++ t) = firstn BUF (l ++ [CR])).
      { change (CRLF ++ t) with ([CR] ++ LF :: t). rewrite app_assoc.
        rewrite firstn_app. rewrite app_length. cbn [length].
        replace (BUF - (length l + 1))%nat with 0%nat by lia. cbn. rewrite app_nil_r. reflexivity. }
      rewrite P. apply find_crlf_firstn_none. exact Hl. }
    rewrite E. assert (E2 : (BUF <=? length (l ++ CRLF ++ t))%nat = true) by (apply Nat.leb_le; lia).
    rewrite E2. reflexivity.
Qed.

(* a line that is never terminated is rejected exactly once BUF bytes of it have arrived *)
Theorem unterminated_line_iff w :
  find_crlf w = None -> (take_line w = LTooLong <-> (BUF <= length w)%nat) /\ (take_line w = LMore <-> (length w < BUF)%nat).
Proof.
  intros H. unfold ConnSpec.take_line. rewrite (find_crlf_firstn_none w BUF H).
  destruct (BUF <=? length w)%nat eqn:E; [apply Nat.leb_le in E|apply Nat.leb_gt in E];
    split; split; intros; try reflexivity; try discriminate; lia.
Qed.

(* ---------- C13: when a 100-continue is emitted ---------- *)
Lemma step_continue_iff ph w ph' rest o v :
  step ph w = SDone ph' rest o ->
  (In (OContinue v) o <->
   exists rl h, ph = PHdr rl h /\ take_line w = LLine [] rest /\ h_expect h = true /\
                h_content_length h <> 0 /\ h_content_length h <= L /\ v = rl_version rl
                /\ o = [OContinue v] /\ ph' = PBody rl h [] (h_content_length h)).
Proof.
  destruct ph as [|rl h|rl h acc lft]; cbn [ConnSpec.step].
  - destruct (take_line w) as [l r| |]; try discriminate. destruct (parse_reqline l); [|discriminate].
    intros H; inversion H; subst. split; [intros []|]. intros (rl & h & E & _). discriminate.
  - destruct (take_line w) as [l r| |] eqn:T; try discriminate.
    destruct l as [|x l'].
    + destruct (h_content_length h =? 0) eqn:Z.
      * intros H; inversion H; subst. split.
        -- intros [A|[]]. discriminate.
        -- intros (rl0 & h0 & E & _ & _ & Hz & _). inversion E; subst. apply N.eqb_eq in Z. contradiction.
      * destruct (L <? h_content_length h) eqn:Lt; [discriminate|].
        apply N.ltb_ge in Lt. apply N.eqb_neq in Z.
        intros H; inversion H; subst. destruct (h_expect h) eqn:Ex.
        -- split.
           ++ intros [A|[]]. inversion A; subst. exists rl, h. repeat split; auto.
           ++ intros (rl0 & h0 & E & _ & _ & _ & _ & -> & _). inversion E; subst. left. reflexivity.
        -- split; [intros []|]. intros (rl0 & h0 & E & _ & Hx & _). inversion E; subst. congruence.
    + destruct (parse_header_tolerant h (x :: l')); [|discriminate].
      intros H; inversion H; subst. split; [intros []|].
      intros (rl0 & h0 & E & T' & _). discriminate.
  - destruct (lft <=? lenN w); [|discriminate]. intros H; inversion H; subst.
    split; [intros [A|[]]; discriminate|]. intros (rl0 & h0 & E & _). discriminate.
Qed.

(* it is emitted as soon as the header block is complete: no body byte is needed *)
Lemma continue_early rl h t :
  h_expect h = true -> h_content_length h <> 0 -> h_content_length h <= L ->
  step (PHdr rl h) (CRLF ++ t) = SDone (PBody rl h [] (h_content_length h)) t [OContinue (rl_version rl)].
Proof.
  intros Ex Hz Hl. rewrite size_limit_accept by exact Hl.
  apply N.eqb_neq in Hz. rewrite Hz, Ex. reflexivity.
Qed.

(* exactly once per request that asks for it and carries a body: over a whole run, the interim
   responses are those of the delivered requests that expected one, in order, plus the one for
   the request whose body is still awaited *)
Definition expecting (x : request_line * headers * option bytes) : bool :=
  match x with (_, h, Some _) => h_expect h | _ => false end.

Fixpoint ocores (outs : list out) : list (request_line * headers * option bytes) :=
  match outs with
  | [] => []
  | ORequest rl h b :: r => (rl, h, b) :: ocores r
  | OContinue _ :: r => ocores r
  end.
Fixpoint oconts (outs : list out) : list version :=
  match outs with
  | [] => []
  | ORequest _ _ _ :: r => oconts r
  | OContinue v :: r => v :: oconts r
  end.
Definition conts_for (cs : list (request_line * headers * option bytes)) : list version :=
  map (fun x => rl_version (fst (fst x))) (filter expecting cs).
Definition pending_cont (ph : phase) : list version :=
  match ph with PBody rl h _ _ => if h_expect h then [rl_version rl] else [] | _ => [] end.

Lemma ocores_app a b : ocores (a ++ b) = ocores a ++ ocores b.
Proof. induction a as [|o a IH]; [reflexivity|]. destruct o; cbn; rewrite IH; reflexivity. Qed.
Lemma oconts_app a b : oconts (a ++ b) = oconts a ++ oconts b.
Proof. induction a as [|o a IH]; [reflexivity|]. destruct o; cbn; rewrite IH; reflexivity. Qed.
Lemma conts_for_app a b : conts_for (a ++ b) = conts_for a ++ conts_for b.
Proof. unfold conts_for. rewrite filter_app, map_app. reflexivity. Qed.

Definition J (ph : phase) (acc : list out) : Prop :=
  oconts acc = conts_for (ocores acc) ++ pending_cont ph.

Lemma step_J ph w acc : J ph acc ->
  match step ph w with
  | SDone ph' _ o => J ph' (acc ++ o)
  | SMore ph' _ => J ph' acc
  | SErr _ => pending_cont ph = []
  end.
Proof.
  unfold J. intros HJ. destruct ph as [|rl h|rl h a lft]; cbn [ConnSpec.step].
  - destruct (take_line w) as [l r| |]; auto. destruct (parse_reqline l); auto.
    rewrite app_nil_r. exact HJ.
  - destruct (take_line w) as [l r| |]; auto.
    destruct l as [|x l'].
    + destruct (h_content_length h =? 0).
      * rewrite oconts_app, ocores_app, conts_for_app. cbn. rewrite HJ. cbn. rewrite !app_nil_r. reflexivity.
      * destruct (L <? h_content_length h); [reflexivity|].
        rewrite oconts_app, ocores_app, conts_for_app. rewrite HJ. cbn [pending_cont].
        destruct (h_expect h); cbn; rewrite ?app_nil_r; reflexivity.
    + destruct (parse_header_tolerant h (x :: l')); auto. rewrite app_nil_r. exact HJ.
  - destruct (lft <=? lenN w).
    + rewrite oconts_app, ocores_app, conts_for_app. rewrite HJ. cbn.
      destruct (h_expect h); cbn; rewrite ?app_nil_r; reflexivity.
    + exact HJ.
Qed.

Theorem run_J : forall n ph w acc, (rank ph w < n)%nat -> J ph acc ->
  match runT ph w acc with
  | RMore ph' _ o => oconts o = conts_for (ocores o) ++ pending_cont ph'
  | RErr o _ => oconts o = conts_for (ocores o)
  | ROutOfFuel => False
  end.
Proof.
  induction n as [|n IH]; intros ph w acc Hn HJ; [lia|].
  rewrite runT_unfold. pose proof (step_J ph w acc HJ) as S.
  destruct (step ph w) as [ph' rest o|ph' c|e] eqn:St.
  - apply IH; [apply step_rank in St; lia|exact S].
  - exact S.
  - unfold J in HJ. rewrite S, app_nil_r in HJ. exact HJ.
Qed.

Corollary parse_stream_continues s :
  match parse_stream BUF L s with
  | RMore ph' _ o => oconts o = conts_for (ocores o) ++ pending_cont ph'
  | RErr o _ => oconts o = conts_for (ocores o)
  | ROutOfFuel => False
  end.
Proof. apply (run_J (S (rank PLine s))); [lia|reflexivity]. Qed.

End Rules.
