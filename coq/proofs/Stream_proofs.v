(* C07, the whole byte stream a client receives, over ALL histories.

   Ghost bookkeeping (defined from what is observable outside the server, never from its internals):
     rcv c   every byte the server side has appended to client c's receive queue so far, in order
             (a poll appends d c, where d c is the growth of k_rx between the two worlds);
     sup g   the responses the application has supplied with a token of connection instance g, in order;
     yld g   how many requests have been yielded with a token of instance g;
     seen    the clients that have ever asked to connect (a client connects once).

   Theorem (stream_provenance): in every history of polls (any contract-abiding, truthful batch in any
   order, any partial reads / writes), responses for held tokens, and arbitrary client / environment
   behaviour (send, close, half-close, read, new clients; a closed or shut-down direction stays so),
   there are a map beta from instances to clients, one-to-one, and for each instance g a sequence
   log g of responses such that
     - rcv c is []  or the 503 refusal  or a PREFIX of the serialisation of log g for the one instance g of c;
     - every element of log g is either server-generated (100 Continue / 400) or a response the application
       supplied with a token of g; the latter form a SUBSEQUENCE of sup g (each at most once, in order);
     - the number of responses supplied for g plus the tokens of g still held is the number of requests
       yielded for g (each request is answered at most once).
   So a response supplied with a token of instance g can only ever appear in the stream of client beta g. *)
From MH Require Export proofs.Provenance_proofs.
From Coq Require Import Lia.

(* ---------- response sequences ---------- *)
Inductive item := IGen (r : response) | IApp (r : response).
Definition iresp (i : item) : response := match i with IGen r | IApp r => r end.
Definition ser (l : list item) : bytes := flat_map (fun i => serialize (iresp i)) l.
Definition apps (l : list item) : list response :=
  flat_map (fun i => match i with IApp r => [r] | IGen _ => [] end) l.
Definition gens_ok (l : list item) : Prop :=
  Forall (fun i => match i with IGen r => server_generated r | IApp _ => True end) l.

Inductive subseq {A} : list A -> list A -> Prop :=
| sub_nil : subseq [] []
| sub_take a l1 l2 : subseq l1 l2 -> subseq (a :: l1) (a :: l2)
| sub_skip a l1 l2 : subseq l1 l2 -> subseq l1 (a :: l2).

Lemma subseq_refl {A} (l : list A) : subseq l l.
Proof. induction l; constructor; auto. Qed.
Lemma subseq_snoc_both {A} (l1 l2 : list A) a : subseq l1 l2 -> subseq (l1 ++ [a]) (l2 ++ [a]).
Proof. induction 1; cbn; [repeat constructor|constructor; auto|constructor; auto]. Qed.
Lemma subseq_snoc_skip {A} (l1 l2 : list A) a : subseq l1 l2 -> subseq l1 (l2 ++ [a]).
Proof. induction 1; cbn; [repeat constructor|constructor; auto|constructor; auto]. Qed.
Lemma subseq_length {A} (l1 l2 : list A) : subseq l1 l2 -> (length l1 <= length l2)%nat.
Proof. induction 1; cbn; lia. Qed.

Lemma ser_app a b : ser (a ++ b) = ser a ++ ser b.
Proof. unfold ser. apply flat_map_app. Qed.
Lemma ser_gens gen : ser (map IGen gen) = flat_map serialize gen.
Proof. unfold ser. induction gen as [|r t IH]; cbn; [reflexivity|]. rewrite IH. reflexivity. Qed.
Lemma apps_app a b : apps (a ++ b) = apps a ++ apps b.
Proof. unfold apps. apply flat_map_app. Qed.
Lemma apps_gens gen : apps (map IGen gen) = [].
Proof. unfold apps. induction gen; cbn; auto. Qed.
Lemma gens_ok_app a b : gens_ok a -> gens_ok b -> gens_ok (a ++ b).
Proof. unfold gens_ok. intros. apply Forall_app. auto. Qed.
Lemma gens_ok_gens gen : Forall server_generated gen -> gens_ok (map IGen gen).
Proof. unfold gens_ok. induction 1; cbn; constructor; auto. Qed.

(* ---------- what the kernel remembers about a client's two directions ---------- *)
Definition flags_same (w w' : world) : Prop :=
  forall c, k_hup (client_of w' c) = k_hup (client_of w c) /\
            k_can_receive (client_of w' c) = k_can_receive (client_of w c).

Lemma flags_same_refl w : flags_same w w.
Proof. intros c; auto. Qed.
Lemma flags_same_trans w1 w2 w3 : flags_same w1 w2 -> flags_same w2 w3 -> flags_same w1 w3.
Proof. intros H1 H2 c. destruct (H1 c), (H2 c). split; congruence. Qed.

Lemma flags_update (cls : list (nat * client)) c cl cl' c0 :
  alookup c cls = Some cl -> k_open cl' = k_open cl -> k_shut_wr cl' = k_shut_wr cl -> k_shut_rd cl' = k_shut_rd cl ->
  let a := match alookup c0 (aupdate c cl' cls) with Some v => v | None => dead_client end in
  let b := match alookup c0 cls with Some v => v | None => dead_client end in
  k_hup a = k_hup b /\ k_can_receive a = k_can_receive b.
Proof.
  intros L E1 E2 E3. cbn zeta. destruct (Nat.eq_dec c c0) as [->|Hne].
  - rewrite (alookup_update_same _ cl' _ _ L), L. unfold k_hup, k_can_receive. rewrite E1, E2, E3. auto.
  - rewrite alookup_update_other by exact Hne. auto.
Qed.

Lemma flags_update_none {A} (cls : list (nat * A)) c v : alookup c cls = None -> aupdate c v cls = cls.
Proof.
  induction cls as [|[k u] t IH]; cbn; [reflexivity|]. destruct (Nat.eqb k c) eqn:E; [discriminate|].
  intros H. rewrite IH by exact H. reflexivity.
Qed.

Lemma flags_aupdate (cls : list (nat * client)) c cl' c0 :
  let old := match alookup c cls with Some v => v | None => dead_client end in
  k_open cl' = k_open old -> k_shut_wr cl' = k_shut_wr old -> k_shut_rd cl' = k_shut_rd old ->
  let a := match alookup c0 (aupdate c cl' cls) with Some v => v | None => dead_client end in
  let b := match alookup c0 cls with Some v => v | None => dead_client end in
  k_hup a = k_hup b /\ k_can_receive a = k_can_receive b.
Proof.
  cbn zeta. destruct (alookup c cls) as [cl|] eqn:L; intros E1 E2 E3.
  - eapply flags_update; eauto.
  - rewrite flags_update_none by exact L. auto.
Qed.

Section Stream.
Variable BUF : nat.
Hypothesis BUF_min : (2 <= BUF)%nat.
Hypothesis BUF_u32 : N.of_nat BUF < U32_LIMIT.

Notation cc_read := (cc_read BUF).
Notation handle_event := (handle_event BUF).
Notation handle_all := (handle_all BUF).
Notation poll_with := (poll_with BUF).
Notation Inv := (Inv BUF).

Lemma handle_flags w e w' ys : handle_event w e = inl (w', ys) -> flags_same w w'.
Proof.
  destruct e as [fd|fd kk|fd kk|nf|]; cbn [Server.handle_event].
  - destruct (alookup fd (w_conns w)); [|discriminate]. intros H; inversion H; subst. intros c. auto.
  - destruct (alookup fd (w_conns w)) as [x|]; [|discriminate].
    destruct (cc_read x _) as [[y rs]|]; [|discriminate]. intros H; inversion H; subst w' ys; clear H.
    intros c. unfold client_of. cbn [set_client set_conn w_clients]. apply flags_aupdate; reflexivity.
  - destruct (alookup fd (w_conns w)) as [x|]; [|discriminate].
    destruct (cc_write x _ _) as [[y sent]|]; [|discriminate]. intros H; inversion H; subst w' ys; clear H.
    intros c. unfold client_of. cbn [set_client set_conn w_clients]. apply flags_aupdate; reflexivity.
  - destruct (w_backlog w) as [|c0 rest]; [intros H; inversion H; subst; apply flags_same_refl|].
    destruct (Nat.eqb (length (w_conns w)) MAX_CONNECTIONS); intros H; inversion H; subst w' ys; clear H;
      intros c; unfold client_of; cbn [w_clients]; apply flags_aupdate; reflexivity.
  - discriminate.
Qed.

Lemma sweep_flags w : flags_same w (sweep w).
Proof.
  intros c. unfold sweep, client_of. cbn [w_clients].
  set (dead := filter (fun p : nat * sconn => is_done (snd p)) (w_conns w)).
  generalize dead. intros l. generalize (w_clients w). induction l as [|p l IH]; intros cls; cbn [fold_left]; [auto|].
  destruct (IH (match alookup (sc_client (snd p)) cls with
                | Some cl => aupdate (sc_client (snd p)) (mkCl (k_open cl) (k_shut_wr cl) (k_shut_rd cl) [] (k_rx cl) Gone) cls
                | None => cls end)) as [I1 I2].
  rewrite I1, I2. destruct (alookup (sc_client (snd p)) cls) as [cl|] eqn:L; [|auto].
  eapply flags_update; eauto.
Qed.

(* ---------- the invariant ---------- *)
(* while the client can still be written to: the wire of a connection that is not Closed is intact
   (everything delivered so far followed by the unsent output is the serialisation of the instance's log),
   and a Closed connection's client has hung up (so nothing is ever read from it again) *)
Definition intact (w : world) (rcv : nat -> bytes) (log : nat -> list item) (x : sconn) : Prop :=
  k_can_receive (client_of w (sc_client x)) = true ->
  (sc_st x <> SClosed -> rcv (sc_client x) ++ unsent (sc_conn x) = ser (log (sc_gid x))) /\
  (sc_st x = SClosed -> k_hup (client_of w (sc_client x)) = true).

Record SI (w : world) (toks : list tok) (rcv : nat -> bytes) (sup : nat -> list response) (yld : nat -> nat)
          (seen : list nat) (beta : nat -> nat) (log : nat -> list item) : Prop := {
  si_inv : Inv w toks;
  si_bound : bound beta w;
  si_rb : forall fd x, alookup fd (w_conns w) = Some x -> c_rbuf (sc_conn x) <> Some [];
  si_intact : forall fd x, alookup fd (w_conns w) = Some x -> intact w rcv log x;
  si_pref : forall g, (g < w_nextg w)%nat -> exists tail, rcv (beta g) ++ tail = ser (log g);
  si_binj : forall g g', (g < w_nextg w)%nat -> (g' < w_nextg w)%nat -> beta g = beta g' -> g = g';
  si_seen : forall g, (g < w_nextg w)%nat -> In (beta g) seen;
  si_unseen : forall c, ~ In c seen -> rcv c = [];
  si_bl_nodup : NoDup (w_backlog w);
  si_bl : forall c, In c (w_backlog w) ->
            In c seen /\ rcv c = [] /\ forall g, (g < w_nextg w)%nat -> beta g <> c;
  si_other : forall c, (forall g, (g < w_nextg w)%nat -> beta g <> c) ->
            rcv c = [] \/ rcv c = SERVER_FULL_ERROR_MESSAGE;
  si_log_new : forall g, (w_nextg w <= g)%nat -> log g = [];
  si_gens : forall g, gens_ok (log g);
  si_apps : forall g, subseq (apps (log g)) (sup g);
  si_count : forall g, (length (sup g) + count_g g toks = yld g)%nat;
}.

(* two connections in the table never serve the same client *)
Lemma si_client_inj w toks rcv sup yld seen beta log fd fd' x x' :
  SI w toks rcv sup yld seen beta log ->
  alookup fd (w_conns w) = Some x -> alookup fd' (w_conns w) = Some x' -> sc_client x = sc_client x' -> fd = fd'.
Proof.
  intros S H1 H2 E. pose proof (si_inv _ _ _ _ _ _ _ _ S) as HI.
  rewrite <- (si_bound _ _ _ _ _ _ _ _ S _ _ H1), <- (si_bound _ _ _ _ _ _ _ _ S _ _ H2) in E.
  apply (si_binj _ _ _ _ _ _ _ _ S) in E; [|eapply inv_gid_lt; eauto|eapply inv_gid_lt; eauto].
  eapply inv_gid_inj; eauto.
Qed.

(* ---------- one step on one connection, abstractly ---------- *)
Lemma conn_step_SI w toks rcv sup yld seen beta log w' toks' rcv' sup' yld' log' fd x y d ext :
  SI w toks rcv sup yld seen beta log ->
  alookup fd (w_conns w) = Some x ->
  w_conns w' = aupdate fd y (w_conns w) -> w_backlog w' = w_backlog w -> w_nextg w' = w_nextg w ->
  flags_same w w' ->
  sc_gid y = sc_gid x -> sc_client y = sc_client x -> c_rbuf (sc_conn y) <> Some [] ->
  (forall c, rcv' c = rcv c ++ (if Nat.eqb c (sc_client x) then d else [])) ->
  (forall g, log' g = if Nat.eqb g (sc_gid x) then log g ++ ext else log g) ->
  gens_ok ext ->
  (d = [] \/ (k_can_receive (client_of w (sc_client x)) = true /\ sc_st x <> SClosed /\
              exists rest, unsent (sc_conn x) = d ++ rest)) ->
  (k_can_receive (client_of w (sc_client x)) = true ->
     (sc_st x <> SClosed -> rcv (sc_client x) ++ unsent (sc_conn x) = ser (log (sc_gid x))) /\
     (sc_st x = SClosed -> k_hup (client_of w (sc_client x)) = true) ->
     (sc_st y <> SClosed -> (rcv (sc_client x) ++ d) ++ unsent (sc_conn y) = ser (log (sc_gid x) ++ ext)) /\
     (sc_st y = SClosed -> k_hup (client_of w (sc_client x)) = true)) ->
  Inv w' toks' ->
  (forall g, subseq (apps (log' g)) (sup' g)) ->
  (forall g, (length (sup' g) + count_g g toks' = yld' g)%nat) ->
  SI w' toks' rcv' sup' yld' seen beta log'.
Proof.
  intros S HL Ec Ebl Eng Hfl Eg Ecl Hrby Hrcv Hlog Hext Hd Hkey HI' Happs' Hcnt'.
  pose proof S as [HI Hb Hrb Hint Hpref Hbinj Hseen Hunseen Hnd Hbl Hoth Hnew Hgens Happs Hcnt].
  pose proof (inv_gid_lt _ _ _ HI _ _ HL) as Hglt.
  pose proof (Hb _ _ HL) as Hbx.
  assert (Hother_client : forall c, c <> sc_client x -> rcv' c = rcv c).
  { intros c Hne. rewrite Hrcv. apply Nat.eqb_neq in Hne. rewrite Hne. apply app_nil_r. }
  assert (Hother_log : forall g, g <> sc_gid x -> log' g = log g).
  { intros g Hne. rewrite Hlog. apply Nat.eqb_neq in Hne. rewrite Hne. reflexivity. }
  assert (Hown_client : rcv' (sc_client x) = rcv (sc_client x) ++ d) by (rewrite Hrcv, Nat.eqb_refl; reflexivity).
  assert (Hown_log : log' (sc_gid x) = log (sc_gid x) ++ ext) by (rewrite Hlog, Nat.eqb_refl; reflexivity).
  assert (Hnotclient : forall c, (forall g, (g < w_nextg w)%nat -> beta g <> c) -> c <> sc_client x).
  { intros c Hc E. apply (Hc (sc_gid x) Hglt). congruence. }
  constructor.
  - exact HI'.
  - intros fd0 x0 H0. rewrite Ec in H0. apply alookup_update_cases in H0.
    destruct H0 as [(-> & -> & _)|(_ & H0)]; [rewrite Eg, Ecl; exact Hbx|eauto].
  - intros fd0 x0 H0. rewrite Ec in H0. apply alookup_update_cases in H0.
    destruct H0 as [(-> & -> & _)|(_ & H0)]; [exact Hrby|eauto].
  - intros fd0 x0 H0. rewrite Ec in H0. apply alookup_update_cases in H0.
    destruct H0 as [(-> & -> & _)|(Hne & H0)].
    + unfold intact. rewrite Ecl, Eg. destruct (Hfl (sc_client x)) as [F1 F2]. rewrite F1, F2.
      intros C1. rewrite Hown_client, Hown_log. apply Hkey; auto. apply (Hint _ _ HL); auto.
    + assert (Hc : sc_client x0 <> sc_client x).
      { intros E. apply Hne. eapply si_client_inj; eauto. }
      assert (Hg : sc_gid x0 <> sc_gid x).
      { intros E. apply Hne. eapply inv_gid_inj; eauto. }
      unfold intact. destruct (Hfl (sc_client x0)) as [F1 F2]. rewrite F1, F2.
      rewrite (Hother_client _ Hc), (Hother_log _ Hg). apply (Hint _ _ H0).
  - intros g Hg. rewrite Eng in Hg. destruct (Hpref g Hg) as [tail Ht].
    destruct (Nat.eq_dec g (sc_gid x)) as [->|Hne].
    + rewrite Hbx, Hown_client, Hown_log. destruct Hd as [->|(C1 & C2 & rest & Hrest)].
      * exists (tail ++ ser ext). rewrite app_nil_r, ser_app, app_assoc. rewrite Hbx in Ht. rewrite Ht. reflexivity.
      * exists (rest ++ ser ext). destruct (Hint _ _ HL C1) as [Hex _]. specialize (Hex C2).
        rewrite ser_app, <- Hex, Hrest, !app_assoc. reflexivity.
    + assert (Hc : beta g <> sc_client x).
      { intros E. apply Hne. apply Hbinj; auto. congruence. }
      rewrite (Hother_client _ Hc), (Hother_log _ Hne). eauto.
  - rewrite Eng. exact Hbinj.
  - rewrite Eng. exact Hseen.
  - intros c Hc. rewrite Hother_client; [auto|]. intros E. apply Hc. rewrite E, <- Hbx. apply Hseen. exact Hglt.
  - rewrite Ebl. exact Hnd.
  - rewrite Ebl, Eng. intros c Hc. destruct (Hbl c Hc) as (A1 & A2 & A3).
    split; [exact A1|]. split; [|exact A3]. rewrite Hother_client; auto.
  - rewrite Eng. intros c Hc. rewrite Hother_client; auto.
  - rewrite Eng. intros g Hg. rewrite Hother_log by lia. auto.
  - intros g. rewrite Hlog. destruct (Nat.eqb g (sc_gid x)); [apply gens_ok_app; auto|auto].
  - exact Happs'.
  - exact Hcnt'.
Qed.

(* ---------- truthful readiness (K4): a hang-up is reported only when the client has hung up; input is reported
   only when there is input and no hang-up (the server looks at the hang-up bit first; end of stream comes with
   the hang-up bit) ---------- *)
Definition evt_true (w : world) (e : event) : Prop :=
  match e with
  | EvIn fd _ => forall x, alookup fd (w_conns w) = Some x ->
                  k_hup (client_of w (sc_client x)) = false /\ k_tosrv (client_of w (sc_client x)) <> []
  | EvHup fd => forall x, alookup fd (w_conns w) = Some x -> k_hup (client_of w (sc_client x)) = true
  | EvOut _ _ | EvListener _ | EvKill => True
  end.

Lemma cc_write_noreceive x k y sent :
  c_rbuf (sc_conn x) <> Some [] -> cc_write x false k = inl (y, sent) ->
  sent = [] /\ c_rbuf (sc_conn y) <> Some [] /\ sc_gid y = sc_gid x /\ sc_client y = sc_client x.
Proof.
  intros Hrb. unfold cc_write. destruct (sc_st x).
  1,2: unfold try_write; destruct (c_rbuf (sc_conn x)) as [b0|]; [|destruct (c_rq (sc_conn x)) as [|r q]];
       cbn; try discriminate; intros H; inversion H; subst; cbn; (split; [reflexivity|]); (split; [discriminate|auto]).
  intros H; inversion H; subst. auto.
Qed.

Lemma SI_same w toks rcv sup yld seen beta log rcv' sup' yld' :
  SI w toks rcv sup yld seen beta log -> (forall c, rcv' c = rcv c) -> (forall g, sup' g = sup g) -> (forall g, yld' g = yld g) ->
  SI w toks rcv' sup' yld' seen beta log.
Proof.
  intros [HI Hb Hrb Hint Hpref Hbinj Hseen Hunseen Hnd Hbl Hoth Hnew Hgens Happs Hcnt] Hr Hs Hy.
  constructor; auto.
  - intros fd x HL. unfold intact. rewrite Hr. apply (Hint _ _ HL).
  - intros g Hg. rewrite Hr. auto.
  - intros c Hc. rewrite Hr. auto.
  - intros c Hc. rewrite Hr. auto.
  - intros c Hc. rewrite Hr. auto.
  - intros g. rewrite Hs. auto.
  - intros g. rewrite Hs, Hy. auto.
Qed.

Lemma SI_toks w a b rcv sup yld seen beta log :
  (forall t, In t a <-> In t b) -> (forall g, count_g g a = count_g g b) ->
  SI w a rcv sup yld seen beta log -> SI w b rcv sup yld seen beta log.
Proof.
  intros S1 S2 [HI Hb Hrb Hint Hpref Hbinj Hseen Hunseen Hnd Hbl Hoth Hnew Hgens Happs Hcnt].
  constructor; auto.
  - destruct HI as [A1 A2 A3 A4 A5 A6 A7]. constructor; auto.
    + intros fd g Hin. apply A5. apply S1. exact Hin.
    + intros fd x HL. rewrite (A6 _ _ HL), S2. reflexivity.
  - intros g. rewrite <- S2. auto.
Qed.

Theorem event_stream w toks rcv sup yld seen beta log e w' ys :
  SI w toks rcv sup yld seen beta log -> evt_ok w e -> evt_true w e -> e <> EvKill ->
  handle_event w e = inl (w', ys) ->
  exists d beta' log',
    (forall c, k_rx (client_of w' c) = k_rx (client_of w c) ++ d c) /\
    forall rcv' yld',
      (forall c, rcv' c = rcv c ++ d c) ->
      (forall g, yld' g = (yld g + count_g g (ytoks ys))%nat) ->
      SI w' (ytoks ys ++ toks) rcv' sup yld' seen beta' log'.
Proof.
  intros S Hok Htrue Hnk H.
  pose proof S as [HI Hb Hrb Hint Hpref Hbinj Hseen Hunseen Hnd Hbl Hoth Hnew Hgens Happs Hcnt].
  destruct (handle_ok BUF BUF_min BUF_u32 w toks e HI Hok Hnk) as [(w1 & ys1 & Hh & HI' & _ & _)|Hov]; [|congruence].
  rewrite H in Hh. inversion Hh; subst w1 ys1; clear Hh.
  assert (Hcount : forall yld', (forall g, yld' g = (yld g + count_g g (ytoks ys))%nat) ->
                     forall g, (length (sup g) + count_g g (ytoks ys ++ toks) = yld' g)%nat).
  { intros yld' Hy g. rewrite count_g_app, Hy, <- (Hcnt g). lia. }
  pose proof (handle_flags _ _ _ _ H) as Hfl.
  destruct e as [fd|fd kk|fd kk|nf|]; [| | | |congruence].
  - (* hang-up *)
    cbn [evt_ok] in Hok. destruct Hok as (x & HL). cbn [Server.handle_event] in H. rewrite HL in H.
    inversion H; subst w' ys; clear H.
    exists (fun _ => []), beta, log. split; [intros c; rewrite app_nil_r; reflexivity|].
    intros rcv' yld' Hr Hy.
    apply (conn_step_SI w toks rcv sup yld seen beta log _ _ rcv' sup yld' log fd x
             (mkSC (clear_write_buffer (sc_conn x)) SClosed (sc_infl x) (sc_client x) (sc_out x) (sc_gid x)) [] [] S HL).
    + reflexivity.
    + reflexivity.
    + reflexivity.
    + exact Hfl.
    + reflexivity.
    + reflexivity.
    + cbn. discriminate.
    + intros c. rewrite Hr. destruct (Nat.eqb _ _); reflexivity.
    + intros g. destruct (Nat.eqb _ _); [rewrite app_nil_r|]; reflexivity.
    + constructor.
    + left; reflexivity.
    + intros C1 _. split; [intros Hyc; cbn in Hyc; congruence|intros _; exact (Htrue x HL)].
    + exact HI'.
    + exact Happs.
    + apply Hcount. exact Hy.
  - (* readable *)
    destruct (read_unsent_rb BUF BUF_min BUF_u32 w toks fd kk w' ys HI Hok H)
      as (x & y & gen & HL & HL' & Hun & Hgen & _ & Hrby & Hg & Hc & Ec & Ebl & Eng & (rs & Eys) & Hopen).
    exists (fun _ => []), beta, (fun g => if Nat.eqb g (sc_gid x) then log g ++ map IGen gen else log g).
    split.
    { intros c. rewrite app_nil_r. destruct (event_delivery BUF w _ w' ys c H) as (d0 & Hd0 & [->|[(? & ? & ? & ? & E & _)|(? & ? & E & _)]]);
        [rewrite app_nil_r in Hd0; exact Hd0|discriminate|discriminate]. }
    intros rcv' yld' Hr Hy.
    apply (conn_step_SI w toks rcv sup yld seen beta log _ _ rcv' sup yld' _ fd x y [] (map IGen gen) S HL); auto.
    + rewrite Hrby. eauto.
    + intros c. rewrite Hr. destruct (Nat.eqb _ _); reflexivity.
    + apply gens_ok_gens. exact Hgen.
    + intros C1 [Hex Hdead]. cbn [evt_true] in Htrue. destruct (Htrue x HL) as [Hnohup Hdata].
      assert (Sx : sc_st x <> SClosed) by (intros Sx; rewrite (Hdead Sx) in Hnohup; discriminate).
      split; [|intros Sy; exfalso; exact (Hopen Sx Hdata Sy)].
      intros _. rewrite app_nil_r, ser_app, ser_gens, Hun, app_assoc, (Hex Sx). reflexivity.
    + intros g. destruct (Nat.eqb g (sc_gid x)); [rewrite apps_app, apps_gens, app_nil_r|]; apply Happs.
  - (* writable *)
    cbn [evt_ok] in Hok. destruct Hok as (x & HL & Hout). cbn [Server.handle_event] in H. rewrite HL in H.
    set (cl := client_of w (sc_client x)) in *.
    destruct (cc_write x (k_can_receive cl) kk) as [[y sent]|] eqn:W; [|discriminate].
    inversion H; subst w' ys; clear H.
    set (y' := match sc_st y with AwaitIn => mkSC (sc_conn y) (sc_st y) (sc_infl y) (sc_client y) false (sc_gid y) | _ => y end) in *.
    assert (Ey : sc_conn y' = sc_conn y /\ sc_gid y' = sc_gid y /\ sc_client y' = sc_client y)
      by (unfold y'; destruct (sc_st y); auto).
    destruct Ey as (Ey1 & Ey2 & Ey3).
    destruct (cc_write_ids _ _ _ _ _ W) as (Hg & Hc & _).
    pose proof (inv_cc _ _ _ HI _ _ HL) as [Hst _].
    assert (Sy' : sc_st y' = sc_st y) by (unfold y'; destruct (sc_st y) eqn:S0; cbn; auto).
    assert (Facts : c_rbuf (sc_conn y) <> Some [] /\
                    (sent = [] \/ k_can_receive cl = true) /\
                    (sc_st x = SClosed -> sc_st y = SClosed /\ sent = []) /\
                    (k_can_receive cl = true -> sc_st x <> SClosed ->
                       sc_st y <> SClosed /\ unsent (sc_conn x) = sent ++ unsent (sc_conn y))).
    { destruct (sc_st x) eqn:S0.
      - (* AwaitIn contradicts OUT interest *) unfold st_ok in Hst. rewrite S0 in Hst. destruct Hst as [Hst _]. congruence.
      - destruct (k_can_receive cl) eqn:CR.
        + unfold st_ok in Hst. rewrite S0 in Hst. destruct Hst as [_ Hp].
          destruct (cc_write_calm BUF BUF_min BUF_u32 x kk S0 Hp (Hrb _ _ HL)) as (y0 & sent0 & W0 & _ & Hu & Hyo & Hrb0 & _).
          rewrite W in W0. inversion W0; subst y0 sent0.
          split; [exact Hrb0|]. split; [auto|]. split; [discriminate|]. auto.
        + destruct (cc_write_noreceive x kk y sent (Hrb _ _ HL) W) as (-> & Hr0 & _).
          split; [exact Hr0|]. split; [auto|]. split; [discriminate|]. discriminate.
      - unfold cc_write in W. rewrite S0 in W. inversion W; subst y sent.
        split; [eauto|]. split; [auto|]. split; [auto|]. intros _ Hx. congruence. }
    destruct Facts as (Hrby & Hsent & Hclosed & Hun).
    exists (fun c => if Nat.eqb c (sc_client x) then sent else []), beta, log.
    split.
    { intros c. unfold client_of at 1. cbn [set_client set_conn w_clients]. rewrite krx_update.
      destruct (Nat.eqb c (sc_client x)) eqn:E; [|rewrite app_nil_r; reflexivity].
      apply Nat.eqb_eq in E. subst c.
      assert (Hs : alookup (sc_client x) (w_clients w) = None -> sent = []).
      { intros L. destruct Hsent as [->|CR]; [reflexivity|]. unfold cl, client_of in CR. rewrite L in CR. discriminate. }
      clear - Hs. subst cl. unfold client_of.
      destruct (alookup (sc_client x) (w_clients w)) as [cl0|]; [reflexivity|]. rewrite (Hs eq_refl). reflexivity. }
    intros rcv' yld' Hr Hy.
    apply (conn_step_SI w toks rcv sup yld seen beta log _ _ rcv' sup yld' log fd x y' sent [] S HL).
    + reflexivity.
    + reflexivity.
    + reflexivity.
    + exact Hfl.
    + congruence.
    + congruence.
    + rewrite Ey1. exact Hrby.
    + exact Hr.
    + intros g. destruct (Nat.eqb _ _); [rewrite app_nil_r|]; reflexivity.
    + constructor.
    + destruct Hsent as [->|CR]; [left; reflexivity|].
      destruct (sc_st x) eqn:S0.
      * right. split; [exact CR|]. split; [discriminate|]. destruct (Hun CR ltac:(discriminate)) as [_ Hu]. eauto.
      * right. split; [exact CR|]. split; [discriminate|]. destruct (Hun CR ltac:(discriminate)) as [_ Hu]. eauto.
      * left. apply (Hclosed eq_refl).
    + intros C1 [Hex Hdead]. rewrite Sy', Ey1. destruct (sc_st x) eqn:S0.
      * destruct (Hun C1 ltac:(discriminate)) as [Hyo Hu]. split; [|intros Hyy; congruence].
        intros _. rewrite app_nil_r, <- (Hex ltac:(discriminate)), Hu, app_assoc. reflexivity.
      * destruct (Hun C1 ltac:(discriminate)) as [Hyo Hu]. split; [|intros Hyy; congruence].
        intros _. rewrite app_nil_r, <- (Hex ltac:(discriminate)), Hu, app_assoc. reflexivity.
      * destruct (Hclosed eq_refl) as [Hyc _]. split; [intros Hyy; congruence|intros _; apply Hdead; reflexivity].
    + exact HI'.
    + exact Happs.
    + apply Hcount. exact Hy.
  - (* the listener *)
    cbn [evt_ok] in Hok. cbn [Server.handle_event] in H.
    destruct (w_backlog w) as [|c rest] eqn:Bk.
    { inversion H; subst w' ys; clear H.
      exists (fun _ => []), beta, log. split; [intros c; rewrite app_nil_r; reflexivity|].
      intros rcv' yld' Hr Hy. apply (SI_same w toks rcv sup yld seen beta log); auto.
      - intros c. rewrite Hr. apply app_nil_r.
      - intros g. rewrite Hy. cbn. lia. }
    assert (Hc_bl : In c (c :: rest)) by (left; reflexivity).
    destruct (Hbl c Hc_bl) as (Cseen & Crcv & Cnot).
    assert (Hrest : forall c2, In c2 rest -> In c2 (c :: rest) /\ c2 <> c).
    { intros c2 H2. split; [right; exact H2|]. inversion Hnd; subst. intros ->. auto. }
    assert (Hndrest : NoDup rest) by (inversion Hnd; auto).
    assert (Hconn_client : forall fd0 x0, alookup fd0 (w_conns w) = Some x0 -> sc_client x0 <> c).
    { intros fd0 x0 H0. rewrite <- (Hb _ _ H0). apply Cnot. eapply inv_gid_lt; eauto. }
    destruct (Nat.eqb (length (w_conns w)) MAX_CONNECTIONS) eqn:Full.
    + (* refused: best-effort 503 *)
      inversion H; subst w' ys; clear H.
      set (msg := if k_can_receive (client_of w c) then SERVER_FULL_ERROR_MESSAGE else []).
      exists (fun c0 => if Nat.eqb c0 c then msg else []), beta, log.
      split.
      { intros c0. unfold client_of at 1. cbn [w_clients]. rewrite krx_update.
        destruct (Nat.eqb c0 c) eqn:E; [|rewrite app_nil_r; reflexivity].
        apply Nat.eqb_eq in E. subst c0. unfold msg, client_of.
        destruct (alookup c (w_clients w)) as [cl0|]; [|reflexivity]. cbn [k_rx].
        destruct (k_can_receive cl0); [reflexivity|rewrite app_nil_r; reflexivity]. }
      intros rcv' yld' Hr Hy.
      assert (Hr_other : forall c0, c0 <> c -> rcv' c0 = rcv c0).
      { intros c0 Hne. rewrite Hr. apply Nat.eqb_neq in Hne. rewrite Hne. apply app_nil_r. }
      constructor; cbn [w_conns w_backlog w_nextg].
      * exact HI'.
      * exact Hb.
      * exact Hrb.
      * intros fd0 x0 H0. unfold intact. destruct (Hfl (sc_client x0)) as [F1 F2]. rewrite F1, F2.
        rewrite Hr_other by eauto. apply (Hint _ _ H0).
      * intros g Hg. rewrite Hr_other by auto. auto.
      * exact Hbinj.
      * exact Hseen.
      * intros c0 Hc0. rewrite Hr_other; [auto|]. intros ->. auto.
      * exact Hndrest.
      * intros c2 H2. destruct (Hrest c2 H2) as [B1 B2]. destruct (Hbl c2 B1) as (A1 & A2 & A3).
        split; [exact A1|]. split; [rewrite Hr_other; auto|exact A3].
      * intros c0 Hc0. destruct (Nat.eq_dec c0 c) as [->|Hne].
        -- rewrite Hr, Nat.eqb_refl, Crcv. cbn [app]. unfold msg. destruct (k_can_receive _); auto.
        -- rewrite Hr_other by exact Hne. auto.
      * exact Hnew.
      * exact Hgens.
      * exact Happs.
      * apply Hcount. exact Hy.
    + (* accepted: a new instance *)
      inversion H; subst w' ys; clear H.
      set (g0 := w_nextg w) in *.
      exists (fun _ => []), (fun g => if Nat.eqb g g0 then c else beta g), log.
      split.
      { intros c0. rewrite app_nil_r. unfold client_of at 1. cbn [w_clients]. rewrite krx_update.
        destruct (Nat.eqb c0 c) eqn:E; [|reflexivity].
        apply Nat.eqb_eq in E. subst c0. unfold client_of. destruct (alookup c (w_clients w)); reflexivity. }
      intros rcv' yld' Hr0 Hy.
      assert (Hr : forall c0, rcv' c0 = rcv c0) by (intros c0; rewrite Hr0; apply app_nil_r).
      assert (Hold : forall g, (g < g0)%nat -> Nat.eqb g g0 = false) by (intros g Hg; apply Nat.eqb_neq; lia).
      constructor; cbn [w_conns w_backlog w_nextg].
      * exact HI'.
      * intros fd0 x1 H0. cbn [w_conns] in H0. rewrite alookup_app_end in H0.
        destruct (alookup fd0 (w_conns w)) as [v|] eqn:E0.
        -- inversion H0; subst v. rewrite Hold by (eapply inv_gid_lt; eauto). eauto.
        -- destruct (Nat.eqb nf fd0); [|discriminate]. inversion H0; subst x1. cbn [sc_gid sc_client].
           rewrite Nat.eqb_refl. reflexivity.
      * intros fd0 x1 H0. cbn [w_conns] in H0. rewrite alookup_app_end in H0.
        destruct (alookup fd0 (w_conns w)) as [v|] eqn:E0.
        -- inversion H0; subst v. eauto.
        -- destruct (Nat.eqb nf fd0); [|discriminate]. inversion H0; subst x1. cbn. discriminate.
      * intros fd0 x1 H0. cbn [w_conns] in H0. rewrite alookup_app_end in H0. unfold intact.
        destruct (Hfl (sc_client x1)) as [F1 F2]. rewrite F1, F2. rewrite Hr.
        destruct (alookup fd0 (w_conns w)) as [v|] eqn:E0.
        -- inversion H0; subst v. apply (Hint _ _ E0).
        -- destruct (Nat.eqb nf fd0); [|discriminate]. inversion H0; subst x1. cbn [sc_gid sc_client sc_conn].
           intros _. split; [intros _; rewrite Crcv, (Hnew g0 (le_n _)); reflexivity|discriminate].
      * intros g Hg. destruct (Nat.eqb g g0) eqn:E.
        -- apply Nat.eqb_eq in E. subst g. rewrite Hr, Crcv, (Hnew g0 (le_n _)). exists []. reflexivity.
        -- apply Nat.eqb_neq in E. rewrite Hr. apply Hpref. lia.
      * intros g g' Hg Hg'. destruct (Nat.eqb g g0) eqn:E; destruct (Nat.eqb g' g0) eqn:E'.
        -- apply Nat.eqb_eq in E, E'. congruence.
        -- apply Nat.eqb_neq in E'. intros Heq. exfalso. apply (Cnot g'); [lia|auto].
        -- apply Nat.eqb_neq in E. intros Heq. exfalso. apply (Cnot g); [lia|auto].
        -- apply Nat.eqb_neq in E, E'. apply Hbinj; lia.
      * intros g Hg. destruct (Nat.eqb g g0) eqn:E; [exact Cseen|]. apply Nat.eqb_neq in E. apply Hseen. lia.
      * intros c0 Hc0. rewrite Hr. auto.
      * exact Hndrest.
      * intros c2 H2. destruct (Hrest c2 H2) as [B1 B2]. destruct (Hbl c2 B1) as (A1 & A2 & A3).
        split; [exact A1|]. split; [rewrite Hr; exact A2|].
        intros g Hg. destruct (Nat.eqb g g0) eqn:E; [congruence|]. apply Nat.eqb_neq in E. apply A3. lia.
      * intros c0 Hc0. rewrite Hr. apply Hoth. intros g Hg. specialize (Hc0 g ltac:(lia)). rewrite Hold in Hc0 by exact Hg. exact Hc0.
      * intros g Hg. apply Hnew. lia.
      * exact Hgens.
      * exact Happs.
      * apply Hcount. exact Hy.
Qed.

(* input a client has sent stays until its own connection reads it *)
Lemma kts_update (cls : list (nat * client)) c cl' c0 :
  k_tosrv (match alookup c0 (aupdate c cl' cls) with Some cl => cl | None => dead_client end) =
  if Nat.eqb c0 c then match alookup c cls with Some _ => k_tosrv cl' | None => [] end
  else k_tosrv (match alookup c0 cls with Some cl => cl | None => dead_client end).
Proof.
  destruct (Nat.eqb c0 c) eqn:E.
  - apply Nat.eqb_eq in E. subst c0. destruct (alookup c cls) as [cl|] eqn:L.
    + rewrite (alookup_update_same _ cl' _ _ L). reflexivity.
    + rewrite flags_update_none by exact L. rewrite L. reflexivity.
  - apply Nat.eqb_neq in E. rewrite alookup_update_other by congruence. reflexivity.
Qed.

Lemma handle_tosrv w e w' ys c :
  handle_event w e = inl (w', ys) ->
  k_tosrv (client_of w' c) = k_tosrv (client_of w c) \/
  (exists fd kk x, e = EvIn fd kk /\ alookup fd (w_conns w) = Some x /\ sc_client x = c) \/
  (exists nf rest, e = EvListener nf /\ w_backlog w = c :: rest).
Proof.
  destruct e as [fd|fd kk|fd kk|nf|]; cbn [Server.handle_event].
  - destruct (alookup fd (w_conns w)); [|discriminate]. intros H; inversion H; subst. left. reflexivity.
  - destruct (alookup fd (w_conns w)) as [x|] eqn:HL; [|discriminate].
    destruct (cc_read x _) as [[y rs]|]; [|discriminate]. intros H; inversion H; subst w' ys; clear H.
    destruct (Nat.eq_dec c (sc_client x)) as [->|Hne]; [right; left; exists fd, kk, x; auto|].
    left. unfold client_of at 1. cbn [set_client set_conn w_clients]. rewrite kts_update.
    apply Nat.eqb_neq in Hne. rewrite Hne. reflexivity.
  - destruct (alookup fd (w_conns w)) as [x|] eqn:HL; [|discriminate].
    destruct (cc_write x _ _) as [[y sent]|]; [|discriminate]. intros H; inversion H; subst w' ys; clear H.
    left. unfold client_of at 1. cbn [set_client set_conn w_clients]. rewrite kts_update.
    destruct (Nat.eqb c (sc_client x)) eqn:E; [|reflexivity]. apply Nat.eqb_eq in E. subst c.
    unfold client_of. destruct (alookup (sc_client x) (w_clients w)); reflexivity.
  - destruct (w_backlog w) as [|c0 rest] eqn:Bk; [intros H; inversion H; subst; left; reflexivity|].
    destruct (Nat.eq_dec c c0) as [->|Hne]; [right; right; exists nf, rest; auto|].
    destruct (Nat.eqb (length (w_conns w)) MAX_CONNECTIONS); intros H; inversion H; subst w' ys; clear H;
      left; unfold client_of at 1; cbn [w_clients]; rewrite kts_update; apply Nat.eqb_neq in Hne; rewrite Hne; reflexivity.
  - discriminate.
Qed.

(* truthfulness of the rest of a batch survives handling one of its events *)
Lemma evt_true_frame w toks rcv sup yld seen beta log e w' ys e' :
  SI w toks rcv sup yld seen beta log ->
  evt_ok w e -> handle_event w e = inl (w', ys) -> evt_ok w e' -> evt_true w e' -> ev_key e' <> ev_key e -> evt_true w' e'.
Proof.
  intros S Hev H Hev' Ht Hk. destruct (handle_frame BUF _ _ _ _ H) as [_ Hfr]. pose proof (handle_flags _ _ _ _ H) as Hfl.
  assert (Hun : forall fd', (exists x, alookup fd' (w_conns w) = Some x) -> ev_key e <> KConn fd' -> ~ touched e fd').
  { intros fd' (x & HL) Hne T. destruct e; cbn in *; try tauto; subst; try congruence. }
  destruct e' as [fd'|fd' kk'|fd' kk'|nf'|]; cbn [evt_true evt_ok] in *; auto.
  - destruct Hev' as (x & HL). intros x' HL'. rewrite Hfr in HL' by (apply Hun; eauto). destruct (Hfl (sc_client x')) as [F _]. rewrite F. auto.
  - destruct Hev' as (x & HL & _). intros x' HL'. rewrite Hfr in HL' by (apply Hun; eauto).
    destruct (Hfl (sc_client x')) as [F _]. rewrite F. destruct (Ht x' HL') as [T1 T2]. split; [exact T1|].
    destruct (handle_tosrv w e w' ys (sc_client x') H) as [E|[(fd0 & kk0 & x0 & -> & HL0 & Ec)|(nf0 & rest & -> & Bk)]].
    + rewrite E. exact T2.
    + exfalso. apply Hk. cbn. f_equal. eapply si_client_inj; eauto.
    + exfalso. destruct (si_bl _ _ _ _ _ _ _ _ S (sc_client x')) as (_ & _ & Hno); [rewrite Bk; left; reflexivity|].
      apply (Hno (sc_gid x')); [eapply inv_gid_lt; [apply (si_inv _ _ _ _ _ _ _ _ S)|exact HL']|].
      apply (si_bound _ _ _ _ _ _ _ _ S _ _ HL').
Qed.

Lemma ytoks_app a b : ytoks (a ++ b) = ytoks a ++ ytoks b.
Proof. unfold ytoks. apply map_app. Qed.

(* ---------- a whole batch, in any order ---------- *)
Theorem batch_stream : forall es w toks rcv sup yld seen beta log acc w' ys,
  SI w toks rcv sup yld seen beta log ->
  Forall (evt_ok w) es -> Forall (evt_true w) es -> NoDup (map ev_key es) -> ~ In KKill (map ev_key es) ->
  handle_all w es acc = inl (w', ys) ->
  exists d beta' log' ys0, ys = acc ++ ys0 /\
    (forall c, k_rx (client_of w' c) = k_rx (client_of w c) ++ d c) /\
    forall rcv' yld',
      (forall c, rcv' c = rcv c ++ d c) ->
      (forall g, yld' g = (yld g + count_g g (ytoks ys0))%nat) ->
      SI w' (ytoks ys0 ++ toks) rcv' sup yld' seen beta' log'.
Proof.
  induction es as [|e t IH]; intros w toks rcv sup yld seen beta log acc w' ys S Hok Htr Hnd Hnk; cbn [Server.handle_all].
  - intros H; inversion H; subst w' ys; clear H.
    exists (fun _ => []), beta, log, []. split; [rewrite app_nil_r; reflexivity|].
    split; [intros c; rewrite app_nil_r; reflexivity|].
    intros rcv' yld' Hr Hy. apply (SI_same w toks rcv sup yld seen beta log); auto.
    + intros c. rewrite Hr. apply app_nil_r.
    + intros g. rewrite Hy. cbn. lia.
  - inversion Hok as [|? ? He Hok']; subst. inversion Htr as [|? ? Hte Htr']; subst. inversion Hnd as [|? ? Hnotin Hnd']; subst.
    assert (Hne : e <> EvKill) by (intros ->; apply Hnk; left; reflexivity).
    destruct (handle_event w e) as [[w1 ys1]|err] eqn:Hh; [|discriminate].
    intros H.
    destruct (event_stream w toks rcv sup yld seen beta log e w1 ys1 S He Hte Hne Hh) as (d1 & beta1 & log1 & Hk1 & S1).
    specialize (S1 (fun c => rcv c ++ d1 c) (fun g => (yld g + count_g g (ytoks ys1))%nat) (fun _ => eq_refl) (fun _ => eq_refl)).
    assert (Hkey : forall e', In e' t -> ev_key e' <> ev_key e).
    { intros e' Hin E. apply Hnotin. rewrite <- E. apply in_map. exact Hin. }
    assert (Hok1 : Forall (evt_ok w1) t).
    { apply Forall_forall. intros e' Hin. rewrite Forall_forall in Hok'.
      eapply (evt_ok_frame BUF); eauto.
      intros nf nf' -> ->. apply (Hkey _ Hin). reflexivity. }
    assert (Htr1 : Forall (evt_true w1) t).
    { apply Forall_forall. intros e' Hin. rewrite Forall_forall in Hok', Htr'.
      apply (evt_true_frame w toks rcv sup yld seen beta log e w1 ys1 e' S He Hh (Hok' _ Hin) (Htr' _ Hin) (Hkey _ Hin)). }
    destruct (IH w1 _ _ _ _ _ _ _ (acc ++ ys1) w' ys S1 Hok1 Htr1 Hnd' ltac:(intros Hin; apply Hnk; right; exact Hin) H)
      as (d2 & beta2 & log2 & ys2 & Eys & Hk2 & S2).
    exists (fun c => d1 c ++ d2 c), beta2, log2, (ys1 ++ ys2).
    split; [rewrite Eys, app_assoc; reflexivity|].
    split; [intros c; rewrite Hk2, Hk1, app_assoc; reflexivity|].
    intros rcv' yld' Hr Hy.
    apply (SI_toks w' (ytoks ys2 ++ ytoks ys1 ++ toks)).
    + intros t0. rewrite ytoks_app, !in_app_iff. tauto.
    + intros g. rewrite ytoks_app, !count_g_app. lia.
    + apply S2.
      * intros c. rewrite Hr, app_assoc. reflexivity.
      * intros g. rewrite Hy. rewrite ytoks_app, count_g_app. lia.
Qed.

(* ---------- the end-of-poll sweep ---------- *)
Lemma sweep_stream w toks rcv sup yld seen beta log :
  SI w toks rcv sup yld seen beta log -> SI (sweep w) toks rcv sup yld seen beta log.
Proof.
  intros S. pose proof S as [HI Hb Hrb Hint Hpref Hbinj Hseen Hunseen Hnd Hbl Hoth Hnew Hgens Happs Hcnt].
  assert (Hsub : forall fd x, alookup fd (w_conns (sweep w)) = Some x -> alookup fd (w_conns w) = Some x).
  { intros fd x H. cbn in H. apply alookup_filter_some in H. destruct H as [Hin _].
    apply alookup_in_nodup; [apply (inv_nodup _ _ _ HI)|exact Hin]. }
  pose proof (sweep_flags w) as Hfl.
  constructor; auto.
  - apply sweep_inv; assumption.
  - intros fd x H. eauto.
  - intros fd x H. eauto.
  - intros fd x H. unfold intact. destruct (Hfl (sc_client x)) as [F1 F2]. rewrite F1, F2. apply (Hint _ _ (Hsub _ _ H)).
Qed.

Theorem poll_stream w toks rcv sup yld seen beta log es w' ys :
  SI w toks rcv sup yld seen beta log ->
  Forall (evt_ok w) es -> Forall (evt_true w) es -> NoDup (map ev_key es) -> ~ In KKill (map ev_key es) ->
  poll_with w es = PYield w' ys ->
  exists d beta' log',
    (forall c, k_rx (client_of w' c) = k_rx (client_of w c) ++ d c) /\
    forall rcv' yld',
      (forall c, rcv' c = rcv c ++ d c) ->
      (forall g, yld' g = (yld g + count_g g (ytoks ys))%nat) ->
      SI w' (ytoks ys ++ toks) rcv' sup yld' seen beta' log'.
Proof.
  intros S Hok Htr Hnd Hnk. unfold Server.poll_with. destruct es as [|e t] eqn:Ees; [discriminate|]. rewrite <- Ees in *.
  destruct (handle_all w es []) as [[w1 ys1]|err] eqn:Hh; [|discriminate].
  intros H; inversion H; subst w' ys; clear H.
  destruct (batch_stream es w toks rcv sup yld seen beta log [] w1 ys1 S Hok Htr Hnd Hnk Hh) as (d & beta' & log' & ys0 & Eys & Hk & S1).
  cbn [app] in Eys. subst ys0.
  exists d, beta', log'. split; [intros c; rewrite sweep_delivery; apply Hk|].
  intros rcv' yld' Hr Hy. apply sweep_stream. apply S1; assumption.
Qed.

(* ---------- the application supplies a response for a token it holds ---------- *)
Theorem respond_stream w t1 t2 fd g r w' rcv sup yld seen beta log :
  SI w (t1 ++ (fd, g) :: t2) rcv sup yld seen beta log -> respond w fd r = inl w' ->
  (forall c, client_of w' c = client_of w c) /\
  exists log', forall sup',
    (forall g0, sup' g0 = if Nat.eqb g0 g then sup g ++ [r] else sup g0) ->
    SI w' (t1 ++ t2) rcv sup' yld seen beta log'.
Proof.
  intros S Hr. split; [intros c; eapply respond_delivery; eauto|].
  pose proof S as [HI Hb Hrb Hint Hpref Hbinj Hseen Hunseen Hnd Hbl Hoth Hnew Hgens Happs Hcnt].
  destruct (respond_ok BUF BUF_min BUF_u32 w t1 t2 fd g r HI) as (w1 & x & Hr' & HI' & HL & Hg & _).
  rewrite Hr in Hr'. inversion Hr'; subst w1; clear Hr'.
  revert Hr. unfold respond. rewrite HL.
  set (x1 := match sc_st x with AwaitIn => mkSC (sc_conn x) AwaitOut (sc_infl x) (sc_client x) true (sc_gid x) | _ => x end).
  assert (E : sc_gid x1 = sc_gid x /\ sc_client x1 = sc_client x /\ sc_conn x1 = sc_conn x /\
              (sc_st x1 = SClosed <-> sc_st x = SClosed)).
  { unfold x1. destruct (sc_st x) eqn:S0; cbn; rewrite ?S0; repeat split; auto; discriminate. }
  destruct E as (E1 & E2 & E3 & E4).
  unfold cc_enqueue. destruct (sc_infl x1 =? 0); [discriminate|]. intros H; inversion H; subst w'; clear H.
  set (closed := match sc_st x with SClosed => true | _ => false end).
  set (ext := if closed then [] else [IApp r]).
  exists (fun g0 => if Nat.eqb g0 (sc_gid x) then log g0 ++ ext else log g0).
  intros sup' Hs.
  match goal with |- SI (set_conn w fd ?Y) _ _ _ _ _ _ _ => set (y := Y) end.
  assert (Hy_conn : unsent (sc_conn y) = unsent (sc_conn x) ++ ser ext /\ c_rbuf (sc_conn y) = c_rbuf (sc_conn x)).
  { unfold y, ext, closed. cbn [sc_conn]. rewrite E3.
    destruct (sc_st x1) eqn:S1; destruct (sc_st x) eqn:S0;
      try (exfalso; destruct E4 as [E4a E4b]; (discriminate (E4a eq_refl) || discriminate (E4b eq_refl)));
      try (cbn [ser flat_map]; rewrite app_nil_r; split; reflexivity);
      (split; [|reflexivity]);
      (rewrite (unsent_grow (sc_conn x) (enqueue_response (sc_conn x) r) [r]); [cbn [ser flat_map iresp]; reflexivity|reflexivity|reflexivity]). }
  destruct Hy_conn as [Hun Hrby].
  apply (conn_step_SI w (t1 ++ (fd, g) :: t2) rcv sup yld seen beta log _ _ rcv sup' yld _ fd x y [] ext S HL).
  - reflexivity.
  - reflexivity.
  - reflexivity.
  - intros c; split; reflexivity.
  - exact E1.
  - exact E2.
  - rewrite Hrby. eauto.
  - intros c. destruct (Nat.eqb _ _); rewrite app_nil_r; reflexivity.
  - reflexivity.
  - unfold ext. destruct closed; repeat constructor.
  - left; reflexivity.
  - intros _ [Hex Hdead]. assert (Sy : sc_st y = sc_st x1) by reflexivity. rewrite Sy. split.
    + intros Hy. rewrite app_nil_r, Hun, ser_app, app_assoc, Hex; [reflexivity|]. intros Sx. apply Hy. apply E4. exact Sx.
    + intros Hy. apply Hdead. apply E4. exact Hy.
  - exact HI'.
  - intros g0. rewrite Hs. rewrite Hg. destruct (Nat.eqb g0 g) eqn:E0.
    + apply Nat.eqb_eq in E0. subst g0. rewrite apps_app. unfold ext. destruct closed; cbn [apps flat_map app].
      * rewrite app_nil_r. apply subseq_snoc_skip. apply Happs.
      * apply subseq_snoc_both. apply Happs.
    + apply Happs.
  - intros g0. rewrite Hs. specialize (Hcnt g0). rewrite (count_g_remove BUF BUF_min BUF_u32) in Hcnt. rewrite (Nat.eqb_sym g0 g).
    destruct (Nat.eqb g g0) eqn:E0.
    + apply Nat.eqb_eq in E0. subst g0. rewrite app_length. cbn [length]. lia.
    + lia.
Qed.

(* ---------- clients and the environment ---------- *)
Lemma nodup_app {A} (a b : list A) : NoDup a -> NoDup b -> (forall v, In v a -> ~ In v b) -> NoDup (a ++ b).
Proof.
  induction a as [|h t IH]; cbn; intros Ha Hb0 Hd; [exact Hb0|].
  inversion Ha; subst. constructor.
  - intros Hin. apply in_app_or in Hin. destruct Hin as [Hin|Hin]; [auto|]. apply (Hd h); auto.
  - apply IH; auto.
Qed.

(* what clients and the environment may do between two server calls: anything that leaves the server's table
   alone; new clients (never seen before) may ask to connect; a client that has hung up stays hung up, a
   client that cannot receive any more never can again *)
Definition env_ok (w w' : world) (seen new : list nat) : Prop :=
  w_conns w' = w_conns w /\ w_nextg w' = w_nextg w /\ w_backlog w' = w_backlog w ++ new /\
  NoDup new /\ (forall c, In c new -> ~ In c seen) /\
  forall c, In c seen ->
    (k_hup (client_of w c) = true -> k_hup (client_of w' c) = true) /\
    (k_can_receive (client_of w c) = false -> k_can_receive (client_of w' c) = false).

Theorem env_stream w toks rcv sup yld seen beta log w' new :
  SI w toks rcv sup yld seen beta log -> env_ok w w' seen new ->
  SI w' toks rcv sup yld (seen ++ new) beta log.
Proof.
  intros S (Ec & Eng & Ebl & Hndn & Hfresh & Hmono).
  pose proof S as [HI Hb Hrb Hint Hpref Hbinj Hseen Hunseen Hnd Hbl Hoth Hnew Hgens Happs Hcnt].
  constructor; rewrite ?Ec, ?Eng, ?Ebl; auto.
  - eapply (Inv_env BUF); eauto.
  - intros fd x HL. rewrite Ec in HL. eauto.
  - intros fd x HL. unfold intact. intros C1.
    assert (Hin : In (sc_client x) seen).
    { rewrite <- (Hb _ _ HL). apply Hseen. eapply inv_gid_lt; eauto. }
    destruct (Hmono _ Hin) as [M1 M2].
    assert (C0 : k_can_receive (client_of w (sc_client x)) = true).
    { destruct (k_can_receive (client_of w (sc_client x))); [reflexivity|]. rewrite M2 in C1 by reflexivity. discriminate. }
    destruct (Hint _ _ HL C0) as [Hex Hdead]. split; [exact Hex|]. intros Sx. apply M1. apply Hdead. exact Sx.
  - intros g Hg. apply in_or_app. left. auto.
  - intros c Hc. apply Hunseen. intros Hin. apply Hc. apply in_or_app. left. exact Hin.
  - apply nodup_app; auto. intros c Hc Hin. apply (Hfresh c Hin). apply (Hbl c Hc).
  - intros c Hc. apply in_app_or in Hc. destruct Hc as [Hc|Hc].
    + destruct (Hbl c Hc) as (A1 & A2 & A3). split; [apply in_or_app; left; exact A1|auto].
    + split; [apply in_or_app; right; exact Hc|]. split; [apply Hunseen; auto|].
      intros g Hg E. apply (Hfresh c Hc). rewrite <- E. auto.
Qed.

(* ---------- flush_outgoing_writes ---------- *)
Lemma cc_write_out x b k y s :
  sc_st x = AwaitOut -> cc_write x b k = inl (y, s) -> sc_st y = AwaitOut -> pending_write (sc_conn y) = true.
Proof.
  intros S0. unfold cc_write. rewrite S0.
  destruct (try_write (sc_conn x) _) as [[c1 res] off]. destruct res as [|e|p0]; [| |discriminate].
  - destruct (pending_write c1) eqn:Hp; intros H; inversion H; subst; cbn; intros; congruence.
  - destruct e; try discriminate; intros H; inversion H; subst; cbn; intros; congruence.
Qed.

Lemma flush_conn_stream : forall fuel x b sent0,
  (sc_st x = AwaitOut -> pending_write (sc_conn x) = true) -> c_rbuf (sc_conn x) <> Some [] ->
  exists y s, flush_conn fuel x b sent0 = (y, sent0 ++ s) /\
    c_rbuf (sc_conn y) <> Some [] /\
    (sc_st x <> AwaitOut -> y = x /\ s = []) /\
    (b = false -> s = []) /\
    (b = true -> sc_st x = AwaitOut -> sc_st y <> SClosed /\ unsent (sc_conn x) = s ++ unsent (sc_conn y)).
Proof.
  induction fuel as [|f IH]; intros x b sent0 Hp Hrb; cbn [flush_conn].
  - exists x, []. rewrite app_nil_r. split; [reflexivity|]. split; [exact Hrb|]. split; [auto|]. split; [auto|].
    intros _ S0. split; [congruence|reflexivity].
  - destruct (sc_st x) eqn:S0.
    + exists x, []. rewrite app_nil_r. split; [reflexivity|]. split; [exact Hrb|]. split; [auto|]. split; [auto|]. intros _ Hx; discriminate.
    + destruct b.
      * destruct (cc_write_calm BUF BUF_min BUF_u32 x 0 S0 (Hp eq_refl) Hrb) as (y1 & s1 & W & _ & Hu & Hyo & Hrb1 & _).
        rewrite W.
        destruct (IH y1 true (sent0 ++ s1) (cc_write_out x true 0 y1 s1 S0 W) Hrb1) as (y & s & Hf & Hrby & Hsame & _ & Hopen).
        exists y, (s1 ++ s). rewrite Hf, app_assoc. split; [reflexivity|]. split; [exact Hrby|].
        split; [intros Hx; congruence|]. split; [discriminate|]. intros _ _.
        destruct (sc_st y1) eqn:S1.
        -- destruct (Hsame ltac:(discriminate)) as [-> ->]. rewrite app_nil_r. split; [congruence|exact Hu].
        -- destruct (Hopen eq_refl eq_refl) as [Hyo2 Hu2]. split; [exact Hyo2|]. rewrite Hu, Hu2, app_assoc. reflexivity.
        -- congruence.
      * destruct (cc_write x false 0) as [[y1 s1]|err] eqn:W.
        -- destruct (cc_write_noreceive x 0 y1 s1 Hrb W) as (-> & Hrb1 & _).
           destruct (IH y1 false (sent0 ++ []) (cc_write_out x false 0 y1 [] S0 W) Hrb1) as (y & s & Hf & Hrby & _ & Hnone & _).
           exists y, s. rewrite Hf, app_nil_r. split; [reflexivity|]. split; [exact Hrby|].
           split; [intros Hx; congruence|]. split; [auto|]. discriminate.
        -- exists x, []. rewrite app_nil_r. split; [reflexivity|]. split; [exact Hrb|].
           split; [intros Hx; congruence|]. split; [auto|]. discriminate.
    + exists x, []. rewrite app_nil_r. split; [reflexivity|]. split; [exact Hrb|]. split; [auto|]. split; [auto|]. intros _ Hx; discriminate.
Qed.

Lemma flush_one_stream w toks rcv sup yld seen beta log fd x :
  SI w toks rcv sup yld seen beta log -> alookup fd (w_conns w) = Some x ->
  exists d, (forall c, k_rx (client_of (flush_one w (fd, x)) c) = k_rx (client_of w c) ++ d c) /\
    (forall fd', fd' <> fd -> alookup fd' (w_conns (flush_one w (fd, x))) = alookup fd' (w_conns w)) /\
    forall rcv', (forall c, rcv' c = rcv c ++ d c) -> SI (flush_one w (fd, x)) toks rcv' sup yld seen beta log.
Proof.
  intros HS HL. pose proof HS as [HI Hb Hrb Hint Hpref Hbinj Hseen Hunseen Hnd Hbl Hoth Hnew Hgens Happs Hcnt].
  pose proof (flush_one_inv BUF BUF_min BUF_u32 w toks fd x HI HL) as HI'.
  pose proof (inv_cc _ _ _ HI _ _ HL) as [Hst _].
  assert (Hp : sc_st x = AwaitOut -> pending_write (sc_conn x) = true).
  { intros S0. unfold st_ok in Hst. rewrite S0 in Hst. tauto. }
  revert HI'. unfold flush_one.
  set (cl := client_of w (sc_client x)).
  destruct (flush_conn_stream (S (S (length (c_rq (sc_conn x))))) x (k_can_receive cl) [] Hp (Hrb _ _ HL))
    as (y & s & Hf & Hrby & Hsame & Hnone & Hopen).
  rewrite Hf. cbn [app].
  pose proof (flush_conn_facts BUF BUF_min BUF_u32 (S (S (length (c_rq (sc_conn x))))) x (k_can_receive cl) [] (inv_cc _ _ _ HI _ _ HL)) as F.
  rewrite Hf in F. cbn [app] in F. destruct F as (Hg & Hc & _).
  set (y' := if sstate_eqb (sc_st x) AwaitOut && sstate_eqb (sc_st y) AwaitIn
             then mkSC (sc_conn y) (sc_st y) (sc_infl y) (sc_client y) false (sc_gid y) else y).
  assert (Ey : sc_conn y' = sc_conn y /\ sc_gid y' = sc_gid y /\ sc_client y' = sc_client y /\ sc_st y' = sc_st y)
    by (unfold y'; destruct (sstate_eqb (sc_st x) AwaitOut && sstate_eqb (sc_st y) AwaitIn); auto).
  destruct Ey as (Ey1 & Ey2 & Ey3 & Ey4).
  intros HI'.
  exists (fun c => if Nat.eqb c (sc_client x) then s else []).
  assert (Hs_none : alookup (sc_client x) (w_clients w) = None -> s = []).
  { intros L. apply Hnone. unfold cl, client_of. rewrite L. reflexivity. }
  split.
  { intros c. unfold client_of at 1. cbn [set_client set_conn w_clients]. rewrite krx_update.
    destruct (Nat.eqb c (sc_client x)) eqn:E; [|rewrite app_nil_r; reflexivity].
    apply Nat.eqb_eq in E. subst c. clear - Hs_none. subst cl. unfold client_of.
    destruct (alookup (sc_client x) (w_clients w)) as [cl0|]; [reflexivity|]. rewrite (Hs_none eq_refl). reflexivity. }
  split.
  { intros fd' Hne. cbn [set_client set_conn w_conns]. apply alookup_update_other. congruence. }
  intros rcv' Hr.
  assert (Hfl : flags_same w (set_client (set_conn w fd y') (sc_client x)
                               (mkCl (k_open cl) (k_shut_wr cl) (k_shut_rd cl) (k_tosrv cl) (k_rx cl ++ s) (k_place cl)))).
  { intros c. unfold client_of. cbn [set_client set_conn w_clients]. apply flags_aupdate; reflexivity. }
  apply (conn_step_SI w toks rcv sup yld seen beta log _ toks rcv' sup yld log fd x y' s [] HS HL).
  - reflexivity.
  - reflexivity.
  - reflexivity.
  - exact Hfl.
  - congruence.
  - congruence.
  - rewrite Ey1. exact Hrby.
  - exact Hr.
  - intros g. destruct (Nat.eqb _ _); [rewrite app_nil_r|]; reflexivity.
  - constructor.
  - destruct (sc_st x) eqn:S0.
    + left. apply (Hsame ltac:(discriminate)).
    + destruct (k_can_receive cl) eqn:CR; [|left; auto].
      right. split; [exact CR|]. split; [discriminate|]. destruct (Hopen eq_refl eq_refl) as [_ Hu]. eauto.
    + left. apply (Hsame ltac:(discriminate)).
  - intros C1 [Hex Hdead]. fold cl in C1. rewrite Ey4, Ey1. destruct (sc_st x) eqn:S0.
    + destruct (Hsame ltac:(discriminate)) as [-> ->]. rewrite S0. split; [|discriminate].
      intros _. rewrite !app_nil_r. apply Hex. discriminate.
    + destruct (Hopen C1 eq_refl) as [Hyo Hu]. split; [|intros Hyy; congruence].
      intros _. rewrite app_nil_r, <- (Hex ltac:(discriminate)), Hu, app_assoc. reflexivity.
    + destruct (Hsame ltac:(discriminate)) as [-> ->]. rewrite S0. split; [intros Hyy; congruence|intros _; apply Hdead; reflexivity].
  - exact HI'.
  - exact Happs.
  - exact Hcnt.
Qed.

Theorem flush_stream w toks rcv sup yld seen beta log :
  SI w toks rcv sup yld seen beta log ->
  exists d, (forall c, k_rx (client_of (flush w) c) = k_rx (client_of w c) ++ d c) /\
    forall rcv', (forall c, rcv' c = rcv c ++ d c) -> SI (flush w) toks rcv' sup yld seen beta log.
Proof.
  intros S. unfold flush.
  assert (G : forall l w0 rcv0, SI w0 toks rcv0 sup yld seen beta log ->
              (forall p, In p l -> alookup (fst p) (w_conns w0) = Some (snd p)) -> NoDup (map fst l) ->
              exists d, (forall c, k_rx (client_of (fold_left flush_one l w0) c) = k_rx (client_of w0 c) ++ d c) /\
                forall rcv', (forall c, rcv' c = rcv0 c ++ d c) -> SI (fold_left flush_one l w0) toks rcv' sup yld seen beta log).
  { induction l as [|[fd x] l IH]; intros w0 rcv0 S0 Hl Hnd; cbn [fold_left].
    - exists (fun _ => []). split; [intros c; rewrite app_nil_r; reflexivity|].
      intros rcv' Hr. apply (SI_same w0 toks rcv0 sup yld seen beta log); auto. intros c. rewrite Hr. apply app_nil_r.
    - inversion Hnd as [|? ? Hnot Hnd']; subst.
      destruct (flush_one_stream w0 toks rcv0 sup yld seen beta log fd x S0 (Hl (fd, x) (or_introl eq_refl))) as (d1 & Hk1 & Hfr & S1).
      specialize (S1 (fun c => rcv0 c ++ d1 c) (fun _ => eq_refl)).
      destruct (IH (flush_one w0 (fd, x)) _ S1) as (d2 & Hk2 & S2); [|exact Hnd'|].
      + intros [fd' x'] Hin. cbn [fst snd]. rewrite Hfr; [apply (Hl (fd', x')); right; exact Hin|].
        intros E. subst. apply Hnot. change fd with (fst (fd, x')). apply in_map. exact Hin.
      + exists (fun c => d1 c ++ d2 c). split; [intros c; rewrite Hk2, Hk1, app_assoc; reflexivity|].
        intros rcv' Hr. apply S2. intros c. rewrite Hr, app_assoc. reflexivity. }
  pose proof (si_inv _ _ _ _ _ _ _ _ S) as HI.
  apply (G (w_conns w) w rcv S); [|apply (inv_nodup _ _ _ HI)].
  intros [fd x] Hin. cbn. apply alookup_in_nodup; [apply (inv_nodup _ _ _ HI)|exact Hin].
Qed.

(* ---------- whole histories with their observable bookkeeping ---------- *)
Record ghost := mkG {
  g_rcv : nat -> bytes;             (* client -> everything the server side has put into its receive queue *)
  g_sup : nat -> list response;     (* instance -> responses the application supplied with a token of it *)
  g_yld : nat -> nat;               (* instance -> number of requests yielded with a token of it *)
  g_seen : list nat;                (* clients that have asked to connect *)
}.
Definition ghost0 : ghost := mkG (fun _ => []) (fun _ => []) (fun _ => 0%nat) [].

Inductive gstep : world * list tok * ghost -> world * list tok * ghost -> Prop :=
| GPoll w toks G es w' ys d G' :
    Forall (evt_ok w) es -> Forall (evt_true w) es -> NoDup (map ev_key es) -> ~ In KKill (map ev_key es) ->
    poll_with w es = PYield w' ys ->
    (forall c, k_rx (client_of w' c) = k_rx (client_of w c) ++ d c) ->      (* d c: what this poll delivered to c *)
    (forall c, g_rcv G' c = g_rcv G c ++ d c) ->
    (forall g, g_yld G' g = (g_yld G g + count_g g (ytoks ys))%nat) ->
    (forall g, g_sup G' g = g_sup G g) -> g_seen G' = g_seen G ->
    gstep (w, toks, G) (w', ytoks ys ++ toks, G')
| GRespond w t1 t2 fd g r w' G G' :
    respond w fd r = inl w' ->
    (forall g0, g_sup G' g0 = if Nat.eqb g0 g then g_sup G g ++ [r] else g_sup G g0) ->
    (forall c, g_rcv G' c = g_rcv G c) -> (forall g0, g_yld G' g0 = g_yld G g0) -> g_seen G' = g_seen G ->
    gstep (w, t1 ++ (fd, g) :: t2, G) (w', t1 ++ t2, G')
| GFlush w toks G d G' :
    (forall c, k_rx (client_of (flush w) c) = k_rx (client_of w c) ++ d c) ->
    (forall c, g_rcv G' c = g_rcv G c ++ d c) ->
    (forall g, g_sup G' g = g_sup G g) -> (forall g, g_yld G' g = g_yld G g) -> g_seen G' = g_seen G ->
    gstep (w, toks, G) (flush w, toks, G')
| GEnv w toks w' new G G' :
    env_ok w w' (g_seen G) new ->
    (forall c, g_rcv G' c = g_rcv G c) -> (forall g, g_sup G' g = g_sup G g) -> (forall g, g_yld G' g = g_yld G g) ->
    g_seen G' = g_seen G ++ new ->
    gstep (w, toks, G) (w', toks, G').

Inductive greach : world * list tok * ghost -> Prop :=
| GR0 : greach (world0, [], ghost0)
| GRS s s' : greach s -> gstep s s' -> greach s'.

Definition SIg (s : world * list tok * ghost) (beta : nat -> nat) (log : nat -> list item) : Prop :=
  let '(w, toks, G) := s in SI w toks (g_rcv G) (g_sup G) (g_yld G) (g_seen G) beta log.

Lemma SI_world0 : SIg (world0, [], ghost0) (fun _ => 0%nat) (fun _ => []).
Proof.
  cbn. constructor; cbn;
    try (apply (Inv_world0 BUF); assumption); try (intros; discriminate); try (intros; lia); try tauto; auto;
    try (constructor; fail); try (intros; constructor; fail).
Qed.

Theorem gstep_SI s s' beta log : SIg s beta log -> gstep s s' -> exists beta' log', SIg s' beta' log'.
Proof.
  intros S Hstep. inversion Hstep as [w toks G es w' ys d G' Hok Htr Hnd Hnk Hp Hk Hr Hy Hs Hse
                                      |w t1 t2 fd g r w' G G' Hresp Hs Hr Hy Hse
                                      |w toks G d G' Hk Hr Hs Hy Hse
                                      |w toks w' new G G' Henv Hr Hs Hy Hse]; subst; cbn [SIg] in *.
  - destruct (poll_stream w toks _ _ _ _ beta log es w' ys S Hok Htr Hnd Hnk Hp) as (d0 & beta' & log' & Hk0 & S').
    exists beta', log'. rewrite Hse.
    assert (Ed : forall c, d c = d0 c).
    { intros c. specialize (Hk c). rewrite (Hk0 c) in Hk. apply app_inv_head in Hk. auto. }
    assert (S2 : SI w' (ytoks ys ++ toks) (fun c => g_rcv G c ++ d0 c) (g_sup G) (g_yld G') (g_seen G) beta' log')
      by (apply S'; [intros; reflexivity|exact Hy]).
    apply (SI_same _ _ _ _ _ _ _ _ (g_rcv G') (g_sup G') (g_yld G') S2).
    + intros c. rewrite Hr, Ed. reflexivity.
    + exact Hs.
    + reflexivity.
  - destruct (respond_stream w t1 t2 fd g r w' _ _ _ _ beta log S Hresp) as (_ & log' & S').
    exists beta, log'. rewrite Hse.
    apply (SI_same _ _ _ _ _ _ _ _ (g_rcv G') (g_sup G') (g_yld G') (S' (g_sup G') Hs)); auto.
  - destruct (flush_stream w toks _ _ _ _ beta log S) as (d0 & Hk0 & S').
    exists beta, log. rewrite Hse.
    assert (Ed : forall c, d c = d0 c).
    { intros c. specialize (Hk c). rewrite (Hk0 c) in Hk. apply app_inv_head in Hk. auto. }
    apply (SI_same _ _ _ _ _ _ _ _ (g_rcv G') (g_sup G') (g_yld G') (S' (fun c => g_rcv G c ++ d0 c) (fun _ => eq_refl))); auto.
    intros c. rewrite Hr, Ed. reflexivity.
  - exists beta, log. rewrite Hse.
    apply (SI_same _ _ _ _ _ _ _ _ (g_rcv G') (g_sup G') (g_yld G') (env_stream _ _ _ _ _ _ _ _ _ _ S Henv)); auto.
Qed.

(* C07, the whole stream: the invariant holds at every point of every history *)
Theorem stream_invariant s : greach s -> exists beta log, SIg s beta log.
Proof.
  induction 1 as [|s s' Hr IH Hstep].
  - do 2 eexists. apply SI_world0.
  - destruct IH as (beta & log & S). eapply gstep_SI; eauto.
Qed.

Lemma bounded_dec (beta : nat -> nat) c n :
  (exists g, (g < n)%nat /\ beta g = c) \/ (forall g, (g < n)%nat -> beta g <> c).
Proof.
  induction n as [|n IH]; [right; intros g Hg; lia|].
  destruct IH as [(g & Hg & E)|Hno]; [left; exists g; split; [lia|exact E]|].
  destruct (Nat.eq_dec (beta n) c) as [E|Hne]; [left; exists n; split; [lia|exact E]|].
  right. intros g Hg. destruct (Nat.eq_dec g n) as [->|Hgn]; [exact Hne|apply Hno; lia].
Qed.

(* what the invariant says, spelled out *)
Definition stream_statement (w : world) (toks : list tok) (G : ghost) : Prop :=
  exists (beta : nat -> nat) (log : nat -> list item),
    (* one client per connection instance, for ever *)
    (forall g g', (g < w_nextg w)%nat -> (g' < w_nextg w)%nat -> beta g = beta g' -> g = g') /\
    (forall fd x, alookup fd (w_conns w) = Some x -> beta (sc_gid x) = sc_client x) /\
    (forall fd g, In (fd, g) toks -> exists x, alookup fd (w_conns w) = Some x /\ sc_gid x = g) /\
    (* every element of an instance's log is server-generated or was supplied by the application with a token
       of that instance; the latter, at most once each and in the order supplied *)
    (forall g, gens_ok (log g) /\ subseq (apps (log g)) (g_sup G g)) /\
    (* each yielded request is answered at most once *)
    (forall g, (length (g_sup G g) + count_g g toks = g_yld G g)%nat) /\
    (* what a client has received: nothing, its own 503 refusal, or a prefix of its own instance's log *)
    forall c, g_rcv G c = [] \/
              (g_rcv G c = SERVER_FULL_ERROR_MESSAGE /\ forall g, (g < w_nextg w)%nat -> beta g <> c) \/
              exists g tail, (g < w_nextg w)%nat /\ beta g = c /\ g_rcv G c ++ tail = ser (log g).

Lemma SI_statement w toks G beta log :
  SI w toks (g_rcv G) (g_sup G) (g_yld G) (g_seen G) beta log -> stream_statement w toks G.
Proof.
  intros S.
  pose proof S as [HI Hb Hrb Hint Hpref Hbinj Hseen Hunseen Hnd Hbl Hoth Hnew Hgens Happs Hcnt].
  exists beta, log. split; [exact Hbinj|]. split; [exact Hb|]. split; [apply (inv_tok _ _ _ HI)|].
  split; [intros g; split; auto|]. split; [exact Hcnt|].
  intros c. destruct (bounded_dec beta c (w_nextg w)) as [(g & Hg & E)|Hno].
  - right. right. destruct (Hpref g Hg) as [tail Ht]. exists g, tail. rewrite <- E. auto.
  - destruct (Hoth c Hno) as [H0|H1]; [left; exact H0|right; left; auto].
Qed.

Theorem stream_provenance w toks G : greach (w, toks, G) -> stream_statement w toks G.
Proof.
  intros R. destruct (stream_invariant _ R) as (beta & log & S). cbn [SIg] in S. eapply SI_statement; eauto.
Qed.

(* ---------- the executable poll (level-triggered readiness of the model kernel) is truthful ---------- *)
Lemma ready_events_true w toks : Inv w toks -> Forall (evt_true w) (ready_events w).
Proof.
  intros HI. apply Forall_forall. intros e Hin. unfold ready_events in Hin.
  apply in_app_or in Hin. destruct Hin as [Hin|Hin].
  { destruct (w_killed w); [|destruct Hin]. destruct Hin as [<-|[]]. exact I. }
  apply in_app_or in Hin. destruct Hin as [Hin|Hin].
  2:{ destruct (w_backlog w); [destruct Hin|]. destruct Hin as [<-|[]]. exact I. }
  apply in_flat_map in Hin. destruct Hin as ([fd x] & Hp & Hin). cbn [fst snd] in Hin.
  assert (HL : alookup fd (w_conns w) = Some x) by (apply alookup_in_nodup; [apply (inv_nodup _ _ _ HI)|exact Hp]).
  unfold conn_event in Hin.
  destruct (k_hup (client_of w (sc_client x))) eqn:Hh.
  - destruct Hin as [<-|[]]. cbn. intros x' HL'. congruence.
  - destruct (sc_out x).
    + destruct Hin as [<-|[]]. exact I.
    + destruct (k_tosrv (client_of w (sc_client x))) as [|b0 bs0] eqn:Ts; [destruct Hin|]. destruct Hin as [<-|[]]. cbn.
      intros x' HL'. assert (x' = x) by congruence. subst x'. split; [exact Hh|]. rewrite Ts. discriminate.
Qed.

(* ghost updates as functions, for building histories *)
Definition delta (w w' : world) (c : nat) : bytes := skipn (length (k_rx (client_of w c))) (k_rx (client_of w' c)).
Definition gpoll (G : ghost) (w w' : world) (ys : list yield) : ghost :=
  mkG (fun c => g_rcv G c ++ delta w w' c) (g_sup G) (fun g => (g_yld G g + count_g g (ytoks ys))%nat) (g_seen G).
Definition gresp (G : ghost) (g : nat) (r : response) : ghost :=
  mkG (g_rcv G) (fun g0 => if Nat.eqb g0 g then g_sup G g ++ [r] else g_sup G g0) (g_yld G) (g_seen G).
Definition genv (G : ghost) (new : list nat) : ghost := mkG (g_rcv G) (g_sup G) (g_yld G) (g_seen G ++ new).

Lemma canonical_gstep w toks G beta log w' ys :
  SIg (w, toks, G) beta log -> w_killed w = false -> poll BUF w = PYield w' ys ->
  gstep (w, toks, G) (w', ytoks ys ++ toks, gpoll G w w' ys).
Proof.
  intros S Hk P. cbn [SIg] in S. pose proof (si_inv _ _ _ _ _ _ _ _ S) as HI.
  destruct (ready_events_ok BUF BUF_min BUF_u32 w toks HI) as [A1 A2].
  pose proof (ready_events_true w toks HI) as A3.
  assert (A4 : ~ In KKill (map ev_key (ready_events w))).
  { intros Hin. apply in_map_iff in Hin. destruct Hin as (e & He & Hin). destruct e; try discriminate.
    exact (kill_inert w Hk Hin). }
  destruct (poll_stream w toks _ _ _ _ beta log (ready_events w) w' ys S A1 A3 A2 A4 P) as (d0 & _ & _ & Hk0 & _).
  apply GPoll with (es := ready_events w) (d := delta w w'); auto.
  intros c. unfold delta. rewrite (Hk0 c), skipn_app, skipn_all, Nat.sub_diag. reflexivity.
Qed.

Lemma respond_gstep w t1 t2 fd g r w' G :
  respond w fd r = inl w' -> gstep (w, t1 ++ (fd, g) :: t2, G) (w', t1 ++ t2, gresp G g r).
Proof. intros H. apply GRespond with (r := r); auto. Qed.

Lemma env_gstep w toks w' new G :
  env_ok w w' (g_seen G) new -> gstep (w, toks, G) (w', toks, genv G new).
Proof. intros H. apply GEnv with (new := new); auto. Qed.

End Stream.
(* non-vacuity: a history in which a client connects, sends a request, the application answers it and the client
   receives exactly that response *)
Example stream_example :
  exists w toks G, greach 1024 (w, toks, G) /\
    g_rcv G 0%nat = serialize (response_new Http11 NoContent) /\
    g_sup G 0%nat = [response_new Http11 NoContent] /\ g_yld G 0%nat = 1%nat /\ toks = [].
Proof.
  assert (R1 : greach 1024 (wA, [], genv ghost0 [0%nat])).
  { eapply GRS; [apply GR0|]. apply env_gstep. unfold env_ok. cbn.
    split; [reflexivity|]. split; [reflexivity|]. split; [reflexivity|].
    split; [repeat constructor; intros []|]. split; [intros c0 _ []|intros c0 []]. }
  destruct (poll 1024 wA) as [|wB ysB|] eqn:PB; try (vm_compute in PB; discriminate).
  destruct (stream_invariant 1024 BUF1024_min BUF1024_u32 _ R1) as (b1 & l1 & S1).
  pose proof (canonical_gstep 1024 BUF1024_min BUF1024_u32 wA [] _ b1 l1 wB ysB S1 eq_refl PB) as St2.
  pose proof (GRS 1024 _ _ R1 St2) as R2.
  assert (KB : w_killed wB = false) by (vm_compute in PB; inversion PB; reflexivity).
  destruct (poll 1024 wB) as [|wC ysC|] eqn:PC;
    try (vm_compute in PB; inversion PB; subst; vm_compute in PC; discriminate).
  destruct (stream_invariant 1024 BUF1024_min BUF1024_u32 _ R2) as (b2 & l2 & S2).
  pose proof (canonical_gstep 1024 BUF1024_min BUF1024_u32 wB _ _ b2 l2 wC ysC S2 KB PC) as St3.
  pose proof (GRS 1024 _ _ R2 St3) as R3.
  assert (E : ytoks ysC ++ ytoks ysB ++ [] = [] ++ (1%nat, 0%nat) :: []).
  { vm_compute in PB. inversion PB; subst. vm_compute in PC. inversion PC; subst. reflexivity. }
  rewrite E in R3.
  destruct (respond wC 1 (response_new Http11 NoContent)) as [wD|] eqn:RD;
    [|vm_compute in PB; inversion PB; subst; vm_compute in PC; inversion PC; subst; vm_compute in RD; discriminate].
  pose proof (GRS 1024 _ _ R3 (respond_gstep 1024 wC [] [] 1 0 _ wD _ RD)) as R4.
  assert (KD : w_killed wD = false).
  { vm_compute in PB; inversion PB; subst; vm_compute in PC; inversion PC; subst; vm_compute in RD; inversion RD; reflexivity. }
  destruct (poll 1024 wD) as [|wE ysE|] eqn:PE;
    try (vm_compute in PB; inversion PB; subst; vm_compute in PC; inversion PC; subst; vm_compute in RD; inversion RD; subst;
         vm_compute in PE; discriminate).
  destruct (stream_invariant 1024 BUF1024_min BUF1024_u32 _ R4) as (b4 & l4 & S4).
  pose proof (canonical_gstep 1024 BUF1024_min BUF1024_u32 wD _ _ b4 l4 wE ysE S4 KD PE) as St5.
  pose proof (GRS 1024 _ _ R4 St5) as R5.
  do 3 eexists. split; [exact R5|].
  vm_compute in PB; inversion PB; subst; vm_compute in PC; inversion PC; subst; vm_compute in RD; inversion RD; subst;
    vm_compute in PE; inversion PE; subst. vm_compute. auto.
Qed.
