(* C08: "flushing outgoing writes delivers queued responses that fit the socket buffer without
   polling".  In a calm world flush_outgoing_writes empties every connection's unsent output into
   its own client's receive queue (the wire of every connection is unchanged), leaves every
   connection awaiting input with IN interest, and keeps the invariants. *)
From MH Require Export proofs.ServerRead_proofs.
From Coq Require Import Lia.

Section Fl.
Variable BUF : nat.
Hypothesis BUF_min : (2 <= BUF)%nat.
Hypothesis BUF_u32 : N.of_nat BUF < U32_LIMIT.
Notation Inv := (Inv BUF).

(* the number of write calls still needed *)
Definition writes_needed (c : conn) : nat :=
  ((match c_rbuf c with Some _ => 1 | None => 0 end) + length (c_rq c))%nat.

Lemma cc_write_step x :
  sc_st x = AwaitOut -> pending_write (sc_conn x) = true -> c_rbuf (sc_conn x) <> Some [] ->
  exists y sent, cc_write x true 0 = inl (y, sent) /\
    unsent (sc_conn x) = sent ++ unsent (sc_conn y) /\ c_rbuf (sc_conn y) = None /\
    sc_gid y = sc_gid x /\ sc_client y = sc_client x /\ sc_infl y = sc_infl x /\ sc_out y = sc_out x /\
    sc_st y = (if pending_write (sc_conn y) then AwaitOut else AwaitIn) /\
    S (writes_needed (sc_conn y)) = writes_needed (sc_conn x).
Proof.
  intros S0 Hp Hrb. unfold cc_write. rewrite S0. change (Nat.eqb 0 0) with true. cbv iota.
  unfold try_write, unsent, pending_write, writes_needed in *.
  destruct (c_rbuf (sc_conn x)) as [b|] eqn:Rb.
  - destruct b as [|b0 bt]; [congruence|]. rewrite firstn_all. cbn [length]. rewrite Nat.eqb_refl.
    do 2 eexists. split; [reflexivity|]. cbn [sc_conn sc_st sc_client sc_gid sc_infl sc_out set_write c_rbuf c_rq].
    repeat split; reflexivity.
  - destruct (c_rq (sc_conn x)) as [|r q] eqn:Rq; [discriminate|].
    pose proof (serialize_nonempty r) as Hs. rewrite firstn_all. destruct (serialize r) as [|s0 st] eqn:Sr; [congruence|].
    cbn [length]. rewrite Nat.eqb_refl.
    do 2 eexists. split; [reflexivity|]. cbn [sc_conn sc_st sc_client sc_gid sc_infl sc_out set_write c_rbuf c_rq flat_map app].
    rewrite Sr. repeat split; reflexivity.
Qed.

Lemma flush_conn_all : forall fuel x sent0,
  sc_st x = AwaitOut -> pending_write (sc_conn x) = true -> c_rbuf (sc_conn x) <> Some [] ->
  (writes_needed (sc_conn x) < fuel)%nat ->
  exists y, flush_conn fuel x true sent0 = (y, sent0 ++ unsent (sc_conn x)) /\
    unsent (sc_conn y) = [] /\ c_rbuf (sc_conn y) = None /\ sc_st y = AwaitIn /\
    sc_gid y = sc_gid x /\ sc_client y = sc_client x /\ sc_infl y = sc_infl x /\ sc_out y = sc_out x.
Proof.
  induction fuel as [|f IH]; intros x sent0 S0 Hp Hrb Hf; [lia|].
  cbn [flush_conn]. rewrite S0.
  destruct (cc_write_step x S0 Hp Hrb) as (y1 & s1 & W & Hu & Hb1 & G1 & C1 & I1 & O1 & St1 & K1).
  rewrite W. destruct (pending_write (sc_conn y1)) eqn:P1.
  - assert (Hb1' : c_rbuf (sc_conn y1) <> Some []) by (rewrite Hb1; discriminate).
    destruct (IH y1 (sent0 ++ s1) St1 P1 Hb1' ltac:(lia)) as (y & F & A1 & A2 & A3 & A4 & A5 & A6 & A7).
    exists y. rewrite F, Hu, app_assoc. split; [reflexivity|]. split; [exact A1|]. split; [exact A2|]. split; [exact A3|].
    repeat split; congruence.
  - assert (U1 : unsent (sc_conn y1) = []).
    { destruct (unsent (sc_conn y1)) eqn:U; [reflexivity|]. exfalso.
      assert (pending_write (sc_conn y1) = true) by (apply pending_iff; [rewrite Hb1; discriminate|rewrite U; discriminate]).
      congruence. }
    exists y1. rewrite Hu, U1, app_nil_r.
    split; [destruct f; cbn [flush_conn]; rewrite ?St1; reflexivity|]. auto 10.
Qed.

(* one connection of the table *)
Lemma flush_one_calm w toks fd x :
  Inv w toks -> Calm w -> alookup fd (w_conns w) = Some x ->
  let w1 := flush_one w (fd, x) in
  Calm w1 /\
  (exists y, alookup fd (w_conns w1) = Some y /\ unsent (sc_conn y) = [] /\ sc_st y = AwaitIn /\ sc_out y = false /\
             sc_client y = sc_client x /\ wire w1 y = wire w x) /\
  forall fd' x', fd' <> fd -> alookup fd' (w_conns w) = Some x' ->
     alookup fd' (w_conns w1) = Some x' /\ wire w1 x' = wire w x'.
Proof.
  intros HI HC HL. cbn zeta. unfold flush_one.
  destruct (calm_conns _ HC _ _ HL) as (Hs & Hrb & cl & Hcl).
  destruct (calm_clients _ HC _ _ Hcl) as (K1 & K2 & K3).
  rewrite (client_of_lookup _ _ _ Hcl).
  assert (Hcr : k_can_receive cl = true) by (unfold k_can_receive; rewrite K1, K3; reflexivity). rewrite Hcr.
  destruct (inv_cc _ _ _ HI _ _ HL) as [Hok _].
  assert (Other : forall y' cl' fd' x', fd' <> fd -> alookup fd' (w_conns w) = Some x' ->
            alookup fd' (w_conns (set_client (set_conn w fd y') (sc_client x) cl')) = Some x' /\
            wire (set_client (set_conn w fd y') (sc_client x) cl') x' = wire w x').
  { intros y' cl' fd' x' Hne HL'. cbn [set_client set_conn w_conns]. rewrite alookup_update_other by congruence.
    split; [exact HL'|]. apply wire_other. intros E. apply Hne. eapply (calm_inj _ HC); eauto. }
  destruct (sc_st x) eqn:S0; [| |congruence].
  - (* awaiting input: nothing queued, nothing happens *)
    unfold st_ok in Hok. rewrite S0 in Hok. destruct Hok as [Ho Hp].
    assert (U : unsent (sc_conn x) = []).
    { destruct (unsent (sc_conn x)) eqn:U; [reflexivity|]. exfalso.
      assert (pending_write (sc_conn x) = true) by (apply (pending_iff _ Hrb); rewrite U; discriminate). congruence. }
    assert (F : flush_conn (S (S (length (c_rq (sc_conn x))))) x true [] = (x, [])) by (cbn [flush_conn]; rewrite S0; reflexivity).
    rewrite F. cbn [sstate_eqb andb]. split; [|split].
    + apply (calm_update w fd x x cl _ HC HL Hcl); [exact (calm_clients _ HC _ _ Hcl)|reflexivity|rewrite S0; discriminate|exact Hrb].
    + exists x. cbn [set_client set_conn w_conns]. split; [eapply alookup_update_same; eauto|].
      split; [exact U|]. split; [exact S0|]. split; [exact Ho|]. split; [reflexivity|].
      unfold wire. rewrite (client_of_update_same _ _ _ _ cl _ Hcl), (client_of_lookup _ _ _ Hcl). cbn [k_rx]. rewrite app_nil_r. reflexivity.
    + apply Other.
  - (* awaiting output: everything is written *)
    unfold st_ok in Hok. rewrite S0 in Hok. destruct Hok as [Ho Hp].
    assert (Hf : (writes_needed (sc_conn x) < S (S (length (c_rq (sc_conn x)))))%nat)
      by (unfold writes_needed; destruct (c_rbuf (sc_conn x)); lia).
    destruct (flush_conn_all _ x [] S0 Hp Hrb Hf) as (y & F & A1 & A2 & A3 & A4 & A5 & A6 & A7).
    rewrite F, A3. cbn [sstate_eqb andb app].
    set (y' := mkSC (sc_conn y) AwaitIn (sc_infl y) (sc_client y) false (sc_gid y)).
    split; [|split].
    + apply (calm_update w fd x y' cl _ HC HL Hcl); [exact (calm_clients _ HC _ _ Hcl)|exact A5|discriminate|].
      cbn [y' sc_conn]. rewrite A2. discriminate.
    + exists y'. cbn [set_client set_conn w_conns]. split; [eapply alookup_update_same; eauto|].
      split; [exact A1|]. split; [reflexivity|]. split; [reflexivity|]. split; [exact A5|].
      unfold wire. cbn [y' sc_client sc_conn]. rewrite A5, (client_of_update_same _ _ _ _ cl _ Hcl), (client_of_lookup _ _ _ Hcl).
      cbn [k_rx]. rewrite A1, app_nil_r. reflexivity.
    + apply Other.
Qed.

(* the whole table *)
Theorem flush_delivers_all w toks :
  Inv w toks -> Calm w ->
  Calm (flush w) /\ Inv (flush w) toks /\
  forall fd x, alookup fd (w_conns w) = Some x ->
    exists y, alookup fd (w_conns (flush w)) = Some y /\ sc_client y = sc_client x /\
      unsent (sc_conn y) = [] /\ sc_st y = AwaitIn /\ sc_out y = false /\ wire (flush w) y = wire w x.
Proof.
  intros HI HC. split; [|split; [apply (flush_inv BUF BUF_min BUF_u32); exact HI|]].
  - unfold flush.
    assert (G : forall l w0 t0, Inv w0 t0 -> Calm w0 -> (forall p, In p l -> alookup (fst p) (w_conns w0) = Some (snd p)) ->
                NoDup (map fst l) -> Calm (fold_left flush_one l w0)).
    { induction l as [|[fd x] l IH]; intros w0 t0 I0 C0 Hl Hnd; cbn [fold_left]; [exact C0|].
      inversion Hnd as [|? ? Hnot Hnd']; subst.
      pose proof (Hl (fd, x) (or_introl eq_refl)) as HL0. cbn [fst snd] in HL0.
      destruct (flush_one_calm w0 t0 fd x I0 C0 HL0) as (C1 & _ & Oth).
      apply (IH _ t0); [apply (flush_one_inv BUF BUF_min BUF_u32); assumption|exact C1| |exact Hnd'].
      intros [fd' x'] Hin. cbn [fst snd]. apply Oth; [|apply (Hl (fd', x')); right; exact Hin].
      intros E. subst. apply Hnot. change fd with (fst (fd, x')). apply in_map. exact Hin. }
    apply (G (w_conns w) w toks HI HC); [|apply (inv_nodup _ _ _ HI)].
    intros [fd x] Hin. cbn. apply alookup_in_nodup; [apply (inv_nodup _ _ _ HI)|exact Hin].
  - unfold flush.
    assert (G : forall l w0 t0, Inv w0 t0 -> Calm w0 -> (forall p, In p l -> alookup (fst p) (w_conns w0) = Some (snd p)) ->
                NoDup (map fst l) ->
                forall fd x, alookup fd (w_conns w0) = Some x ->
                  exists y, alookup fd (w_conns (fold_left flush_one l w0)) = Some y /\ sc_client y = sc_client x /\
                    wire (fold_left flush_one l w0) y = wire w0 x /\
                    (In fd (map fst l) -> unsent (sc_conn y) = [] /\ sc_st y = AwaitIn /\ sc_out y = false) /\
                    (~ In fd (map fst l) -> y = x)).
    { induction l as [|[fd0 x0] l IH]; intros w0 t0 I0 C0 Hl Hnd fd x HL; cbn [fold_left].
      - exists x. cbn. tauto.
      - inversion Hnd as [|? ? Hnot Hnd']; subst.
        pose proof (Hl (fd0, x0) (or_introl eq_refl)) as HL0. cbn [fst snd] in HL0.
        destruct (flush_one_calm w0 t0 fd0 x0 I0 C0 HL0) as (C1 & (y0 & L0 & U0 & S0 & O0 & Cl0 & W0) & Oth).
        assert (I1 : Inv (flush_one w0 (fd0, x0)) t0) by (apply (flush_one_inv BUF BUF_min BUF_u32); assumption).
        assert (Hl1 : forall p, In p l -> alookup (fst p) (w_conns (flush_one w0 (fd0, x0))) = Some (snd p)).
        { intros [fd' x'] Hin. cbn [fst snd]. apply Oth; [|apply (Hl (fd', x')); right; exact Hin].
          intros E. subst. apply Hnot. change fd0 with (fst (fd0, x')). apply in_map. exact Hin. }
        destruct (Nat.eq_dec fd fd0) as [->|Hne].
        + rewrite HL0 in HL. inversion HL; subst x0.
          destruct (IH _ t0 I1 C1 Hl1 Hnd' fd0 y0 L0) as (y & A1 & A2 & A3 & _ & A5).
          rewrite (A5 Hnot) in *. exists y0. split; [exact A1|]. split; [exact Cl0|]. split; [rewrite A3; exact W0|].
          split; [intros _; auto|]. intros Hn. exfalso. apply Hn. left. reflexivity.
        + destruct (Oth fd x Hne HL) as (L1 & W1).
          destruct (IH _ t0 I1 C1 Hl1 Hnd' fd x L1) as (y & A1 & A2 & A3 & A4 & A5).
          exists y. split; [exact A1|]. split; [exact A2|]. split; [rewrite A3; exact W1|]. split.
          * intros [E|Hin]; [cbn in E; congruence|auto].
          * intros Hn. apply A5. intros Hin. apply Hn. right. exact Hin. }
    intros fd x HL.
    destruct (G (w_conns w) w toks HI HC) with (fd := fd) (x := x) as (y & A1 & A2 & A3 & A4 & _); auto.
    + intros [fd' x'] Hin. cbn. apply alookup_in_nodup; [apply (inv_nodup _ _ _ HI)|exact Hin].
    + apply (inv_nodup _ _ _ HI).
    + exists y. split; [exact A1|]. split; [exact A2|].
      destruct A4 as (B1 & B2 & B3).
      { apply in_map_iff. exists (fd, x). split; [reflexivity|apply alookup_some_in; exact HL]. }
      auto.
Qed.

End Fl.
