(* C13 / C04 through the server, end to end, for clients that keep their connections open: the replies the
   server generates while reading a connection (100 Continue for an Expect head, 400 for a rejected
   request) are exactly those of the specification parser on the bytes read, they are queued on that
   connection whatever else the same poll handles, and polling while the epoll descriptor signals
   delivers them to that client -- without the client sending anything more. *)
From MH Require Export proofs.RunInv_proofs.
From Coq Require Import Lia.

Lemma NoDup_app_split {A} (a b : list A) : NoDup (a ++ b) -> NoDup a /\ NoDup b /\ forall k, In k a -> ~ In k b.
Proof.
  induction a as [|x a IH]; cbn [app]; intros H.
  - split; [constructor|]. split; [exact H|]. intros k [].
  - inversion H as [|? ? Hn Hd]; subst. destruct (IH Hd) as (A1 & A2 & A3). split.
    + constructor; [|exact A1]. intros Hin. apply Hn. apply in_or_app. left. exact Hin.
    + split; [exact A2|]. intros k [->|Hin] Hb; [apply Hn; apply in_or_app; right; exact Hb|exact (A3 k Hin Hb)].
Qed.

Section SE.
Variable BUF : nat.
Hypothesis BUF_min : (2 <= BUF)%nat.
Hypothesis BUF_u32 : N.of_nat BUF < U32_LIMIT.
Notation CInv := (CInv BUF).
Notation Inv := (Inv BUF).
Notation handle_event := (handle_event BUF).
Notation handle_all := (handle_all BUF).

(* an event that does not name connection fd leaves it and its client's queues alone *)
Lemma untouched_frame w toks e w' ys fd x :
  Inv w toks -> Calm w -> evt_live w e -> handle_event w e = inl (w', ys) ->
  alookup fd (w_conns w) = Some x -> ev_key e <> KConn fd ->
  alookup fd (w_conns w') = Some x /\ client_of w' (sc_client x) = client_of w (sc_client x).
Proof.
  intros HI HC Hlive H HL Hk.
  assert (Conn : forall fd0 x0 y cl cl', alookup fd0 (w_conns w) = Some x0 -> alookup (sc_client x0) (w_clients w) = Some cl ->
            w' = set_client (set_conn w fd0 y) (sc_client x0) cl' -> ev_key e = KConn fd0 ->
            alookup fd (w_conns w') = Some x /\ client_of w' (sc_client x) = client_of w (sc_client x)).
  { intros fd0 x0 y cl cl' HL0 Hcl -> Ek. rewrite Ek in Hk. assert (Hne : fd <> fd0) by congruence.
    cbn [set_client set_conn w_conns]. rewrite alookup_update_other by congruence. split; [exact HL|].
    apply client_of_update_other. intros E. apply Hne. eapply (calm_inj _ HC); eauto. }
  destruct e as [fd0|fd0 kk|fd0 kk|nf|]; try (destruct Hlive; fail).
  - destruct (shape_in BUF BUF_min BUF_u32 w toks fd0 kk w' ys HI HC Hlive H) as (x0 & y & cl & n & HL0 & Hcl & _ & Hw & _).
    eapply Conn; eauto.
  - destruct (shape_out BUF BUF_min BUF_u32 w toks fd0 kk w' ys HI HC Hlive H) as (x0 & y & cl & sent & HL0 & Hcl & _ & _ & Hw & _).
    eapply Conn; eauto.
  - destruct (shape_listen BUF w nf w' ys HC Hlive H) as (c & rest & cl & Bk & Hcl & Hw).
    destruct (calm_backlog _ HC c) as (_ & Hcfresh); [rewrite Bk; left; reflexivity|].
    split.
    + destruct Hw as [-> | ->]; cbn [refused_world accepted_world w_conns]; [exact HL|]. rewrite alookup_app_end, HL. reflexivity.
    + unfold client_of. destruct Hw as [-> | ->]; cbn [refused_world accepted_world w_clients];
        rewrite alookup_update_other; try reflexivity; intros E; eapply Hcfresh; eauto.
Qed.

(* a batch none of whose events names fd *)
Lemma untouched_batch : forall es w toks acc w' ys fd x,
  Inv w toks -> Calm w -> Forall (evt_live w) es -> NoDup (map ev_key es) -> ~ In (KConn fd) (map ev_key es) ->
  handle_all w es acc = inl (w', ys) -> alookup fd (w_conns w) = Some x ->
  alookup fd (w_conns w') = Some x /\ client_of w' (sc_client x) = client_of w (sc_client x) /\
  Calm w' /\ exists toks', Inv w' toks'.
Proof.
  induction es as [|e t IH]; intros w toks acc w' ys fd x HI HC Hall Hnd Hnot; cbn [Server.handle_all].
  - intros H HL; inversion H; subst. eauto 6.
  - inversion Hall as [|? ? He Ht]; subst. inversion Hnd as [|? ? Hnotin Hnd']; subst.
    destruct (handle_event w e) as [[w1 ys1]|err] eqn:Hh; [|discriminate]. intros H HL.
    destruct (live_event_progress BUF BUF_min BUF_u32 w toks e w1 ys1 HI HC He Hh) as [HC1 _].
    assert (HI1 : Inv w1 (ytoks ys1 ++ toks)).
    { destruct (handle_ok BUF BUF_min BUF_u32 w toks e HI (evt_live_ok _ _ He)) as [(w1' & ys1' & Hh' & I1 & _)|Hov].
      - intros ->. destruct He.
      - rewrite Hh in Hh'. inversion Hh'; subst. exact I1.
      - rewrite Hh in Hov. discriminate. }
    assert (Ht' : Forall (evt_live w1) t).
    { apply Forall_forall. intros e' Hin. rewrite Forall_forall in Ht.
      apply (live_frame BUF BUF_min BUF_u32 w toks e w1 ys1 e' HI HC He Hh (Ht _ Hin)). intros E. apply Hnotin. rewrite <- E. apply in_map. exact Hin. }
    destruct (untouched_frame w toks e w1 ys1 fd x HI HC He Hh HL) as [L1 C1].
    { intros E. apply Hnot. left. exact E. }
    destruct (IH w1 _ _ w' ys fd x HI1 HC1 Ht' Hnd' ltac:(intros Hin; apply Hnot; right; exact Hin) H L1) as (L2 & C2 & HC2 & HI2).
    split; [exact L2|]. split; [congruence|]. auto.
Qed.

(* events of other keys stay live across a batch *)
Lemma live_after_batch : forall es w toks acc w' ys e',
  Inv w toks -> Calm w -> Forall (evt_live w) es -> NoDup (map ev_key es) -> ~ In (ev_key e') (map ev_key es) ->
  handle_all w es acc = inl (w', ys) -> evt_live w e' -> evt_live w' e'.
Proof.
  induction es as [|e t IH]; intros w toks acc w' ys e' HI HC Hall Hnd Hnot; cbn [Server.handle_all].
  - intros H He'; inversion H; subst. exact He'.
  - inversion Hall as [|? ? He Ht]; subst. inversion Hnd as [|? ? Hnotin Hnd']; subst.
    destruct (handle_event w e) as [[w1 ys1]|err] eqn:Hh; [|discriminate]. intros H He'.
    destruct (live_event_progress BUF BUF_min BUF_u32 w toks e w1 ys1 HI HC He Hh) as [HC1 _].
    assert (HI1 : Inv w1 (ytoks ys1 ++ toks)).
    { destruct (handle_ok BUF BUF_min BUF_u32 w toks e HI (evt_live_ok _ _ He)) as [(w1' & ys1' & Hh' & I1 & _)|Hov].
      - intros ->. destruct He.
      - rewrite Hh in Hh'. inversion Hh'; subst. exact I1.
      - rewrite Hh in Hov. discriminate. }
    assert (Ht' : Forall (evt_live w1) t).
    { apply Forall_forall. intros e0 Hin. rewrite Forall_forall in Ht.
      apply (live_frame BUF BUF_min BUF_u32 w toks e w1 ys1 e0 HI HC He Hh (Ht _ Hin)). intros E. apply Hnotin. rewrite <- E. apply in_map. exact Hin. }
    assert (He1 : evt_live w1 e').
    { apply (live_frame BUF BUF_min BUF_u32 w toks e w1 ys1 e' HI HC He Hh He'). intros E. apply Hnot. left. symmetry. exact E. }
    apply (IH w1 _ _ w' ys e' HI1 HC1 Ht' Hnd' ltac:(intros Hin; apply Hnot; right; exact Hin) H He1).
Qed.

Lemma handle_all_app : forall a b w acc,
  handle_all w (a ++ b) acc = match handle_all w a acc with inl (w1, ys1) => handle_all w1 b ys1 | inr e => inr e end.
Proof.
  induction a as [|e a IH]; intros b w acc; cbn [app Server.handle_all]; [reflexivity|].
  destruct (handle_event w e) as [[w1 ys1]|]; [apply IH|reflexivity].
Qed.

(* what one poll does to the connection whose IN event is in the batch, wherever it stands in the batch *)
Theorem batch_read_exact pre post w toks acc w' ys fd kk x ph :
  Inv w toks -> Calm w ->
  Forall (evt_live w) (pre ++ EvIn fd kk :: post) -> NoDup (map ev_key (pre ++ EvIn fd kk :: post)) ->
  handle_all w (pre ++ EvIn fd kk :: post) acc = inl (w', ys) ->
  alookup fd (w_conns w) = Some x -> CInv (sc_conn x) ph ->
  let c := sc_conn x in
  let t := k_tosrv (client_of w (sc_client x)) in
  let d := firstn (read_amount kk (BUF - length (c_win c)) (length t)) t in
  exists y, alookup fd (w_conns w') = Some y /\ sc_client y = sc_client x /\ sc_gid y = sc_gid x /\
    k_rx (client_of w' (sc_client x)) = k_rx (client_of w (sc_client x)) /\
    Calm w' /\ (exists toks', Inv w' toks') /\
    match runT BUF (c_pmax c) ph (c_win c ++ d) [] with
    | RMore ph' carry outs =>
        CInv (sc_conn y) ph' /\ unsent (sc_conn y) = unsent c ++ flat_map serialize (conts_of outs)
    | RErr outs e =>
        CInv (sc_conn y) PLine /\
        unsent (sc_conn y) = unsent c ++ flat_map serialize (conts_of outs ++ [bad_request_response e])
    | ROutOfFuel => False
    end.
Proof.
  intros HI HC Hall Hnd Hrun HL I. cbn zeta.
  rewrite handle_all_app in Hrun.
  apply Forall_app in Hall. destruct Hall as [Hpre Hrest]. inversion Hrest as [|? ? Hin_live Hpost]; subst.
  rewrite map_app in Hnd. cbn [map ev_key] in Hnd.
  destruct (NoDup_app_split _ _ Hnd) as (Hnd_pre & Hnd_rest & Hdisj).
  inversion Hnd_rest as [|? ? Hnot_post Hnd_post]; subst.
  assert (Hnot_pre : ~ In (KConn fd) (map ev_key pre)).
  { intros Hin. apply (Hdisj _ Hin). left. reflexivity. }
  destruct (handle_all w pre acc) as [[w1 ys1]|] eqn:Hp; [|discriminate].
  cbn [Server.handle_all] in Hrun.
  destruct (handle_event w1 (EvIn fd kk)) as [[w2 ys2]|] eqn:Hin; [|discriminate].
  (* before *)
  destruct (untouched_batch pre w toks acc w1 ys1 fd x HI HC Hpre Hnd_pre Hnot_pre Hp HL) as (L1 & C1 & HC1 & toks1 & HI1).
  assert (Live1 : evt_live w1 (EvIn fd kk)).
  { apply (live_after_batch pre w toks acc w1 ys1 (EvIn fd kk) HI HC Hpre Hnd_pre Hnot_pre Hp Hin_live). }
  assert (Hne1 : k_tosrv (client_of w1 (sc_client x)) <> []).
  { destruct Live1 as (x1 & HLx & _ & Ht). rewrite L1 in HLx. inversion HLx; subst. exact Ht. }
  (* the read *)
  pose proof (server_read_exact BUF BUF_min BUF_u32 w1 toks1 fd kk w2 ys2 x ph HI1 L1 I Hne1 Hin) as SR. cbn zeta in SR.
  rewrite C1 in SR. destruct SR as (_ & y & L2 & Hg & Hc & Htos & SRm).
  destruct (live_event_progress BUF BUF_min BUF_u32 w1 toks1 (EvIn fd kk) w2 ys2 HI1 HC1 Live1 Hin) as [HC2 _].
  assert (HI2 : Inv w2 (ytoks ys2 ++ toks1)).
  { destruct (handle_ok BUF BUF_min BUF_u32 w1 toks1 (EvIn fd kk) HI1 (evt_live_ok _ _ Live1)) as [(w2' & ys2' & Hh' & I2 & _)|Hov].
    - discriminate.
    - rewrite Hin in Hh'. inversion Hh'; subst. exact I2.
    - rewrite Hin in Hov. discriminate. }
  assert (Hrx2 : k_rx (client_of w2 (sc_client x)) = k_rx (client_of w (sc_client x))).
  { destruct (shape_in BUF BUF_min BUF_u32 w1 toks1 fd kk w2 ys2 HI1 HC1 Live1 Hin) as (x' & y' & cl & n & HLx & Hcl & _ & Hw & _ & _ & _ & Hrx & _).
    rewrite L1 in HLx. inversion HLx; subst x'. rewrite Hw.
    rewrite (client_of_update_same _ _ _ _ cl _ Hcl). rewrite Hrx. rewrite <- C1. rewrite (client_of_lookup _ _ _ Hcl). reflexivity. }
  (* after *)
  assert (Hpost2 : Forall (evt_live w2) post).
  { apply Forall_forall. intros e0 Hin0. rewrite Forall_forall in Hpost.
    assert (K0 : ev_key e0 <> KConn fd) by (intros E; apply Hnot_post; rewrite <- E; apply in_map; exact Hin0).
    assert (L0 : evt_live w1 e0).
    { apply (live_after_batch pre w toks acc w1 ys1 e0 HI HC Hpre Hnd_pre); [|exact Hp|exact (Hpost _ Hin0)].
      intros Hin1. apply (Hdisj _ Hin1). right. apply in_map. exact Hin0. }
    apply (live_frame BUF BUF_min BUF_u32 w1 toks1 (EvIn fd kk) w2 ys2 e0 HI1 HC1 Live1 Hin L0 K0). }
  destruct (untouched_batch post w2 _ (ys1 ++ ys2) w' ys fd y HI2 HC2 Hpost2 Hnd_post Hnot_post Hrun L2) as (L3 & C3 & HC3 & toks3 & HI3).
  exists y. split; [exact L3|]. split; [exact Hc|]. split; [exact Hg|].
  split; [rewrite <- Hc, C3, Hc; exact Hrx2|]. split; [exact HC3|]. split; [eauto|].
  destruct (runT BUF (c_pmax (sc_conn x)) ph _ []) as [ph' carry outs|outs e|]; [| |exact SRm].
  - destruct SRm as (A1 & _ & A3 & _). auto.
  - destruct SRm as (A1 & _ & A3 & _). auto.
Qed.

(* end to end: a connection awaiting input whose client has sent bytes.  Polling while the epoll descriptor
   signals terminates, and then that client has been sent -- after everything sent before -- exactly the replies
   the specification parser generates on the bytes of the first read (100 Continue for every Expect head
   completed, the 400 if the stream is rejected), followed only by further server-generated replies to the
   rest of its input; the client did not have to send anything more *)
Theorem server_replies_delivered w toks fd x ph :
  Inv w toks -> Calm w -> alookup fd (w_conns w) = Some x -> CInv (sc_conn x) ph -> sc_out x = false ->
  k_tosrv (client_of w (sc_client x)) <> [] ->
  let c := sc_conn x in
  let t := k_tosrv (client_of w (sc_client x)) in
  let d := firstn (read_amount 0 (BUF - length (c_win c)) (length t)) t in
  exists n, match drive BUF n w [] with
            | DQuiet w2 _ =>
                ready_events w2 = [] /\
                exists more, Forall server_generated more /\
                  k_rx (client_of w2 (sc_client x)) =
                  wire w x ++
                  flat_map serialize (match runT BUF (c_pmax c) ph (c_win c ++ d) [] with
                                      | RMore _ _ outs => conts_of outs
                                      | RErr outs e => conts_of outs ++ [bad_request_response e]
                                      | ROutOfFuel => []
                                      end) ++ flat_map serialize more
            | DOverflow => True
            | DFuel => False
            end.
Proof.
  intros HI HC HL I Ho Hne. cbn zeta.
  destruct (calm_conns _ HC _ _ HL) as (_ & _ & cl & Hcl).
  destruct (calm_clients _ HC _ _ Hcl) as (K1 & K2 & K3).
  assert (Hin : In (EvIn fd 0) (ready_events w)).
  { unfold ready_events. rewrite (calm_nokill _ HC). cbn [app]. apply in_or_app. left.
    apply in_flat_map. exists (fd, x). split; [apply alookup_some_in; exact HL|]. cbn [fst snd].
    unfold conn_event. rewrite (client_of_lookup _ _ _ Hcl) in *. unfold k_hup. rewrite K1, K2, Ho. cbn [negb orb].
    destruct (k_tosrv cl); [congruence|]. left. reflexivity. }
  apply in_split in Hin. destruct Hin as (pre & post & Ere).
  pose proof (ready_events_live BUF BUF_min BUF_u32 w toks HI HC) as Hlive.
  destruct (ready_events_ok BUF BUF_min BUF_u32 w toks HI) as [_ Hnd].
  pose proof (poll_outcomes BUF BUF_min BUF_u32 w toks HI) as PO.
  destruct (poll BUF w) as [|w1 ys1|e] eqn:P.
  - exfalso. rewrite PO in Ere. destruct pre; discriminate.
  - (* the first poll *)
    unfold poll, Server.poll_with in P. rewrite Ere in P, Hlive, Hnd.
    destruct (pre ++ EvIn fd 0 :: post) as [|e0 es0] eqn:Ees; [destruct pre; discriminate|]. rewrite <- Ees in *.
    destruct (handle_all w (pre ++ EvIn fd 0 :: post) []) as [[w1' ys1']|] eqn:Hh; [|discriminate].
    inversion P; subst w1 ys1; clear P.
    destruct (batch_read_exact pre post w toks [] w1' ys1' fd 0 x ph HI HC Hlive Hnd Hh HL I)
      as (y & L1 & Hc1 & _ & Hrx1 & HC1 & (toks1 & HI1) & M).
    rewrite (sweep_calm w1' HC1 (inv_nodup _ _ _ HI1)) in *.
    destruct (drive_delivers BUF BUF_min BUF_u32 w1' toks1 ([] ++ ys1') HI1 HC1) as [n Hn].
    exists (S n). cbn [drive]. unfold poll, Server.poll_with. rewrite Ere, Ees. rewrite <- Ees, Hh.
    rewrite (sweep_calm w1' HC1 (inv_nodup _ _ _ HI1)).
    destruct (drive BUF n w1' ([] ++ ys1')) as [w2 ys2| |]; auto.
    destruct Hn as (Hq & HC2 & (toks2 & HI2) & Cs & _). split; [exact Hq|].
    destruct (Cs fd y L1) as (y2 & gen & L2 & Hc2 & Hw2 & Fg).
    destruct (blocked_means_done BUF w2 toks2 HI2 HC2 Hq) as (_ & Hdone). destruct (Hdone fd y2 L2) as (_ & Hu2 & _).
    exists gen. split; [exact Fg|].
    unfold wire in Hw2 at 1. rewrite Hu2, app_nil_r, Hc2, Hc1 in Hw2. rewrite Hw2. unfold wire. rewrite Hc1, Hrx1.
    destruct (runT BUF (c_pmax (sc_conn x)) ph _ []) as [ph' carry outs|outs e|]; [| |destruct M].
    + destruct M as (_ & ->). rewrite <- !app_assoc. reflexivity.
    + destruct M as (_ & ->). rewrite <- !app_assoc. reflexivity.
  - exists 1%nat. cbn [drive]. rewrite P. exact Logic.I.
Qed.

End SE.

(* non-vacuity: a client connects having sent an Expect head and nothing else; polling while ready ends with the
   interim response -- and nothing else -- in its receive queue, and no request yielded *)
Definition wX : world :=
  Server.mkW [(0%nat, mkCl true false false
                 (B"PUT /x HTTP/1.1" ++ CRLF ++ B"Expect: 100-continue" ++ CRLF ++ B"Content-Length: 3" ++ CRLF ++ CRLF) [] InBacklog)]
             [] [0%nat] [] 0 MAX_PAYLOAD_SIZE false.
Example expect_head_example :
  match drive 1024 8 wX [] with
  | DQuiet w2 ys => k_rx (client_of w2 0) = serialize (response_new Http11 Continue) /\ ys = [] /\ ready_events w2 = []
  | _ => False
  end.
Proof. vm_compute. repeat split. Qed.
