(* C02, stream level: the outcome "parse error" of the whole-stream parser, classified.
   parse_stream s = RErr o e  iff  s is a sequence of well-formed request encodings (all delivered,
   o is exactly their deliveries) followed by a tail whose FIRST incomplete request has the fault e:
   the first line too long, a bad request line (its kind by C02_reqline_precedence), or -- after a
   good request line and good header lines -- a header line that is too long or rejected by the
   header rules, or a declared length above the limit at the blank line. *)
From MH Require Export proofs.Grammar_conv.

Section Stream.
Variable BUF : nat.
Hypothesis BUF_min : (2 <= BUF)%nat.
Variable L : N.
Notation runT := (runT BUF L).
Notation step := (step BUF L).
Notation line_ok := (line_ok BUF).
Notation take_line := (take_line BUF).
Notation with_crlf := Grammar_proofs.with_crlf.

(* a well-formed request encoding and what it delivers *)
Record wfreq := mkQ { q_rlb : bytes; q_rl : request_line; q_hs : list bytes; q_hd : headers; q_body : bytes }.
Definition WF (q : wfreq) : Prop :=
  parse_reqline (q_rlb q) = Ok (q_rl q) /\ line_ok (q_rlb q) /\
  Forall (fun l => l <> [] /\ line_ok l) (q_hs q) /\ fold_lines headers_default (q_hs q) = Ok (q_hd q) /\
  h_content_length (q_hd q) <= L /\ lenN (q_body q) = h_content_length (q_hd q).
Definition enc (q : wfreq) : bytes := q_rlb q ++ CRLF ++ with_crlf (q_hs q) ++ CRLF ++ q_body q.
Definition outs (q : wfreq) : list out :=
  interim (q_rl q) (q_hd q) ++ [ORequest (q_rl q) (q_hd q) (delivered_body (q_hd q) (q_body q))].
Definition enc_all (qs : list wfreq) : bytes := flat_map enc qs.
Definition outs_all (qs : list wfreq) : list out := flat_map outs qs.

(* the fault at the head of the header block remainder r, the headers folded so far being h *)
Inductive hdr_fault (h : headers) (r : bytes) : req_err -> Prop :=
| HF_long : take_line r = LTooLong -> hdr_fault h r (HeaderError (HSizeLimitExceeded (firstn BUF r)))
| HF_line l rest e : take_line r = LLine l rest -> l <> [] -> parse_header_tolerant h l = Err e -> hdr_fault h r e
| HF_size rest : take_line r = LLine [] rest -> L < h_content_length h ->
    hdr_fault h r (SizeLimitExceeded L (h_content_length h)).

(* the fault of the first (incomplete) request of the tail t *)
Inductive fault (t : bytes) : req_err -> Prop :=
| FT_long : take_line t = LTooLong -> fault t InvalidRequest
| FT_reqline l rest e : take_line t = LLine l rest -> parse_reqline l = Err e -> fault t e
| FT_hdr rlb rl hs h r e : parse_reqline rlb = Ok rl -> line_ok rlb ->
    Forall (fun l => l <> [] /\ line_ok l) hs -> fold_lines headers_default hs = Ok h ->
    t = rlb ++ CRLF ++ with_crlf hs ++ r -> hdr_fault h r e -> fault t e.

Lemma run_all : forall qs t acc, Forall WF qs -> runT PLine (enc_all qs ++ t) acc = runT PLine t (acc ++ outs_all qs).
Proof.
  induction qs as [|q qs IH]; intros t acc Hall; [cbn; rewrite app_nil_r; reflexivity|].
  inversion Hall as [|? ? (Prl & Hrl & Hhs & Hf & Hlim & Hlen) Hrest]; subst.
  cbn [enc_all outs_all flat_map]. fold (enc_all qs) (outs_all qs). unfold enc at 1. rewrite <- !app_assoc.
  rewrite (wellformed_delivered BUF BUF_min L _ _ _ _ _ (enc_all qs ++ t) acc Prl Hrl Hhs Hf Hlim Hlen).
  rewrite (IH t _ Hrest). unfold outs. rewrite <- !app_assoc. reflexivity.
Qed.

Lemma hdr_fault_run rl h r e acc : hdr_fault h r e -> runT (PHdr rl h) r acc = RErr acc e.
Proof.
  intros [T|l rest e' T Hne P|rest T Hlt]; rewrite runT_unfold; cbn [ConnSpec.step]; rewrite T.
  - reflexivity.
  - destruct l as [|c l']; [congruence|]. rewrite P. reflexivity.
  - assert (Z : h_content_length h =? 0 = false) by (apply N.eqb_neq; lia). rewrite Z.
    apply N.ltb_lt in Hlt. rewrite Hlt. reflexivity.
Qed.

Lemma fault_run t e acc : fault t e -> runT PLine t acc = RErr acc e.
Proof.
  intros [T|l rest e' T P|rlb rl hs h r e' Prl Hrl Hhs Hf -> HF].
  - rewrite runT_unfold. cbn [ConnSpec.step]. rewrite T. reflexivity.
  - rewrite runT_unfold. cbn [ConnSpec.step]. rewrite T, P. reflexivity.
  - rewrite runT_unfold. cbn [ConnSpec.step]. rewrite (take_line_ok BUF BUF_min rlb _ Hrl). rewrite Prl, app_nil_r.
    rewrite (header_lines_run BUF BUF_min L rl hs headers_default h r acc Hhs Hf).
    apply hdr_fault_run. exact HF.
Qed.

(* an error outcome extends the accumulator *)
Lemma err_acc ph w acc o e : runT ph w acc = RErr o e -> exists o', o = acc ++ o' /\ runT ph w [] = RErr o' e.
Proof.
  rewrite (runT_acc BUF L (S (rank ph w)) ph w acc) by lia.
  destruct (ConnSpec.runT BUF L ph w []) as [? ? ?|o' e'|]; try discriminate.
  intros H; inversion H; subst. eauto.
Qed.

(* an error while waiting for the body is impossible without first delivering the request *)
Lemma body_err_delivers rl h a lft w o e : runT (PBody rl h a lft) w [] = RErr o e -> first_req o <> None.
Proof.
  rewrite runT_unfold. cbn [ConnSpec.step]. destruct (lft <=? lenN w); [|discriminate].
  intros H. apply err_acc in H. destruct H as (o' & -> & _). cbn [app first_req]. discriminate.
Qed.

(* an error in the header phase, no request delivered before it: good header lines, then the fault *)
Lemma hdr_err_inv : forall n rl h w o e, (length w < n)%nat ->
  runT (PHdr rl h) w [] = RErr o e -> first_req o = None ->
  exists hs h' r, w = with_crlf hs ++ r /\ Forall (fun l => l <> [] /\ line_ok l) hs /\
                  fold_lines h hs = Ok h' /\ hdr_fault h' r e /\ o = [].
Proof.
  induction n as [|n IH]; intros rl h w o e Hn; [lia|].
  rewrite runT_unfold. cbn [ConnSpec.step].
  destruct (take_line w) as [l r| |] eqn:T; [| |discriminate].
  - destruct (take_line_inv BUF w l r T) as (Ew & Hnc & Hfit).
    destruct l as [|c l'].
    + destruct (h_content_length h =? 0) eqn:Z.
      * intros H. apply err_acc in H. destruct H as (o' & -> & _). cbn [app first_req]. discriminate.
      * destruct (L <? h_content_length h) eqn:Lt.
        -- intros H _. clear Ew. inversion H; subst. exists [], h, w. cbn [with_crlf flat_map app fold_lines].
           repeat split; auto. eapply HF_size; [exact T|]. apply N.ltb_lt. exact Lt.
        -- intros H Hnone. apply err_acc in H. destruct H as (o' & -> & H).
           exfalso. apply (body_err_delivers _ _ _ _ _ _ _ H).
           destruct (h_expect h); cbn [app first_req] in Hnone; exact Hnone.
    + destruct (parse_header_tolerant h (c :: l')) as [h1|e1] eqn:P.
      * rewrite app_nil_r. intros H Hnone.
        assert (Hr : (length r < n)%nat).
        { rewrite Ew in Hn. rewrite !app_length in Hn. cbn in Hn. lia. }
        destruct (IH rl h1 r o e Hr H Hnone) as (hs & h' & r' & Er & Hall & Hf & HF & Ho).
        exists ((c :: l') :: hs), h', r'. cbn [with_crlf flat_map fold_lines]. fold (with_crlf hs). rewrite P.
        split; [rewrite Ew, Er, <- !app_assoc; reflexivity|].
        split; [constructor; [split; [discriminate|split; assumption]|exact Hall]|]. auto.
      * intros H _. clear Ew. inversion H; subst. exists [], h, w. cbn [with_crlf flat_map app fold_lines].
        repeat split; auto. eapply HF_line; [exact T|discriminate|exact P].
  - intros H _. inversion H; subst. exists [], h, w. cbn [with_crlf flat_map app fold_lines].
    repeat split; auto. apply HF_long. exact T.
Qed.

Lemma enc_nonempty q : (0 < length (enc q))%nat.
Proof. unfold enc. rewrite !app_length. cbn. lia. Qed.

Lemma error_classified : forall n s o e, (length s < n)%nat -> runT PLine s [] = RErr o e ->
  exists qs t, Forall WF qs /\ s = enc_all qs ++ t /\ o = outs_all qs /\ fault t e.
Proof.
  induction n as [|n IH]; intros s o e Hn H; [lia|].
  destruct (first_req o) as [x|] eqn:Fr.
  - assert (Fr' : first_req (outs_of (parse_stream BUF L s)) = Some x) by (unfold parse_stream; rewrite H; exact Fr).
    destruct (delivered_wellformed BUF BUF_min L s x Fr') as (rlb & rl & hs & hd & body & rest & Es & Prl & Hrl & Hhs & Hf & Hlim & Hlen & Hx).
    set (q := mkQ rlb rl hs hd body).
    assert (Wq : WF q) by (unfold WF, q; cbn; auto 10).
    assert (Es' : s = enc q ++ rest) by (rewrite Es; unfold enc, q; cbn [q_rlb q_hs q_body]; rewrite <- !app_assoc; reflexivity).
    pose proof (wellformed_delivered BUF BUF_min L rlb rl hs hd body rest [] Prl Hrl Hhs Hf Hlim Hlen) as R.
    rewrite <- Es in R. rewrite H in R. symmetry in R. cbn [app] in R.
    apply err_acc in R. destruct R as (o' & -> & R).
    assert (Hr : (length rest < n)%nat).
    { pose proof (enc_nonempty q). rewrite Es' in Hn. rewrite app_length in Hn. lia. }
    destruct (IH rest o' e Hr R) as (qs & t & Hall & Er & Ho & HF).
    exists (q :: qs), t. split; [constructor; assumption|]. cbn [enc_all outs_all flat_map]. fold (enc_all qs) (outs_all qs).
    split; [rewrite Es', Er, <- app_assoc; reflexivity|]. split; [rewrite Ho; reflexivity|exact HF].
  - exists [], s. split; [constructor|]. split; [reflexivity|].
    revert H. rewrite runT_unfold. cbn [ConnSpec.step].
    destruct (take_line s) as [l r| |] eqn:T; [| |discriminate].
    + destruct (parse_reqline l) as [rl|e1] eqn:P.
      * rewrite app_nil_r. intros H.
        destruct (take_line_inv BUF s l r T) as (Es & Hnc & Hfit).
        destruct (hdr_err_inv (S (length r)) rl headers_default r o e ltac:(lia) H Fr) as (hs & h' & r' & Er & Hall & Hf & HF & ->).
        split; [reflexivity|]. eapply FT_hdr; [exact P|split; assumption|exact Hall|exact Hf| |exact HF].
        rewrite Es, Er. reflexivity.
      * intros H; inversion H; subst. split; [reflexivity|]. eapply FT_reqline; eauto.
    + intros H; inversion H; subst. split; [reflexivity|]. apply FT_long. exact T.
Qed.

(* the outcome "parse error", classified *)
Theorem stream_error_iff s o e :
  parse_stream BUF L s = RErr o e <->
  exists qs t, Forall WF qs /\ s = enc_all qs ++ t /\ o = outs_all qs /\ fault t e.
Proof.
  split.
  - apply (error_classified (S (length s))). lia.
  - intros (qs & t & Hall & -> & -> & HF). unfold parse_stream. rewrite (run_all qs t [] Hall). cbn [app].
    apply fault_run. exact HF.
Qed.

(* in particular the error is unique and so is the list of requests delivered before it: two
   decompositions of the same stream agree *)
Corollary fault_deterministic qs1 t1 e1 qs2 t2 e2 :
  Forall WF qs1 -> Forall WF qs2 -> enc_all qs1 ++ t1 = enc_all qs2 ++ t2 -> fault t1 e1 -> fault t2 e2 ->
  e1 = e2 /\ outs_all qs1 = outs_all qs2.
Proof.
  intros W1 W2 E F1 F2.
  assert (R1 : parse_stream BUF L (enc_all qs1 ++ t1) = RErr (outs_all qs1) e1) by (apply stream_error_iff; eauto 10).
  assert (R2 : parse_stream BUF L (enc_all qs2 ++ t2) = RErr (outs_all qs2) e2) by (apply stream_error_iff; eauto 10).
  rewrite E in R1. rewrite R1 in R2. inversion R2; auto.
Qed.

End Stream.
