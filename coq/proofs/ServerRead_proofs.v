(* The server's read path equals the specification parser: one IN event on a connection does to the
   connection's parser state, its unsent output and the application's yield exactly what the
   whole-stream reference parser (ConnSpec.runT) does on carry ++ the bytes read.  This carries the
   connection-level theorems (C02 grammar, C04 limits and the 400 text, C13 interim responses, C08
   exactly-once) to HttpServer::requests. *)
From MH Require Export proofs.Provenance_proofs.
From Coq Require Import Lia.

Lemma pop_all_all : forall fuel c acc, (length (c_parsed c) < fuel)%nat ->
  snd (pop_all fuel c acc) = acc ++ c_parsed c /\ c_parsed (fst (pop_all fuel c acc)) = [].
Proof.
  induction fuel as [|f IH]; intros c acc Hf; [lia|]. cbn [pop_all]. unfold pop_parsed_request.
  destruct (c_parsed c) as [|r q] eqn:P.
  - cbn. rewrite app_nil_r. auto.
  - specialize (IH (mkConn (c_state c) (c_win c) (c_pending c) (c_body_vec c) (c_body_left c) q
                           (c_rq c) (c_rbuf c) (c_files c) (c_pmax c)) (acc ++ [r])).
    cbn [c_parsed length] in *. destruct IH as [A1 A2]; [lia|]. rewrite A1, <- app_assoc. cbn. auto.
Qed.

Lemma pop_all_files : forall fuel c acc, c_files (fst (pop_all fuel c acc)) = c_files c.
Proof.
  induction fuel as [|f IH]; intros c acc; cbn [pop_all]; [reflexivity|].
  unfold pop_parsed_request. destruct (c_parsed c) as [|r q]; [reflexivity|]. rewrite IH. reflexivity.
Qed.

Section SR.
Variable BUF : nat.
Hypothesis BUF_min : (2 <= BUF)%nat.
Hypothesis BUF_u32 : N.of_nat BUF < U32_LIMIT.
Notation CInv := (CInv BUF).
Notation Inv := (Inv BUF).

Theorem server_read_exact w toks fd kk w' ys x ph :
  Inv w toks -> alookup fd (w_conns w) = Some x -> CInv (sc_conn x) ph ->
  k_tosrv (client_of w (sc_client x)) <> [] ->
  handle_event BUF w (EvIn fd kk) = inl (w', ys) ->
  let c := sc_conn x in
  let t := k_tosrv (client_of w (sc_client x)) in
  let d := firstn (read_amount kk (BUF - length (c_win c)) (length t)) t in
  d <> [] /\
  exists y, alookup fd (w_conns w') = Some y /\ sc_gid y = sc_gid x /\ sc_client y = sc_client x /\
    k_tosrv (client_of w' (sc_client x)) = skipn (length d) t /\
  match runT BUF (c_pmax c) ph (c_win c ++ d) [] with
  | RMore ph' carry outs =>
      CInv (sc_conn y) ph' /\ c_win (sc_conn y) = carry /\
      unsent (sc_conn y) = unsent c ++ flat_map serialize (conts_of outs) /\
      ys = map (fun r => (fd, sc_gid x, r)) (c_parsed c ++ reqs_of outs (c_files c)) /\
      c_parsed (sc_conn y) = [] /\ c_files (sc_conn y) = files_after outs (c_files c) /\ c_pmax (sc_conn y) = c_pmax c
  | RErr outs e =>
      CInv (sc_conn y) PLine /\ c_win (sc_conn y) = [] /\
      unsent (sc_conn y) = unsent c ++ flat_map serialize (conts_of outs ++ [bad_request_response e]) /\
      ys = [] /\
      c_parsed (sc_conn y) = [] /\ c_files (sc_conn y) = [] /\ c_pmax (sc_conn y) = c_pmax c
  | ROutOfFuel => False
  end.
Proof.
  intros HI HL I Hne. cbn [Server.handle_event]. rewrite HL. cbn zeta.
  assert (Hshort : (length (c_win (sc_conn x)) < BUF)%nat) by (eapply conn_win_short; eauto).
  set (cl := client_of w (sc_client x)) in *.
  set (n := read_amount kk (BUF - length (c_win (sc_conn x))) (length (k_tosrv cl))).
  assert (Hra : (n <= (BUF - length (c_win (sc_conn x))) /\ n <= (length (k_tosrv cl)) /\ (1 <= (BUF - length (c_win (sc_conn x))) -> 1 <= (length (k_tosrv cl)) -> 1 <= n))%nat)
    by (unfold n, read_amount; destruct (Nat.eqb kk 0) eqn:Ek; [|apply Nat.eqb_neq in Ek]; lia).
  destruct Hra as (Ra1 & Ra2 & Ra3).
  assert (Hn : (1 <= n <= length (k_tosrv cl))%nat).
  { split; [|exact Ra2]. apply Ra3; [lia|]. destruct (k_tosrv cl); [congruence|]. cbn [length]. lia. }
  assert (Ld : length (firstn n (k_tosrv cl)) = n) by (rewrite firstn_length; lia).
  destruct (firstn n (k_tosrv cl)) as [|b bs] eqn:Fn; [cbn in Ld; lia|].
  assert (Hlen : (length (c_win (sc_conn x)) + length (b :: bs) <= BUF)%nat) by (rewrite Ld; lia).
  pose proof (try_read_data BUF BUF_min BUF_u32 (sc_conn x) ph (b :: bs) [] I ltac:(discriminate) Hlen) as D.
  intros H. split; [discriminate|].
  assert (AF : forall c0 : conn, add_files c0 [] = c0).
  { intros c0. unfold add_files. rewrite app_nil_r. destruct c0; reflexivity. }
  assert (Tos : forall y', k_tosrv (client_of (set_client (set_conn w fd y') (sc_client x)
                 (mkCl (k_open cl) (k_shut_wr cl) (k_shut_rd cl) (skipn n (k_tosrv cl)) (k_rx cl) (k_place cl))) (sc_client x))
                = skipn n (k_tosrv cl)).
  { intros y'. unfold client_of at 1. cbn [set_client set_conn w_clients].
    unfold cl, client_of in Hne |- *. destruct (alookup (sc_client x) (w_clients w)) as [cl0|] eqn:Lc; [|exfalso; apply Hne; reflexivity].
    rewrite (alookup_update_same _ _ _ _ Lc). reflexivity. }
  revert H. unfold Server.cc_read.
  destruct (runT BUF (c_pmax (sc_conn x)) ph (c_win (sc_conn x) ++ b :: bs) []) as [ph' carry outs|outs e|].
  - destruct D as (c' & T & I' & Hw & P). rewrite T. rewrite AF in P.
    destruct (pop_all (S (length (c_parsed c'))) c' []) as [c2 reqs] eqn:Pp.
    pose proof (pop_all_all (S (length (c_parsed c'))) c' [] ltac:(lia)) as [Q1 Q2]. rewrite Pp in Q1, Q2. cbn [snd fst app] in Q1, Q2.
    pose proof (pop_all_files (S (length (c_parsed c'))) c' []) as QF. rewrite Pp in QF. cbn [fst] in QF.
    pose proof (pop_all_write_side (S (length (c_parsed c'))) c' []) as (HA & HB & PS & HPm). rewrite Pp in HA, HB, PS, HPm. cbn [fst] in *.
    destruct (U32_LIMIT <=? _); [discriminate|]. intros H; inversion H; subst w' ys; clear H.
    match goal with |- context [set_conn w fd ?yy] => set (y' := yy) end.
    assert (Ey : sc_conn y' = c2 /\ sc_gid y' = sc_gid x /\ sc_client y' = sc_client x).
    { unfold y'. cbn [sc_st sc_conn sc_gid sc_client sc_infl]. destruct (pending_write c2); [cbn; auto|]. destruct (sc_st x); cbn; auto. }
    destruct Ey as (E1 & E2 & E3).
    exists y'. split; [cbn [set_client set_conn w_conns]; eapply alookup_update_same; eauto|].
    rewrite E1, E2, E3. cbn [sc_conn sc_gid sc_client].
    split; [reflexivity|]. split; [reflexivity|]. split; [rewrite Ld; apply Tos|].
    split; [eapply CInv_parser_same; eauto|]. split; [destruct PS as (_ & -> & _); exact Hw|].
    split.
    + apply unsent_grow; [rewrite HA; apply (post_rq _ _ _ P)|rewrite HB; apply (post_rbuf _ _ _ P)].
    + split; [rewrite Q1, (post_parsed _ _ _ P); reflexivity|]. split; [exact Q2|].
      split; [rewrite QF; apply (post_files _ _ _ P)|rewrite HPm; apply (post_pmax _ _ _ P)].
  - destruct D as (c1 & T & P). rewrite T. rewrite AF in P.
    destruct (U32_LIMIT <=? _); [discriminate|]. intros H; inversion H; subst w' ys; clear H.
    match goal with |- context [set_conn w fd ?yy] => set (y' := yy) end.
    assert (Ey : sc_conn y' = enqueue_response (fst (pop_all (S (length (c_parsed (reset_parser c1)))) (reset_parser c1) [])) (bad_request_response e)
                 /\ sc_gid y' = sc_gid x /\ sc_client y' = sc_client x).
    { unfold y'. cbn [sc_st sc_conn sc_gid sc_client sc_infl]. rewrite pending_enqueue. cbn. auto. }
    destruct Ey as (E1 & E2 & E3).
    exists y'. split; [cbn [set_client set_conn w_conns]; eapply alookup_update_same; eauto|].
    rewrite E1, E2, E3. cbn [map].
    split; [reflexivity|]. split; [reflexivity|]. split; [rewrite Ld; apply Tos|].
    pose proof (pop_all_write_side (S (length (c_parsed (reset_parser c1)))) (reset_parser c1) []) as (HA & HB & PS & HPm).
    pose proof (pop_all_all (S (length (c_parsed (reset_parser c1)))) (reset_parser c1) [] ltac:(lia)) as [_ Q2].
    pose proof (pop_all_files (S (length (c_parsed (reset_parser c1)))) (reset_parser c1) []) as QF.
    set (c2 := fst (pop_all (S (length (c_parsed (reset_parser c1)))) (reset_parser c1) [])) in *.
    split; [|split; [|split; [|split; [reflexivity|]]]].
    4: { change (c_parsed (enqueue_response c2 (bad_request_response e))) with (c_parsed c2).
         change (c_files (enqueue_response c2 (bad_request_response e))) with (c_files c2).
         change (c_pmax (enqueue_response c2 (bad_request_response e))) with (c_pmax c2).
         split; [exact Q2|]. split; [rewrite QF; reflexivity|]. rewrite HPm. change (c_pmax (reset_parser c1)) with (c_pmax c1). apply (post_pmax _ _ _ P). }
    + eapply CInv_parser_same; [eapply CInv_parser_same; [apply CInv_reset; assumption|exact PS]|]. unfold parser_same. cbn. auto 6.
    + change (c_win (enqueue_response c2 (bad_request_response e))) with (c_win c2).
      destruct PS as (_ & -> & _). reflexivity.
    + apply unsent_grow.
      * change (c_rq (enqueue_response c2 (bad_request_response e))) with (c_rq c2 ++ [bad_request_response e]).
        rewrite HA. change (c_rq (reset_parser c1)) with (c_rq c1). rewrite (post_rq _ _ _ P), app_assoc. reflexivity.
      * change (c_rbuf (enqueue_response c2 (bad_request_response e))) with (c_rbuf c2).
        rewrite HB. change (c_rbuf (reset_parser c1)) with (c_rbuf c1). apply (post_rbuf _ _ _ P).
  - destruct D.
Qed.

End SR.

(* the 400 reply to an over-limit request names both numbers *)
Lemma reply_names_both l n :
  rs_body (bad_request_response (SizeLimitExceeded l n)) =
  Some ((B"{ ""error"": ""Request payload with size ") ++ dec n ++ B" is larger than the limit of " ++ dec l
        ++ B" allowed by server." ++ [LF] ++ B"All previous unanswered requests will be dropped."" }").
Proof.
  unfold bad_request_response, display_req_err. cbn [apply_op rs_body]. f_equal.
  rewrite <- !app_assoc. reflexivity.
Qed.
