(* The "only if" direction of the request grammar (C02): if the whole-stream parser delivers a
   request first, the stream starts with a well-formed encoding of exactly that request. *)
From MH Require Export proofs.Grammar_proofs proofs.Total_proofs.

(* ---------- inverting take_line ---------- *)
Lemma find_crlf_first : forall x i, find_crlf x = Some i -> find_crlf (firstn (i + 1) x) = None.
Proof.
  induction x as [|a t IH]; intros i H; [discriminate|].
  rewrite find_crlf_cons in H. destruct (starts_crlf (a :: t)) eqn:S0.
  - inversion H; subst. change (firstn (0 + 1) (a :: t)) with [a]. unfold find_crlf, CRLF. cbn [find prefixb].
    rewrite andb_false_r. reflexivity.
  - destruct (find_crlf t) as [j|] eqn:F; [|discriminate]. cbn in H. inversion H; subst.
    change (S j + 1)%nat with (S (j + 1)). cbn [firstn]. rewrite find_crlf_cons.
    assert (S1 : starts_crlf (a :: firstn (j + 1) t) = false).
    { destruct t as [|b t']; [discriminate|]. replace (j + 1)%nat with (S j) by lia. cbn [firstn].
      unfold starts_crlf, CRLF in *. cbn [prefixb] in *. destruct (CR =? a); [|reflexivity]. cbn [andb] in *.
      destruct (LF =? b); [discriminate|reflexivity]. }
    rewrite S1. rewrite (IH j eq_refl). reflexivity.
Qed.

Lemma prefixb_split p x : prefixb p x = true -> x = p ++ skipn (length p) x.
Proof. intros H. apply prefixb_spec in H. destruct H as [r ->]. rewrite skipn_app_exact. reflexivity. Qed.

Lemma take_line_inv BUF w l rest :
  take_line BUF w = LLine l rest ->
  w = l ++ CRLF ++ rest /\ find_crlf (l ++ [CR]) = None /\ (length l + 2 <= BUF)%nat.
Proof.
  unfold take_line. destruct (find_crlf (firstn BUF w)) as [i|] eqn:F; [|destruct (BUF <=? length w)%nat; discriminate].
  intros H; inversion H; subst; clear H.
  set (f := firstn BUF w) in *.
  destruct (find_some CRLF f i F) as [Hlen Hpre]. cbn [length CRLF] in Hlen.
  assert (Hf : (length f <= BUF)%nat) by (unfold f; rewrite firstn_length; lia).
  assert (Hfw : (length f <= length w)%nat) by (unfold f; rewrite firstn_length; lia).
  pose proof (prefixb_split _ _ Hpre) as Hs. cbn [length CRLF] in Hs.
  assert (E1 : firstn i f = firstn i w).
  { unfold f. rewrite firstn_firstn. f_equal. lia. }
  assert (Ef : f = firstn i w ++ CRLF ++ skipn (i + 2) f).
  { rewrite <- (firstn_skipn i f) at 1. rewrite E1. f_equal. rewrite Hs at 1. f_equal.
    symmetry. apply skipn_add. }
  assert (Li : length (firstn i w) = i) by (rewrite firstn_length; lia).
  assert (Ew : w = firstn i w ++ CRLF ++ skipn (i + 2) w).
  { rewrite <- (firstn_skipn BUF w) at 1. fold f. rewrite Ef at 1. rewrite <- !app_assoc. f_equal. f_equal.
    (* skipn (i+2) w = skipn (i+2) f ++ skipn BUF w *)
    rewrite <- (firstn_skipn BUF w) at 2. fold f. rewrite skipn_app.
    replace (i + 2 - length f)%nat with 0%nat by lia. reflexivity. }
  split; [exact Ew|]. split; [|lia].
  (* no earlier CRLF: the one found is the first *)
  pose proof (find_crlf_first f i F) as Hfirst.
  assert (E2 : firstn (i + 1) f = firstn i w ++ [CR]).
  { rewrite Ef. rewrite firstn_app. rewrite Li. replace (i + 1 - i)%nat with 1%nat by lia.
    rewrite firstn_all2 by lia. reflexivity. }
  rewrite E2 in Hfirst. exact Hfirst.
Qed.

Section Conv.
Variable BUF : nat.
Hypothesis BUF_min : (2 <= BUF)%nat.
Variable L : N.
Notation runT := (runT BUF L).
Notation step := (step BUF L).
Notation line_ok := (line_ok BUF).

Definition outs_of (r : rres) : list out :=
  match r with RMore _ _ o => o | RErr o _ => o | ROutOfFuel => [] end.

(* the first request among the outputs (interim responses skipped) *)
Fixpoint first_req (o : list out) : option (request_line * headers * option bytes) :=
  match o with
  | [] => None
  | ORequest rl h b :: _ => Some (rl, h, b)
  | OContinue _ :: r => first_req r
  end.

Lemma outs_acc ph w acc : outs_of (runT ph w acc) = acc ++ outs_of (runT ph w []).
Proof.
  rewrite (runT_acc BUF L (S (rank ph w)) ph w acc) by lia.
  destruct (ConnSpec.runT BUF L ph w []) eqn:E; cbn; rewrite ?app_nil_r; try reflexivity.
  exfalso. exact (runT_not_out_of_fuel BUF L ph w [] E).
Qed.

(* waiting for the body: the request delivered next is this one, with the next `left` bytes *)
Lemma body_phase_inv rl h acc lft w x :
  first_req (outs_of (runT (PBody rl h acc lft) w [])) = Some x ->
  exists chunk rest, w = chunk ++ rest /\ lenN chunk = lft /\ x = (rl, h, Some (acc ++ chunk)).
Proof.
  rewrite runT_unfold. cbn [ConnSpec.step].
  destruct (lft <=? lenN w) eqn:Le.
  - apply N.leb_le in Le. rewrite outs_acc. cbn [app first_req]. intros H; inversion H; subst.
    exists (firstn (N.to_nat lft) w), (skipn (N.to_nat lft) w).
    split; [symmetry; apply firstn_skipn|]. split; [|reflexivity].
    unfold lenN in *. rewrite firstn_length. lia.
  - cbn. discriminate.
Qed.

(* waiting for headers *)
Lemma hdr_phase_inv : forall n rl h w x, (length w < n)%nat ->
  first_req (outs_of (runT (PHdr rl h) w [])) = Some x ->
  exists hs hd body rest,
    w = Grammar_proofs.with_crlf hs ++ CRLF ++ body ++ rest /\
    Forall (fun l => l <> [] /\ line_ok l) hs /\ fold_lines h hs = Ok hd /\
    h_content_length hd <= L /\ lenN body = h_content_length hd /\
    x = (rl, hd, delivered_body hd body).
Proof.
  induction n as [|n IH]; intros rl h w x Hn; [lia|].
  rewrite runT_unfold. cbn [ConnSpec.step].
  destruct (take_line BUF w) as [l r| |] eqn:T; [|cbn; discriminate|cbn; discriminate].
  destruct (take_line_inv BUF w l r T) as (Ew & Hnc & Hfit).
  destruct l as [|c l'].
  - (* the blank line *)
    destruct (h_content_length h =? 0) eqn:Z.
    + rewrite outs_acc. cbn [app first_req]. intros H; inversion H; subst.
      exists [], h, [], r. cbn [Grammar_proofs.with_crlf flat_map app fold_lines].
      apply N.eqb_eq in Z. unfold delivered_body. rewrite Z. cbn.
      repeat split; auto. lia.
    + destruct (L <? h_content_length h) eqn:Lt; [cbn; discriminate|]. apply N.ltb_ge in Lt.
      rewrite outs_acc. intros H.
      assert (H' : first_req (outs_of (runT (PBody rl h [] (h_content_length h)) r [])) = Some x).
      { destruct (h_expect h); cbn [app first_req] in H; exact H. }
      destruct (body_phase_inv _ _ _ _ _ _ H') as (chunk & rest & Er & Hl & Hx).
      exists [], h, chunk, rest. cbn [Grammar_proofs.with_crlf flat_map app fold_lines].
      unfold delivered_body. rewrite Z. subst r. cbn [app] in Hx.
      repeat split; auto.
  - (* a header line *)
    destruct (parse_header_tolerant h (c :: l')) as [h1|e] eqn:P; [|cbn; discriminate].
    rewrite outs_acc. cbn [app]. intros H.
    assert (Hr : (length r < n)%nat).
    { rewrite Ew in Hn. rewrite !app_length in Hn. cbn in Hn. lia. }
    destruct (IH rl h1 r x Hr H) as (hs & hd & body & rest & Er & Hall & Hf & Hlim & Hlen & Hx).
    exists ((c :: l') :: hs), hd, body, rest.
    cbn [Grammar_proofs.with_crlf flat_map fold_lines]. fold (Grammar_proofs.with_crlf hs). rewrite P.
    split; [rewrite Ew, Er, <- !app_assoc; reflexivity|].
    split; [constructor; [split; [discriminate|split; assumption]|exact Hall]|]. auto.
Qed.

(* the whole-stream parser delivers (rl, hd, b) first  ==>  the stream starts with a well-formed
   encoding of it: request line, header lines within the limit and acceptable under the header
   rules, blank line, and a body of exactly Content-Length <= L bytes *)
Theorem delivered_wellformed s x :
  first_req (outs_of (parse_stream BUF L s)) = Some x ->
  exists rlb rl hs hd body rest,
    s = rlb ++ CRLF ++ Grammar_proofs.with_crlf hs ++ CRLF ++ body ++ rest /\
    parse_reqline rlb = Ok rl /\ line_ok rlb /\
    Forall (fun l => l <> [] /\ line_ok l) hs /\ fold_lines headers_default hs = Ok hd /\
    h_content_length hd <= L /\ lenN body = h_content_length hd /\
    x = (rl, hd, delivered_body hd body).
Proof.
  unfold parse_stream. rewrite runT_unfold. cbn [ConnSpec.step].
  destruct (take_line BUF s) as [l r| |] eqn:T; [|cbn; discriminate|cbn; discriminate].
  destruct (take_line_inv BUF s l r T) as (Es & Hnc & Hfit).
  destruct (parse_reqline l) as [rl|e] eqn:P; [|cbn; discriminate].
  rewrite outs_acc. cbn [app]. intros H.
  destruct (hdr_phase_inv (S (length r)) rl headers_default r x ltac:(lia) H)
    as (hs & hd & body & rest & Er & Hall & Hf & Hlim & Hlen & Hx).
  exists l, rl, hs, hd, body, rest. rewrite Es, Er. repeat split; auto.
Qed.

Lemma first_req_interim rl hd x tl : first_req (interim rl hd ++ ORequest rl hd x :: tl) = Some (rl, hd, x).
Proof. unfold interim. destruct (h_content_length hd =? 0); [reflexivity|]. destruct (h_expect hd); reflexivity. Qed.

(* the grammar, as an equivalence: the first request the whole-stream parser delivers is x iff
   the stream starts with a well-formed encoding of x *)
Theorem first_delivery_iff s x :
  first_req (outs_of (parse_stream BUF L s)) = Some x <->
  exists rlb rl hs hd body rest,
    s = rlb ++ CRLF ++ Grammar_proofs.with_crlf hs ++ CRLF ++ body ++ rest /\
    parse_reqline rlb = Ok rl /\ line_ok rlb /\
    Forall (fun l => l <> [] /\ line_ok l) hs /\ fold_lines headers_default hs = Ok hd /\
    h_content_length hd <= L /\ lenN body = h_content_length hd /\
    x = (rl, hd, delivered_body hd body).
Proof.
  split; [apply delivered_wellformed|].
  intros (rlb & rl & hs & hd & body & rest & -> & Prl & Hrl & Hall & Hf & Hlim & Hlen & ->).
  unfold parse_stream.
  rewrite (wellformed_delivered BUF BUF_min L rlb rl hs hd body rest [] Prl Hrl Hall Hf Hlim Hlen).
  rewrite outs_acc. cbn [app]. rewrite <- app_assoc. cbn [app]. apply first_req_interim.
Qed.

End Conv.
