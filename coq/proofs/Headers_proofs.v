(* Header rules (C15): what is fatal, what is tolerated, which field each line touches. *)
From MH Require Export model.Headers proofs.Tokens_proofs.

(* ---------- splitting at the first colon ---------- *)
Lemma split_at_none c w : split_at c w = None <-> ~ In c w.
Proof.
  induction w as [|a t IH]; cbn; [tauto|].
  destruct (N.eqb a c) eqn:E.
  - apply N.eqb_eq in E; subst. split; [discriminate|]. intros H. exfalso. apply H. auto.
  - apply N.eqb_neq in E. destruct (split_at c t) as [[x y]|].
    + split; [discriminate|]. intros H. exfalso.
      assert (~ In c t) by (intros Hin; apply H; right; exact Hin). apply IH in H0. discriminate.
    + split; auto. intros _ [A|A]; [congruence|]. apply IH in A; auto.
Qed.

Lemma split_at_app c x y : ~ In c x -> split_at c (x ++ c :: y) = Some (x, y).
Proof.
  induction x as [|a x IH]; intros H; cbn.
  - rewrite N.eqb_refl. reflexivity.
  - destruct (N.eqb a c) eqn:E.
    + apply N.eqb_eq in E. exfalso. apply H. left. exact E.
    + rewrite IH; [reflexivity|]. intros A. apply H. right. exact A.
Qed.

Lemma split_at_inv c : forall w x y, split_at c w = Some (x, y) -> w = x ++ c :: y /\ ~ In c x.
Proof.
  induction w as [|a t IH]; intros x y; cbn; [discriminate|].
  destruct (N.eqb a c) eqn:E.
  - apply N.eqb_eq in E; subst. intros H; inversion H; subst. cbn. auto.
  - apply N.eqb_neq in E. destruct (split_at c t) as [[x1 y1]|]; [|discriminate].
    intros H; inversion H; subst. destruct (IH x1 y eq_refl) as [-> Hn].
    split; [reflexivity|]. intros [A|A]; [congruence|auto].
Qed.

Lemma split_at_some c w x y : split_at c w = Some (x, y) <-> (w = x ++ c :: y /\ ~ In c x).
Proof.
  split; [apply split_at_inv|]. intros [-> H]. apply split_at_app. exact H.
Qed.

(* ---------- the fatal faults ---------- *)
Theorem invalid_utf8_fatal h line :
  utf8_valid line = false -> parse_header_line h line = Err (HeaderError (InvalidUtf8String line)).
Proof. intros U. unfold parse_header_line. rewrite U. reflexivity. Qed.

Lemma encoding_err_kind v e : encoding_try_from v = Err e ->
  e = InvalidRequest \/ (exists p, e = HeaderError (InvalidValue (B"Accept-Encoding") p))
  \/ e = HeaderError (InvalidUtf8String v).
Proof.
  unfold encoding_try_from. destruct v as [|a r]; [intros H; inversion H; auto|].
  destruct (utf8_valid (a :: r)); [|intros H; inversion H; auto].
  generalize (split_on COMMA (a :: r)). intros pieces. induction pieces as [|p ps IH]; cbn [encoding_check]; [discriminate|].
  destruct (beq (trim p) (B"identity;q=0")); [intros H; inversion H; eauto|].
  destruct (beq (trim p) (B"*;q=0") && negb (containsb (B"identity") (a :: r))); [intros H; inversion H; eauto|exact IH].
Qed.

Theorem no_colon_fatal h line : utf8_valid line = true ->
  (~ In COLON line <-> parse_header_line h line = Err (HeaderError (InvalidFormat line))).
Proof.
  intros U. unfold parse_header_line. rewrite U. split.
  - intros H. apply split_at_none in H. rewrite H. reflexivity.
  - destruct (split_at COLON line) as [[k v]|] eqn:S.
    + destruct (header_try_from k) as [[]|]; try discriminate.
      * destruct (parse_u32 (trim v)); discriminate.
      * destruct (parse_media (trim v)); discriminate.
      * destruct (beq (trim v) (B"100-continue")); discriminate.
      * destruct (beq (trim v) (B"chunked")); [discriminate|]. destruct (beq (trim v) (B"identity")); discriminate.
      * destruct (parse_media (trim v)); discriminate.
      * destruct (encoding_try_from (trim v)) as [u|e] eqn:En; [discriminate|].
        intros H. inversion H; subst. apply encoding_err_kind in En.
        destruct En as [En|[(p & En)|En]]; discriminate.
    + intros _. apply split_at_none. exact S.
Qed.

(* the shape every other case starts from *)
Lemma line_split k v : ~ In COLON k -> split_at COLON (k ++ COLON :: v) = Some (k, v).
Proof. intros H. apply split_at_some. auto. Qed.

Theorem content_length_rule h k v : utf8_valid (k ++ COLON :: v) = true -> ~ In COLON k ->
  header_try_from k = Some HContentLength ->
  parse_header_line h (k ++ COLON :: v) =
    match parse_u32 (trim v) with
    | Some n => Ok (set_content_length h n)
    | None => Err (HeaderError (InvalidValue k v))
    end.
Proof. intros U Hk Hh. unfold parse_header_line. rewrite U, line_split, Hh by assumption. reflexivity. Qed.

(* u32::from_str: an optional '+', at least one digit, value below 2^32 *)
Theorem parse_u32_rule s n :
  parse_u32 s = Some n <->
  exists ds, (s = ds \/ s = 43 :: ds) /\ ds <> [] /\ hd 0 ds <> 43 /\ digits_value 0 ds = Some n /\ n < U32_LIMIT
             \/ (s = 43 :: ds /\ ds <> [] /\ digits_value 0 ds = Some n /\ n < U32_LIMIT).
Proof.
  unfold parse_u32. split.
  - intros H. destruct s as [|a r]; [discriminate|].
    destruct (N.eq_dec a 43) as [->|Hne].
    + exists r. right. destruct r as [|b r']; [discriminate|].
      destruct (digits_value 0 (b :: r')) as [v|] eqn:D; [|discriminate].
      destruct (v <? U32_LIMIT) eqn:Lt; [|discriminate]. inversion H; subst.
      apply N.ltb_lt in Lt. repeat split; auto. discriminate.
    + exists (a :: r). left.
      assert (E : match a :: r with 43 :: r0 => r0 | _ => a :: r end = a :: r).
      { destruct a as [|p]; [reflexivity|]. do 6 (destruct p as [p|p|]; try reflexivity). contradiction Hne. reflexivity. }
      rewrite E in H.
      destruct (digits_value 0 (a :: r)) as [v|] eqn:D; [|discriminate].
      destruct (v <? U32_LIMIT) eqn:Lt; [|discriminate]. inversion H; subst.
      apply N.ltb_lt in Lt. split; [left; reflexivity|]. repeat split; auto. discriminate.
  - intros [ds [([->| ->] & Hne & Hhd & D & Lt)|(-> & Hne & D & Lt)]].
    + destruct ds as [|a r]; [congruence|]. cbn [hd] in Hhd.
      assert (E : match a :: r with 43 :: r0 => r0 | _ => a :: r end = a :: r).
      { destruct a as [|p]; [reflexivity|]. do 6 (destruct p as [p|p|]; try reflexivity). contradiction Hhd. reflexivity. }
      rewrite E, D. apply N.ltb_lt in Lt. rewrite Lt. reflexivity.
    + destruct ds as [|a r]; [congruence|]. rewrite D. apply N.ltb_lt in Lt. rewrite Lt. reflexivity.
    + destruct ds as [|a r]; [congruence|]. rewrite D. apply N.ltb_lt in Lt. rewrite Lt. reflexivity.
Qed.

(* Accept-Encoding: fatal iff empty, or a token trims to identity;q=0, or to *;q=0 while
   "identity" does not occur anywhere in the value *)
Fixpoint first_bad (whole : bytes) (pieces : list bytes) : option bytes :=
  match pieces with
  | [] => None
  | p :: r =>
    if beq (trim p) (B"identity;q=0") || (beq (trim p) (B"*;q=0") && negb (containsb (B"identity") whole))
    then Some p else first_bad whole r
  end.

Lemma encoding_check_spec whole pieces :
  encoding_check whole pieces =
  match first_bad whole pieces with
  | Some p => Err (HeaderError (InvalidValue (B"Accept-Encoding") p))
  | None => Ok tt
  end.
Proof.
  induction pieces as [|p r IH]; [reflexivity|]. cbn [encoding_check first_bad].
  destruct (beq (trim p) (B"identity;q=0")); [reflexivity|]. cbn [orb].
  destruct (beq (trim p) (B"*;q=0") && negb (containsb (B"identity") whole)); [reflexivity|exact IH].
Qed.

Theorem accept_encoding_rule v : v <> [] -> utf8_valid v = true ->
  encoding_try_from v =
  match first_bad v (split_on COMMA v) with
  | Some p => Err (HeaderError (InvalidValue (B"Accept-Encoding") p))
  | None => Ok tt
  end.
Proof.
  intros Hne U. unfold encoding_try_from. destruct v; [congruence|]. rewrite U. apply encoding_check_spec.
Qed.

Theorem accept_encoding_empty : encoding_try_from [] = Err InvalidRequest.
Proof. reflexivity. Qed.

(* ---------- the tolerated faults: the request is not rejected and nothing changes ---------- *)
Definition tolerated_header (x : header) : bool :=
  match x with HContentType | HAccept | HTransferEncoding | HExpect => true | _ => false end.

Theorem unsupported_value_ignored h k v x :
  utf8_valid (k ++ COLON :: v) = true -> ~ In COLON k -> header_try_from k = Some x -> tolerated_header x = true ->
  (exists h', parse_header_line h (k ++ COLON :: v) = Ok h') \/
  (parse_header_line h (k ++ COLON :: v) = Err (HeaderError (UnsupportedValue k v)) /\
   parse_header_tolerant h (k ++ COLON :: v) = Ok h).
Proof.
  intros U Hk Hh Ht. unfold parse_header_tolerant, parse_header_line. rewrite U, line_split, Hh by assumption.
  destruct x; try discriminate.
  - destruct (parse_media (trim v)); eauto.
  - destruct (beq (trim v) (B"100-continue")); eauto.
  - destruct (beq (trim v) (B"chunked")); eauto. destruct (beq (trim v) (B"identity")); eauto.
  - destruct (parse_media (trim v)); eauto.
Qed.

(* ---------- which field a recognised line touches ---------- *)
Theorem expect_rule h k v : utf8_valid (k ++ COLON :: v) = true -> ~ In COLON k ->
  header_try_from k = Some HExpect ->
  parse_header_tolerant h (k ++ COLON :: v) = Ok (if beq (trim v) (B"100-continue") then set_expect h else h).
Proof.
  intros U Hk Hh. unfold parse_header_tolerant, parse_header_line. rewrite U, line_split, Hh by assumption.
  destruct (beq (trim v) (B"100-continue")); reflexivity.
Qed.

Theorem transfer_encoding_rule h k v : utf8_valid (k ++ COLON :: v) = true -> ~ In COLON k ->
  header_try_from k = Some HTransferEncoding ->
  parse_header_tolerant h (k ++ COLON :: v) = Ok (if beq (trim v) (B"chunked") then set_chunked h else h).
Proof.
  intros U Hk Hh. unfold parse_header_tolerant, parse_header_line. rewrite U, line_split, Hh by assumption.
  destruct (beq (trim v) (B"chunked")); [reflexivity|]. destruct (beq (trim v) (B"identity")); reflexivity.
Qed.

Theorem accept_rule h k v : utf8_valid (k ++ COLON :: v) = true -> ~ In COLON k ->
  header_try_from k = Some HAccept ->
  parse_header_tolerant h (k ++ COLON :: v) =
    Ok (match parse_media (trim v) with Some t => set_accept h t | None => h end).
Proof.
  intros U Hk Hh. unfold parse_header_tolerant, parse_header_line. rewrite U, line_split, Hh by assumption.
  destruct (parse_media (trim v)); reflexivity.
Qed.

Theorem content_type_rule h k v : utf8_valid (k ++ COLON :: v) = true -> ~ In COLON k ->
  header_try_from k = Some HContentType -> parse_header_tolerant h (k ++ COLON :: v) = Ok h.
Proof.
  intros U Hk Hh. unfold parse_header_tolerant, parse_header_line. rewrite U, line_split, Hh by assumption.
  destruct (parse_media (trim v)); reflexivity.
Qed.

Theorem server_rule h k v : utf8_valid (k ++ COLON :: v) = true -> ~ In COLON k ->
  header_try_from k = Some HServer -> parse_header_tolerant h (k ++ COLON :: v) = Ok h.
Proof.
  intros U Hk Hh. unfold parse_header_tolerant, parse_header_line. rewrite U, line_split, Hh by assumption. reflexivity.
Qed.

(* every other field is kept as a custom entry with trimmed name and value *)
Theorem custom_rule h k v : utf8_valid (k ++ COLON :: v) = true -> ~ In COLON k ->
  header_try_from k = None ->
  parse_header_line h (k ++ COLON :: v) = Ok (insert_custom h (trim k) (trim v)).
Proof. intros U Hk Hh. unfold parse_header_line. rewrite U, line_split, Hh by assumption. reflexivity. Qed.

(* the custom map: the last occurrence wins, other names are untouched, names are case-sensitive
   because keys are compared byte for byte *)
Lemma custom_get_insert_same k v l : custom_get k (custom_insert k v l) = Some v.
Proof.
  induction l as [|[k' v'] r IH]; cbn; [rewrite beq_refl; reflexivity|].
  destruct (beq k k') eqn:E; cbn; [rewrite beq_refl; reflexivity|]. rewrite E. exact IH.
Qed.
Lemma custom_get_insert_other k k2 v l : k2 <> k -> custom_get k2 (custom_insert k v l) = custom_get k2 l.
Proof.
  intros Hne. induction l as [|[k' v'] r IH]; cbn.
  - apply beq_neq in Hne. rewrite Hne. reflexivity.
  - destruct (beq k k') eqn:E; cbn.
    + apply beq_eq in E; subst. apply beq_neq in Hne. rewrite Hne. reflexivity.
    + destruct (beq k2 k'); [reflexivity|exact IH].
Qed.

(* ---------- fold laws: sticky flags, last acceptable occurrence ---------- *)
Lemma tolerant_flags_sticky h line h' : parse_header_tolerant h line = Ok h' ->
  (h_expect h = true -> h_expect h' = true) /\ (h_chunked h = true -> h_chunked h' = true).
Proof.
  unfold parse_header_tolerant, parse_header_line.
  destruct (utf8_valid line); [|discriminate].
  destruct (split_at COLON line) as [[k v]|]; [|discriminate].
  destruct (header_try_from k) as [[]|].
  - destruct (parse_u32 (trim v)); intros H; inversion H; subst; cbn; auto.
  - destruct (parse_media (trim v)); intros H; inversion H; subst; cbn; auto.
  - destruct (beq (trim v) (B"100-continue")); intros H; inversion H; subst; cbn; auto.
  - destruct (beq (trim v) (B"chunked")); [intros H; inversion H; subst; cbn; auto|].
    destruct (beq (trim v) (B"identity")); intros H; inversion H; subst; cbn; auto.
  - intros H; inversion H; subst; auto.
  - destruct (parse_media (trim v)); intros H; inversion H; subst; cbn; auto.
  - destruct (encoding_try_from (trim v)) as [u|e]; [intros H; inversion H; subst; auto|].
    destruct e as [|he| | | | | | | |]; try discriminate.
    destruct he; try discriminate. intros H; inversion H; subst; auto.
  - intros H; inversion H; subst; cbn; auto.
Qed.

Theorem fold_flags_sticky : forall lines h h', headers_fold h lines = Ok h' ->
  (h_expect h = true -> h_expect h' = true) /\ (h_chunked h = true -> h_chunked h' = true).
Proof.
  induction lines as [|l r IH]; intros h h'; cbn [headers_fold].
  - intros H; inversion H; auto.
  - destruct l as [|x l']; [intros H; inversion H; auto|].
    destruct (parse_header_tolerant h (x :: l')) as [h1|e] eqn:P; [|discriminate].
    intros H. destruct (tolerant_flags_sticky _ _ _ P) as [A1 A2]. destruct (IH _ _ H) as [B1 B2]. auto.
Qed.

(* headers_try_from is the fold of the line rule over the CRLF-separated lines, stopping at the
   first empty line, on valid UTF-8; anything else is InvalidRequest *)
Theorem block_is_lines b :
  headers_try_from b = if utf8_valid b then headers_fold headers_default (split_crlf b) else Err InvalidRequest.
Proof. reflexivity. Qed.

(* ---------- names are matched case-insensitively ---------- *)
Lemma lower_byte_cases b : (b <= 127 /\ lower_byte b <= 127) \/ (128 <= b /\ lower_byte b = b).
Proof.
  unfold lower_byte, in_range. destruct (N.le_gt_cases b 127) as [H|H].
  - left. split; [exact H|]. destruct ((65 <=? b) && (b <=? 90)) eqn:E; [|exact H].
    apply andb_true_iff in E. destruct E as [E1 E2]. apply N.leb_le in E1, E2. lia.
  - right. split; [lia|]. assert (E : (b <=? 90) = false) by (apply N.leb_gt; lia).
    rewrite E, andb_false_r. reflexivity.
Qed.

Lemma in_range_lower lo hi b : 128 <= lo -> in_range lo hi (lower_byte b) = in_range lo hi b.
Proof.
  intros H. destruct (lower_byte_cases b) as [[A1 A2]|[A1 A2]].
  - unfold in_range.
    assert (E1 : (lo <=? lower_byte b) = false) by (apply N.leb_gt; lia).
    assert (E2 : (lo <=? b) = false) by (apply N.leb_gt; lia). rewrite E1, E2. reflexivity.
  - rewrite A2. reflexivity.
Qed.

Lemma utf8_valid_lower : forall n l, (length l < n)%nat -> utf8_valid (ascii_lower l) = utf8_valid l.
Proof.
  unfold ascii_lower.
  induction n as [|n IH]; intros l Hn; [lia|].
  destruct l as [|b0 r0]; [reflexivity|]. cbn [map utf8_valid].
  destruct (lower_byte_cases b0) as [[A1 A2]|[A1 A2]].
  - assert (E1 : (lower_byte b0 <=? 127) = true) by (apply N.leb_le; exact A2).
    assert (E2 : (b0 <=? 127) = true) by (apply N.leb_le; exact A1).
    rewrite E1, E2. apply IH. cbn in Hn. lia.
  - rewrite A2. assert (E : (b0 <=? 127) = false) by (apply N.leb_gt; lia). rewrite E.
    destruct (in_range 194 223 b0).
    { destruct r0 as [|b1 r1]; [reflexivity|]. cbn [map]. unfold is_cont.
      rewrite in_range_lower by lia. rewrite IH by (cbn in Hn; lia). reflexivity. }
    destruct (in_range 224 239 b0).
    { destruct r0 as [|b1 [|b2 r2]]; try reflexivity. cbn [map]. unfold is_cont.
      rewrite !in_range_lower by lia. rewrite IH by (cbn in Hn; lia). reflexivity. }
    destruct (in_range 240 244 b0); [|reflexivity].
    destruct r0 as [|b1 [|b2 [|b3 r3]]]; try reflexivity. cbn [map]. unfold is_cont.
    rewrite !in_range_lower by lia. rewrite IH by (cbn in Hn; lia). reflexivity.
Qed.

(* two names that differ only in ASCII letter case are classified identically *)
Theorem name_case_insensitive k1 k2 : ascii_lower k1 = ascii_lower k2 -> header_try_from k1 = header_try_from k2.
Proof.
  intros H. unfold header_try_from.
  rewrite <- (utf8_valid_lower (S (length k1)) k1) by lia.
  rewrite <- (utf8_valid_lower (S (length k2)) k2) by lia. rewrite H. reflexivity.
Qed.

(* the seven recognised names, in their canonical spelling *)
Theorem recognised_names x : header_try_from (raw_header x) = Some x.
Proof. destruct x; vm_compute; reflexivity. Qed.
