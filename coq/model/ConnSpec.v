(* ConnSpec: the specification of the incremental request parser.  A state is a phase that
   carries its data; one [step] consumes one complete element (request line, header line,
   blank line, body) from a window of unconsumed bytes of any length; [parse_stream] is the
   whole-stream reference parser.  No buffer, no cursors, no reads. *)
From MH Require Export model.RequestLine.

Section Spec.
Variable BUF : nat.      (* the line limit: BUFFER_SIZE *)
Variable L : N.          (* the payload limit *)

Inductive phase :=
| PLine
| PHdr (rl : request_line) (h : headers)
| PBody (rl : request_line) (h : headers) (acc : bytes) (lft : N).

Inductive out :=
| ORequest (rl : request_line) (h : headers) (body : option bytes)
| OContinue (v : version).

Inductive line_res := LLine (l rest : bytes) | LTooLong | LMore.

Definition take_line (w : bytes) : line_res :=
  match find_crlf (firstn BUF w) with
  | Some i => LLine (firstn i w) (skipn (i + 2) w)
  | None => if (BUF <=? length w)%nat then LTooLong else LMore
  end.

Inductive sres :=
| SDone (ph : phase) (rest : bytes) (o : list out)
| SMore (ph : phase) (carry : bytes)
| SErr (e : req_err).

Definition step (ph : phase) (w : bytes) : sres :=
  match ph with
  | PLine =>
      match take_line w with
      | LLine l rest =>
          match parse_reqline l with
          | Ok rl => SDone (PHdr rl headers_default) rest []
          | Err e => SErr e
          end
      | LTooLong => SErr InvalidRequest
      | LMore => SMore PLine w
      end
  | PHdr rl h =>
      match take_line w with
      | LLine [] rest =>
          if h_content_length h =? 0 then SDone PLine rest [ORequest rl h None]
          else if L <? h_content_length h then SErr (SizeLimitExceeded L (h_content_length h))
          else SDone (PBody rl h [] (h_content_length h)) rest
                     (if h_expect h then [OContinue (rl_version rl)] else [])
      | LLine l rest =>
          match parse_header_tolerant h l with
          | Ok h' => SDone (PHdr rl h') rest []
          | Err e => SErr e
          end
      | LTooLong => SErr (HeaderError (HSizeLimitExceeded (firstn BUF w)))
      | LMore => SMore (PHdr rl h) w
      end
  | PBody rl h acc lft =>
      if lft <=? lenN w
      then SDone PLine (skipn (N.to_nat lft) w)
                 [ORequest rl h (Some (acc ++ firstn (N.to_nat lft) w))]
      else SMore (PBody rl h (acc ++ w) (lft - lenN w)) []
  end.

Inductive rres :=
| RMore (ph : phase) (carry : bytes) (o : list out)
| RErr (o : list out) (e : req_err)
| ROutOfFuel.

Fixpoint run (fuel : nat) (ph : phase) (w : bytes) (acc : list out) : rres :=
  match fuel with
  | O => ROutOfFuel
  | S f =>
      match step ph w with
      | SDone ph' rest o => run f ph' rest (acc ++ o)
      | SMore ph' c => RMore ph' c acc
      | SErr e => RErr acc e
      end
  end.

(* every completed element consumes at least one byte, except a body of declared length 0,
   which cannot occur (a PBody phase is only entered with lft > 0) but is ranked anyway *)
Definition rank (ph : phase) (w : bytes) : nat :=
  (2 * length w + match ph with PBody _ _ _ 0 => 1 | _ => 0 end)%nat.

Definition runT (ph : phase) (w : bytes) (acc : list out) : rres :=
  run (S (rank ph w)) ph w acc.

(* the whole-stream reference parser *)
Definition parse_stream (s : bytes) : rres := runT PLine s [].

(* feeding the stream in chunks, carrying the unconsumed bytes *)
Fixpoint feed (ph : phase) (carry : bytes) (acc : list out) (chunks : list bytes) : rres :=
  match chunks with
  | [] => RMore ph carry acc
  | k :: ks =>
      match runT ph (carry ++ k) acc with
      | RMore ph' c o => feed ph' c o ks
      | r => r
      end
  end.

End Spec.
