(* Data types mirroring the crate's enums and structs. *)
From MH Require Export lib.Bytes lib.Utf8 lib.Str.

Inductive method := Get | Put | Patch.
Inductive version := Http10 | Http11.
Inductive media := PlainText | ApplicationJson.
Inductive status :=
| Continue | OK | NoContent | BadRequest | Unauthorized | NotFound | MethodNotAllowed
| PayloadTooLarge | InternalServerError | NotImplemented | ServiceUnavailable.
Inductive header := HContentLength | HContentType | HExpect | HTransferEncoding | HServer
                  | HAccept | HAcceptEncoding.

(* HttpHeaderError.  Two payloads are abstracted (DESIGN section 3): the Utf8Error of
   InvalidUtf8String is represented by the offending bytes, and the lossy string of
   SizeLimitExceeded by the raw buffer contents. *)
Inductive hdr_err :=
| InvalidFormat (key : bytes)
| InvalidUtf8String (raw : bytes)
| InvalidValue (key value : bytes)
| HSizeLimitExceeded (raw : bytes)
| UnsupportedFeature (key value : bytes)
| UnsupportedName (key : bytes)
| UnsupportedValue (key value : bytes).

Inductive uri_err := UriEmpty | UriNotUtf8.

Inductive req_err :=
| BodyWithoutPendingRequest
| HeaderError (e : hdr_err)
| HeadersWithoutPendingRequest
| InvalidHttpMethod
| InvalidHttpVersion
| InvalidRequest
| InvalidUri (w : uri_err)
| Overflow
| Underflow
| SizeLimitExceeded (limit size : N).

(* a Result *)
Inductive res (A E : Type) := Ok (a : A) | Err (e : E).
Arguments Ok {A E} a.
Arguments Err {A E} e.

Definition method_eqb (a b : method) : bool :=
  match a, b with Get, Get | Put, Put | Patch, Patch => true | _, _ => false end.
Definition version_eqb (a b : version) : bool :=
  match a, b with Http10, Http10 | Http11, Http11 => true | _, _ => false end.
Definition media_eqb (a b : media) : bool :=
  match a, b with PlainText, PlainText | ApplicationJson, ApplicationJson => true | _, _ => false end.

(* Headers (request side).  custom_entries: HashMap<String,String> as an association list
   without duplicate keys; insertion replaces the value of an existing key. *)
Record headers := mkHeaders {
  h_content_length : N;      (* u32 *)
  h_expect : bool;
  h_chunked : bool;
  h_accept : media;
  h_custom : list (bytes * bytes);
}.
Definition headers_default : headers := mkHeaders 0 false false PlainText [].

Record request_line := mkRL { rl_method : method; rl_uri : bytes; rl_version : version }.

Record request := mkReq {
  r_line : request_line;
  r_headers : headers;
  r_body : option bytes;
  r_files : list nat;        (* received descriptors, as opaque tokens *)
}.
