(* ConnImpl: HttpConnection mirrored field by field and function by function, with the
   same order of checks and the same error values.  The fixed array `buffer` is modelled
   by its valid prefix: [c_win] is buffer[..read_cursor] between calls, and inside try_read
   [buf] is buffer[..end_cursor].  Every slice, unwrap, drain and unchecked subtraction of
   the Rust is checked explicitly here and yields a Panic outcome when the Rust would panic
   (or would read a stale byte beyond end_cursor).  System calls are inputs: try_read takes
   the result of its single recvmsg, try_write the result of its single write. *)
From MH Require Export model.RequestLine model.Response.

Inductive cstate := WaitingForRequestLine | WaitingForHeaders | WaitingForBody | RequestReady.

Record conn := mkConn {
  c_state : cstate;
  c_win : bytes;                   (* buffer[..read_cursor]; read_cursor = length c_win *)
  c_pending : option request;
  c_body_vec : bytes;
  c_body_left : N;                 (* body_bytes_to_be_read : u32 *)
  c_parsed : list request;         (* VecDeque, front first *)
  c_rq : list response;            (* response_queue, front first *)
  c_rbuf : option bytes;           (* response_buffer *)
  c_files : list nat;
  c_pmax : N;                      (* payload_max_size : usize *)
}.

Definition MAX_PAYLOAD_SIZE : N := 51200.

Definition conn_new : conn :=
  mkConn WaitingForRequestLine [] None [] 0 [] [] None [] MAX_PAYLOAD_SIZE.

Definition set_payload_max_size (c : conn) (n : N) : conn :=
  mkConn (c_state c) (c_win c) (c_pending c) (c_body_vec c) (c_body_left c) (c_parsed c)
         (c_rq c) (c_rbuf c) (c_files c) n.

Inductive conn_err :=
| ConnectionClosed
| InvalidWrite
| ParseError (e : req_err)
| StreamReadError (errno : Z)
| StreamWriteError.

Inductive read_ev :=
| RData (bs : bytes) (fds : list nat)     (* recvmsg returned |bs| >= 1 bytes and fds *)
| REof (fds : list nat)                   (* recvmsg returned 0 bytes *)
| RFail (errno : Z).                      (* recvmsg failed (EAGAIN, EINTR, ...) *)

Inductive rd_result := RdOk | RdErr (e : conn_err) | RdPanic (site : nat).

(* &buf[a..b] *)
Definition sub (buf : bytes) (a b : nat) : option bytes :=
  if ((a <=? b) && (b <=? length buf))%nat then Some (firstn (b - a) (skipn a buf)) else None.

Section Impl.
Variable BUF : nat.

(* result of one parse_* call *)
Inductive pres :=
| PStep (c : conn) (start : nat)     (* Ok(true) *)
| PStop (c : conn)                   (* Ok(false) *)
| PErr (c : conn) (e : req_err)      (* Err(ParseError e); c carries the queues *)
| PPanic (site : nat).

Definition upd_parse (c : conn) (st : cstate) (win : bytes) (pend : option request)
           (bv : bytes) (bl : N) : conn :=
  mkConn st win pend bv bl (c_parsed c) (c_rq c) (c_rbuf c) (c_files c) (c_pmax c).

(* shift_buffer_left: afterwards buffer[..read_cursor] = old buffer[start..end] *)
Definition shift_buffer_left (c : conn) (buf : bytes) (start : nat) : pres :=
  let e := length buf in
  if (BUF <? e)%nat then PErr c Overflow else
  if (e <? start)%nat then PErr c Underflow else
  PStop (upd_parse c (c_state c) (skipn start buf) (c_pending c) (c_body_vec c) (c_body_left c)).

Definition parse_request_line (c : conn) (buf : bytes) (start : nat) : pres :=
  let e := length buf in
  if (e <? start)%nat then PErr c Underflow else
  if (BUF <? e)%nat then PErr c Overflow else
  match sub buf start e with
  | None => PPanic 10
  | Some w =>
    match find_crlf w with
    | Some i =>
      match sub buf start (start + i) with
      | None => PPanic 11
      | Some line =>
        match parse_reqline line with
        | Ok rl => PStep (upd_parse c WaitingForHeaders (c_win c)
                                    (Some (mkReq rl headers_default None []))
                                    (c_body_vec c) (c_body_left c))
                         (start + i + 2)
        | Err err => PErr c err
        end
      end
    | None =>
      if ((e =? BUF) && (start =? 0))%nat then PErr c InvalidRequest
      else shift_buffer_left c buf start
    end
  end.

Definition with_headers (r : request) (h : headers) : request :=
  mkReq (r_line r) h (r_body r) (r_files r).
Definition with_body (r : request) (b : option bytes) : request :=
  mkReq (r_line r) (r_headers r) b (r_files r).
Definition with_files (r : request) (f : list nat) : request :=
  mkReq (r_line r) (r_headers r) (r_body r) f.

Definition parse_headers (c : conn) (buf : bytes) (start : nat) : pres :=
  let e := length buf in
  if (BUF <? e)%nat then PErr c Overflow else
  if (e <? start)%nat then PErr c Underflow else
  match sub buf start e with
  | None => PPanic 20
  | Some w =>
    match find_crlf w with
    | Some O =>
      match c_pending c with
      | None => PErr c HeadersWithoutPendingRequest
      | Some r =>
        let cl := h_content_length (r_headers r) in
        if cl =? 0 then
          PStep (upd_parse c RequestReady (c_win c) (Some r) (c_body_vec c) (c_body_left c))
                (start + 2)
        else if c_pmax c <? cl then PErr c (SizeLimitExceeded (c_pmax c) cl)
        else
          let rq' := if h_expect (r_headers r)
                     then c_rq c ++ [response_new (rl_version (r_line r)) Continue]
                     else c_rq c in
          PStep (mkConn WaitingForBody (c_win c) (Some (with_body r (Some []))) (c_body_vec c) cl
                        (c_parsed c) rq' (c_rbuf c) (c_files c) (c_pmax c))
                (start + 2)
      end
    | Some i =>
      match c_pending c with
      | None => PErr c HeadersWithoutPendingRequest
      | Some r =>
        let line_end := (i + start)%nat in
        match sub buf start line_end with
        | None => PPanic 21
        | Some line =>
          match parse_header_line (r_headers r) line with
          | Ok h' => PStep (upd_parse c (c_state c) (c_win c) (Some (with_headers r h'))
                                      (c_body_vec c) (c_body_left c)) (line_end + 2)
          | Err (HeaderError (UnsupportedValue _ _)) => PStep c (line_end + 2)
          | Err err => PErr c err
          end
        end
      end
    | None =>
      if ((start =? 0) && (e =? BUF))%nat
      then PErr c (HeaderError (HSizeLimitExceeded buf))
      else shift_buffer_left c buf start
    end
  end.

Definition parse_body (c : conn) (buf : bytes) (start : nat) : pres :=
  let e := length buf in
  if (BUF <? e)%nat then PErr c Overflow else
  if (e <? start)%nat then PErr c Underflow else
  let start_to_end := (N.of_nat (e - start)) mod U32_LIMIT in        (* as u32 *)
  if start_to_end <? c_body_left c then
    match sub buf start e with
    | None => PPanic 30
    | Some chunk =>
      PStop (upd_parse c (c_state c) [] (c_pending c) (c_body_vec c ++ chunk)
                       (c_body_left c - start_to_end))
    end
  else
    let line_end := (start + N.to_nat (c_body_left c))%nat in
    match sub buf start line_end with
    | None => PPanic 31
    | Some chunk =>
      let bv := c_body_vec c ++ chunk in
      match c_pending c with
      | None => PErr c BodyWithoutPendingRequest
      | Some r =>
        let cl := N.to_nat (h_content_length (r_headers r)) in
        if (length bv <? cl)%nat then PPanic 32 else            (* drain(..cl) out of range *)
        let r' := with_body r (Some (firstn cl bv)) in
        let bv' := skipn cl bv in
        match bv' with
        | _ :: _ => PErr (upd_parse c (c_state c) (c_win c) (Some r') bv' 0) InvalidRequest
        | [] => PStep (upd_parse c RequestReady (c_win c) (Some r') [] 0) line_end
        end
      end
    end.

Inductive lres := LOk (c : conn) | LErr (c : conn) (e : req_err) | LPanic (site : nat).

Fixpoint read_loop (fuel : nat) (c : conn) (buf : bytes) (start : nat) : lres :=
  match fuel with
  | O => LPanic 99                      (* out of fuel = the Rust loop would not terminate *)
  | S f =>
    match c_state c with
    | RequestReady =>
      match c_pending c with
      | None => LPanic 40               (* take().unwrap() *)
      | Some r =>
        read_loop f (mkConn WaitingForRequestLine (c_win c) None (c_body_vec c) 0
                            (c_parsed c ++ [with_files r (c_files c)]) (c_rq c) (c_rbuf c) []
                            (c_pmax c)) buf start
      end
    | st =>
      match (match st with
             | WaitingForRequestLine => parse_request_line c buf start
             | WaitingForHeaders => parse_headers c buf start
             | _ => parse_body c buf start
             end) with
      | PStep c' start' => read_loop f c' buf start'
      | PStop c' => LOk c'
      | PErr c' err => LErr c' err
      | PPanic s => LPanic s
      end
    end
  end.

(* the state a parse error leaves behind (repair F1): parser fields as in [conn_new],
   queues and limit kept *)
Definition reset_parser (c : conn) : conn :=
  mkConn WaitingForRequestLine [] None [] 0 (c_parsed c) (c_rq c) (c_rbuf c) [] (c_pmax c).

Definition add_files (c : conn) (fds : list nat) : conn :=
  mkConn (c_state c) (c_win c) (c_pending c) (c_body_vec c) (c_body_left c) (c_parsed c)
         (c_rq c) (c_rbuf c) (c_files c ++ fds) (c_pmax c).

Definition loop_fuel (buf : bytes) : nat := (2 * length buf + 4)%nat.

(* try_read.  The second component says whether recvmsg was called. *)
Definition try_read (c : conn) (ev : read_ev) : conn * rd_result * bool :=
  if (BUF <=? length (c_win c))%nat
  then (reset_parser c, RdErr (ParseError Overflow), false)
  else
    match ev with
    | RFail errno => (c, RdErr (StreamReadError errno), true)
    | REof fds => (add_files c fds, RdErr ConnectionClosed, true)
    | RData [] fds => (add_files c fds, RdErr ConnectionClosed, true)
    | RData bs fds =>
      let buf := c_win c ++ bs in
      match read_loop (loop_fuel buf) (add_files c fds) buf 0 with
      | LOk c' => (c', RdOk, true)
      | LErr c' err => (reset_parser c', RdErr (ParseError err), true)
      | LPanic s => (c, RdPanic s, true)
      end
    end.

End Impl.

(* ---------- the write half ---------- *)

Inductive write_ev := WWrote (k : nat) | WIntr | WFail.
Inductive wr_result := WrOk | WrErr (e : conn_err) | WrPanic (site : nat).

Definition set_write (c : conn) (rq : list response) (rb : option bytes) : conn :=
  mkConn (c_state c) (c_win c) (c_pending c) (c_body_vec c) (c_body_left c) (c_parsed c)
         rq rb (c_files c) (c_pmax c).

Definition clear_write_buffer (c : conn) : conn := set_write c [] None.
Definition enqueue_response (c : conn) (r : response) : conn := set_write c (c_rq c ++ [r]) (c_rbuf c).
Definition pending_write (c : conn) : bool :=
  match c_rbuf c with Some _ => true | None => match c_rq c with [] => false | _ => true end end.
Definition pop_parsed_request (c : conn) : option request * conn :=
  match c_parsed c with
  | [] => (None, c)
  | r :: q => (Some r, mkConn (c_state c) (c_win c) (c_pending c) (c_body_vec c) (c_body_left c) q
                              (c_rq c) (c_rbuf c) (c_files c) (c_pmax c))
  end.

(* try_write.  Returns the new connection, the result, and the slice offered to the single
   write call (None when no write call is made). *)
Definition try_write (c : conn) (ev : write_ev) : conn * wr_result * option bytes :=
  let staged :=
    match c_rbuf c with
    | Some b => Some (c, b)
    | None => match c_rq c with
              | r :: q => Some (set_write c q (Some (serialize r)), serialize r)
              | [] => None
              end
    end in
  match staged with
  | None => (c, WrErr InvalidWrite, None)
  | Some (c1, b) =>
    match ev with
    | WWrote O => (clear_write_buffer c1, WrErr ConnectionClosed, Some b)
    | WWrote k =>
        if (k =? length b)%nat then (set_write c1 (c_rq c1) None, WrOk, Some b)
        else if (length b <? k)%nat then (c1, WrPanic 50, Some b)      (* drain(..k) out of range *)
        else (set_write c1 (c_rq c1) (Some (skipn k b)), WrOk, Some b)
    | WIntr => (c1, WrOk, Some b)
    | WFail => (clear_write_buffer c1, WrErr ConnectionClosed, Some b)
    end
  end.
