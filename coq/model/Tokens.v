(* Method / Version / MediaType / StatusCode / Header tables and Uri::get_abs_path. *)
From MH Require Export model.Types.

Definition raw_method (m : method) : bytes :=
  match m with Get => B"GET" | Put => B"PUT" | Patch => B"PATCH" end.
Definition method_to_str := raw_method.   (* Method::to_str has the same arms; tied in SrcTie *)
Definition all_methods := [Get; Put; Patch].
Definition parse_method (bs : bytes) : option method :=
  if beq bs (B"GET") then Some Get
  else if beq bs (B"PUT") then Some Put
  else if beq bs (B"PATCH") then Some Patch
  else None.

Definition raw_version (v : version) : bytes :=
  match v with Http10 => B"HTTP/1.0" | Http11 => B"HTTP/1.1" end.
Definition all_versions := [Http10; Http11].
Definition parse_version (bs : bytes) : option version :=
  if beq bs (B"HTTP/1.0") then Some Http10
  else if beq bs (B"HTTP/1.1") then Some Http11
  else None.

Definition media_str (t : media) : bytes :=
  match t with PlainText => B"text/plain" | ApplicationJson => B"application/json" end.
Definition all_media := [PlainText; ApplicationJson].
(* MediaType::try_from *)
Definition parse_media (bs : bytes) : option media :=
  match bs with
  | [] => None
  | _ => if utf8_valid bs then
           let t := trim bs in
           if beq t (B"text/plain") then Some PlainText
           else if beq t (B"application/json") then Some ApplicationJson
           else None
         else None
  end.

Definition raw_status (s : status) : bytes :=
  match s with
  | Continue => B"100" | OK => B"200" | NoContent => B"204" | BadRequest => B"400"
  | Unauthorized => B"401" | NotFound => B"404" | MethodNotAllowed => B"405"
  | PayloadTooLarge => B"413" | InternalServerError => B"500" | NotImplemented => B"501"
  | ServiceUnavailable => B"503"
  end.
Definition all_status :=
  [Continue; OK; NoContent; BadRequest; Unauthorized; NotFound; MethodNotAllowed;
   PayloadTooLarge; InternalServerError; NotImplemented; ServiceUnavailable].

Definition raw_header (h : header) : bytes :=
  match h with
  | HContentLength => B"Content-Length" | HContentType => B"Content-Type" | HExpect => B"Expect"
  | HTransferEncoding => B"Transfer-Encoding" | HServer => B"Server" | HAccept => B"Accept"
  | HAcceptEncoding => B"Accept-Encoding"
  end.
Definition all_headers :=
  [HContentLength; HContentType; HExpect; HTransferEncoding; HServer; HAccept; HAcceptEncoding].
(* the strings matched (after lower-casing and trimming) in Header::try_from *)
Definition header_key (h : header) : bytes :=
  match h with
  | HContentLength => B"content-length" | HContentType => B"content-type" | HExpect => B"expect"
  | HTransferEncoding => B"transfer-encoding" | HServer => B"server" | HAccept => B"accept"
  | HAcceptEncoding => B"accept-encoding"
  end.
(* Header::try_from: None covers both "unsupported name" and "not UTF-8"; the only caller
   distinguishes nothing else. *)
Definition header_try_from (bs : bytes) : option header :=
  if utf8_valid bs then
    let k := trim (ascii_lower bs) in
    if beq k (B"content-length") then Some HContentLength
    else if beq k (B"content-type") then Some HContentType
    else if beq k (B"expect") then Some HExpect
    else if beq k (B"transfer-encoding") then Some HTransferEncoding
    else if beq k (B"server") then Some HServer
    else if beq k (B"accept") then Some HAccept
    else if beq k (B"accept-encoding") then Some HAcceptEncoding
    else None
  else None.

(* Uri::try_from *)
Definition uri_try_from (bs : bytes) : res bytes uri_err :=
  match bs with
  | [] => Err UriEmpty
  | _ => if utf8_valid bs then Ok bs else Err UriNotUtf8
  end.

Definition HTTP_SCHEME_PREFIX : bytes := B"http://".
Definition SLASH : byte := 47.

(* Uri::get_abs_path.  The two string slices are at ASCII boundaries (after the ASCII
   prefix, at an ASCII '/'), so they cannot panic on a char boundary; see Tokens_proofs. *)
Definition abs_path (u : bytes) : bytes :=
  if prefixb HTTP_SCHEME_PREFIX u then
    let ws := skipn (length HTTP_SCHEME_PREFIX) u in
    match ws with
    | [] => []
    | _ => match position SLASH ws with
           | Some n => skipn n ws
           | None => []
           end
    end
  else match u with
       | a :: _ => if a =? SLASH then u else []
       | [] => []
       end.
