(* HttpServer and ClientConnection mirrored over the connection model, composed with a small
   executable model of what the server can observe of the kernel (per-client byte queues,
   shutdown flags, the accept backlog, epoll interest and level-triggered readiness, the kill
   eventfd).  Every server function takes the result of the system calls it makes from that
   kernel model.  All nondeterminism the kernel has (order of events in a batch, descriptor
   numbers) is removed here by canonical choices; the theorems in proofs/Server_proofs.v are
   stated for arbitrary event orders and arbitrary fresh descriptor numbers. *)
From MH Require Export model.ConnImpl.

Definition MAX_CONNECTIONS : nat := 10.
Definition SERVER_FULL_ERROR_MESSAGE : bytes :=
  B"HTTP/1.1 503" ++ CRLF ++ B"Server: Firecracker API" ++ CRLF ++ B"Connection: close" ++ CRLF
  ++ B"Content-Length: 40" ++ CRLF ++ CRLF ++ B"{ ""error"": ""Too many open connections"" }".

(* ---------- Display of the error enums (the text goes on the wire in the 400 body) ---------- *)
Definition display_hdr_err (e : hdr_err) : bytes :=
  match e with
  | InvalidFormat k => B"Header is incorrectly formatted. Key: " ++ k
  | InvalidUtf8String _ => B"Header contains invalid characters. Key: <utf8-error>"
  | InvalidValue k v => B"Invalid value. Key:" ++ k ++ B"; Value:" ++ v
  | HSizeLimitExceeded raw => B"Invalid content length. Header: " ++ raw
  | UnsupportedFeature k v => B"Unsupported feature. Key: " ++ k ++ B"; Value: " ++ v
  | UnsupportedName k => B"Unsupported header name. Key: " ++ k
  | UnsupportedValue k v => B"Unsupported value. Key:" ++ k ++ B"; Value:" ++ v
  end.
Definition display_req_err (e : req_err) : bytes :=
  match e with
  | BodyWithoutPendingRequest => B"No request was pending while the request body was being parsed."
  | HeaderError h => B"Invalid header. Reason: " ++ display_hdr_err h
  | HeadersWithoutPendingRequest => B"No request was pending while the request headers were being parsed."
  | InvalidHttpMethod => B"Invalid HTTP Method: Unsupported HTTP method."
  | InvalidHttpVersion => B"Invalid HTTP Version: Unsupported HTTP version."
  | InvalidRequest => B"Invalid request."
  | InvalidUri UriEmpty => B"Invalid URI: Empty URI not allowed."
  | InvalidUri UriNotUtf8 => B"Invalid URI: Cannot parse URI as UTF-8."
  | Overflow => B"Overflow occurred when parsing a request."
  | Underflow => B"Underflow occurred when parsing a request."
  | SizeLimitExceeded l n => B"Request payload with size " ++ dec n ++ B" is larger than the limit of " ++ dec l
                             ++ B" allowed by server."
  end.

Definition bad_request_response (e : req_err) : response :=
  apply_op (response_new Http11 BadRequest)
           (SetBody (B"{ ""error"": """ ++ display_req_err e ++ [LF]
                     ++ B"All previous unanswered requests will be dropped."" }")).
Definition internal_error_response (errno : Z) : response :=
  apply_op (response_new Http11 InternalServerError) (SetBody (B"Error " ++ decZ errno)).

(* ---------- ClientConnection ---------- *)
Inductive sstate := AwaitIn | AwaitOut | SClosed.
Definition sstate_eqb (a b : sstate) : bool :=
  match a, b with AwaitIn, AwaitIn | AwaitOut, AwaitOut | SClosed, SClosed => true | _, _ => false end.

Record sconn := mkSC {
  sc_conn : conn;
  sc_st : sstate;
  sc_infl : N;               (* in_flight_response_count : u32 *)
  sc_client : nat;           (* which client is at the other end (ghost) *)
  sc_out : bool;             (* epoll interest is OUT|RDHUP rather than IN|RDHUP (kernel view) *)
  sc_gid : nat;              (* connection instance (ghost): never reused, unlike the descriptor *)
}.

Inductive serr := EShutdown | EInvalidWrite | EOverflow | EUnderflow | EPanic.

Fixpoint pop_all (fuel : nat) (c : conn) (acc : list request) : conn * list request :=
  match fuel with
  | O => (c, acc)
  | S f => match pop_parsed_request c with
           | (Some r, c') => pop_all f c' (acc ++ [r])
           | (None, c') => (c', acc)
           end
  end.

Section Server.
Variable BUF : nat.

(* ClientConnection::read, given the result of the single recvmsg *)
Definition cc_read (x : sconn) (ev : read_ev) : (sconn * list request) + serr :=
  let '(c1, res, _) := try_read BUF (sc_conn x) ev in
  match res with
  | RdPanic _ => inr EPanic
  | RdErr ConnectionClosed => inl (mkSC c1 SClosed (sc_infl x) (sc_client x) (sc_out x) (sc_gid x), [])
  | _ =>
    let '(c2, reqs) :=
      match res with
      | RdOk => pop_all (S (length (c_parsed c1))) c1 []
      | RdErr (StreamReadError errno) => (enqueue_response c1 (internal_error_response errno), [])
      | RdErr (ParseError e) =>
          (enqueue_response (fst (pop_all (S (length (c_parsed c1))) c1 [])) (bad_request_response e), [])
      | _ => (c1, [])
      end in
    let infl := sc_infl x + N.of_nat (length reqs) in
    if U32_LIMIT <=? infl then inr EOverflow
    else inl (mkSC c2 (if pending_write c2 then AwaitOut else sc_st x) infl (sc_client x) (sc_out x) (sc_gid x), reqs)
  end.

(* ClientConnection::write (with the repair: nothing is written on a closed connection).
   Returns the bytes the stream accepted. *)
Definition cc_write (x : sconn) (can_receive : bool) (k : nat) : (sconn * bytes) + serr :=
  match sc_st x with
  | SClosed => inl (x, [])
  | _ =>
    let c := sc_conn x in
    let offered := match c_rbuf c with
                   | Some b => b
                   | None => match c_rq c with r :: _ => serialize r | [] => [] end
                   end in
    let n := if Nat.eqb k 0 then length offered else Nat.min k (length offered) in
    let ev := if can_receive then WWrote n else WFail in
    let '(c1, res, off) := try_write c ev in
    match res with
    | WrPanic _ => inr EPanic
    | WrErr InvalidWrite => inr EInvalidWrite
    | WrErr _ => inl (mkSC c1 SClosed (sc_infl x) (sc_client x) (sc_out x) (sc_gid x), [])
    | WrOk =>
        inl (mkSC c1 (if pending_write c1 then sc_st x else AwaitIn) (sc_infl x) (sc_client x) (sc_out x) (sc_gid x),
             if can_receive then firstn n offered else [])
    end
  end.

Definition cc_enqueue (x : sconn) (r : response) : sconn + serr :=
  let c := match sc_st x with SClosed => sc_conn x | _ => enqueue_response (sc_conn x) r end in
  if sc_infl x =? 0 then inr EUnderflow
  else inl (mkSC c (sc_st x) (sc_infl x - 1) (sc_client x) (sc_out x) (sc_gid x)).

Definition is_done (x : sconn) : bool :=
  sstate_eqb (sc_st x) SClosed && negb (pending_write (sc_conn x)) && (sc_infl x =? 0).

(* ---------- the kernel's view of one client ---------- *)
Inductive cplace := InBacklog | Accepted (fd : nat) | Gone.
Record client := mkCl {
  k_open : bool;             (* the client has not closed its socket *)
  k_shut_wr : bool;
  k_shut_rd : bool;
  k_tosrv : bytes;           (* sent by the client, not yet read by the server *)
  k_rx : bytes;              (* written by the server, not yet read by the client *)
  k_place : cplace;
}.
(* hang-up as epoll reports it to the server (ERR/HUP/RDHUP are not distinguished) *)
Definition k_hup (cl : client) : bool := negb (k_open cl) || k_shut_wr cl.
Definition k_can_receive (cl : client) : bool := k_open cl && negb (k_shut_rd cl).

Record world := mkW {
  w_clients : list (nat * client);
  w_conns : list (nat * sconn);            (* keyed by descriptor number, oldest first *)
  w_backlog : list nat;                    (* clients waiting to be accepted, oldest first *)
  w_tokens : list (nat * nat * request);   (* outstanding requests: descriptor (the token), instance (ghost), request *)
  w_nextg : nat;
  w_limit : N;
  w_killed : bool;
}.

Definition world0 : world := mkW [] [] [] [] 0 MAX_PAYLOAD_SIZE false.

Fixpoint alookup {A} (k : nat) (l : list (nat * A)) : option A :=
  match l with [] => None | (k', v) :: r => if Nat.eqb k' k then Some v else alookup k r end.
Fixpoint aupdate {A} (k : nat) (v : A) (l : list (nat * A)) : list (nat * A) :=
  match l with
  | [] => []
  | (k', v') :: r => if Nat.eqb k' k then (k', v) :: r else (k', v') :: aupdate k v r
  end.

Definition set_client (w : world) (c : nat) (cl : client) : world :=
  mkW (aupdate c cl (w_clients w)) (w_conns w) (w_backlog w) (w_tokens w) (w_nextg w) (w_limit w) (w_killed w).
Definition set_conn (w : world) (g : nat) (x : sconn) : world :=
  mkW (w_clients w) (aupdate g x (w_conns w)) (w_backlog w) (w_tokens w) (w_nextg w) (w_limit w) (w_killed w).
Definition set_conns (w : world) (l : list (nat * sconn)) : world :=
  mkW (w_clients w) l (w_backlog w) (w_tokens w) (w_nextg w) (w_limit w) (w_killed w).

Definition dead_client : client := mkCl false false false [] [] Gone.
Definition client_of (w : world) (c : nat) : client :=
  match alookup c (w_clients w) with Some cl => cl | None => dead_client end.

(* how many bytes one recvmsg returns: at most k (0: no bound) of what is available and fits *)
Definition read_amount (k room avail : nat) : nat :=
  let a := Nat.min room avail in if Nat.eqb k 0 then a else Nat.min k a.

(* ---------- one epoll event ---------- *)
(* EvIn g k: recvmsg returns at most k of the available bytes that fit (k = 0: all of them); K2 only promises at
   least one.  EvOut g k: the kernel accepts at most k bytes of what is offered (k = 0: everything); K3 only promises at least
   one byte on an OUT report *)
Inductive event := EvHup (g : nat) | EvIn (g : nat) (k : nat) | EvOut (g : nat) (k : nat) | EvListener (newfd : nat) | EvKill.

(* readiness of one connection (level-triggered) *)
Definition conn_event (w : world) (g : nat) (x : sconn) : option event :=
  let cl := client_of w (sc_client x) in
  if k_hup cl then Some (EvHup g)
  else if sc_out x then Some (EvOut g 0)
  else match k_tosrv cl with [] => None | _ => Some (EvIn g 0) end.

(* a descriptor number not in use (Linux hands out the lowest free one; the theorems hold for any
   unused number, and no observation depends on the choice) *)
Definition fresh_fd (w : world) : nat := S (fold_right Nat.max 0%nat (map fst (w_conns w))).

Definition ready_events (w : world) : list event :=
  (if w_killed w then [EvKill] else [])
  ++ flat_map (fun p => match conn_event w (fst p) (snd p) with Some e => [e] | None => [] end) (w_conns w)
  ++ match w_backlog w with [] => [] | _ => [EvListener (fresh_fd w)] end.

(* the yield of one poll: descriptor (the token the application gets), instance (ghost), request *)
Definition yield := (nat * nat * request)%type.

Definition handle_event (w : world) (e : event) : (world * list yield) + serr :=
  match e with
  | EvHup g =>
      match alookup g (w_conns w) with
      | None => inr EPanic                       (* connections.get_mut(&fd).unwrap() *)
      | Some x =>
          inl (set_conn w g (mkSC (clear_write_buffer (sc_conn x)) SClosed (sc_infl x) (sc_client x) (sc_out x) (sc_gid x)), [])
      end
  | EvIn g k =>
      match alookup g (w_conns w) with
      | None => inr EPanic
      | Some x =>
          let cl := client_of w (sc_client x) in
          let room := (BUF - length (c_win (sc_conn x)))%nat in
          let n := read_amount k room (length (k_tosrv cl)) in
          match cc_read x (RData (firstn n (k_tosrv cl)) []) with
          | inr err => inr err
          | inl (y, reqs) =>
              let y' := match sc_st y with
                        | AwaitOut => mkSC (sc_conn y) (sc_st y) (sc_infl y) (sc_client y) true (sc_gid y)
                        | _ => y
                        end in
              let cl' := mkCl (k_open cl) (k_shut_wr cl) (k_shut_rd cl) (skipn n (k_tosrv cl)) (k_rx cl) (k_place cl) in
              inl (set_client (set_conn w g y') (sc_client x) cl', map (fun r => (g, sc_gid x, r)) reqs)
          end
      end
  | EvOut g k =>
      match alookup g (w_conns w) with
      | None => inr EPanic
      | Some x =>
          let cl := client_of w (sc_client x) in
          match cc_write x (k_can_receive cl) k with
          | inr err => inr err
          | inl (y, sent) =>
              let y' := match sc_st y with
                        | AwaitIn => mkSC (sc_conn y) (sc_st y) (sc_infl y) (sc_client y) false (sc_gid y)
                        | _ => y
                        end in
              let cl' := mkCl (k_open cl) (k_shut_wr cl) (k_shut_rd cl) (k_tosrv cl) (k_rx cl ++ sent) (k_place cl) in
              inl (set_client (set_conn w g y') (sc_client x) cl', [])
          end
      end
  | EvKill => inr EShutdown
  | EvListener nf =>
      match w_backlog w with
      | [] => inl (w, [])
      | c :: rest =>
          let cl := client_of w c in
          if Nat.eqb (length (w_conns w)) MAX_CONNECTIONS then
            (* refused: best-effort 503, then the accepted stream is dropped *)
            let rx := if k_can_receive cl then k_rx cl ++ SERVER_FULL_ERROR_MESSAGE else k_rx cl in
            let cl' := mkCl (k_open cl) (k_shut_wr cl) (k_shut_rd cl) [] rx Gone in
            inl (mkW (aupdate c cl' (w_clients w)) (w_conns w) rest (w_tokens w) (w_nextg w) (w_limit w) (w_killed w), [])
          else
            let g := w_nextg w in
            let x := mkSC (set_payload_max_size conn_new (w_limit w)) AwaitIn 0 c false g in
            let cl' := mkCl (k_open cl) (k_shut_wr cl) (k_shut_rd cl) (k_tosrv cl) (k_rx cl) (Accepted nf) in
            inl (mkW (aupdate c cl' (w_clients w)) (w_conns w ++ [(nf, x)]) rest (w_tokens w) (S g) (w_limit w) (w_killed w), [])
      end
  end.

Fixpoint handle_all (w : world) (es : list event) (acc : list yield) : (world * list yield) + serr :=
  match es with
  | [] => inl (w, acc)
  | e :: r => match handle_event w e with
              | inl (w', ys) => handle_all w' r (acc ++ ys)
              | inr err => inr err
              end
  end.

(* Remove dead connections: dropping the entry closes the server's end of the socket *)
Definition sweep (w : world) : world :=
  let dead := filter (fun p => is_done (snd p)) (w_conns w) in
  let clients' := fold_left (fun cls p =>
                    let c := sc_client (snd p) in
                    match alookup c cls with
                    | Some cl => aupdate c (mkCl (k_open cl) (k_shut_wr cl) (k_shut_rd cl) [] (k_rx cl) Gone) cls
                    | None => cls
                    end) dead (w_clients w) in
  mkW clients' (filter (fun p => negb (is_done (snd p))) (w_conns w)) (w_backlog w) (w_tokens w)
      (w_nextg w) (w_limit w) (w_killed w).

Inductive poll_res :=
| PBlocked                                        (* epoll_wait would block: nothing is ready *)
| PYield (w : world) (ys : list yield)
| PErr (e : serr).

(* HttpServer::requests, with a given order of the ready events *)
Definition poll_with (w : world) (es : list event) : poll_res :=
  match es with
  | [] => PBlocked
  | _ => match handle_all w es [] with
         | inl (w', ys) => PYield (sweep w') ys
         | inr e => PErr e
         end
  end.
Definition poll (w : world) : poll_res := poll_with w (ready_events w).

(* HttpServer::respond: the token is the descriptor number g *)
Definition respond (w : world) (g : nat) (r : response) : world + serr :=
  match alookup g (w_conns w) with
  | None => inl w
  | Some x =>
      let x1 := match sc_st x with
                | AwaitIn => mkSC (sc_conn x) AwaitOut (sc_infl x) (sc_client x) true (sc_gid x)
                | _ => x
                end in
      match cc_enqueue x1 r with
      | inl y => inl (set_conn w g y)
      | inr e => inr e
      end
  end.

(* HttpServer::flush_outgoing_writes *)
Fixpoint flush_conn (fuel : nat) (x : sconn) (can_receive : bool) (sent : bytes) : sconn * bytes :=
  match fuel with
  | O => (x, sent)
  | S f =>
    match sc_st x with
    | AwaitOut =>
        match cc_write x can_receive 0 with
        | inl (y, s) => flush_conn f y can_receive (sent ++ s)
        | inr _ => (x, sent)
        end
    | _ => (x, sent)
    end
  end.

Definition flush_one (w : world) (p : nat * sconn) : world :=
  let '(g, x) := p in
  let cl := client_of w (sc_client x) in
  let was_out := sstate_eqb (sc_st x) AwaitOut in
  let '(y, sent) := flush_conn (S (S (length (c_rq (sc_conn x))))) x (k_can_receive cl) [] in
  let y' := if was_out && sstate_eqb (sc_st y) AwaitIn
            then mkSC (sc_conn y) (sc_st y) (sc_infl y) (sc_client y) false (sc_gid y) else y in
  let cl' := mkCl (k_open cl) (k_shut_wr cl) (k_shut_rd cl) (k_tosrv cl) (k_rx cl ++ sent) (k_place cl) in
  set_client (set_conn w g y') (sc_client x) cl'.

Definition flush (w : world) : world := fold_left flush_one (w_conns w) w.

End Server.
