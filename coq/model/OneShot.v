(* Request::try_from (the one-shot parser), with every slice and unchecked subtraction
   checked explicitly: [OPanic] marks an input on which the Rust would panic. *)
From MH Require Export model.RequestLine.

Inductive ores :=
| OOk (rl : request_line) (h : headers) (body : option bytes)
| OErr (e : req_err)
| OPanic (site : nat).

Definition CRLFCRLF : bytes := [CR; LF; CR; LF].

(* &l[a..] *)
Definition slice_from (l : bytes) (a : nat) : option bytes :=
  if (a <=? length l)%nat then Some (skipn a l) else None.
(* &l[..b] *)
Definition slice_to (l : bytes) (b : nat) : option bytes :=
  if (b <=? length l)%nat then Some (firstn b l) else None.

Definition request_try_from (bs : bytes) (max_len : option N) : ores :=
  if match max_len with Some lim => lim <=? lenN bs | None => false end
  then OErr InvalidRequest else
  match find_crlf bs with
  | None => OErr InvalidRequest
  | Some rle =>
    match slice_to bs rle with
    | None => OPanic 1
    | Some rlb =>
      if (length rlb <? reqline_min_len)%nat then OErr InvalidRequest else
      match parse_reqline rlb with
      | Err e => OErr e
      | Ok rl =>
        match slice_from bs rle with
        | None => OPanic 2
        | Some tail =>
          match find CRLFCRLF tail with
          | None => OErr InvalidRequest
          | Some O => OOk rl headers_default None
          | Some he =>
            match slice_from bs (rle + 2) with
            | None => OPanic 3
            | Some hb =>
              if (he <? 2)%nat then OPanic 4 else       (* headers_end - CRLF_LEN underflow *)
              let he2 := (he - 2)%nat in
              match slice_to hb he2 with
              | None => OPanic 5
              | Some hs =>
                match headers_try_from hs with
                | Err e => OErr e
                | Ok h =>
                  if h_content_length h =? 0 then OOk rl h None else
                  if method_eqb (rl_method rl) Get then OErr InvalidRequest else
                  let crlf_end := (he2 + 4)%nat in
                  if (length hb <? crlf_end)%nat then OPanic 6 else   (* len - crlf_end underflow *)
                  let body_len := (length hb - crlf_end)%nat in
                  if N.of_nat body_len <? h_content_length h then OErr InvalidRequest else
                  match slice_from hb crlf_end with
                  | None => OPanic 7
                  | Some body =>
                    if lenN body =? h_content_length h then OOk rl h (Some body)
                    else OErr InvalidRequest
                  end
                end
              end
            end
          end
        end
      end
    end
  end.
