(* An independent reader of HTTP responses that knows only framing: a status line, header
   lines up to the blank line, and Content-Length bytes of body (none when the header is
   absent).  It shares nothing with the serialiser except CRLF and decimal numbers. *)
From MH Require Export lib.Bytes lib.Str.

Fixpoint read_header_lines (fuel : nat) (s : bytes) (acc : list bytes) : option (list bytes * bytes) :=
  match fuel with
  | O => None
  | S f =>
    match find_crlf s with
    | None => None
    | Some O => Some (rev acc, skipn 2 s)
    | Some i => read_header_lines f (skipn (i + 2) s) (firstn i s :: acc)
    end
  end.

Inductive cl_res := ClAbsent | ClValue (n : N) | ClBad.

Definition CL_PREFIX : bytes := B"Content-Length: ".

Fixpoint content_length_of (hs : list bytes) : cl_res :=
  match hs with
  | [] => ClAbsent
  | h :: r =>
    if prefixb CL_PREFIX h then
      match skipn (length CL_PREFIX) h with
      | [] => ClBad
      | v => match digits_value 0 v with Some n => ClValue n | None => ClBad end
      end
    else content_length_of r
  end.

(* (status line, header lines, body) and the unread rest *)
Definition read_response (s : bytes) : option ((bytes * list bytes * bytes) * bytes) :=
  match find_crlf s with
  | None => None
  | Some i =>
    match read_header_lines (length s) (skipn (i + 2) s) [] with
    | None => None
    | Some (hs, rest) =>
      match content_length_of hs with
      | ClBad => None
      | ClAbsent => Some ((firstn i s, hs, []), rest)
      | ClValue n =>
          if lenN rest <? n then None
          else Some ((firstn i s, hs, firstn (N.to_nat n) rest), skipn (N.to_nat n) rest)
      end
    end
  end.

Fixpoint read_responses (fuel : nat) (s : bytes) : option (list (bytes * list bytes * bytes)) :=
  match s with
  | [] => Some []
  | _ =>
    match fuel with
    | O => None
    | S f =>
      match read_response s with
      | None => None
      | Some (v, rest) =>
        match read_responses f rest with
        | Some vs => Some (v :: vs)
        | None => None
        end
      end
    end
  end.
