(* HttpRoutes: add_route and handle_http_request.  Handlers are abstract: a handler is an id,
   and invoking handler h on a request yields [run_handler h req]. *)
From MH Require Export model.ConnImpl.

Section Router.
Variable handler : Type.
Variable run_handler : handler -> request -> response.

Record routes := mkRoutes {
  rt_server_id : bytes;
  rt_prefix : bytes;
  rt_table : list (bytes * handler);      (* HashMap<String, Box<dyn EndpointHandler>> *)
}.

Definition routes_new (server_id prefix : bytes) : routes := mkRoutes server_id prefix [].

Definition route_key (m : method) (full_path : bytes) : bytes :=
  method_to_str m ++ [COLON] ++ full_path.

Fixpoint table_get (k : bytes) (t : list (bytes * handler)) : option handler :=
  match t with
  | [] => None
  | (k', h) :: r => if beq k k' then Some h else table_get k r
  end.

(* add_route: Err(HandlerExist(key)) leaves the table unchanged *)
Definition add_route (rt : routes) (m : method) (path : bytes) (h : handler) : routes * option bytes :=
  let k := route_key m (rt_prefix rt ++ path) in
  match table_get k (rt_table rt) with
  | Some _ => (rt, Some k)
  | None => (mkRoutes (rt_server_id rt) (rt_prefix rt) (rt_table rt ++ [(k, h)]), None)
  end.

(* handle_http_request: which handler ran (if any) and the response *)
Definition handle_http_request (rt : routes) (req : request) : option handler * response :=
  let k := route_key (rl_method (r_line req)) (abs_path (rl_uri (r_line req))) in
  let (who, resp) :=
    match table_get k (rt_table rt) with
    | Some h => (Some h, run_handler h req)
    | None => (None, response_new Http11 NotFound)
    end in
  (who, apply_op (apply_op resp (SetServer (rt_server_id rt))) (SetContentType ApplicationJson)).

End Router.

Arguments rt_server_id {handler} _.
Arguments rt_prefix {handler} _.
Arguments rt_table {handler} _.
