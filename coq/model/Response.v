(* Response, ResponseHeaders, StatusLine: construction, builder calls, serialisation. *)
From MH Require Export model.Tokens.
From Coq Require Export ZArith.

Record response := mkResp {
  rs_version : version;
  rs_status : status;
  rs_content_length : option Z;     (* Option<i32> *)
  rs_content_type : media;
  rs_deprecation : bool;
  rs_server : bytes;
  rs_allow : list method;
  rs_accept_encoding : bool;
  rs_body : option bytes;
}.

Definition DEFAULT_SERVER : bytes := B"Firecracker API".

(* Response::new *)
Definition response_new (v : version) (s : status) : response :=
  mkResp v s (match s with Continue | NoContent => None | _ => Some 0%Z end)
         ApplicationJson false DEFAULT_SERVER [] false None.

(* usize as i32 *)
Definition as_i32 (n : N) : Z :=
  let m := (Z.of_N n mod 4294967296)%Z in
  if (m <? 2147483648)%Z then m else (m - 4294967296)%Z.

Inductive builder_op :=
| SetBody (b : bytes)
| SetContentType (t : media)
| SetDeprecation
| SetEncoding
| SetServer (s : bytes)
| SetAllow (ms : list method)
| AllowMethod (m : method)
| SetContentLength (o : option Z).

Definition apply_op (r : response) (op : builder_op) : response :=
  match op with
  | SetBody b => mkResp (rs_version r) (rs_status r) (Some (as_i32 (lenN b))) (rs_content_type r)
                        (rs_deprecation r) (rs_server r) (rs_allow r) (rs_accept_encoding r) (Some b)
  | SetContentType t => mkResp (rs_version r) (rs_status r) (rs_content_length r) t
                        (rs_deprecation r) (rs_server r) (rs_allow r) (rs_accept_encoding r) (rs_body r)
  | SetDeprecation => mkResp (rs_version r) (rs_status r) (rs_content_length r) (rs_content_type r)
                        true (rs_server r) (rs_allow r) (rs_accept_encoding r) (rs_body r)
  | SetEncoding => mkResp (rs_version r) (rs_status r) (rs_content_length r) (rs_content_type r)
                        (rs_deprecation r) (rs_server r) (rs_allow r) true (rs_body r)
  | SetServer s => mkResp (rs_version r) (rs_status r) (rs_content_length r) (rs_content_type r)
                        (rs_deprecation r) s (rs_allow r) (rs_accept_encoding r) (rs_body r)
  | SetAllow ms => mkResp (rs_version r) (rs_status r) (rs_content_length r) (rs_content_type r)
                        (rs_deprecation r) (rs_server r) ms (rs_accept_encoding r) (rs_body r)
  | AllowMethod m => mkResp (rs_version r) (rs_status r) (rs_content_length r) (rs_content_type r)
                        (rs_deprecation r) (rs_server r) (rs_allow r ++ [m]) (rs_accept_encoding r) (rs_body r)
  | SetContentLength o => mkResp (rs_version r) (rs_status r) o (rs_content_type r)
                        (rs_deprecation r) (rs_server r) (rs_allow r) (rs_accept_encoding r) (rs_body r)
  end.

Definition build (v : version) (s : status) (prog : list builder_op) : response :=
  fold_left apply_op prog (response_new v s).

(* StatusLine::write_all *)
Definition status_line (r : response) : bytes :=
  raw_version (rs_version r) ++ [SP] ++ raw_status (rs_status r) ++ [SP; CR; LF].

(* ResponseHeaders::write_allow_header *)
Fixpoint join_methods (ms : list method) : bytes :=
  match ms with
  | [] => []
  | [m] => raw_method m
  | m :: r => raw_method m ++ B", " ++ join_methods r
  end.
Definition allow_line (r : response) : bytes :=
  match rs_allow r with
  | [] => []
  | ms => B"Allow: " ++ join_methods ms ++ CRLF
  end.
Definition deprecation_line (r : response) : bytes :=
  if rs_deprecation r then B"Deprecation: true" ++ CRLF else [].

(* ResponseHeaders::write_all *)
Definition header_block (r : response) : bytes :=
  raw_header HServer ++ [COLON; SP] ++ rs_server r ++ CRLF
  ++ B"Connection: keep-alive" ++ CRLF
  ++ allow_line r ++ deprecation_line r
  ++ match rs_content_length r with
     | Some n =>
         raw_header HContentType ++ [COLON; SP] ++ media_str (rs_content_type r) ++ CRLF
         ++ raw_header HContentLength ++ [COLON; SP] ++ decZ n ++ CRLF
         ++ (if rs_accept_encoding r
             then raw_header HAcceptEncoding ++ [COLON; SP] ++ B"identity" ++ CRLF else [])
     | None => []
     end
  ++ CRLF.

(* Response::write_all *)
Definition serialize (r : response) : bytes :=
  status_line r ++ header_block r ++ match rs_body r with Some b => b | None => [] end.

(* io::Write::write_all over a sink: each step of the sink script says what one write call
   does with the bytes offered.  Returns the bytes the sink accepted, None on WriteZero/error
   or when the script runs out. *)
Inductive sink_ev := SkTake (k : nat) | SkIntr | SkErr.
Fixpoint write_all (script : list sink_ev) (data : bytes) (acc : bytes) : option (bytes * list sink_ev) :=
  match data with
  | [] => Some (acc, script)
  | _ =>
    match script with
    | [] => None
    | SkTake O :: _ => None                         (* WriteZero *)
    | SkTake k :: sc => write_all sc (skipn k data) (acc ++ firstn k data)
    | SkIntr :: sc => write_all sc data acc          (* retried *)
    | SkErr :: _ => None
    end
  end.
