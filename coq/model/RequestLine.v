(* RequestLine::parse_request_line / try_from and the one-shot Request::try_from. *)
From MH Require Export model.Headers.

(* the three parts, split at the first two SP *)
Definition split_request_line (l : bytes) : option (bytes * bytes * bytes) :=
  match split_at SP l with
  | Some (m, rest) =>
    match split_at SP rest with
    | Some (u, v) => Some (m, u, v)
    | None => None
    end
  | None => None
  end.

(* RequestLine::try_from: shape, then method, then URI, then version *)
Definition parse_reqline (l : bytes) : res request_line req_err :=
  match split_request_line l with
  | None => Err InvalidRequest
  | Some (m, u, v) =>
    match parse_method m with
    | None => Err InvalidHttpMethod
    | Some m' =>
      match uri_try_from u with
      | Err w => Err (InvalidUri w)
      | Ok u' =>
        match parse_version v with
        | None => Err InvalidHttpVersion
        | Some v' => Ok (mkRL m' u' v')
        end
      end
    end
  end.

(* RequestLine::min_len = "GET".len + 1 + "HTTP/1.0".len + 2 *)
Definition reqline_min_len : nat := (length (raw_method Get) + 1 + length (raw_version Http10) + 2)%nat.
