(* Headers::parse_header_line, Headers::try_from, Encoding::try_from. *)
From MH Require Export model.Tokens.

Definition COMMA : byte := 44.

(* Encoding::try_from *)
Fixpoint encoding_check (whole : bytes) (pieces : list bytes) : res unit req_err :=
  match pieces with
  | [] => Ok tt
  | p :: r =>
    let t := trim p in
    if beq t (B"identity;q=0") then Err (HeaderError (InvalidValue (B"Accept-Encoding") p))
    else if beq t (B"*;q=0") && negb (containsb (B"identity") whole)
         then Err (HeaderError (InvalidValue (B"Accept-Encoding") p))
    else encoding_check whole r
  end.
Definition encoding_try_from (bs : bytes) : res unit req_err :=
  match bs with
  | [] => Err InvalidRequest
  | _ => if utf8_valid bs then encoding_check bs (split_on COMMA bs)
         else Err (HeaderError (InvalidUtf8String bs))
  end.

(* HashMap::insert on the association list *)
Fixpoint custom_insert (k v : bytes) (l : list (bytes * bytes)) : list (bytes * bytes) :=
  match l with
  | [] => [(k, v)]
  | (k', v') :: r => if beq k k' then (k, v) :: r else (k', v') :: custom_insert k v r
  end.
Fixpoint custom_get (k : bytes) (l : list (bytes * bytes)) : option bytes :=
  match l with
  | [] => None
  | (k', v') :: r => if beq k k' then Some v' else custom_get k r
  end.

Definition set_content_length (h : headers) (n : N) : headers :=
  mkHeaders n (h_expect h) (h_chunked h) (h_accept h) (h_custom h).
Definition set_expect (h : headers) : headers :=
  mkHeaders (h_content_length h) true (h_chunked h) (h_accept h) (h_custom h).
Definition set_chunked (h : headers) : headers :=
  mkHeaders (h_content_length h) (h_expect h) true (h_accept h) (h_custom h).
Definition set_accept (h : headers) (m : media) : headers :=
  mkHeaders (h_content_length h) (h_expect h) (h_chunked h) m (h_custom h).
Definition insert_custom (h : headers) (k v : bytes) : headers :=
  mkHeaders (h_content_length h) (h_expect h) (h_chunked h) (h_accept h)
            (custom_insert k v (h_custom h)).

(* Headers::parse_header_line *)
Definition parse_header_line (h : headers) (line : bytes) : res headers req_err :=
  if utf8_valid line then
    match split_at COLON line with
    | None => Err (HeaderError (InvalidFormat line))
    | Some (k, v) =>
      match header_try_from k with
      | Some HContentLength =>
          match parse_u32 (trim v) with
          | Some n => Ok (set_content_length h n)
          | None => Err (HeaderError (InvalidValue k v))
          end
      | Some HContentType =>
          match parse_media (trim v) with
          | Some _ => Ok h
          | None => Err (HeaderError (UnsupportedValue k v))
          end
      | Some HAccept =>
          match parse_media (trim v) with
          | Some t => Ok (set_accept h t)
          | None => Err (HeaderError (UnsupportedValue k v))
          end
      | Some HTransferEncoding =>
          let t := trim v in
          if beq t (B"chunked") then Ok (set_chunked h)
          else if beq t (B"identity") then Ok h
          else Err (HeaderError (UnsupportedValue k v))
      | Some HExpect =>
          if beq (trim v) (B"100-continue") then Ok (set_expect h)
          else Err (HeaderError (UnsupportedValue k v))
      | Some HServer => Ok h
      | Some HAcceptEncoding =>
          match encoding_try_from (trim v) with
          | Ok _ => Ok h
          | Err e => Err e
          end
      | None => Ok (insert_custom h (trim k) (trim v))
      end
    end
  else Err (HeaderError (InvalidUtf8String line)).

(* the way both callers use it: UnsupportedValue is ignored *)
Definition parse_header_tolerant (h : headers) (line : bytes) : res headers req_err :=
  match parse_header_line h line with
  | Ok h' => Ok h'
  | Err (HeaderError (UnsupportedValue _ _)) => Ok h
  | Err e => Err e
  end.

(* str::split("\r\n"): the pieces between non-overlapping CR LF, left to right *)
Fixpoint split_crlf_aux (cur : bytes) (l : bytes) : list bytes :=
  match l with
  | [] => [rev cur]
  | a :: t =>
    match t with
    | b :: t' => if (a =? CR) && (b =? LF) then rev cur :: split_crlf_aux [] t'
                 else split_crlf_aux (a :: cur) t
    | [] => [rev (a :: cur)]
    end
  end.
Definition split_crlf (l : bytes) : list bytes := split_crlf_aux [] l.

(* the loop of Headers::try_from: stop at the first empty line *)
Fixpoint headers_fold (h : headers) (lines : list bytes) : res headers req_err :=
  match lines with
  | [] => Ok h
  | [] :: _ => Ok h
  | l :: r => match parse_header_tolerant h l with
              | Ok h' => headers_fold h' r
              | Err e => Err e
              end
  end.

(* Headers::try_from *)
Definition headers_try_from (bs : bytes) : res headers req_err :=
  if utf8_valid bs then headers_fold headers_default (split_crlf bs)
  else Err InvalidRequest.
