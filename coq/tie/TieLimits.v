(* Buffer size, limits and separators, as found in /repo/src now. *)
From MH Require Import model.ConnImpl tie.SrcLiterals.
Open Scope N_scope.

Definition BUFFER_SIZE : nat := 1024.
Lemma tie_buffer_size : src_BUFFER_SIZE = N.of_nat BUFFER_SIZE.
Proof. reflexivity. Qed.
Lemma tie_max_payload : src_MAX_PAYLOAD_SIZE = MAX_PAYLOAD_SIZE.
Proof. reflexivity. Qed.
Lemma tie_separators : src_CR = CR /\ src_LF = LF /\ src_SP = SP /\ src_COLON = COLON /\ src_CRLF_LEN = lenN CRLF.
Proof. repeat split; reflexivity. Qed.
Lemma tie_scm_max_fd : src_SCM_MAX_FD = 253.
Proof. reflexivity. Qed.
