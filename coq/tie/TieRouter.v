(* The router's key format, its 404 and its media type, as found in /repo/src now. *)
From MH Require Import model.Router tie.SrcLiterals.
Open Scope N_scope.

(* "{}:{}{}" and "{}:{}": method, a colon, (prefix,) path -- the model's route_key *)
Lemma tie_route_key_add : src_route_key_add = B"{}" ++ [COLON] ++ B"{}{}".
Proof. reflexivity. Qed.
Lemma tie_route_key_handle : src_route_key_handle = B"{}" ++ [COLON] ++ B"{}".
Proof. reflexivity. Qed.
Lemma tie_route_miss : src_route_miss = (Http11, NotFound).
Proof. reflexivity. Qed.
Lemma tie_route_media : src_route_media = ApplicationJson.
Proof. reflexivity. Qed.
Lemma tie_method_to_str : src_method_to_str = map (fun m => (m, method_to_str m)) all_methods.
Proof. reflexivity. Qed.
