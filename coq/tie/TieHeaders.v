(* Strings matched by the header parsers, as found in /repo/src now. *)
From MH Require Import model.Headers tie.SrcLiterals.
Open Scope N_scope.

Lemma tie_header_try_from : src_header_try_from = map (fun h => (header_key h, h)) all_headers.
Proof. reflexivity. Qed.
Lemma tie_header_line_strings : src_header_line_strings = [B"chunked"; B"identity"; B"100-continue"].
Proof. reflexivity. Qed.
Lemma tie_header_split : src_header_split = (2, COLON).
Proof. reflexivity. Qed.
Lemma tie_encoding_strings :
  src_encoding_strings = [B"identity;q=0"; B"Accept-Encoding"; B"*;q=0"; B"identity"; B"Accept-Encoding"].
Proof. reflexivity. Qed.
Lemma tie_encoding_split : src_encoding_split = COMMA.
Proof. reflexivity. Qed.
Lemma tie_block_split : src_block_split = CRLF.
Proof. reflexivity. Qed.
Lemma tie_default_accept : src_default_accept = h_accept headers_default.
Proof. reflexivity. Qed.
Lemma tie_media_try_from : src_media_try_from = map (fun t => (media_str t, t)) all_media.
Proof. reflexivity. Qed.
