(* Server constants and strings, as found in /repo/src now. *)
From MH Require Import model.Server tie.SrcLiterals.
Open Scope N_scope.

Lemma tie_max_connections : src_MAX_CONNECTIONS = N.of_nat MAX_CONNECTIONS.
Proof. reflexivity. Qed.
Lemma tie_events_array : src_EVENTS_EXTRA = 2.
Proof. reflexivity. Qed.
Lemma tie_server_full_message : src_server_full_message = SERVER_FULL_ERROR_MESSAGE.
Proof. reflexivity. Qed.
Lemma tie_bad_request_template :
  src_bad_request_template = B"{{ ""error"": ""{}" ++ [LF] ++ B"All previous unanswered requests will be dropped."" }}".
Proof. reflexivity. Qed.
Lemma tie_read_statuses : src_read_statuses = [InternalServerError; BadRequest].
Proof. reflexivity. Qed.
Lemma tie_max_payload : src_MAX_PAYLOAD_SIZE = MAX_PAYLOAD_SIZE.
Proof. reflexivity. Qed.
(* the Display strings that reach the wire in the 400 body *)
Lemma tie_display_request_error :
  src_display_RequestError =
  [B"No request was pending while the request body was being parsed.";
   B"Invalid header. Reason: {}";
   B"No request was pending while the request headers were being parsed.";
   B"Invalid HTTP Method: {}"; B"Invalid HTTP Version: {}"; B"Invalid request."; B"Invalid URI: {}";
   B"Overflow occurred when parsing a request."; B"Underflow occurred when parsing a request.";
   B"Request payload with size {} is larger than the limit of {} allowed by server."].
Proof. reflexivity. Qed.
Lemma tie_display_header_error :
  src_display_HttpHeaderError =
  [B"Header is incorrectly formatted. Key: {}"; B"Header contains invalid characters. Key: {}";
   B"Invalid value. Key:{}; Value:{}"; B"Invalid content length. Header: {}";
   B"Unsupported feature. Key: {}; Value: {}"; B"Unsupported header name. Key: {}";
   B"Unsupported value. Key:{}; Value:{}"].
Proof. reflexivity. Qed.
