(* Strings and rules of response serialisation, as found in /repo/src now. *)
From MH Require Import model.Response tie.SrcLiterals.
Open Scope N_scope.

Lemma tie_default_server : src_default_server = DEFAULT_SERVER.
Proof. reflexivity. Qed.
Lemma tie_response_header_strings :
  src_response_header_strings = [B"Allow: "; B"Deprecation: true"; B"Connection: keep-alive"; B"identity"].
Proof. reflexivity. Qed.
Lemma tie_allow_delim : src_allow_delim = B", ".
Proof. reflexivity. Qed.
Lemma tie_no_length_statuses :
  forall s, rs_content_length (response_new Http11 s) = None <-> In s src_no_length_statuses.
Proof. intros s; destruct s; cbn; split; intros H; try discriminate; try tauto; intuition discriminate. Qed.
Lemma tie_default_media : forall v s, rs_content_type (response_new v s) = src_default_media.
Proof. reflexivity. Qed.
Lemma tie_header_raw : src_header_raw = map (fun h => (h, raw_header h)) all_headers.
Proof. reflexivity. Qed.
Lemma tie_status_raw : src_status_raw = map (fun s => (s, raw_status s)) all_status.
Proof. reflexivity. Qed.
Lemma tie_version_raw : src_version_raw = map (fun v => (v, raw_version v)) all_versions.
Proof. reflexivity. Qed.
Lemma tie_media_as_str : src_media_as_str = map (fun t => (t, media_str t)) all_media.
Proof. reflexivity. Qed.
