(* The token tables found in /repo/src now (tie/SrcLiterals.v, regenerated on every run) are the
   tables of the model. *)
From MH Require Import model.Tokens model.RequestLine tie.SrcLiterals.
Open Scope N_scope.

Lemma tie_method_try_from : src_method_try_from = map (fun m => (raw_method m, m)) all_methods.
Proof. reflexivity. Qed.
Lemma tie_method_raw : src_method_raw = map (fun m => (m, raw_method m)) all_methods.
Proof. reflexivity. Qed.
Lemma tie_method_to_str : src_method_to_str = map (fun m => (m, method_to_str m)) all_methods.
Proof. reflexivity. Qed.
Lemma tie_version_try_from : src_version_try_from = map (fun v => (raw_version v, v)) all_versions.
Proof. reflexivity. Qed.
Lemma tie_version_raw : src_version_raw = map (fun v => (v, raw_version v)) all_versions.
Proof. reflexivity. Qed.
Lemma tie_media_try_from : src_media_try_from = map (fun t => (media_str t, t)) all_media.
Proof. reflexivity. Qed.
Lemma tie_media_as_str : src_media_as_str = map (fun t => (t, media_str t)) all_media.
Proof. reflexivity. Qed.
Lemma tie_status_raw : src_status_raw = map (fun s => (s, raw_status s)) all_status.
Proof. reflexivity. Qed.
Lemma tie_header_raw : src_header_raw = map (fun h => (h, raw_header h)) all_headers.
Proof. reflexivity. Qed.
Lemma tie_header_try_from : src_header_try_from = map (fun h => (header_key h, h)) all_headers.
Proof. reflexivity. Qed.
Lemma tie_http_prefix : src_http_scheme_prefix = HTTP_SCHEME_PREFIX.
Proof. reflexivity. Qed.
Lemma tie_slash : src_abs_path_slash = SLASH /\ src_authority_slash = SLASH.
Proof. split; reflexivity. Qed.
Lemma tie_separators : src_CR = CR /\ src_LF = LF /\ src_SP = SP /\ src_COLON = COLON /\ src_CRLF_LEN = lenN CRLF.
Proof. repeat split; reflexivity. Qed.
Lemma tie_min_len :
  let '(m, a, v, b) := src_min_len_parts in
  (length (raw_method m) + N.to_nat a + length (raw_version v) + N.to_nat b)%nat = reqline_min_len.
Proof. reflexivity. Qed.
