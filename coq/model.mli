
val negb : bool -> bool

type nat =
| O
| S of nat

val option_map : ('a1 -> 'a2) -> 'a1 option -> 'a2 option

val fst : ('a1 * 'a2) -> 'a1

val snd : ('a1 * 'a2) -> 'a2

val length : 'a1 list -> nat

val app : 'a1 list -> 'a1 list -> 'a1 list

type comparison =
| Eq
| Lt
| Gt

val compOpp : comparison -> comparison

val add : nat -> nat -> nat

val mul : nat -> nat -> nat

val sub : nat -> nat -> nat

module Nat :
 sig
  val eqb : nat -> nat -> bool

  val leb : nat -> nat -> bool

  val ltb : nat -> nat -> bool
 end

val rev : 'a1 list -> 'a1 list

val map : ('a1 -> 'a2) -> 'a1 list -> 'a2 list

val fold_left : ('a1 -> 'a2 -> 'a1) -> 'a2 list -> 'a1 -> 'a1

val firstn : nat -> 'a1 list -> 'a1 list

val skipn : nat -> 'a1 list -> 'a1 list

type positive =
| XI of positive
| XO of positive
| XH

type n =
| N0
| Npos of positive

type z =
| Z0
| Zpos of positive
| Zneg of positive

module Pos :
 sig
  type mask =
  | IsNul
  | IsPos of positive
  | IsNeg
 end

module Coq_Pos :
 sig
  val succ : positive -> positive

  val add : positive -> positive -> positive

  val add_carry : positive -> positive -> positive

  val pred_double : positive -> positive

  type mask = Pos.mask =
  | IsNul
  | IsPos of positive
  | IsNeg

  val succ_double_mask : mask -> mask

  val double_mask : mask -> mask

  val double_pred_mask : positive -> mask

  val sub_mask : positive -> positive -> mask

  val sub_mask_carry : positive -> positive -> mask

  val mul : positive -> positive -> positive

  val size_nat : positive -> nat

  val compare_cont : comparison -> positive -> positive -> comparison

  val compare : positive -> positive -> comparison

  val eqb : positive -> positive -> bool

  val iter_op : ('a1 -> 'a1 -> 'a1) -> positive -> 'a1 -> 'a1

  val to_nat : positive -> nat

  val of_succ_nat : nat -> positive
 end

module N :
 sig
  val succ_double : n -> n

  val double : n -> n

  val add : n -> n -> n

  val sub : n -> n -> n

  val mul : n -> n -> n

  val compare : n -> n -> comparison

  val eqb : n -> n -> bool

  val leb : n -> n -> bool

  val ltb : n -> n -> bool

  val size_nat : n -> nat

  val pos_div_eucl : positive -> n -> n * n

  val div_eucl : n -> n -> n * n

  val div : n -> n -> n

  val modulo : n -> n -> n

  val to_nat : n -> nat

  val of_nat : nat -> n
 end

type ascii =
| Ascii of bool * bool * bool * bool * bool * bool * bool * bool

val n_of_digits : bool list -> n

val n_of_ascii : ascii -> n

module Z :
 sig
  val double : z -> z

  val succ_double : z -> z

  val pred_double : z -> z

  val pos_sub : positive -> positive -> z

  val add : z -> z -> z

  val opp : z -> z

  val sub : z -> z -> z

  val mul : z -> z -> z

  val compare : z -> z -> comparison

  val leb : z -> z -> bool

  val ltb : z -> z -> bool

  val of_N : n -> z

  val pos_div_eucl : positive -> z -> z * z

  val div_eucl : z -> z -> z * z

  val modulo : z -> z -> z
 end

type string =
| EmptyString
| String of ascii * string

type byte = n

type bytes = n list

val cR : byte

val lF : byte

val sP : byte

val cOLON : byte

val cRLF : bytes

val beq : bytes -> bytes -> bool

val prefixb : bytes -> bytes -> bool

val find : bytes -> bytes -> nat option

val find_crlf : bytes -> nat option

val position : byte -> bytes -> nat option

val containsb : bytes -> bytes -> bool

val split_at : byte -> bytes -> (bytes * bytes) option

val split_on : byte -> bytes -> bytes list

val lenN : bytes -> n

val dec_fuel : nat -> n -> bytes -> bytes

val dec : n -> bytes

val decZ : z -> bytes

val in_range : n -> n -> n -> bool

val is_cont : n -> bool

val utf8_valid : bytes -> bool

val is_ascii_ws : n -> bool

val ws2 : n -> n -> bool

val ws3 : n -> n -> n -> bool

val strip_ws_prefix : bytes -> bytes option

val strip_ws_suffix_rev : bytes -> bytes option

val iter_strip : (bytes -> bytes option) -> nat -> bytes -> bytes

val trim_start : bytes -> bytes

val trim_end : bytes -> bytes

val trim : bytes -> bytes

val lower_byte : n -> n

val ascii_lower : bytes -> bytes

val is_digit : n -> bool

val digits_value : n -> bytes -> n option

val u32_LIMIT : n

val parse_u32 : bytes -> n option

val bytes_of_string : string -> bytes

type method0 =
| Get
| Put
| Patch

type version =
| Http10
| Http11

type media =
| PlainText
| ApplicationJson

type status =
| Continue
| OK
| NoContent
| BadRequest
| Unauthorized
| NotFound
| MethodNotAllowed
| PayloadTooLarge
| InternalServerError
| NotImplemented
| ServiceUnavailable

type header =
| HContentLength
| HContentType
| HExpect
| HTransferEncoding
| HServer
| HAccept
| HAcceptEncoding

type hdr_err =
| InvalidFormat of bytes
| InvalidUtf8String of bytes
| InvalidValue of bytes * bytes
| HSizeLimitExceeded of bytes
| UnsupportedFeature of bytes * bytes
| UnsupportedName of bytes
| UnsupportedValue of bytes * bytes

type uri_err =
| UriEmpty
| UriNotUtf8

type req_err =
| BodyWithoutPendingRequest
| HeaderError of hdr_err
| HeadersWithoutPendingRequest
| InvalidHttpMethod
| InvalidHttpVersion
| InvalidRequest
| InvalidUri of uri_err
| Overflow
| Underflow
| SizeLimitExceeded of n * n

type ('a, 'e) res =
| Ok of 'a
| Err of 'e

val method_eqb : method0 -> method0 -> bool

type headers = { h_content_length : n; h_expect : bool; h_chunked : bool;
                 h_accept : media; h_custom : (bytes * bytes) list }

val headers_default : headers

type request_line = { rl_method : method0; rl_uri : bytes;
                      rl_version : version }

type request = { r_line : request_line; r_headers : headers;
                 r_body : bytes option; r_files : nat list }

val raw_method : method0 -> bytes

val method_to_str : method0 -> bytes

val parse_method : bytes -> method0 option

val raw_version : version -> bytes

val parse_version : bytes -> version option

val media_str : media -> bytes

val parse_media : bytes -> media option

val raw_status : status -> bytes

val all_status : status list

val raw_header : header -> bytes

val header_try_from : bytes -> header option

val uri_try_from : bytes -> (bytes, uri_err) res

val hTTP_SCHEME_PREFIX : bytes

val sLASH : byte

val abs_path : bytes -> bytes

val cOMMA : byte

val encoding_check : bytes -> bytes list -> (unit, req_err) res

val encoding_try_from : bytes -> (unit, req_err) res

val custom_insert :
  bytes -> bytes -> (bytes * bytes) list -> (bytes * bytes) list

val set_content_length : headers -> n -> headers

val set_expect : headers -> headers

val set_chunked : headers -> headers

val set_accept : headers -> media -> headers

val insert_custom : headers -> bytes -> bytes -> headers

val parse_header_line : headers -> bytes -> (headers, req_err) res

val parse_header_tolerant : headers -> bytes -> (headers, req_err) res

val split_crlf_aux : bytes -> bytes -> bytes list

val split_crlf : bytes -> bytes list

val headers_fold : headers -> bytes list -> (headers, req_err) res

val headers_try_from : bytes -> (headers, req_err) res

val split_request_line : bytes -> ((bytes * bytes) * bytes) option

val parse_reqline : bytes -> (request_line, req_err) res

val reqline_min_len : nat

type phase =
| PLine
| PHdr of request_line * headers
| PBody of request_line * headers * bytes * n

type out =
| ORequest of request_line * headers * bytes option
| OContinue of version

type line_res =
| LLine of bytes * bytes
| LTooLong
| LMore

val take_line : nat -> bytes -> line_res

type sres =
| SDone of phase * bytes * out list
| SMore of phase * bytes
| SErr of req_err

val step : nat -> n -> phase -> bytes -> sres

type rres =
| RMore of phase * bytes * out list
| RErr of out list * req_err
| ROutOfFuel

val run : nat -> n -> nat -> phase -> bytes -> out list -> rres

val rank : phase -> bytes -> nat

val runT : nat -> n -> phase -> bytes -> out list -> rres

val parse_stream : nat -> n -> bytes -> rres

val feed : nat -> n -> phase -> bytes -> out list -> bytes list -> rres

type ores =
| OOk of request_line * headers * bytes option
| OErr of req_err
| OPanic of nat

val cRLFCRLF : bytes

val slice_from : bytes -> nat -> bytes option

val slice_to : bytes -> nat -> bytes option

val request_try_from : bytes -> n option -> ores

type response = { rs_version : version; rs_status : status;
                  rs_content_length : z option; rs_content_type : media;
                  rs_deprecation : bool; rs_server : bytes;
                  rs_allow : method0 list; rs_accept_encoding : bool;
                  rs_body : bytes option }

val dEFAULT_SERVER : bytes

val response_new : version -> status -> response

val as_i32 : n -> z

type builder_op =
| SetBody of bytes
| SetContentType of media
| SetDeprecation
| SetEncoding
| SetServer of bytes
| SetAllow of method0 list
| AllowMethod of method0
| SetContentLength of z option

val apply_op : response -> builder_op -> response

val build : version -> status -> builder_op list -> response

val status_line : response -> bytes

val join_methods : method0 list -> bytes

val allow_line : response -> bytes

val deprecation_line : response -> bytes

val header_block : response -> bytes

val serialize : response -> bytes

type sink_ev =
| SkTake of nat
| SkIntr
| SkErr

val write_all :
  sink_ev list -> bytes -> bytes -> (bytes * sink_ev list) option

type cstate =
| WaitingForRequestLine
| WaitingForHeaders
| WaitingForBody
| RequestReady

type conn = { c_state : cstate; c_win : bytes; c_pending : request option;
              c_body_vec : bytes; c_body_left : n; c_parsed : request list;
              c_rq : response list; c_rbuf : bytes option;
              c_files : nat list; c_pmax : n }

val mAX_PAYLOAD_SIZE : n

val conn_new : conn

val set_payload_max_size : conn -> n -> conn

type conn_err =
| ConnectionClosed
| InvalidWrite
| ParseError of req_err
| StreamReadError of z
| StreamWriteError

type read_ev =
| RData of bytes * nat list
| REof of nat list
| RFail of z

type rd_result =
| RdOk
| RdErr of conn_err
| RdPanic of nat

val sub0 : bytes -> nat -> nat -> bytes option

type pres =
| PStep of conn * nat
| PStop of conn
| PErr of conn * req_err
| PPanic of nat

val upd_parse :
  conn -> cstate -> bytes -> request option -> bytes -> n -> conn

val shift_buffer_left : nat -> conn -> bytes -> nat -> pres

val parse_request_line : nat -> conn -> bytes -> nat -> pres

val with_headers : request -> headers -> request

val with_body : request -> bytes option -> request

val with_files : request -> nat list -> request

val parse_headers : nat -> conn -> bytes -> nat -> pres

val parse_body : nat -> conn -> bytes -> nat -> pres

type lres =
| LOk of conn
| LErr of conn * req_err
| LPanic of nat

val read_loop : nat -> nat -> conn -> bytes -> nat -> lres

val reset_parser : conn -> conn

val add_files : conn -> nat list -> conn

val loop_fuel : bytes -> nat

val try_read : nat -> conn -> read_ev -> (conn * rd_result) * bool

type write_ev =
| WWrote of nat
| WIntr
| WFail

type wr_result =
| WrOk
| WrErr of conn_err
| WrPanic of nat

val set_write : conn -> response list -> bytes option -> conn

val clear_write_buffer : conn -> conn

val enqueue_response : conn -> response -> conn

val pending_write : conn -> bool

val pop_parsed_request : conn -> request option * conn

val try_write : conn -> write_ev -> (conn * wr_result) * bytes option

type 'handler routes = { rt_server_id : bytes; rt_prefix : bytes;
                         rt_table : (bytes * 'handler) list }

val routes_new : bytes -> bytes -> 'a1 routes

val route_key : method0 -> bytes -> bytes

val table_get : bytes -> (bytes * 'a1) list -> 'a1 option

val add_route :
  'a1 routes -> method0 -> bytes -> 'a1 -> 'a1 routes * bytes option

val handle_http_request :
  ('a1 -> request -> response) -> 'a1 routes -> request -> 'a1
  option * response
