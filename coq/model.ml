
(** val negb : bool -> bool **)

let negb = function
| true -> false
| false -> true

type nat =
| O
| S of nat

(** val option_map : ('a1 -> 'a2) -> 'a1 option -> 'a2 option **)

let option_map f = function
| Some a -> Some (f a)
| None -> None

(** val fst : ('a1 * 'a2) -> 'a1 **)

let fst = function
| (x, _) -> x

(** val snd : ('a1 * 'a2) -> 'a2 **)

let snd = function
| (_, y) -> y

(** val length : 'a1 list -> nat **)

let rec length = function
| [] -> O
| _ :: l' -> S (length l')

(** val app : 'a1 list -> 'a1 list -> 'a1 list **)

let rec app l m =
  match l with
  | [] -> m
  | a :: l1 -> a :: (app l1 m)

type comparison =
| Eq
| Lt
| Gt

(** val compOpp : comparison -> comparison **)

let compOpp = function
| Eq -> Eq
| Lt -> Gt
| Gt -> Lt

module Coq__1 = struct
 (** val add : nat -> nat -> nat **)
 let rec add n0 m =
   match n0 with
   | O -> m
   | S p -> S (add p m)
end
include Coq__1

(** val mul : nat -> nat -> nat **)

let rec mul n0 m =
  match n0 with
  | O -> O
  | S p -> add m (mul p m)

(** val sub : nat -> nat -> nat **)

let rec sub n0 m =
  match n0 with
  | O -> n0
  | S k -> (match m with
            | O -> n0
            | S l -> sub k l)

module Nat =
 struct
  (** val eqb : nat -> nat -> bool **)

  let rec eqb n0 m =
    match n0 with
    | O -> (match m with
            | O -> true
            | S _ -> false)
    | S n' -> (match m with
               | O -> false
               | S m' -> eqb n' m')

  (** val leb : nat -> nat -> bool **)

  let rec leb n0 m =
    match n0 with
    | O -> true
    | S n' -> (match m with
               | O -> false
               | S m' -> leb n' m')

  (** val ltb : nat -> nat -> bool **)

  let ltb n0 m =
    leb (S n0) m
 end

(** val rev : 'a1 list -> 'a1 list **)

let rec rev = function
| [] -> []
| x :: l' -> app (rev l') (x :: [])

(** val map : ('a1 -> 'a2) -> 'a1 list -> 'a2 list **)

let rec map f = function
| [] -> []
| a :: t -> (f a) :: (map f t)

(** val fold_left : ('a1 -> 'a2 -> 'a1) -> 'a2 list -> 'a1 -> 'a1 **)

let rec fold_left f l a0 =
  match l with
  | [] -> a0
  | b :: t -> fold_left f t (f a0 b)

(** val firstn : nat -> 'a1 list -> 'a1 list **)

let rec firstn n0 l =
  match n0 with
  | O -> []
  | S n1 -> (match l with
             | [] -> []
             | a :: l0 -> a :: (firstn n1 l0))

(** val skipn : nat -> 'a1 list -> 'a1 list **)

let rec skipn n0 l =
  match n0 with
  | O -> l
  | S n1 -> (match l with
             | [] -> []
             | _ :: l0 -> skipn n1 l0)

type positive =
| XI of positive
| XO of positive
| XH

type n =
| N0
| Npos of positive

type z =
| Z0
| Zpos of positive
| Zneg of positive

module Pos =
 struct
  type mask =
  | IsNul
  | IsPos of positive
  | IsNeg
 end

module Coq_Pos =
 struct
  (** val succ : positive -> positive **)

  let rec succ = function
  | XI p -> XO (succ p)
  | XO p -> XI p
  | XH -> XO XH

  (** val add : positive -> positive -> positive **)

  let rec add x y =
    match x with
    | XI p ->
      (match y with
       | XI q -> XO (add_carry p q)
       | XO q -> XI (add p q)
       | XH -> XO (succ p))
    | XO p ->
      (match y with
       | XI q -> XI (add p q)
       | XO q -> XO (add p q)
       | XH -> XI p)
    | XH -> (match y with
             | XI q -> XO (succ q)
             | XO q -> XI q
             | XH -> XO XH)

  (** val add_carry : positive -> positive -> positive **)

  and add_carry x y =
    match x with
    | XI p ->
      (match y with
       | XI q -> XI (add_carry p q)
       | XO q -> XO (add_carry p q)
       | XH -> XI (succ p))
    | XO p ->
      (match y with
       | XI q -> XO (add_carry p q)
       | XO q -> XI (add p q)
       | XH -> XO (succ p))
    | XH ->
      (match y with
       | XI q -> XI (succ q)
       | XO q -> XO (succ q)
       | XH -> XI XH)

  (** val pred_double : positive -> positive **)

  let rec pred_double = function
  | XI p -> XI (XO p)
  | XO p -> XI (pred_double p)
  | XH -> XH

  type mask = Pos.mask =
  | IsNul
  | IsPos of positive
  | IsNeg

  (** val succ_double_mask : mask -> mask **)

  let succ_double_mask = function
  | IsNul -> IsPos XH
  | IsPos p -> IsPos (XI p)
  | IsNeg -> IsNeg

  (** val double_mask : mask -> mask **)

  let double_mask = function
  | IsPos p -> IsPos (XO p)
  | x0 -> x0

  (** val double_pred_mask : positive -> mask **)

  let double_pred_mask = function
  | XI p -> IsPos (XO (XO p))
  | XO p -> IsPos (XO (pred_double p))
  | XH -> IsNul

  (** val sub_mask : positive -> positive -> mask **)

  let rec sub_mask x y =
    match x with
    | XI p ->
      (match y with
       | XI q -> double_mask (sub_mask p q)
       | XO q -> succ_double_mask (sub_mask p q)
       | XH -> IsPos (XO p))
    | XO p ->
      (match y with
       | XI q -> succ_double_mask (sub_mask_carry p q)
       | XO q -> double_mask (sub_mask p q)
       | XH -> IsPos (pred_double p))
    | XH -> (match y with
             | XH -> IsNul
             | _ -> IsNeg)

  (** val sub_mask_carry : positive -> positive -> mask **)

  and sub_mask_carry x y =
    match x with
    | XI p ->
      (match y with
       | XI q -> succ_double_mask (sub_mask_carry p q)
       | XO q -> double_mask (sub_mask p q)
       | XH -> IsPos (pred_double p))
    | XO p ->
      (match y with
       | XI q -> double_mask (sub_mask_carry p q)
       | XO q -> succ_double_mask (sub_mask_carry p q)
       | XH -> double_pred_mask p)
    | XH -> IsNeg

  (** val mul : positive -> positive -> positive **)

  let rec mul x y =
    match x with
    | XI p -> add y (XO (mul p y))
    | XO p -> XO (mul p y)
    | XH -> y

  (** val size_nat : positive -> nat **)

  let rec size_nat = function
  | XI p0 -> S (size_nat p0)
  | XO p0 -> S (size_nat p0)
  | XH -> S O

  (** val compare_cont : comparison -> positive -> positive -> comparison **)

  let rec compare_cont r x y =
    match x with
    | XI p ->
      (match y with
       | XI q -> compare_cont r p q
       | XO q -> compare_cont Gt p q
       | XH -> Gt)
    | XO p ->
      (match y with
       | XI q -> compare_cont Lt p q
       | XO q -> compare_cont r p q
       | XH -> Gt)
    | XH -> (match y with
             | XH -> r
             | _ -> Lt)

  (** val compare : positive -> positive -> comparison **)

  let compare =
    compare_cont Eq

  (** val eqb : positive -> positive -> bool **)

  let rec eqb p q =
    match p with
    | XI p0 -> (match q with
                | XI q0 -> eqb p0 q0
                | _ -> false)
    | XO p0 -> (match q with
                | XO q0 -> eqb p0 q0
                | _ -> false)
    | XH -> (match q with
             | XH -> true
             | _ -> false)

  (** val iter_op : ('a1 -> 'a1 -> 'a1) -> positive -> 'a1 -> 'a1 **)

  let rec iter_op op p a =
    match p with
    | XI p0 -> op a (iter_op op p0 (op a a))
    | XO p0 -> iter_op op p0 (op a a)
    | XH -> a

  (** val to_nat : positive -> nat **)

  let to_nat x =
    iter_op Coq__1.add x (S O)

  (** val of_succ_nat : nat -> positive **)

  let rec of_succ_nat = function
  | O -> XH
  | S x -> succ (of_succ_nat x)
 end

module N =
 struct
  (** val succ_double : n -> n **)

  let succ_double = function
  | N0 -> Npos XH
  | Npos p -> Npos (XI p)

  (** val double : n -> n **)

  let double = function
  | N0 -> N0
  | Npos p -> Npos (XO p)

  (** val add : n -> n -> n **)

  let add n0 m =
    match n0 with
    | N0 -> m
    | Npos p -> (match m with
                 | N0 -> n0
                 | Npos q -> Npos (Coq_Pos.add p q))

  (** val sub : n -> n -> n **)

  let sub n0 m =
    match n0 with
    | N0 -> N0
    | Npos n' ->
      (match m with
       | N0 -> n0
       | Npos m' ->
         (match Coq_Pos.sub_mask n' m' with
          | Coq_Pos.IsPos p -> Npos p
          | _ -> N0))

  (** val mul : n -> n -> n **)

  let mul n0 m =
    match n0 with
    | N0 -> N0
    | Npos p -> (match m with
                 | N0 -> N0
                 | Npos q -> Npos (Coq_Pos.mul p q))

  (** val compare : n -> n -> comparison **)

  let compare n0 m =
    match n0 with
    | N0 -> (match m with
             | N0 -> Eq
             | Npos _ -> Lt)
    | Npos n' -> (match m with
                  | N0 -> Gt
                  | Npos m' -> Coq_Pos.compare n' m')

  (** val eqb : n -> n -> bool **)

  let eqb n0 m =
    match n0 with
    | N0 -> (match m with
             | N0 -> true
             | Npos _ -> false)
    | Npos p -> (match m with
                 | N0 -> false
                 | Npos q -> Coq_Pos.eqb p q)

  (** val leb : n -> n -> bool **)

  let leb x y =
    match compare x y with
    | Gt -> false
    | _ -> true

  (** val ltb : n -> n -> bool **)

  let ltb x y =
    match compare x y with
    | Lt -> true
    | _ -> false

  (** val size_nat : n -> nat **)

  let size_nat = function
  | N0 -> O
  | Npos p -> Coq_Pos.size_nat p

  (** val pos_div_eucl : positive -> n -> n * n **)

  let rec pos_div_eucl a b =
    match a with
    | XI a' ->
      let (q, r) = pos_div_eucl a' b in
      let r' = succ_double r in
      if leb b r' then ((succ_double q), (sub r' b)) else ((double q), r')
    | XO a' ->
      let (q, r) = pos_div_eucl a' b in
      let r' = double r in
      if leb b r' then ((succ_double q), (sub r' b)) else ((double q), r')
    | XH ->
      (match b with
       | N0 -> (N0, (Npos XH))
       | Npos p -> (match p with
                    | XH -> ((Npos XH), N0)
                    | _ -> (N0, (Npos XH))))

  (** val div_eucl : n -> n -> n * n **)

  let div_eucl a b =
    match a with
    | N0 -> (N0, N0)
    | Npos na -> (match b with
                  | N0 -> (N0, a)
                  | Npos _ -> pos_div_eucl na b)

  (** val div : n -> n -> n **)

  let div a b =
    fst (div_eucl a b)

  (** val modulo : n -> n -> n **)

  let modulo a b =
    snd (div_eucl a b)

  (** val to_nat : n -> nat **)

  let to_nat = function
  | N0 -> O
  | Npos p -> Coq_Pos.to_nat p

  (** val of_nat : nat -> n **)

  let of_nat = function
  | O -> N0
  | S n' -> Npos (Coq_Pos.of_succ_nat n')
 end

type ascii =
| Ascii of bool * bool * bool * bool * bool * bool * bool * bool

(** val n_of_digits : bool list -> n **)

let rec n_of_digits = function
| [] -> N0
| b :: l' ->
  N.add (if b then Npos XH else N0) (N.mul (Npos (XO XH)) (n_of_digits l'))

(** val n_of_ascii : ascii -> n **)

let n_of_ascii = function
| Ascii (a0, a1, a2, a3, a4, a5, a6, a7) ->
  n_of_digits
    (a0 :: (a1 :: (a2 :: (a3 :: (a4 :: (a5 :: (a6 :: (a7 :: []))))))))

module Z =
 struct
  (** val double : z -> z **)

  let double = function
  | Z0 -> Z0
  | Zpos p -> Zpos (XO p)
  | Zneg p -> Zneg (XO p)

  (** val succ_double : z -> z **)

  let succ_double = function
  | Z0 -> Zpos XH
  | Zpos p -> Zpos (XI p)
  | Zneg p -> Zneg (Coq_Pos.pred_double p)

  (** val pred_double : z -> z **)

  let pred_double = function
  | Z0 -> Zneg XH
  | Zpos p -> Zpos (Coq_Pos.pred_double p)
  | Zneg p -> Zneg (XI p)

  (** val pos_sub : positive -> positive -> z **)

  let rec pos_sub x y =
    match x with
    | XI p ->
      (match y with
       | XI q -> double (pos_sub p q)
       | XO q -> succ_double (pos_sub p q)
       | XH -> Zpos (XO p))
    | XO p ->
      (match y with
       | XI q -> pred_double (pos_sub p q)
       | XO q -> double (pos_sub p q)
       | XH -> Zpos (Coq_Pos.pred_double p))
    | XH ->
      (match y with
       | XI q -> Zneg (XO q)
       | XO q -> Zneg (Coq_Pos.pred_double q)
       | XH -> Z0)

  (** val add : z -> z -> z **)

  let add x y =
    match x with
    | Z0 -> y
    | Zpos x' ->
      (match y with
       | Z0 -> x
       | Zpos y' -> Zpos (Coq_Pos.add x' y')
       | Zneg y' -> pos_sub x' y')
    | Zneg x' ->
      (match y with
       | Z0 -> x
       | Zpos y' -> pos_sub y' x'
       | Zneg y' -> Zneg (Coq_Pos.add x' y'))

  (** val opp : z -> z **)

  let opp = function
  | Z0 -> Z0
  | Zpos x0 -> Zneg x0
  | Zneg x0 -> Zpos x0

  (** val sub : z -> z -> z **)

  let sub m n0 =
    add m (opp n0)

  (** val mul : z -> z -> z **)

  let mul x y =
    match x with
    | Z0 -> Z0
    | Zpos x' ->
      (match y with
       | Z0 -> Z0
       | Zpos y' -> Zpos (Coq_Pos.mul x' y')
       | Zneg y' -> Zneg (Coq_Pos.mul x' y'))
    | Zneg x' ->
      (match y with
       | Z0 -> Z0
       | Zpos y' -> Zneg (Coq_Pos.mul x' y')
       | Zneg y' -> Zpos (Coq_Pos.mul x' y'))

  (** val compare : z -> z -> comparison **)

  let compare x y =
    match x with
    | Z0 -> (match y with
             | Z0 -> Eq
             | Zpos _ -> Lt
             | Zneg _ -> Gt)
    | Zpos x' -> (match y with
                  | Zpos y' -> Coq_Pos.compare x' y'
                  | _ -> Gt)
    | Zneg x' ->
      (match y with
       | Zneg y' -> compOpp (Coq_Pos.compare x' y')
       | _ -> Lt)

  (** val leb : z -> z -> bool **)

  let leb x y =
    match compare x y with
    | Gt -> false
    | _ -> true

  (** val ltb : z -> z -> bool **)

  let ltb x y =
    match compare x y with
    | Lt -> true
    | _ -> false

  (** val of_N : n -> z **)

  let of_N = function
  | N0 -> Z0
  | Npos p -> Zpos p

  (** val pos_div_eucl : positive -> z -> z * z **)

  let rec pos_div_eucl a b =
    match a with
    | XI a' ->
      let (q, r) = pos_div_eucl a' b in
      let r' = add (mul (Zpos (XO XH)) r) (Zpos XH) in
      if ltb r' b
      then ((mul (Zpos (XO XH)) q), r')
      else ((add (mul (Zpos (XO XH)) q) (Zpos XH)), (sub r' b))
    | XO a' ->
      let (q, r) = pos_div_eucl a' b in
      let r' = mul (Zpos (XO XH)) r in
      if ltb r' b
      then ((mul (Zpos (XO XH)) q), r')
      else ((add (mul (Zpos (XO XH)) q) (Zpos XH)), (sub r' b))
    | XH -> if leb (Zpos (XO XH)) b then (Z0, (Zpos XH)) else ((Zpos XH), Z0)

  (** val div_eucl : z -> z -> z * z **)

  let div_eucl a b =
    match a with
    | Z0 -> (Z0, Z0)
    | Zpos a' ->
      (match b with
       | Z0 -> (Z0, a)
       | Zpos _ -> pos_div_eucl a' b
       | Zneg b' ->
         let (q, r) = pos_div_eucl a' (Zpos b') in
         (match r with
          | Z0 -> ((opp q), Z0)
          | _ -> ((opp (add q (Zpos XH))), (add b r))))
    | Zneg a' ->
      (match b with
       | Z0 -> (Z0, a)
       | Zpos _ ->
         let (q, r) = pos_div_eucl a' b in
         (match r with
          | Z0 -> ((opp q), Z0)
          | _ -> ((opp (add q (Zpos XH))), (sub b r)))
       | Zneg b' -> let (q, r) = pos_div_eucl a' (Zpos b') in (q, (opp r)))

  (** val modulo : z -> z -> z **)

  let modulo a b =
    let (_, r) = div_eucl a b in r
 end

type string =
| EmptyString
| String of ascii * string

type byte = n

type bytes = n list

(** val cR : byte **)

let cR =
  Npos (XI (XO (XI XH)))

(** val lF : byte **)

let lF =
  Npos (XO (XI (XO XH)))

(** val sP : byte **)

let sP =
  Npos (XO (XO (XO (XO (XO XH)))))

(** val cOLON : byte **)

let cOLON =
  Npos (XO (XI (XO (XI (XI XH)))))

(** val cRLF : bytes **)

let cRLF =
  cR :: (lF :: [])

(** val beq : bytes -> bytes -> bool **)

let rec beq a b =
  match a with
  | [] -> (match b with
           | [] -> true
           | _ :: _ -> false)
  | x :: a' ->
    (match b with
     | [] -> false
     | y :: b' -> (&&) (N.eqb x y) (beq a' b'))

(** val prefixb : bytes -> bytes -> bool **)

let rec prefixb p l =
  match p with
  | [] -> true
  | x :: p' ->
    (match l with
     | [] -> false
     | y :: l' -> (&&) (N.eqb x y) (prefixb p' l'))

(** val find : bytes -> bytes -> nat option **)

let rec find p w = match w with
| [] -> None
| _ :: t ->
  if prefixb p w then Some O else option_map (fun x -> S x) (find p t)

(** val find_crlf : bytes -> nat option **)

let find_crlf w =
  find cRLF w

(** val position : byte -> bytes -> nat option **)

let rec position c = function
| [] -> None
| a :: t ->
  if N.eqb a c then Some O else option_map (fun x -> S x) (position c t)

(** val containsb : bytes -> bytes -> bool **)

let containsb p w =
  match p with
  | [] -> true
  | _ :: _ -> (match find p w with
               | Some _ -> true
               | None -> false)

(** val split_at : byte -> bytes -> (bytes * bytes) option **)

let rec split_at c = function
| [] -> None
| a :: t ->
  if N.eqb a c
  then Some ([], t)
  else (match split_at c t with
        | Some p -> let (x, y) = p in Some ((a :: x), y)
        | None -> None)

(** val split_on : byte -> bytes -> bytes list **)

let rec split_on c = function
| [] -> [] :: []
| a :: t ->
  if N.eqb a c
  then [] :: (split_on c t)
  else (match split_on c t with
        | [] -> (a :: []) :: []
        | x :: r -> (a :: x) :: r)

(** val lenN : bytes -> n **)

let lenN l =
  N.of_nat (length l)

(** val dec_fuel : nat -> n -> bytes -> bytes **)

let rec dec_fuel fuel n0 acc =
  match fuel with
  | O -> acc
  | S f ->
    if N.ltb n0 (Npos (XO (XI (XO XH))))
    then (N.add (Npos (XO (XO (XO (XO (XI XH)))))) n0) :: acc
    else dec_fuel f (N.div n0 (Npos (XO (XI (XO XH)))))
           ((N.add (Npos (XO (XO (XO (XO (XI XH))))))
              (N.modulo n0 (Npos (XO (XI (XO XH)))))) :: acc)

(** val dec : n -> bytes **)

let dec n0 =
  dec_fuel (S (N.size_nat n0)) n0 []

(** val decZ : z -> bytes **)

let decZ = function
| Z0 -> dec N0
| Zpos p -> dec (Npos p)
| Zneg p -> (Npos (XI (XO (XI (XI (XO XH)))))) :: (dec (Npos p))

(** val in_range : n -> n -> n -> bool **)

let in_range lo hi b =
  (&&) (N.leb lo b) (N.leb b hi)

(** val is_cont : n -> bool **)

let is_cont b =
  in_range (Npos (XO (XO (XO (XO (XO (XO (XO XH)))))))) (Npos (XI (XI (XI (XI
    (XI (XI (XO XH)))))))) b

(** val utf8_valid : bytes -> bool **)

let rec utf8_valid = function
| [] -> true
| b0 :: r0 ->
  if N.leb b0 (Npos (XI (XI (XI (XI (XI (XI XH)))))))
  then utf8_valid r0
  else if in_range (Npos (XO (XI (XO (XO (XO (XO (XI XH)))))))) (Npos (XI (XI
            (XI (XI (XI (XO (XI XH)))))))) b0
       then (match r0 with
             | [] -> false
             | b1 :: r1 -> (&&) (is_cont b1) (utf8_valid r1))
       else if in_range (Npos (XO (XO (XO (XO (XO (XI (XI XH)))))))) (Npos
                 (XI (XI (XI (XI (XO (XI (XI XH)))))))) b0
            then (match r0 with
                  | [] -> false
                  | b1 :: l0 ->
                    (match l0 with
                     | [] -> false
                     | b2 :: r2 ->
                       (&&)
                         ((&&)
                           (if N.eqb b0 (Npos (XO (XO (XO (XO (XO (XI (XI
                                 XH))))))))
                            then in_range (Npos (XO (XO (XO (XO (XO (XI (XO
                                   XH)))))))) (Npos (XI (XI (XI (XI (XI (XI
                                   (XO XH)))))))) b1
                            else if N.eqb b0 (Npos (XI (XO (XI (XI (XO (XI
                                      (XI XH))))))))
                                 then in_range (Npos (XO (XO (XO (XO (XO (XO
                                        (XO XH)))))))) (Npos (XI (XI (XI (XI
                                        (XI (XO (XO XH)))))))) b1
                                 else is_cont b1) (is_cont b2))
                         (utf8_valid r2)))
            else if in_range (Npos (XO (XO (XO (XO (XI (XI (XI XH))))))))
                      (Npos (XO (XO (XI (XO (XI (XI (XI XH)))))))) b0
                 then (match r0 with
                       | [] -> false
                       | b1 :: l0 ->
                         (match l0 with
                          | [] -> false
                          | b2 :: l1 ->
                            (match l1 with
                             | [] -> false
                             | b3 :: r3 ->
                               (&&)
                                 ((&&)
                                   ((&&)
                                     (if N.eqb b0 (Npos (XO (XO (XO (XO (XI
                                           (XI (XI XH))))))))
                                      then in_range (Npos (XO (XO (XO (XO (XI
                                             (XO (XO XH)))))))) (Npos (XI (XI
                                             (XI (XI (XI (XI (XO XH)))))))) b1
                                      else if N.eqb b0 (Npos (XO (XO (XI (XO
                                                (XI (XI (XI XH))))))))
                                           then in_range (Npos (XO (XO (XO
                                                  (XO (XO (XO (XO XH))))))))
                                                  (Npos (XI (XI (XI (XI (XO
                                                  (XO (XO XH)))))))) b1
                                           else is_cont b1) (is_cont b2))
                                   (is_cont b3)) (utf8_valid r3))))
                 else false

(** val is_ascii_ws : n -> bool **)

let is_ascii_ws b =
  (||) (in_range (Npos (XI (XO (XO XH)))) (Npos (XI (XO (XI XH)))) b)
    (N.eqb b (Npos (XO (XO (XO (XO (XO XH)))))))

(** val ws2 : n -> n -> bool **)

let ws2 a b =
  (&&) (N.eqb a (Npos (XO (XI (XO (XO (XO (XO (XI XH)))))))))
    ((||) (N.eqb b (Npos (XI (XO (XI (XO (XO (XO (XO XH)))))))))
      (N.eqb b (Npos (XO (XO (XO (XO (XO (XI (XO XH))))))))))

(** val ws3 : n -> n -> n -> bool **)

let ws3 a b c =
  (||)
    ((||)
      ((||)
        ((&&)
          ((&&) (N.eqb a (Npos (XI (XO (XO (XO (XO (XI (XI XH)))))))))
            (N.eqb b (Npos (XO (XI (XO (XI (XI (XO (XO XH))))))))))
          (N.eqb c (Npos (XO (XO (XO (XO (XO (XO (XO XH))))))))))
        ((&&)
          ((&&) (N.eqb a (Npos (XO (XI (XO (XO (XO (XI (XI XH)))))))))
            (N.eqb b (Npos (XO (XO (XO (XO (XO (XO (XO XH))))))))))
          ((||)
            ((||)
              ((||)
                (in_range (Npos (XO (XO (XO (XO (XO (XO (XO XH)))))))) (Npos
                  (XO (XI (XO (XI (XO (XO (XO XH)))))))) c)
                (N.eqb c (Npos (XO (XO (XO (XI (XO (XI (XO XH))))))))))
              (N.eqb c (Npos (XI (XO (XO (XI (XO (XI (XO XH))))))))))
            (N.eqb c (Npos (XI (XI (XI (XI (XO (XI (XO XH))))))))))))
      ((&&)
        ((&&) (N.eqb a (Npos (XO (XI (XO (XO (XO (XI (XI XH)))))))))
          (N.eqb b (Npos (XI (XO (XO (XO (XO (XO (XO XH))))))))))
        (N.eqb c (Npos (XI (XI (XI (XI (XI (XO (XO XH)))))))))))
    ((&&)
      ((&&) (N.eqb a (Npos (XI (XI (XO (XO (XO (XI (XI XH)))))))))
        (N.eqb b (Npos (XO (XO (XO (XO (XO (XO (XO XH))))))))))
      (N.eqb c (Npos (XO (XO (XO (XO (XO (XO (XO XH))))))))))

(** val strip_ws_prefix : bytes -> bytes option **)

let strip_ws_prefix = function
| [] -> None
| a :: r0 ->
  if is_ascii_ws a
  then Some r0
  else (match r0 with
        | [] -> None
        | b :: r1 ->
          if ws2 a b
          then Some r1
          else (match r1 with
                | [] -> None
                | c :: r2 -> if ws3 a b c then Some r2 else None))

(** val strip_ws_suffix_rev : bytes -> bytes option **)

let strip_ws_suffix_rev = function
| [] -> None
| c :: r0 ->
  if is_ascii_ws c
  then Some r0
  else (match r0 with
        | [] -> None
        | b :: r1 ->
          if ws2 b c
          then Some r1
          else (match r1 with
                | [] -> None
                | a :: r2 -> if ws3 a b c then Some r2 else None))

(** val iter_strip : (bytes -> bytes option) -> nat -> bytes -> bytes **)

let rec iter_strip strip fuel l =
  match fuel with
  | O -> l
  | S f -> (match strip l with
            | Some r -> iter_strip strip f r
            | None -> l)

(** val trim_start : bytes -> bytes **)

let trim_start l =
  iter_strip strip_ws_prefix (length l) l

(** val trim_end : bytes -> bytes **)

let trim_end l =
  rev (iter_strip strip_ws_suffix_rev (length l) (rev l))

(** val trim : bytes -> bytes **)

let trim l =
  trim_end (trim_start l)

(** val lower_byte : n -> n **)

let lower_byte b =
  if in_range (Npos (XI (XO (XO (XO (XO (XO XH))))))) (Npos (XO (XI (XO (XI
       (XI (XO XH))))))) b
  then N.add b (Npos (XO (XO (XO (XO (XO XH))))))
  else b

(** val ascii_lower : bytes -> bytes **)

let ascii_lower l =
  map lower_byte l

(** val is_digit : n -> bool **)

let is_digit b =
  in_range (Npos (XO (XO (XO (XO (XI XH)))))) (Npos (XI (XO (XO (XI (XI
    XH)))))) b

(** val digits_value : n -> bytes -> n option **)

let rec digits_value acc = function
| [] -> Some acc
| d :: r ->
  if is_digit d
  then digits_value
         (N.add (N.mul acc (Npos (XO (XI (XO XH)))))
           (N.sub d (Npos (XO (XO (XO (XO (XI XH)))))))) r
  else None

(** val u32_LIMIT : n **)

let u32_LIMIT =
  Npos (XO (XO (XO (XO (XO (XO (XO (XO (XO (XO (XO (XO (XO (XO (XO (XO (XO
    (XO (XO (XO (XO (XO (XO (XO (XO (XO (XO (XO (XO (XO (XO (XO
    XH))))))))))))))))))))))))))))))))

(** val parse_u32 : bytes -> n option **)

let parse_u32 s =
  let ds =
    match s with
    | [] -> s
    | n0 :: r ->
      (match n0 with
       | N0 -> s
       | Npos p ->
         (match p with
          | XI p0 ->
            (match p0 with
             | XI p1 ->
               (match p1 with
                | XO p2 ->
                  (match p2 with
                   | XI p3 ->
                     (match p3 with
                      | XO p4 -> (match p4 with
                                  | XH -> r
                                  | _ -> s)
                      | _ -> s)
                   | _ -> s)
                | _ -> s)
             | _ -> s)
          | _ -> s))
  in
  (match ds with
   | [] -> None
   | _ :: _ ->
     (match digits_value N0 ds with
      | Some v -> if N.ltb v u32_LIMIT then Some v else None
      | None -> None))

(** val bytes_of_string : string -> bytes **)

let rec bytes_of_string = function
| EmptyString -> []
| String (a, r) -> (n_of_ascii a) :: (bytes_of_string r)

type method0 =
| Get
| Put
| Patch

type version =
| Http10
| Http11

type media =
| PlainText
| ApplicationJson

type status =
| Continue
| OK
| NoContent
| BadRequest
| Unauthorized
| NotFound
| MethodNotAllowed
| PayloadTooLarge
| InternalServerError
| NotImplemented
| ServiceUnavailable

type header =
| HContentLength
| HContentType
| HExpect
| HTransferEncoding
| HServer
| HAccept
| HAcceptEncoding

type hdr_err =
| InvalidFormat of bytes
| InvalidUtf8String of bytes
| InvalidValue of bytes * bytes
| HSizeLimitExceeded of bytes
| UnsupportedFeature of bytes * bytes
| UnsupportedName of bytes
| UnsupportedValue of bytes * bytes

type uri_err =
| UriEmpty
| UriNotUtf8

type req_err =
| BodyWithoutPendingRequest
| HeaderError of hdr_err
| HeadersWithoutPendingRequest
| InvalidHttpMethod
| InvalidHttpVersion
| InvalidRequest
| InvalidUri of uri_err
| Overflow
| Underflow
| SizeLimitExceeded of n * n

type ('a, 'e) res =
| Ok of 'a
| Err of 'e

(** val method_eqb : method0 -> method0 -> bool **)

let method_eqb a b =
  match a with
  | Get -> (match b with
            | Get -> true
            | _ -> false)
  | Put -> (match b with
            | Put -> true
            | _ -> false)
  | Patch -> (match b with
              | Patch -> true
              | _ -> false)

type headers = { h_content_length : n; h_expect : bool; h_chunked : bool;
                 h_accept : media; h_custom : (bytes * bytes) list }

(** val headers_default : headers **)

let headers_default =
  { h_content_length = N0; h_expect = false; h_chunked = false; h_accept =
    PlainText; h_custom = [] }

type request_line = { rl_method : method0; rl_uri : bytes;
                      rl_version : version }

type request = { r_line : request_line; r_headers : headers;
                 r_body : bytes option; r_files : nat list }

(** val raw_method : method0 -> bytes **)

let raw_method = function
| Get ->
  bytes_of_string (String ((Ascii (true, true, true, false, false, false,
    true, false)), (String ((Ascii (true, false, true, false, false, false,
    true, false)), (String ((Ascii (false, false, true, false, true, false,
    true, false)), EmptyString))))))
| Put ->
  bytes_of_string (String ((Ascii (false, false, false, false, true, false,
    true, false)), (String ((Ascii (true, false, true, false, true, false,
    true, false)), (String ((Ascii (false, false, true, false, true, false,
    true, false)), EmptyString))))))
| Patch ->
  bytes_of_string (String ((Ascii (false, false, false, false, true, false,
    true, false)), (String ((Ascii (true, false, false, false, false, false,
    true, false)), (String ((Ascii (false, false, true, false, true, false,
    true, false)), (String ((Ascii (true, true, false, false, false, false,
    true, false)), (String ((Ascii (false, false, false, true, false, false,
    true, false)), EmptyString))))))))))

(** val method_to_str : method0 -> bytes **)

let method_to_str =
  raw_method

(** val parse_method : bytes -> method0 option **)

let parse_method bs =
  if beq bs
       (bytes_of_string (String ((Ascii (true, true, true, false, false,
         false, true, false)), (String ((Ascii (true, false, true, false,
         false, false, true, false)), (String ((Ascii (false, false, true,
         false, true, false, true, false)), EmptyString)))))))
  then Some Get
  else if beq bs
            (bytes_of_string (String ((Ascii (false, false, false, false,
              true, false, true, false)), (String ((Ascii (true, false, true,
              false, true, false, true, false)), (String ((Ascii (false,
              false, true, false, true, false, true, false)),
              EmptyString)))))))
       then Some Put
       else if beq bs
                 (bytes_of_string (String ((Ascii (false, false, false,
                   false, true, false, true, false)), (String ((Ascii (true,
                   false, false, false, false, false, true, false)), (String
                   ((Ascii (false, false, true, false, true, false, true,
                   false)), (String ((Ascii (true, true, false, false, false,
                   false, true, false)), (String ((Ascii (false, false,
                   false, true, false, false, true, false)),
                   EmptyString)))))))))))
            then Some Patch
            else None

(** val raw_version : version -> bytes **)

let raw_version = function
| Http10 ->
  bytes_of_string (String ((Ascii (false, false, false, true, false, false,
    true, false)), (String ((Ascii (false, false, true, false, true, false,
    true, false)), (String ((Ascii (false, false, true, false, true, false,
    true, false)), (String ((Ascii (false, false, false, false, true, false,
    true, false)), (String ((Ascii (true, true, true, true, false, true,
    false, false)), (String ((Ascii (true, false, false, false, true, true,
    false, false)), (String ((Ascii (false, true, true, true, false, true,
    false, false)), (String ((Ascii (false, false, false, false, true, true,
    false, false)), EmptyString))))))))))))))))
| Http11 ->
  bytes_of_string (String ((Ascii (false, false, false, true, false, false,
    true, false)), (String ((Ascii (false, false, true, false, true, false,
    true, false)), (String ((Ascii (false, false, true, false, true, false,
    true, false)), (String ((Ascii (false, false, false, false, true, false,
    true, false)), (String ((Ascii (true, true, true, true, false, true,
    false, false)), (String ((Ascii (true, false, false, false, true, true,
    false, false)), (String ((Ascii (false, true, true, true, false, true,
    false, false)), (String ((Ascii (true, false, false, false, true, true,
    false, false)), EmptyString))))))))))))))))

(** val parse_version : bytes -> version option **)

let parse_version bs =
  if beq bs
       (bytes_of_string (String ((Ascii (false, false, false, true, false,
         false, true, false)), (String ((Ascii (false, false, true, false,
         true, false, true, false)), (String ((Ascii (false, false, true,
         false, true, false, true, false)), (String ((Ascii (false, false,
         false, false, true, false, true, false)), (String ((Ascii (true,
         true, true, true, false, true, false, false)), (String ((Ascii
         (true, false, false, false, true, true, false, false)), (String
         ((Ascii (false, true, true, true, false, true, false, false)),
         (String ((Ascii (false, false, false, false, true, true, false,
         false)), EmptyString)))))))))))))))))
  then Some Http10
  else if beq bs
            (bytes_of_string (String ((Ascii (false, false, false, true,
              false, false, true, false)), (String ((Ascii (false, false,
              true, false, true, false, true, false)), (String ((Ascii
              (false, false, true, false, true, false, true, false)), (String
              ((Ascii (false, false, false, false, true, false, true,
              false)), (String ((Ascii (true, true, true, true, false, true,
              false, false)), (String ((Ascii (true, false, false, false,
              true, true, false, false)), (String ((Ascii (false, true, true,
              true, false, true, false, false)), (String ((Ascii (true,
              false, false, false, true, true, false, false)),
              EmptyString)))))))))))))))))
       then Some Http11
       else None

(** val media_str : media -> bytes **)

let media_str = function
| PlainText ->
  bytes_of_string (String ((Ascii (false, false, true, false, true, true,
    true, false)), (String ((Ascii (true, false, true, false, false, true,
    true, false)), (String ((Ascii (false, false, false, true, true, true,
    true, false)), (String ((Ascii (false, false, true, false, true, true,
    true, false)), (String ((Ascii (true, true, true, true, false, true,
    false, false)), (String ((Ascii (false, false, false, false, true, true,
    true, false)), (String ((Ascii (false, false, true, true, false, true,
    true, false)), (String ((Ascii (true, false, false, false, false, true,
    true, false)), (String ((Ascii (true, false, false, true, false, true,
    true, false)), (String ((Ascii (false, true, true, true, false, true,
    true, false)), EmptyString))))))))))))))))))))
| ApplicationJson ->
  bytes_of_string (String ((Ascii (true, false, false, false, false, true,
    true, false)), (String ((Ascii (false, false, false, false, true, true,
    true, false)), (String ((Ascii (false, false, false, false, true, true,
    true, false)), (String ((Ascii (false, false, true, true, false, true,
    true, false)), (String ((Ascii (true, false, false, true, false, true,
    true, false)), (String ((Ascii (true, true, false, false, false, true,
    true, false)), (String ((Ascii (true, false, false, false, false, true,
    true, false)), (String ((Ascii (false, false, true, false, true, true,
    true, false)), (String ((Ascii (true, false, false, true, false, true,
    true, false)), (String ((Ascii (true, true, true, true, false, true,
    true, false)), (String ((Ascii (false, true, true, true, false, true,
    true, false)), (String ((Ascii (true, true, true, true, false, true,
    false, false)), (String ((Ascii (false, true, false, true, false, true,
    true, false)), (String ((Ascii (true, true, false, false, true, true,
    true, false)), (String ((Ascii (true, true, true, true, false, true,
    true, false)), (String ((Ascii (false, true, true, true, false, true,
    true, false)), EmptyString))))))))))))))))))))))))))))))))

(** val parse_media : bytes -> media option **)

let parse_media bs = match bs with
| [] -> None
| _ :: _ ->
  if utf8_valid bs
  then let t = trim bs in
       if beq t
            (bytes_of_string (String ((Ascii (false, false, true, false,
              true, true, true, false)), (String ((Ascii (true, false, true,
              false, false, true, true, false)), (String ((Ascii (false,
              false, false, true, true, true, true, false)), (String ((Ascii
              (false, false, true, false, true, true, true, false)), (String
              ((Ascii (true, true, true, true, false, true, false, false)),
              (String ((Ascii (false, false, false, false, true, true, true,
              false)), (String ((Ascii (false, false, true, true, false,
              true, true, false)), (String ((Ascii (true, false, false,
              false, false, true, true, false)), (String ((Ascii (true,
              false, false, true, false, true, true, false)), (String ((Ascii
              (false, true, true, true, false, true, true, false)),
              EmptyString)))))))))))))))))))))
       then Some PlainText
       else if beq t
                 (bytes_of_string (String ((Ascii (true, false, false, false,
                   false, true, true, false)), (String ((Ascii (false, false,
                   false, false, true, true, true, false)), (String ((Ascii
                   (false, false, false, false, true, true, true, false)),
                   (String ((Ascii (false, false, true, true, false, true,
                   true, false)), (String ((Ascii (true, false, false, true,
                   false, true, true, false)), (String ((Ascii (true, true,
                   false, false, false, true, true, false)), (String ((Ascii
                   (true, false, false, false, false, true, true, false)),
                   (String ((Ascii (false, false, true, false, true, true,
                   true, false)), (String ((Ascii (true, false, false, true,
                   false, true, true, false)), (String ((Ascii (true, true,
                   true, true, false, true, true, false)), (String ((Ascii
                   (false, true, true, true, false, true, true, false)),
                   (String ((Ascii (true, true, true, true, false, true,
                   false, false)), (String ((Ascii (false, true, false, true,
                   false, true, true, false)), (String ((Ascii (true, true,
                   false, false, true, true, true, false)), (String ((Ascii
                   (true, true, true, true, false, true, true, false)),
                   (String ((Ascii (false, true, true, true, false, true,
                   true, false)), EmptyString)))))))))))))))))))))))))))))))))
            then Some ApplicationJson
            else None
  else None

(** val raw_status : status -> bytes **)

let raw_status = function
| Continue ->
  bytes_of_string (String ((Ascii (true, false, false, false, true, true,
    false, false)), (String ((Ascii (false, false, false, false, true, true,
    false, false)), (String ((Ascii (false, false, false, false, true, true,
    false, false)), EmptyString))))))
| OK ->
  bytes_of_string (String ((Ascii (false, true, false, false, true, true,
    false, false)), (String ((Ascii (false, false, false, false, true, true,
    false, false)), (String ((Ascii (false, false, false, false, true, true,
    false, false)), EmptyString))))))
| NoContent ->
  bytes_of_string (String ((Ascii (false, true, false, false, true, true,
    false, false)), (String ((Ascii (false, false, false, false, true, true,
    false, false)), (String ((Ascii (false, false, true, false, true, true,
    false, false)), EmptyString))))))
| BadRequest ->
  bytes_of_string (String ((Ascii (false, false, true, false, true, true,
    false, false)), (String ((Ascii (false, false, false, false, true, true,
    false, false)), (String ((Ascii (false, false, false, false, true, true,
    false, false)), EmptyString))))))
| Unauthorized ->
  bytes_of_string (String ((Ascii (false, false, true, false, true, true,
    false, false)), (String ((Ascii (false, false, false, false, true, true,
    false, false)), (String ((Ascii (true, false, false, false, true, true,
    false, false)), EmptyString))))))
| NotFound ->
  bytes_of_string (String ((Ascii (false, false, true, false, true, true,
    false, false)), (String ((Ascii (false, false, false, false, true, true,
    false, false)), (String ((Ascii (false, false, true, false, true, true,
    false, false)), EmptyString))))))
| MethodNotAllowed ->
  bytes_of_string (String ((Ascii (false, false, true, false, true, true,
    false, false)), (String ((Ascii (false, false, false, false, true, true,
    false, false)), (String ((Ascii (true, false, true, false, true, true,
    false, false)), EmptyString))))))
| PayloadTooLarge ->
  bytes_of_string (String ((Ascii (false, false, true, false, true, true,
    false, false)), (String ((Ascii (true, false, false, false, true, true,
    false, false)), (String ((Ascii (true, true, false, false, true, true,
    false, false)), EmptyString))))))
| InternalServerError ->
  bytes_of_string (String ((Ascii (true, false, true, false, true, true,
    false, false)), (String ((Ascii (false, false, false, false, true, true,
    false, false)), (String ((Ascii (false, false, false, false, true, true,
    false, false)), EmptyString))))))
| NotImplemented ->
  bytes_of_string (String ((Ascii (true, false, true, false, true, true,
    false, false)), (String ((Ascii (false, false, false, false, true, true,
    false, false)), (String ((Ascii (true, false, false, false, true, true,
    false, false)), EmptyString))))))
| ServiceUnavailable ->
  bytes_of_string (String ((Ascii (true, false, true, false, true, true,
    false, false)), (String ((Ascii (false, false, false, false, true, true,
    false, false)), (String ((Ascii (true, true, false, false, true, true,
    false, false)), EmptyString))))))

(** val all_status : status list **)

let all_status =
  Continue :: (OK :: (NoContent :: (BadRequest :: (Unauthorized :: (NotFound :: (MethodNotAllowed :: (PayloadTooLarge :: (InternalServerError :: (NotImplemented :: (ServiceUnavailable :: []))))))))))

(** val raw_header : header -> bytes **)

let raw_header = function
| HContentLength ->
  bytes_of_string (String ((Ascii (true, true, false, false, false, false,
    true, false)), (String ((Ascii (true, true, true, true, false, true,
    true, false)), (String ((Ascii (false, true, true, true, false, true,
    true, false)), (String ((Ascii (false, false, true, false, true, true,
    true, false)), (String ((Ascii (true, false, true, false, false, true,
    true, false)), (String ((Ascii (false, true, true, true, false, true,
    true, false)), (String ((Ascii (false, false, true, false, true, true,
    true, false)), (String ((Ascii (true, false, true, true, false, true,
    false, false)), (String ((Ascii (false, false, true, true, false, false,
    true, false)), (String ((Ascii (true, false, true, false, false, true,
    true, false)), (String ((Ascii (false, true, true, true, false, true,
    true, false)), (String ((Ascii (true, true, true, false, false, true,
    true, false)), (String ((Ascii (false, false, true, false, true, true,
    true, false)), (String ((Ascii (false, false, false, true, false, true,
    true, false)), EmptyString))))))))))))))))))))))))))))
| HContentType ->
  bytes_of_string (String ((Ascii (true, true, false, false, false, false,
    true, false)), (String ((Ascii (true, true, true, true, false, true,
    true, false)), (String ((Ascii (false, true, true, true, false, true,
    true, false)), (String ((Ascii (false, false, true, false, true, true,
    true, false)), (String ((Ascii (true, false, true, false, false, true,
    true, false)), (String ((Ascii (false, true, true, true, false, true,
    true, false)), (String ((Ascii (false, false, true, false, true, true,
    true, false)), (String ((Ascii (true, false, true, true, false, true,
    false, false)), (String ((Ascii (false, false, true, false, true, false,
    true, false)), (String ((Ascii (true, false, false, true, true, true,
    true, false)), (String ((Ascii (false, false, false, false, true, true,
    true, false)), (String ((Ascii (true, false, true, false, false, true,
    true, false)), EmptyString))))))))))))))))))))))))
| HExpect ->
  bytes_of_string (String ((Ascii (true, false, true, false, false, false,
    true, false)), (String ((Ascii (false, false, false, true, true, true,
    true, false)), (String ((Ascii (false, false, false, false, true, true,
    true, false)), (String ((Ascii (true, false, true, false, false, true,
    true, false)), (String ((Ascii (true, true, false, false, false, true,
    true, false)), (String ((Ascii (false, false, true, false, true, true,
    true, false)), EmptyString))))))))))))
| HTransferEncoding ->
  bytes_of_string (String ((Ascii (false, false, true, false, true, false,
    true, false)), (String ((Ascii (false, true, false, false, true, true,
    true, false)), (String ((Ascii (true, false, false, false, false, true,
    true, false)), (String ((Ascii (false, true, true, true, false, true,
    true, false)), (String ((Ascii (true, true, false, false, true, true,
    true, false)), (String ((Ascii (false, true, true, false, false, true,
    true, false)), (String ((Ascii (true, false, true, false, false, true,
    true, false)), (String ((Ascii (false, true, false, false, true, true,
    true, false)), (String ((Ascii (true, false, true, true, false, true,
    false, false)), (String ((Ascii (true, false, true, false, false, false,
    true, false)), (String ((Ascii (false, true, true, true, false, true,
    true, false)), (String ((Ascii (true, true, false, false, false, true,
    true, false)), (String ((Ascii (true, true, true, true, false, true,
    true, false)), (String ((Ascii (false, false, true, false, false, true,
    true, false)), (String ((Ascii (true, false, false, true, false, true,
    true, false)), (String ((Ascii (false, true, true, true, false, true,
    true, false)), (String ((Ascii (true, true, true, false, false, true,
    true, false)), EmptyString))))))))))))))))))))))))))))))))))
| HServer ->
  bytes_of_string (String ((Ascii (true, true, false, false, true, false,
    true, false)), (String ((Ascii (true, false, true, false, false, true,
    true, false)), (String ((Ascii (false, true, false, false, true, true,
    true, false)), (String ((Ascii (false, true, true, false, true, true,
    true, false)), (String ((Ascii (true, false, true, false, false, true,
    true, false)), (String ((Ascii (false, true, false, false, true, true,
    true, false)), EmptyString))))))))))))
| HAccept ->
  bytes_of_string (String ((Ascii (true, false, false, false, false, false,
    true, false)), (String ((Ascii (true, true, false, false, false, true,
    true, false)), (String ((Ascii (true, true, false, false, false, true,
    true, false)), (String ((Ascii (true, false, true, false, false, true,
    true, false)), (String ((Ascii (false, false, false, false, true, true,
    true, false)), (String ((Ascii (false, false, true, false, true, true,
    true, false)), EmptyString))))))))))))
| HAcceptEncoding ->
  bytes_of_string (String ((Ascii (true, false, false, false, false, false,
    true, false)), (String ((Ascii (true, true, false, false, false, true,
    true, false)), (String ((Ascii (true, true, false, false, false, true,
    true, false)), (String ((Ascii (true, false, true, false, false, true,
    true, false)), (String ((Ascii (false, false, false, false, true, true,
    true, false)), (String ((Ascii (false, false, true, false, true, true,
    true, false)), (String ((Ascii (true, false, true, true, false, true,
    false, false)), (String ((Ascii (true, false, true, false, false, false,
    true, false)), (String ((Ascii (false, true, true, true, false, true,
    true, false)), (String ((Ascii (true, true, false, false, false, true,
    true, false)), (String ((Ascii (true, true, true, true, false, true,
    true, false)), (String ((Ascii (false, false, true, false, false, true,
    true, false)), (String ((Ascii (true, false, false, true, false, true,
    true, false)), (String ((Ascii (false, true, true, true, false, true,
    true, false)), (String ((Ascii (true, true, true, false, false, true,
    true, false)), EmptyString))))))))))))))))))))))))))))))

(** val header_try_from : bytes -> header option **)

let header_try_from bs =
  if utf8_valid bs
  then let k = trim (ascii_lower bs) in
       if beq k
            (bytes_of_string (String ((Ascii (true, true, false, false,
              false, true, true, false)), (String ((Ascii (true, true, true,
              true, false, true, true, false)), (String ((Ascii (false, true,
              true, true, false, true, true, false)), (String ((Ascii (false,
              false, true, false, true, true, true, false)), (String ((Ascii
              (true, false, true, false, false, true, true, false)), (String
              ((Ascii (false, true, true, true, false, true, true, false)),
              (String ((Ascii (false, false, true, false, true, true, true,
              false)), (String ((Ascii (true, false, true, true, false, true,
              false, false)), (String ((Ascii (false, false, true, true,
              false, true, true, false)), (String ((Ascii (true, false, true,
              false, false, true, true, false)), (String ((Ascii (false,
              true, true, true, false, true, true, false)), (String ((Ascii
              (true, true, true, false, false, true, true, false)), (String
              ((Ascii (false, false, true, false, true, true, true, false)),
              (String ((Ascii (false, false, false, true, false, true, true,
              false)), EmptyString)))))))))))))))))))))))))))))
       then Some HContentLength
       else if beq k
                 (bytes_of_string (String ((Ascii (true, true, false, false,
                   false, true, true, false)), (String ((Ascii (true, true,
                   true, true, false, true, true, false)), (String ((Ascii
                   (false, true, true, true, false, true, true, false)),
                   (String ((Ascii (false, false, true, false, true, true,
                   true, false)), (String ((Ascii (true, false, true, false,
                   false, true, true, false)), (String ((Ascii (false, true,
                   true, true, false, true, true, false)), (String ((Ascii
                   (false, false, true, false, true, true, true, false)),
                   (String ((Ascii (true, false, true, true, false, true,
                   false, false)), (String ((Ascii (false, false, true,
                   false, true, true, true, false)), (String ((Ascii (true,
                   false, false, true, true, true, true, false)), (String
                   ((Ascii (false, false, false, false, true, true, true,
                   false)), (String ((Ascii (true, false, true, false, false,
                   true, true, false)), EmptyString)))))))))))))))))))))))))
            then Some HContentType
            else if beq k
                      (bytes_of_string (String ((Ascii (true, false, true,
                        false, false, true, true, false)), (String ((Ascii
                        (false, false, false, true, true, true, true,
                        false)), (String ((Ascii (false, false, false, false,
                        true, true, true, false)), (String ((Ascii (true,
                        false, true, false, false, true, true, false)),
                        (String ((Ascii (true, true, false, false, false,
                        true, true, false)), (String ((Ascii (false, false,
                        true, false, true, true, true, false)),
                        EmptyString)))))))))))))
                 then Some HExpect
                 else if beq k
                           (bytes_of_string (String ((Ascii (false, false,
                             true, false, true, true, true, false)), (String
                             ((Ascii (false, true, false, false, true, true,
                             true, false)), (String ((Ascii (true, false,
                             false, false, false, true, true, false)),
                             (String ((Ascii (false, true, true, true, false,
                             true, true, false)), (String ((Ascii (true,
                             true, false, false, true, true, true, false)),
                             (String ((Ascii (false, true, true, false,
                             false, true, true, false)), (String ((Ascii
                             (true, false, true, false, false, true, true,
                             false)), (String ((Ascii (false, true, false,
                             false, true, true, true, false)), (String
                             ((Ascii (true, false, true, true, false, true,
                             false, false)), (String ((Ascii (true, false,
                             true, false, false, true, true, false)), (String
                             ((Ascii (false, true, true, true, false, true,
                             true, false)), (String ((Ascii (true, true,
                             false, false, false, true, true, false)),
                             (String ((Ascii (true, true, true, true, false,
                             true, true, false)), (String ((Ascii (false,
                             false, true, false, false, true, true, false)),
                             (String ((Ascii (true, false, false, true,
                             false, true, true, false)), (String ((Ascii
                             (false, true, true, true, false, true, true,
                             false)), (String ((Ascii (true, true, true,
                             false, false, true, true, false)),
                             EmptyString)))))))))))))))))))))))))))))))))))
                      then Some HTransferEncoding
                      else if beq k
                                (bytes_of_string (String ((Ascii (true, true,
                                  false, false, true, true, true, false)),
                                  (String ((Ascii (true, false, true, false,
                                  false, true, true, false)), (String ((Ascii
                                  (false, true, false, false, true, true,
                                  true, false)), (String ((Ascii (false,
                                  true, true, false, true, true, true,
                                  false)), (String ((Ascii (true, false,
                                  true, false, false, true, true, false)),
                                  (String ((Ascii (false, true, false, false,
                                  true, true, true, false)),
                                  EmptyString)))))))))))))
                           then Some HServer
                           else if beq k
                                     (bytes_of_string (String ((Ascii (true,
                                       false, false, false, false, true,
                                       true, false)), (String ((Ascii (true,
                                       true, false, false, false, true, true,
                                       false)), (String ((Ascii (true, true,
                                       false, false, false, true, true,
                                       false)), (String ((Ascii (true, false,
                                       true, false, false, true, true,
                                       false)), (String ((Ascii (false,
                                       false, false, false, true, true, true,
                                       false)), (String ((Ascii (false,
                                       false, true, false, true, true, true,
                                       false)), EmptyString)))))))))))))
                                then Some HAccept
                                else if beq k
                                          (bytes_of_string (String ((Ascii
                                            (true, false, false, false,
                                            false, true, true, false)),
                                            (String ((Ascii (true, true,
                                            false, false, false, true, true,
                                            false)), (String ((Ascii (true,
                                            true, false, false, false, true,
                                            true, false)), (String ((Ascii
                                            (true, false, true, false, false,
                                            true, true, false)), (String
                                            ((Ascii (false, false, false,
                                            false, true, true, true, false)),
                                            (String ((Ascii (false, false,
                                            true, false, true, true, true,
                                            false)), (String ((Ascii (true,
                                            false, true, true, false, true,
                                            false, false)), (String ((Ascii
                                            (true, false, true, false, false,
                                            true, true, false)), (String
                                            ((Ascii (false, true, true, true,
                                            false, true, true, false)),
                                            (String ((Ascii (true, true,
                                            false, false, false, true, true,
                                            false)), (String ((Ascii (true,
                                            true, true, true, false, true,
                                            true, false)), (String ((Ascii
                                            (false, false, true, false,
                                            false, true, true, false)),
                                            (String ((Ascii (true, false,
                                            false, true, false, true, true,
                                            false)), (String ((Ascii (false,
                                            true, true, true, false, true,
                                            true, false)), (String ((Ascii
                                            (true, true, true, false, false,
                                            true, true, false)),
                                            EmptyString)))))))))))))))))))))))))))))))
                                     then Some HAcceptEncoding
                                     else None
  else None

(** val uri_try_from : bytes -> (bytes, uri_err) res **)

let uri_try_from bs = match bs with
| [] -> Err UriEmpty
| _ :: _ -> if utf8_valid bs then Ok bs else Err UriNotUtf8

(** val hTTP_SCHEME_PREFIX : bytes **)

let hTTP_SCHEME_PREFIX =
  bytes_of_string (String ((Ascii (false, false, false, true, false, true,
    true, false)), (String ((Ascii (false, false, true, false, true, true,
    true, false)), (String ((Ascii (false, false, true, false, true, true,
    true, false)), (String ((Ascii (false, false, false, false, true, true,
    true, false)), (String ((Ascii (false, true, false, true, true, true,
    false, false)), (String ((Ascii (true, true, true, true, false, true,
    false, false)), (String ((Ascii (true, true, true, true, false, true,
    false, false)), EmptyString))))))))))))))

(** val sLASH : byte **)

let sLASH =
  Npos (XI (XI (XI (XI (XO XH)))))

(** val abs_path : bytes -> bytes **)

let abs_path u =
  if prefixb hTTP_SCHEME_PREFIX u
  then let ws = skipn (length hTTP_SCHEME_PREFIX) u in
       (match ws with
        | [] -> []
        | _ :: _ ->
          (match position sLASH ws with
           | Some n0 -> skipn n0 ws
           | None -> []))
  else (match u with
        | [] -> []
        | a :: _ -> if N.eqb a sLASH then u else [])

(** val cOMMA : byte **)

let cOMMA =
  Npos (XO (XO (XI (XI (XO XH)))))

(** val encoding_check : bytes -> bytes list -> (unit, req_err) res **)

let rec encoding_check whole = function
| [] -> Ok ()
| p :: r ->
  let t = trim p in
  if beq t
       (bytes_of_string (String ((Ascii (true, false, false, true, false,
         true, true, false)), (String ((Ascii (false, false, true, false,
         false, true, true, false)), (String ((Ascii (true, false, true,
         false, false, true, true, false)), (String ((Ascii (false, true,
         true, true, false, true, true, false)), (String ((Ascii (false,
         false, true, false, true, true, true, false)), (String ((Ascii
         (true, false, false, true, false, true, true, false)), (String
         ((Ascii (false, false, true, false, true, true, true, false)),
         (String ((Ascii (true, false, false, true, true, true, true,
         false)), (String ((Ascii (true, true, false, true, true, true,
         false, false)), (String ((Ascii (true, false, false, false, true,
         true, true, false)), (String ((Ascii (true, false, true, true, true,
         true, false, false)), (String ((Ascii (false, false, false, false,
         true, true, false, false)), EmptyString)))))))))))))))))))))))))
  then Err (HeaderError (InvalidValue
         ((bytes_of_string (String ((Ascii (true, false, false, false, false,
            false, true, false)), (String ((Ascii (true, true, false, false,
            false, true, true, false)), (String ((Ascii (true, true, false,
            false, false, true, true, false)), (String ((Ascii (true, false,
            true, false, false, true, true, false)), (String ((Ascii (false,
            false, false, false, true, true, true, false)), (String ((Ascii
            (false, false, true, false, true, true, true, false)), (String
            ((Ascii (true, false, true, true, false, true, false, false)),
            (String ((Ascii (true, false, true, false, false, false, true,
            false)), (String ((Ascii (false, true, true, true, false, true,
            true, false)), (String ((Ascii (true, true, false, false, false,
            true, true, false)), (String ((Ascii (true, true, true, true,
            false, true, true, false)), (String ((Ascii (false, false, true,
            false, false, true, true, false)), (String ((Ascii (true, false,
            false, true, false, true, true, false)), (String ((Ascii (false,
            true, true, true, false, true, true, false)), (String ((Ascii
            (true, true, true, false, false, true, true, false)),
            EmptyString))))))))))))))))))))))))))))))), p)))
  else if (&&)
            (beq t
              (bytes_of_string (String ((Ascii (false, true, false, true,
                false, true, false, false)), (String ((Ascii (true, true,
                false, true, true, true, false, false)), (String ((Ascii
                (true, false, false, false, true, true, true, false)),
                (String ((Ascii (true, false, true, true, true, true, false,
                false)), (String ((Ascii (false, false, false, false, true,
                true, false, false)), EmptyString))))))))))))
            (negb
              (containsb
                (bytes_of_string (String ((Ascii (true, false, false, true,
                  false, true, true, false)), (String ((Ascii (false, false,
                  true, false, false, true, true, false)), (String ((Ascii
                  (true, false, true, false, false, true, true, false)),
                  (String ((Ascii (false, true, true, true, false, true,
                  true, false)), (String ((Ascii (false, false, true, false,
                  true, true, true, false)), (String ((Ascii (true, false,
                  false, true, false, true, true, false)), (String ((Ascii
                  (false, false, true, false, true, true, true, false)),
                  (String ((Ascii (true, false, false, true, true, true,
                  true, false)), EmptyString))))))))))))))))) whole))
       then Err (HeaderError (InvalidValue
              ((bytes_of_string (String ((Ascii (true, false, false, false,
                 false, false, true, false)), (String ((Ascii (true, true,
                 false, false, false, true, true, false)), (String ((Ascii
                 (true, true, false, false, false, true, true, false)),
                 (String ((Ascii (true, false, true, false, false, true,
                 true, false)), (String ((Ascii (false, false, false, false,
                 true, true, true, false)), (String ((Ascii (false, false,
                 true, false, true, true, true, false)), (String ((Ascii
                 (true, false, true, true, false, true, false, false)),
                 (String ((Ascii (true, false, true, false, false, false,
                 true, false)), (String ((Ascii (false, true, true, true,
                 false, true, true, false)), (String ((Ascii (true, true,
                 false, false, false, true, true, false)), (String ((Ascii
                 (true, true, true, true, false, true, true, false)), (String
                 ((Ascii (false, false, true, false, false, true, true,
                 false)), (String ((Ascii (true, false, false, true, false,
                 true, true, false)), (String ((Ascii (false, true, true,
                 true, false, true, true, false)), (String ((Ascii (true,
                 true, true, false, false, true, true, false)),
                 EmptyString))))))))))))))))))))))))))))))), p)))
       else encoding_check whole r

(** val encoding_try_from : bytes -> (unit, req_err) res **)

let encoding_try_from bs = match bs with
| [] -> Err InvalidRequest
| _ :: _ ->
  if utf8_valid bs
  then encoding_check bs (split_on cOMMA bs)
  else Err (HeaderError (InvalidUtf8String bs))

(** val custom_insert :
    bytes -> bytes -> (bytes * bytes) list -> (bytes * bytes) list **)

let rec custom_insert k v = function
| [] -> (k, v) :: []
| p :: r ->
  let (k', v') = p in
  if beq k k' then (k, v) :: r else (k', v') :: (custom_insert k v r)

(** val set_content_length : headers -> n -> headers **)

let set_content_length h n0 =
  { h_content_length = n0; h_expect = h.h_expect; h_chunked = h.h_chunked;
    h_accept = h.h_accept; h_custom = h.h_custom }

(** val set_expect : headers -> headers **)

let set_expect h =
  { h_content_length = h.h_content_length; h_expect = true; h_chunked =
    h.h_chunked; h_accept = h.h_accept; h_custom = h.h_custom }

(** val set_chunked : headers -> headers **)

let set_chunked h =
  { h_content_length = h.h_content_length; h_expect = h.h_expect; h_chunked =
    true; h_accept = h.h_accept; h_custom = h.h_custom }

(** val set_accept : headers -> media -> headers **)

let set_accept h m =
  { h_content_length = h.h_content_length; h_expect = h.h_expect; h_chunked =
    h.h_chunked; h_accept = m; h_custom = h.h_custom }

(** val insert_custom : headers -> bytes -> bytes -> headers **)

let insert_custom h k v =
  { h_content_length = h.h_content_length; h_expect = h.h_expect; h_chunked =
    h.h_chunked; h_accept = h.h_accept; h_custom =
    (custom_insert k v h.h_custom) }

(** val parse_header_line : headers -> bytes -> (headers, req_err) res **)

let parse_header_line h line =
  if utf8_valid line
  then (match split_at cOLON line with
        | Some p ->
          let (k, v) = p in
          (match header_try_from k with
           | Some h0 ->
             (match h0 with
              | HContentLength ->
                (match parse_u32 (trim v) with
                 | Some n0 -> Ok (set_content_length h n0)
                 | None -> Err (HeaderError (InvalidValue (k, v))))
              | HContentType ->
                (match parse_media (trim v) with
                 | Some _ -> Ok h
                 | None -> Err (HeaderError (UnsupportedValue (k, v))))
              | HExpect ->
                if beq (trim v)
                     (bytes_of_string (String ((Ascii (true, false, false,
                       false, true, true, false, false)), (String ((Ascii
                       (false, false, false, false, true, true, false,
                       false)), (String ((Ascii (false, false, false, false,
                       true, true, false, false)), (String ((Ascii (true,
                       false, true, true, false, true, false, false)),
                       (String ((Ascii (true, true, false, false, false,
                       true, true, false)), (String ((Ascii (true, true,
                       true, true, false, true, true, false)), (String
                       ((Ascii (false, true, true, true, false, true, true,
                       false)), (String ((Ascii (false, false, true, false,
                       true, true, true, false)), (String ((Ascii (true,
                       false, false, true, false, true, true, false)),
                       (String ((Ascii (false, true, true, true, false, true,
                       true, false)), (String ((Ascii (true, false, true,
                       false, true, true, true, false)), (String ((Ascii
                       (true, false, true, false, false, true, true, false)),
                       EmptyString)))))))))))))))))))))))))
                then Ok (set_expect h)
                else Err (HeaderError (UnsupportedValue (k, v)))
              | HTransferEncoding ->
                let t = trim v in
                if beq t
                     (bytes_of_string (String ((Ascii (true, true, false,
                       false, false, true, true, false)), (String ((Ascii
                       (false, false, false, true, false, true, true,
                       false)), (String ((Ascii (true, false, true, false,
                       true, true, true, false)), (String ((Ascii (false,
                       true, true, true, false, true, true, false)), (String
                       ((Ascii (true, true, false, true, false, true, true,
                       false)), (String ((Ascii (true, false, true, false,
                       false, true, true, false)), (String ((Ascii (false,
                       false, true, false, false, true, true, false)),
                       EmptyString)))))))))))))))
                then Ok (set_chunked h)
                else if beq t
                          (bytes_of_string (String ((Ascii (true, false,
                            false, true, false, true, true, false)), (String
                            ((Ascii (false, false, true, false, false, true,
                            true, false)), (String ((Ascii (true, false,
                            true, false, false, true, true, false)), (String
                            ((Ascii (false, true, true, true, false, true,
                            true, false)), (String ((Ascii (false, false,
                            true, false, true, true, true, false)), (String
                            ((Ascii (true, false, false, true, false, true,
                            true, false)), (String ((Ascii (false, false,
                            true, false, true, true, true, false)), (String
                            ((Ascii (true, false, false, true, true, true,
                            true, false)), EmptyString)))))))))))))))))
                     then Ok h
                     else Err (HeaderError (UnsupportedValue (k, v)))
              | HServer -> Ok h
              | HAccept ->
                (match parse_media (trim v) with
                 | Some t -> Ok (set_accept h t)
                 | None -> Err (HeaderError (UnsupportedValue (k, v))))
              | HAcceptEncoding ->
                (match encoding_try_from (trim v) with
                 | Ok _ -> Ok h
                 | Err e -> Err e))
           | None -> Ok (insert_custom h (trim k) (trim v)))
        | None -> Err (HeaderError (InvalidFormat line)))
  else Err (HeaderError (InvalidUtf8String line))

(** val parse_header_tolerant : headers -> bytes -> (headers, req_err) res **)

let parse_header_tolerant h line =
  match parse_header_line h line with
  | Ok h' -> Ok h'
  | Err e ->
    (match e with
     | HeaderError e0 ->
       (match e0 with
        | UnsupportedValue (_, _) -> Ok h
        | _ -> Err e)
     | _ -> Err e)

(** val split_crlf_aux : bytes -> bytes -> bytes list **)

let rec split_crlf_aux cur = function
| [] -> (rev cur) :: []
| a :: t ->
  (match t with
   | [] -> (rev (a :: cur)) :: []
   | b :: t' ->
     if (&&) (N.eqb a cR) (N.eqb b lF)
     then (rev cur) :: (split_crlf_aux [] t')
     else split_crlf_aux (a :: cur) t)

(** val split_crlf : bytes -> bytes list **)

let split_crlf l =
  split_crlf_aux [] l

(** val headers_fold : headers -> bytes list -> (headers, req_err) res **)

let rec headers_fold h = function
| [] -> Ok h
| l :: r ->
  (match l with
   | [] -> Ok h
   | _ :: _ ->
     (match parse_header_tolerant h l with
      | Ok h' -> headers_fold h' r
      | Err e -> Err e))

(** val headers_try_from : bytes -> (headers, req_err) res **)

let headers_try_from bs =
  if utf8_valid bs
  then headers_fold headers_default (split_crlf bs)
  else Err InvalidRequest

(** val split_request_line : bytes -> ((bytes * bytes) * bytes) option **)

let split_request_line l =
  match split_at sP l with
  | Some p ->
    let (m, rest) = p in
    (match split_at sP rest with
     | Some p0 -> let (u, v) = p0 in Some ((m, u), v)
     | None -> None)
  | None -> None

(** val parse_reqline : bytes -> (request_line, req_err) res **)

let parse_reqline l =
  match split_request_line l with
  | Some p ->
    let (p0, v) = p in
    let (m, u) = p0 in
    (match parse_method m with
     | Some m' ->
       (match uri_try_from u with
        | Ok u' ->
          (match parse_version v with
           | Some v' -> Ok { rl_method = m'; rl_uri = u'; rl_version = v' }
           | None -> Err InvalidHttpVersion)
        | Err w -> Err (InvalidUri w))
     | None -> Err InvalidHttpMethod)
  | None -> Err InvalidRequest

(** val reqline_min_len : nat **)

let reqline_min_len =
  add
    (add (add (length (raw_method Get)) (S O)) (length (raw_version Http10)))
    (S (S O))

type phase =
| PLine
| PHdr of request_line * headers
| PBody of request_line * headers * bytes * n

type out =
| ORequest of request_line * headers * bytes option
| OContinue of version

type line_res =
| LLine of bytes * bytes
| LTooLong
| LMore

(** val take_line : nat -> bytes -> line_res **)

let take_line bUF w =
  match find_crlf (firstn bUF w) with
  | Some i -> LLine ((firstn i w), (skipn (add i (S (S O))) w))
  | None -> if Nat.leb bUF (length w) then LTooLong else LMore

type sres =
| SDone of phase * bytes * out list
| SMore of phase * bytes
| SErr of req_err

(** val step : nat -> n -> phase -> bytes -> sres **)

let step bUF l ph w =
  match ph with
  | PLine ->
    (match take_line bUF w with
     | LLine (l0, rest) ->
       (match parse_reqline l0 with
        | Ok rl -> SDone ((PHdr (rl, headers_default)), rest, [])
        | Err e -> SErr e)
     | LTooLong -> SErr InvalidRequest
     | LMore -> SMore (PLine, w))
  | PHdr (rl, h) ->
    (match take_line bUF w with
     | LLine (l0, rest) ->
       (match l0 with
        | [] ->
          if N.eqb h.h_content_length N0
          then SDone (PLine, rest, ((ORequest (rl, h, None)) :: []))
          else if N.ltb l h.h_content_length
               then SErr (SizeLimitExceeded (l, h.h_content_length))
               else SDone ((PBody (rl, h, [], h.h_content_length)), rest,
                      (if h.h_expect
                       then (OContinue rl.rl_version) :: []
                       else []))
        | _ :: _ ->
          (match parse_header_tolerant h l0 with
           | Ok h' -> SDone ((PHdr (rl, h')), rest, [])
           | Err e -> SErr e))
     | LTooLong -> SErr (HeaderError (HSizeLimitExceeded (firstn bUF w)))
     | LMore -> SMore ((PHdr (rl, h)), w))
  | PBody (rl, h, acc, lft) ->
    if N.leb lft (lenN w)
    then SDone (PLine, (skipn (N.to_nat lft) w), ((ORequest (rl, h, (Some
           (app acc (firstn (N.to_nat lft) w))))) :: []))
    else SMore ((PBody (rl, h, (app acc w), (N.sub lft (lenN w)))), [])

type rres =
| RMore of phase * bytes * out list
| RErr of out list * req_err
| ROutOfFuel

(** val run : nat -> n -> nat -> phase -> bytes -> out list -> rres **)

let rec run bUF l fuel ph w acc =
  match fuel with
  | O -> ROutOfFuel
  | S f ->
    (match step bUF l ph w with
     | SDone (ph', rest, o) -> run bUF l f ph' rest (app acc o)
     | SMore (ph', c) -> RMore (ph', c, acc)
     | SErr e -> RErr (acc, e))

(** val rank : phase -> bytes -> nat **)

let rank ph w =
  add (mul (S (S O)) (length w))
    (match ph with
     | PBody (_, _, _, lft) -> (match lft with
                                | N0 -> S O
                                | Npos _ -> O)
     | _ -> O)

(** val runT : nat -> n -> phase -> bytes -> out list -> rres **)

let runT bUF l ph w acc =
  run bUF l (S (rank ph w)) ph w acc

(** val parse_stream : nat -> n -> bytes -> rres **)

let parse_stream bUF l s =
  runT bUF l PLine s []

(** val feed :
    nat -> n -> phase -> bytes -> out list -> bytes list -> rres **)

let rec feed bUF l ph carry acc = function
| [] -> RMore (ph, carry, acc)
| k :: ks ->
  (match runT bUF l ph (app carry k) acc with
   | RMore (ph', c, o) -> feed bUF l ph' c o ks
   | x -> x)

type ores =
| OOk of request_line * headers * bytes option
| OErr of req_err
| OPanic of nat

(** val cRLFCRLF : bytes **)

let cRLFCRLF =
  cR :: (lF :: (cR :: (lF :: [])))

(** val slice_from : bytes -> nat -> bytes option **)

let slice_from l a =
  if Nat.leb a (length l) then Some (skipn a l) else None

(** val slice_to : bytes -> nat -> bytes option **)

let slice_to l b =
  if Nat.leb b (length l) then Some (firstn b l) else None

(** val request_try_from : bytes -> n option -> ores **)

let request_try_from bs max_len =
  if match max_len with
     | Some lim -> N.leb lim (lenN bs)
     | None -> false
  then OErr InvalidRequest
  else (match find_crlf bs with
        | Some rle ->
          (match slice_to bs rle with
           | Some rlb ->
             if Nat.ltb (length rlb) reqline_min_len
             then OErr InvalidRequest
             else (match parse_reqline rlb with
                   | Ok rl ->
                     (match slice_from bs rle with
                      | Some tail ->
                        (match find cRLFCRLF tail with
                         | Some he ->
                           (match he with
                            | O -> OOk (rl, headers_default, None)
                            | S _ ->
                              (match slice_from bs (add rle (S (S O))) with
                               | Some hb ->
                                 if Nat.ltb he (S (S O))
                                 then OPanic (S (S (S (S O))))
                                 else let he2 = sub he (S (S O)) in
                                      (match slice_to hb he2 with
                                       | Some hs ->
                                         (match headers_try_from hs with
                                          | Ok h ->
                                            if N.eqb h.h_content_length N0
                                            then OOk (rl, h, None)
                                            else if method_eqb rl.rl_method
                                                      Get
                                                 then OErr InvalidRequest
                                                 else let crlf_end =
                                                        add he2 (S (S (S (S
                                                          O))))
                                                      in
                                                      if Nat.ltb (length hb)
                                                           crlf_end
                                                      then OPanic (S (S (S (S
                                                             (S (S O))))))
                                                      else let body_len =
                                                             sub (length hb)
                                                               crlf_end
                                                           in
                                                           if N.ltb
                                                                (N.of_nat
                                                                  body_len)
                                                                h.h_content_length
                                                           then OErr
                                                                  InvalidRequest
                                                           else (match 
                                                                 slice_from
                                                                   hb crlf_end with
                                                                 | Some body ->
                                                                   if 
                                                                    N.eqb
                                                                    (lenN
                                                                    body)
                                                                    h.h_content_length
                                                                   then 
                                                                    OOk (rl,
                                                                    h, (Some
                                                                    body))
                                                                   else 
                                                                    OErr
                                                                    InvalidRequest
                                                                 | None ->
                                                                   OPanic (S
                                                                    (S (S (S
                                                                    (S (S (S
                                                                    O))))))))
                                          | Err e -> OErr e)
                                       | None -> OPanic (S (S (S (S (S O))))))
                               | None -> OPanic (S (S (S O)))))
                         | None -> OErr InvalidRequest)
                      | None -> OPanic (S (S O)))
                   | Err e -> OErr e)
           | None -> OPanic (S O))
        | None -> OErr InvalidRequest)

type response = { rs_version : version; rs_status : status;
                  rs_content_length : z option; rs_content_type : media;
                  rs_deprecation : bool; rs_server : bytes;
                  rs_allow : method0 list; rs_accept_encoding : bool;
                  rs_body : bytes option }

(** val dEFAULT_SERVER : bytes **)

let dEFAULT_SERVER =
  bytes_of_string (String ((Ascii (false, true, true, false, false, false,
    true, false)), (String ((Ascii (true, false, false, true, false, true,
    true, false)), (String ((Ascii (false, true, false, false, true, true,
    true, false)), (String ((Ascii (true, false, true, false, false, true,
    true, false)), (String ((Ascii (true, true, false, false, false, true,
    true, false)), (String ((Ascii (false, true, false, false, true, true,
    true, false)), (String ((Ascii (true, false, false, false, false, true,
    true, false)), (String ((Ascii (true, true, false, false, false, true,
    true, false)), (String ((Ascii (true, true, false, true, false, true,
    true, false)), (String ((Ascii (true, false, true, false, false, true,
    true, false)), (String ((Ascii (false, true, false, false, true, true,
    true, false)), (String ((Ascii (false, false, false, false, false, true,
    false, false)), (String ((Ascii (true, false, false, false, false, false,
    true, false)), (String ((Ascii (false, false, false, false, true, false,
    true, false)), (String ((Ascii (true, false, false, true, false, false,
    true, false)), EmptyString))))))))))))))))))))))))))))))

(** val response_new : version -> status -> response **)

let response_new v s =
  { rs_version = v; rs_status = s; rs_content_length =
    (match s with
     | Continue -> None
     | NoContent -> None
     | _ -> Some Z0); rs_content_type = ApplicationJson; rs_deprecation =
    false; rs_server = dEFAULT_SERVER; rs_allow = []; rs_accept_encoding =
    false; rs_body = None }

(** val as_i32 : n -> z **)

let as_i32 n0 =
  let m =
    Z.modulo (Z.of_N n0) (Zpos (XO (XO (XO (XO (XO (XO (XO (XO (XO (XO (XO
      (XO (XO (XO (XO (XO (XO (XO (XO (XO (XO (XO (XO (XO (XO (XO (XO (XO (XO
      (XO (XO (XO XH)))))))))))))))))))))))))))))))))
  in
  if Z.ltb m (Zpos (XO (XO (XO (XO (XO (XO (XO (XO (XO (XO (XO (XO (XO (XO
       (XO (XO (XO (XO (XO (XO (XO (XO (XO (XO (XO (XO (XO (XO (XO (XO (XO
       XH))))))))))))))))))))))))))))))))
  then m
  else Z.sub m (Zpos (XO (XO (XO (XO (XO (XO (XO (XO (XO (XO (XO (XO (XO (XO
         (XO (XO (XO (XO (XO (XO (XO (XO (XO (XO (XO (XO (XO (XO (XO (XO (XO
         (XO XH)))))))))))))))))))))))))))))))))

type builder_op =
| SetBody of bytes
| SetContentType of media
| SetDeprecation
| SetEncoding
| SetServer of bytes
| SetAllow of method0 list
| AllowMethod of method0
| SetContentLength of z option

(** val apply_op : response -> builder_op -> response **)

let apply_op r = function
| SetBody b ->
  { rs_version = r.rs_version; rs_status = r.rs_status; rs_content_length =
    (Some (as_i32 (lenN b))); rs_content_type = r.rs_content_type;
    rs_deprecation = r.rs_deprecation; rs_server = r.rs_server; rs_allow =
    r.rs_allow; rs_accept_encoding = r.rs_accept_encoding; rs_body = (Some
    b) }
| SetContentType t ->
  { rs_version = r.rs_version; rs_status = r.rs_status; rs_content_length =
    r.rs_content_length; rs_content_type = t; rs_deprecation =
    r.rs_deprecation; rs_server = r.rs_server; rs_allow = r.rs_allow;
    rs_accept_encoding = r.rs_accept_encoding; rs_body = r.rs_body }
| SetDeprecation ->
  { rs_version = r.rs_version; rs_status = r.rs_status; rs_content_length =
    r.rs_content_length; rs_content_type = r.rs_content_type;
    rs_deprecation = true; rs_server = r.rs_server; rs_allow = r.rs_allow;
    rs_accept_encoding = r.rs_accept_encoding; rs_body = r.rs_body }
| SetEncoding ->
  { rs_version = r.rs_version; rs_status = r.rs_status; rs_content_length =
    r.rs_content_length; rs_content_type = r.rs_content_type;
    rs_deprecation = r.rs_deprecation; rs_server = r.rs_server; rs_allow =
    r.rs_allow; rs_accept_encoding = true; rs_body = r.rs_body }
| SetServer s ->
  { rs_version = r.rs_version; rs_status = r.rs_status; rs_content_length =
    r.rs_content_length; rs_content_type = r.rs_content_type;
    rs_deprecation = r.rs_deprecation; rs_server = s; rs_allow = r.rs_allow;
    rs_accept_encoding = r.rs_accept_encoding; rs_body = r.rs_body }
| SetAllow ms ->
  { rs_version = r.rs_version; rs_status = r.rs_status; rs_content_length =
    r.rs_content_length; rs_content_type = r.rs_content_type;
    rs_deprecation = r.rs_deprecation; rs_server = r.rs_server; rs_allow =
    ms; rs_accept_encoding = r.rs_accept_encoding; rs_body = r.rs_body }
| AllowMethod m ->
  { rs_version = r.rs_version; rs_status = r.rs_status; rs_content_length =
    r.rs_content_length; rs_content_type = r.rs_content_type;
    rs_deprecation = r.rs_deprecation; rs_server = r.rs_server; rs_allow =
    (app r.rs_allow (m :: [])); rs_accept_encoding = r.rs_accept_encoding;
    rs_body = r.rs_body }
| SetContentLength o ->
  { rs_version = r.rs_version; rs_status = r.rs_status; rs_content_length =
    o; rs_content_type = r.rs_content_type; rs_deprecation =
    r.rs_deprecation; rs_server = r.rs_server; rs_allow = r.rs_allow;
    rs_accept_encoding = r.rs_accept_encoding; rs_body = r.rs_body }

(** val build : version -> status -> builder_op list -> response **)

let build v s prog =
  fold_left apply_op prog (response_new v s)

(** val status_line : response -> bytes **)

let status_line r =
  app (raw_version r.rs_version)
    (app (sP :: []) (app (raw_status r.rs_status) (sP :: (cR :: (lF :: [])))))

(** val join_methods : method0 list -> bytes **)

let rec join_methods = function
| [] -> []
| m :: r ->
  (match r with
   | [] -> raw_method m
   | _ :: _ ->
     app (raw_method m)
       (app
         (bytes_of_string (String ((Ascii (false, false, true, true, false,
           true, false, false)), (String ((Ascii (false, false, false, false,
           false, true, false, false)), EmptyString))))) (join_methods r)))

(** val allow_line : response -> bytes **)

let allow_line r =
  match r.rs_allow with
  | [] -> []
  | m :: l ->
    app
      (bytes_of_string (String ((Ascii (true, false, false, false, false,
        false, true, false)), (String ((Ascii (false, false, true, true,
        false, true, true, false)), (String ((Ascii (false, false, true,
        true, false, true, true, false)), (String ((Ascii (true, true, true,
        true, false, true, true, false)), (String ((Ascii (true, true, true,
        false, true, true, true, false)), (String ((Ascii (false, true,
        false, true, true, true, false, false)), (String ((Ascii (false,
        false, false, false, false, true, false, false)),
        EmptyString))))))))))))))) (app (join_methods (m :: l)) cRLF)

(** val deprecation_line : response -> bytes **)

let deprecation_line r =
  if r.rs_deprecation
  then app
         (bytes_of_string (String ((Ascii (false, false, true, false, false,
           false, true, false)), (String ((Ascii (true, false, true, false,
           false, true, true, false)), (String ((Ascii (false, false, false,
           false, true, true, true, false)), (String ((Ascii (false, true,
           false, false, true, true, true, false)), (String ((Ascii (true,
           false, true, false, false, true, true, false)), (String ((Ascii
           (true, true, false, false, false, true, true, false)), (String
           ((Ascii (true, false, false, false, false, true, true, false)),
           (String ((Ascii (false, false, true, false, true, true, true,
           false)), (String ((Ascii (true, false, false, true, false, true,
           true, false)), (String ((Ascii (true, true, true, true, false,
           true, true, false)), (String ((Ascii (false, true, true, true,
           false, true, true, false)), (String ((Ascii (false, true, false,
           true, true, true, false, false)), (String ((Ascii (false, false,
           false, false, false, true, false, false)), (String ((Ascii (false,
           false, true, false, true, true, true, false)), (String ((Ascii
           (false, true, false, false, true, true, true, false)), (String
           ((Ascii (true, false, true, false, true, true, true, false)),
           (String ((Ascii (true, false, true, false, false, true, true,
           false)), EmptyString))))))))))))))))))))))))))))))))))) cRLF
  else []

(** val header_block : response -> bytes **)

let header_block r =
  app (raw_header HServer)
    (app (cOLON :: (sP :: []))
      (app r.rs_server
        (app cRLF
          (app
            (bytes_of_string (String ((Ascii (true, true, false, false,
              false, false, true, false)), (String ((Ascii (true, true, true,
              true, false, true, true, false)), (String ((Ascii (false, true,
              true, true, false, true, true, false)), (String ((Ascii (false,
              true, true, true, false, true, true, false)), (String ((Ascii
              (true, false, true, false, false, true, true, false)), (String
              ((Ascii (true, true, false, false, false, true, true, false)),
              (String ((Ascii (false, false, true, false, true, true, true,
              false)), (String ((Ascii (true, false, false, true, false,
              true, true, false)), (String ((Ascii (true, true, true, true,
              false, true, true, false)), (String ((Ascii (false, true, true,
              true, false, true, true, false)), (String ((Ascii (false, true,
              false, true, true, true, false, false)), (String ((Ascii
              (false, false, false, false, false, true, false, false)),
              (String ((Ascii (true, true, false, true, false, true, true,
              false)), (String ((Ascii (true, false, true, false, false,
              true, true, false)), (String ((Ascii (true, false, true, false,
              false, true, true, false)), (String ((Ascii (false, false,
              false, false, true, true, true, false)), (String ((Ascii (true,
              false, true, true, false, true, false, false)), (String ((Ascii
              (true, false, false, false, false, true, true, false)), (String
              ((Ascii (false, false, true, true, false, true, true, false)),
              (String ((Ascii (true, false, false, true, false, true, true,
              false)), (String ((Ascii (false, true, true, false, true, true,
              true, false)), (String ((Ascii (true, false, true, false,
              false, true, true, false)),
              EmptyString)))))))))))))))))))))))))))))))))))))))))))))
            (app cRLF
              (app (allow_line r)
                (app (deprecation_line r)
                  (app
                    (match r.rs_content_length with
                     | Some n0 ->
                       app (raw_header HContentType)
                         (app (cOLON :: (sP :: []))
                           (app (media_str r.rs_content_type)
                             (app cRLF
                               (app (raw_header HContentLength)
                                 (app (cOLON :: (sP :: []))
                                   (app (decZ n0)
                                     (app cRLF
                                       (if r.rs_accept_encoding
                                        then app (raw_header HAcceptEncoding)
                                               (app (cOLON :: (sP :: []))
                                                 (app
                                                   (bytes_of_string (String
                                                     ((Ascii (true, false,
                                                     false, true, false,
                                                     true, true, false)),
                                                     (String ((Ascii (false,
                                                     false, true, false,
                                                     false, true, true,
                                                     false)), (String ((Ascii
                                                     (true, false, true,
                                                     false, false, true,
                                                     true, false)), (String
                                                     ((Ascii (false, true,
                                                     true, true, false, true,
                                                     true, false)), (String
                                                     ((Ascii (false, false,
                                                     true, false, true, true,
                                                     true, false)), (String
                                                     ((Ascii (true, false,
                                                     false, true, false,
                                                     true, true, false)),
                                                     (String ((Ascii (false,
                                                     false, true, false,
                                                     true, true, true,
                                                     false)), (String ((Ascii
                                                     (true, false, false,
                                                     true, true, true, true,
                                                     false)),
                                                     EmptyString)))))))))))))))))
                                                   cRLF))
                                        else []))))))))
                     | None -> []) cRLF))))))))

(** val serialize : response -> bytes **)

let serialize r =
  app (status_line r)
    (app (header_block r) (match r.rs_body with
                           | Some b -> b
                           | None -> []))

type sink_ev =
| SkTake of nat
| SkIntr
| SkErr

(** val write_all :
    sink_ev list -> bytes -> bytes -> (bytes * sink_ev list) option **)

let rec write_all script data acc =
  match data with
  | [] -> Some (acc, script)
  | _ :: _ ->
    (match script with
     | [] -> None
     | s :: sc ->
       (match s with
        | SkTake k ->
          (match k with
           | O -> None
           | S _ -> write_all sc (skipn k data) (app acc (firstn k data)))
        | SkIntr -> write_all sc data acc
        | SkErr -> None))

type cstate =
| WaitingForRequestLine
| WaitingForHeaders
| WaitingForBody
| RequestReady

type conn = { c_state : cstate; c_win : bytes; c_pending : request option;
              c_body_vec : bytes; c_body_left : n; c_parsed : request list;
              c_rq : response list; c_rbuf : bytes option;
              c_files : nat list; c_pmax : n }

(** val mAX_PAYLOAD_SIZE : n **)

let mAX_PAYLOAD_SIZE =
  Npos (XO (XO (XO (XO (XO (XO (XO (XO (XO (XO (XO (XI (XO (XO (XI
    XH)))))))))))))))

(** val conn_new : conn **)

let conn_new =
  { c_state = WaitingForRequestLine; c_win = []; c_pending = None;
    c_body_vec = []; c_body_left = N0; c_parsed = []; c_rq = []; c_rbuf =
    None; c_files = []; c_pmax = mAX_PAYLOAD_SIZE }

(** val set_payload_max_size : conn -> n -> conn **)

let set_payload_max_size c n0 =
  { c_state = c.c_state; c_win = c.c_win; c_pending = c.c_pending;
    c_body_vec = c.c_body_vec; c_body_left = c.c_body_left; c_parsed =
    c.c_parsed; c_rq = c.c_rq; c_rbuf = c.c_rbuf; c_files = c.c_files;
    c_pmax = n0 }

type conn_err =
| ConnectionClosed
| InvalidWrite
| ParseError of req_err
| StreamReadError of z
| StreamWriteError

type read_ev =
| RData of bytes * nat list
| REof of nat list
| RFail of z

type rd_result =
| RdOk
| RdErr of conn_err
| RdPanic of nat

(** val sub0 : bytes -> nat -> nat -> bytes option **)

let sub0 buf a b =
  if (&&) (Nat.leb a b) (Nat.leb b (length buf))
  then Some (firstn (sub b a) (skipn a buf))
  else None

type pres =
| PStep of conn * nat
| PStop of conn
| PErr of conn * req_err
| PPanic of nat

(** val upd_parse :
    conn -> cstate -> bytes -> request option -> bytes -> n -> conn **)

let upd_parse c st win pend bv bl =
  { c_state = st; c_win = win; c_pending = pend; c_body_vec = bv;
    c_body_left = bl; c_parsed = c.c_parsed; c_rq = c.c_rq; c_rbuf =
    c.c_rbuf; c_files = c.c_files; c_pmax = c.c_pmax }

(** val shift_buffer_left : nat -> conn -> bytes -> nat -> pres **)

let shift_buffer_left bUF c buf start =
  let e = length buf in
  if Nat.ltb bUF e
  then PErr (c, Overflow)
  else if Nat.ltb e start
       then PErr (c, Underflow)
       else PStop
              (upd_parse c c.c_state (skipn start buf) c.c_pending
                c.c_body_vec c.c_body_left)

(** val parse_request_line : nat -> conn -> bytes -> nat -> pres **)

let parse_request_line bUF c buf start =
  let e = length buf in
  if Nat.ltb e start
  then PErr (c, Underflow)
  else if Nat.ltb bUF e
       then PErr (c, Overflow)
       else (match sub0 buf start e with
             | Some w ->
               (match find_crlf w with
                | Some i ->
                  (match sub0 buf start (add start i) with
                   | Some line ->
                     (match parse_reqline line with
                      | Ok rl ->
                        PStep
                          ((upd_parse c WaitingForHeaders c.c_win (Some
                             { r_line = rl; r_headers = headers_default;
                             r_body = None; r_files = [] }) c.c_body_vec
                             c.c_body_left), (add (add start i) (S (S O))))
                      | Err err -> PErr (c, err))
                   | None ->
                     PPanic (S (S (S (S (S (S (S (S (S (S (S O))))))))))))
                | None ->
                  if (&&) (Nat.eqb e bUF) (Nat.eqb start O)
                  then PErr (c, InvalidRequest)
                  else shift_buffer_left bUF c buf start)
             | None -> PPanic (S (S (S (S (S (S (S (S (S (S O)))))))))))

(** val with_headers : request -> headers -> request **)

let with_headers r h =
  { r_line = r.r_line; r_headers = h; r_body = r.r_body; r_files = r.r_files }

(** val with_body : request -> bytes option -> request **)

let with_body r b =
  { r_line = r.r_line; r_headers = r.r_headers; r_body = b; r_files =
    r.r_files }

(** val with_files : request -> nat list -> request **)

let with_files r f =
  { r_line = r.r_line; r_headers = r.r_headers; r_body = r.r_body; r_files =
    f }

(** val parse_headers : nat -> conn -> bytes -> nat -> pres **)

let parse_headers bUF c buf start =
  let e = length buf in
  if Nat.ltb bUF e
  then PErr (c, Overflow)
  else if Nat.ltb e start
       then PErr (c, Underflow)
       else (match sub0 buf start e with
             | Some w ->
               (match find_crlf w with
                | Some i ->
                  (match i with
                   | O ->
                     (match c.c_pending with
                      | Some r ->
                        let cl = r.r_headers.h_content_length in
                        if N.eqb cl N0
                        then PStep
                               ((upd_parse c RequestReady c.c_win (Some r)
                                  c.c_body_vec c.c_body_left),
                               (add start (S (S O))))
                        else if N.ltb c.c_pmax cl
                             then PErr (c, (SizeLimitExceeded (c.c_pmax, cl)))
                             else let rq' =
                                    if r.r_headers.h_expect
                                    then app c.c_rq
                                           ((response_new r.r_line.rl_version
                                              Continue) :: [])
                                    else c.c_rq
                                  in
                                  PStep ({ c_state = WaitingForBody; c_win =
                                  c.c_win; c_pending = (Some
                                  (with_body r (Some []))); c_body_vec =
                                  c.c_body_vec; c_body_left = cl; c_parsed =
                                  c.c_parsed; c_rq = rq'; c_rbuf = c.c_rbuf;
                                  c_files = c.c_files; c_pmax = c.c_pmax },
                                  (add start (S (S O))))
                      | None -> PErr (c, HeadersWithoutPendingRequest))
                   | S _ ->
                     (match c.c_pending with
                      | Some r ->
                        let line_end = add i start in
                        (match sub0 buf start line_end with
                         | Some line ->
                           (match parse_header_line r.r_headers line with
                            | Ok h' ->
                              PStep
                                ((upd_parse c c.c_state c.c_win (Some
                                   (with_headers r h')) c.c_body_vec
                                   c.c_body_left), (add line_end (S (S O))))
                            | Err err ->
                              (match err with
                               | HeaderError e0 ->
                                 (match e0 with
                                  | UnsupportedValue (_, _) ->
                                    PStep (c, (add line_end (S (S O))))
                                  | _ -> PErr (c, err))
                               | _ -> PErr (c, err)))
                         | None ->
                           PPanic (S (S (S (S (S (S (S (S (S (S (S (S (S (S
                             (S (S (S (S (S (S (S O))))))))))))))))))))))
                      | None -> PErr (c, HeadersWithoutPendingRequest)))
                | None ->
                  if (&&) (Nat.eqb start O) (Nat.eqb e bUF)
                  then PErr (c, (HeaderError (HSizeLimitExceeded buf)))
                  else shift_buffer_left bUF c buf start)
             | None ->
               PPanic (S (S (S (S (S (S (S (S (S (S (S (S (S (S (S (S (S (S
                 (S (S O)))))))))))))))))))))

(** val parse_body : nat -> conn -> bytes -> nat -> pres **)

let parse_body bUF c buf start =
  let e = length buf in
  if Nat.ltb bUF e
  then PErr (c, Overflow)
  else if Nat.ltb e start
       then PErr (c, Underflow)
       else let start_to_end = N.modulo (N.of_nat (sub e start)) u32_LIMIT in
            if N.ltb start_to_end c.c_body_left
            then (match sub0 buf start e with
                  | Some chunk ->
                    PStop
                      (upd_parse c c.c_state [] c.c_pending
                        (app c.c_body_vec chunk)
                        (N.sub c.c_body_left start_to_end))
                  | None ->
                    PPanic (S (S (S (S (S (S (S (S (S (S (S (S (S (S (S (S (S
                      (S (S (S (S (S (S (S (S (S (S (S (S (S
                      O)))))))))))))))))))))))))))))))
            else let line_end = add start (N.to_nat c.c_body_left) in
                 (match sub0 buf start line_end with
                  | Some chunk ->
                    let bv = app c.c_body_vec chunk in
                    (match c.c_pending with
                     | Some r ->
                       let cl = N.to_nat r.r_headers.h_content_length in
                       if Nat.ltb (length bv) cl
                       then PPanic (S (S (S (S (S (S (S (S (S (S (S (S (S (S
                              (S (S (S (S (S (S (S (S (S (S (S (S (S (S (S (S
                              (S (S O))))))))))))))))))))))))))))))))
                       else let r' = with_body r (Some (firstn cl bv)) in
                            let bv' = skipn cl bv in
                            (match bv' with
                             | [] ->
                               PStep
                                 ((upd_parse c RequestReady c.c_win (Some r')
                                    [] N0), line_end)
                             | _ :: _ ->
                               PErr
                                 ((upd_parse c c.c_state c.c_win (Some r')
                                    bv' N0), InvalidRequest))
                     | None -> PErr (c, BodyWithoutPendingRequest))
                  | None ->
                    PPanic (S (S (S (S (S (S (S (S (S (S (S (S (S (S (S (S (S
                      (S (S (S (S (S (S (S (S (S (S (S (S (S (S
                      O))))))))))))))))))))))))))))))))

type lres =
| LOk of conn
| LErr of conn * req_err
| LPanic of nat

(** val read_loop : nat -> nat -> conn -> bytes -> nat -> lres **)

let rec read_loop bUF fuel c buf start =
  match fuel with
  | O ->
    LPanic (S (S (S (S (S (S (S (S (S (S (S (S (S (S (S (S (S (S (S (S (S (S
      (S (S (S (S (S (S (S (S (S (S (S (S (S (S (S (S (S (S (S (S (S (S (S (S
      (S (S (S (S (S (S (S (S (S (S (S (S (S (S (S (S (S (S (S (S (S (S (S (S
      (S (S (S (S (S (S (S (S (S (S (S (S (S (S (S (S (S (S (S (S (S (S (S (S
      (S (S (S (S (S
      O)))))))))))))))))))))))))))))))))))))))))))))))))))))))))))))))))))))))))))))))))))))))))))))))))))
  | S f ->
    (match c.c_state with
     | WaitingForRequestLine ->
       (match parse_request_line bUF c buf start with
        | PStep (c', start') -> read_loop bUF f c' buf start'
        | PStop c' -> LOk c'
        | PErr (c', err) -> LErr (c', err)
        | PPanic s -> LPanic s)
     | WaitingForHeaders ->
       (match parse_headers bUF c buf start with
        | PStep (c', start') -> read_loop bUF f c' buf start'
        | PStop c' -> LOk c'
        | PErr (c', err) -> LErr (c', err)
        | PPanic s -> LPanic s)
     | WaitingForBody ->
       (match parse_body bUF c buf start with
        | PStep (c', start') -> read_loop bUF f c' buf start'
        | PStop c' -> LOk c'
        | PErr (c', err) -> LErr (c', err)
        | PPanic s -> LPanic s)
     | RequestReady ->
       (match c.c_pending with
        | Some r ->
          read_loop bUF f { c_state = WaitingForRequestLine; c_win = c.c_win;
            c_pending = None; c_body_vec = c.c_body_vec; c_body_left = N0;
            c_parsed = (app c.c_parsed ((with_files r c.c_files) :: []));
            c_rq = c.c_rq; c_rbuf = c.c_rbuf; c_files = []; c_pmax =
            c.c_pmax } buf start
        | None ->
          LPanic (S (S (S (S (S (S (S (S (S (S (S (S (S (S (S (S (S (S (S (S
            (S (S (S (S (S (S (S (S (S (S (S (S (S (S (S (S (S (S (S (S
            O))))))))))))))))))))))))))))))))))))))))))

(** val reset_parser : conn -> conn **)

let reset_parser c =
  { c_state = WaitingForRequestLine; c_win = []; c_pending = None;
    c_body_vec = []; c_body_left = N0; c_parsed = c.c_parsed; c_rq = c.c_rq;
    c_rbuf = c.c_rbuf; c_files = []; c_pmax = c.c_pmax }

(** val add_files : conn -> nat list -> conn **)

let add_files c fds =
  { c_state = c.c_state; c_win = c.c_win; c_pending = c.c_pending;
    c_body_vec = c.c_body_vec; c_body_left = c.c_body_left; c_parsed =
    c.c_parsed; c_rq = c.c_rq; c_rbuf = c.c_rbuf; c_files =
    (app c.c_files fds); c_pmax = c.c_pmax }

(** val loop_fuel : bytes -> nat **)

let loop_fuel buf =
  add (mul (S (S O)) (length buf)) (S (S (S (S O))))

(** val try_read : nat -> conn -> read_ev -> (conn * rd_result) * bool **)

let try_read bUF c ev =
  if Nat.leb bUF (length c.c_win)
  then (((reset_parser c), (RdErr (ParseError Overflow))), false)
  else (match ev with
        | RData (bs, fds) ->
          (match bs with
           | [] -> (((add_files c fds), (RdErr ConnectionClosed)), true)
           | _ :: _ ->
             let buf = app c.c_win bs in
             (match read_loop bUF (loop_fuel buf) (add_files c fds) buf O with
              | LOk c' -> ((c', RdOk), true)
              | LErr (c', err) ->
                (((reset_parser c'), (RdErr (ParseError err))), true)
              | LPanic s -> ((c, (RdPanic s)), true)))
        | REof fds -> (((add_files c fds), (RdErr ConnectionClosed)), true)
        | RFail errno -> ((c, (RdErr (StreamReadError errno))), true))

type write_ev =
| WWrote of nat
| WIntr
| WFail

type wr_result =
| WrOk
| WrErr of conn_err
| WrPanic of nat

(** val set_write : conn -> response list -> bytes option -> conn **)

let set_write c rq rb =
  { c_state = c.c_state; c_win = c.c_win; c_pending = c.c_pending;
    c_body_vec = c.c_body_vec; c_body_left = c.c_body_left; c_parsed =
    c.c_parsed; c_rq = rq; c_rbuf = rb; c_files = c.c_files; c_pmax =
    c.c_pmax }

(** val clear_write_buffer : conn -> conn **)

let clear_write_buffer c =
  set_write c [] None

(** val enqueue_response : conn -> response -> conn **)

let enqueue_response c r =
  set_write c (app c.c_rq (r :: [])) c.c_rbuf

(** val pending_write : conn -> bool **)

let pending_write c =
  match c.c_rbuf with
  | Some _ -> true
  | None -> (match c.c_rq with
             | [] -> false
             | _ :: _ -> true)

(** val pop_parsed_request : conn -> request option * conn **)

let pop_parsed_request c =
  match c.c_parsed with
  | [] -> (None, c)
  | r :: q ->
    ((Some r), { c_state = c.c_state; c_win = c.c_win; c_pending =
      c.c_pending; c_body_vec = c.c_body_vec; c_body_left = c.c_body_left;
      c_parsed = q; c_rq = c.c_rq; c_rbuf = c.c_rbuf; c_files = c.c_files;
      c_pmax = c.c_pmax })

(** val try_write : conn -> write_ev -> (conn * wr_result) * bytes option **)

let try_write c ev =
  let staged =
    match c.c_rbuf with
    | Some b -> Some (c, b)
    | None ->
      (match c.c_rq with
       | [] -> None
       | r :: q -> Some ((set_write c q (Some (serialize r))), (serialize r)))
  in
  (match staged with
   | Some p ->
     let (c1, b) = p in
     (match ev with
      | WWrote k ->
        (match k with
         | O ->
           (((clear_write_buffer c1), (WrErr ConnectionClosed)), (Some b))
         | S _ ->
           if Nat.eqb k (length b)
           then (((set_write c1 c1.c_rq None), WrOk), (Some b))
           else if Nat.ltb (length b) k
                then ((c1, (WrPanic (S (S (S (S (S (S (S (S (S (S (S (S (S (S
                       (S (S (S (S (S (S (S (S (S (S (S (S (S (S (S (S (S (S
                       (S (S (S (S (S (S (S (S (S (S (S (S (S (S (S (S (S (S
                       O)))))))))))))))))))))))))))))))))))))))))))))))))))),
                       (Some b))
                else (((set_write c1 c1.c_rq (Some (skipn k b))), WrOk),
                       (Some b)))
      | WIntr -> ((c1, WrOk), (Some b))
      | WFail ->
        (((clear_write_buffer c1), (WrErr ConnectionClosed)), (Some b)))
   | None -> ((c, (WrErr InvalidWrite)), None))

type 'handler routes = { rt_server_id : bytes; rt_prefix : bytes;
                         rt_table : (bytes * 'handler) list }

(** val routes_new : bytes -> bytes -> 'a1 routes **)

let routes_new server_id prefix =
  { rt_server_id = server_id; rt_prefix = prefix; rt_table = [] }

(** val route_key : method0 -> bytes -> bytes **)

let route_key m full_path =
  app (method_to_str m) (app (cOLON :: []) full_path)

(** val table_get : bytes -> (bytes * 'a1) list -> 'a1 option **)

let rec table_get k = function
| [] -> None
| p :: r -> let (k', h) = p in if beq k k' then Some h else table_get k r

(** val add_route :
    'a1 routes -> method0 -> bytes -> 'a1 -> 'a1 routes * bytes option **)

let add_route rt m path h =
  let k = route_key m (app rt.rt_prefix path) in
  (match table_get k rt.rt_table with
   | Some _ -> (rt, (Some k))
   | None ->
     ({ rt_server_id = rt.rt_server_id; rt_prefix = rt.rt_prefix; rt_table =
       (app rt.rt_table ((k, h) :: [])) }, None))

(** val handle_http_request :
    ('a1 -> request -> response) -> 'a1 routes -> request -> 'a1
    option * response **)

let handle_http_request run_handler rt req =
  let k = route_key req.r_line.rl_method (abs_path req.r_line.rl_uri) in
  (match table_get k rt.rt_table with
   | Some h ->
     let who = Some h in
     let resp = run_handler h req in
     (who,
     (apply_op (apply_op resp (SetServer rt.rt_server_id)) (SetContentType
       ApplicationJson)))
   | None ->
     let who = None in
     let resp = response_new Http11 NotFound in
     (who,
     (apply_op (apply_op resp (SetServer rt.rt_server_id)) (SetContentType
       ApplicationJson))))
