lib/Bytes.vo lib/Bytes.glob lib/Bytes.v.beautified lib/Bytes.required_vo: lib/Bytes.v 
lib/Bytes.vio: lib/Bytes.v 
lib/Bytes.vos lib/Bytes.vok lib/Bytes.required_vos: lib/Bytes.v 
lib/Utf8.vo lib/Utf8.glob lib/Utf8.v.beautified lib/Utf8.required_vo: lib/Utf8.v lib/Bytes.vo
lib/Utf8.vio: lib/Utf8.v lib/Bytes.vio
lib/Utf8.vos lib/Utf8.vok lib/Utf8.required_vos: lib/Utf8.v lib/Bytes.vos
lib/Str.vo lib/Str.glob lib/Str.v.beautified lib/Str.required_vo: lib/Str.v lib/Bytes.vo lib/Utf8.vo
lib/Str.vio: lib/Str.v lib/Bytes.vio lib/Utf8.vio
lib/Str.vos lib/Str.vok lib/Str.required_vos: lib/Str.v lib/Bytes.vos lib/Utf8.vos
model/Types.vo model/Types.glob model/Types.v.beautified model/Types.required_vo: model/Types.v lib/Bytes.vo lib/Utf8.vo lib/Str.vo
model/Types.vio: model/Types.v lib/Bytes.vio lib/Utf8.vio lib/Str.vio
model/Types.vos model/Types.vok model/Types.required_vos: model/Types.v lib/Bytes.vos lib/Utf8.vos lib/Str.vos
model/Tokens.vo model/Tokens.glob model/Tokens.v.beautified model/Tokens.required_vo: model/Tokens.v model/Types.vo
model/Tokens.vio: model/Tokens.v model/Types.vio
model/Tokens.vos model/Tokens.vok model/Tokens.required_vos: model/Tokens.v model/Types.vos
model/Headers.vo model/Headers.glob model/Headers.v.beautified model/Headers.required_vo: model/Headers.v model/Tokens.vo
model/Headers.vio: model/Headers.v model/Tokens.vio
model/Headers.vos model/Headers.vok model/Headers.required_vos: model/Headers.v model/Tokens.vos
model/RequestLine.vo model/RequestLine.glob model/RequestLine.v.beautified model/RequestLine.required_vo: model/RequestLine.v model/Headers.vo
model/RequestLine.vio: model/RequestLine.v model/Headers.vio
model/RequestLine.vos model/RequestLine.vok model/RequestLine.required_vos: model/RequestLine.v model/Headers.vos
model/ConnSpec.vo model/ConnSpec.glob model/ConnSpec.v.beautified model/ConnSpec.required_vo: model/ConnSpec.v model/RequestLine.vo
model/ConnSpec.vio: model/ConnSpec.v model/RequestLine.vio
model/ConnSpec.vos model/ConnSpec.vok model/ConnSpec.required_vos: model/ConnSpec.v model/RequestLine.vos
model/OneShot.vo model/OneShot.glob model/OneShot.v.beautified model/OneShot.required_vo: model/OneShot.v model/RequestLine.vo
model/OneShot.vio: model/OneShot.v model/RequestLine.vio
model/OneShot.vos model/OneShot.vok model/OneShot.required_vos: model/OneShot.v model/RequestLine.vos
model/Response.vo model/Response.glob model/Response.v.beautified model/Response.required_vo: model/Response.v model/Tokens.vo
model/Response.vio: model/Response.v model/Tokens.vio
model/Response.vos model/Response.vok model/Response.required_vos: model/Response.v model/Tokens.vos
model/ConnImpl.vo model/ConnImpl.glob model/ConnImpl.v.beautified model/ConnImpl.required_vo: model/ConnImpl.v model/RequestLine.vo model/Response.vo
model/ConnImpl.vio: model/ConnImpl.v model/RequestLine.vio model/Response.vio
model/ConnImpl.vos model/ConnImpl.vok model/ConnImpl.required_vos: model/ConnImpl.v model/RequestLine.vos model/Response.vos
model/Router.vo model/Router.glob model/Router.v.beautified model/Router.required_vo: model/Router.v model/ConnImpl.vo
model/Router.vio: model/Router.v model/ConnImpl.vio
model/Router.vos model/Router.vok model/Router.required_vos: model/Router.v model/ConnImpl.vos
extract/Extract.vo extract/Extract.glob extract/Extract.v.beautified extract/Extract.required_vo: extract/Extract.v model/ConnSpec.vo model/OneShot.vo model/ConnImpl.vo model/Router.vo
extract/Extract.vio: extract/Extract.v model/ConnSpec.vio model/OneShot.vio model/ConnImpl.vio model/Router.vio
extract/Extract.vos extract/Extract.vok extract/Extract.required_vos: extract/Extract.v model/ConnSpec.vos model/OneShot.vos model/ConnImpl.vos model/Router.vos
