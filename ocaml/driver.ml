(* Driver for the extracted model: reads one case per line (tree syntax: decimal numbers,
   x<hex> byte strings, parenthesised lists), runs Model.run_case, prints the observation
   lines.  Usage: driver BUF < cases > observations *)

let rec pos_of_int (i : int) : Model.positive =
  if i = 1 then Model.XH else if i land 1 = 1 then Model.XI (pos_of_int (i lsr 1)) else Model.XO (pos_of_int (i lsr 1))
let n_of_int (i : int) : Model.n = if i = 0 then Model.N0 else Model.Npos (pos_of_int i)
let rec nat_of_int (i : int) : Model.nat = if i = 0 then Model.O else Model.S (nat_of_int (i - 1))
let rec int_of_pos = function Model.XH -> 1 | Model.XO p -> 2 * int_of_pos p | Model.XI p -> 2 * int_of_pos p + 1
let int_of_n = function Model.N0 -> 0 | Model.Npos p -> int_of_pos p

let byte_tab = Array.init 256 n_of_int

let hexval c = match c with
  | '0'..'9' -> Char.code c - 48
  | 'a'..'f' -> Char.code c - 87
  | 'A'..'F' -> Char.code c - 55
  | _ -> failwith "bad hex"

(* big decimal numbers (up to 2^64 and beyond) -> n, via repeated doubling on strings is
   overkill: case numbers fit in 62 bits *)
let parse (s : string) : Model.arg =
  let len = String.length s in
  let pos = ref 0 in
  let rec skip () = if !pos < len && (s.[!pos] = ' ' || s.[!pos] = '\t') then (incr pos; skip ()) in
  let rec item () : Model.arg =
    skip ();
    if !pos >= len then failwith "eof";
    match s.[!pos] with
    | '(' ->
        incr pos;
        let acc = ref [] in
        let rec loop () =
          skip ();
          if !pos >= len then failwith "unclosed";
          if s.[!pos] = ')' then incr pos
          else (acc := item () :: !acc; loop ()) in
        loop ();
        Model.AL (List.rev !acc)
    | 'x' ->
        incr pos;
        let start = !pos in
        while !pos < len && s.[!pos] <> ' ' && s.[!pos] <> ')' && s.[!pos] <> '(' do incr pos done;
        let n = (!pos - start) / 2 in
        let rec build i acc =
          if i < 0 then acc
          else build (i - 1) (byte_tab.(hexval s.[start + 2*i] * 16 + hexval s.[start + 2*i + 1]) :: acc) in
        Model.AB (build (n - 1) [])
    | '0'..'9' ->
        let start = !pos in
        while !pos < len && s.[!pos] >= '0' && s.[!pos] <= '9' do incr pos done;
        Model.AN (n_of_int (int_of_string (String.sub s start (!pos - start))))
    | c -> failwith (Printf.sprintf "bad char %c at %d" c !pos)
  in
  item ()

let print_bytes (b : Model.n list) =
  let buf = Buffer.create 256 in
  List.iter (fun x -> Buffer.add_char buf (Char.chr (int_of_n x land 255))) b;
  print_string (Buffer.contents buf);
  print_char '\n'

let () =
  let bufsz = if Array.length Sys.argv > 1 then int_of_string Sys.argv.(1) else 1024 in
  let bufn = nat_of_int bufsz in
  (try
    while true do
      let line = input_line stdin in
      if String.length line > 0 && line.[0] = '(' then begin
        let a = parse line in
        List.iter print_bytes (Model.run_case bufn a)
      end
    done
  with End_of_file -> ());
  flush stdout
