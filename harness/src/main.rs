// Correspondence harness: runs the implementation built from /repo's working tree on the
// generated cases and prints one canonical observation line per step, in exactly the format
// the Coq model's interpreter (coq/run/Run.v) renders.
mod mock;
mod server;
mod tree;
mod util;

use micro_http::{
    Body, Encoding, EndpointHandler, Headers, HttpConnection, HttpRoutes, MediaType, Method,
    Request, Response, StatusCode, Version,
};
use mock::{Mock, ReadPlan, WritePlan};
use std::io::{BufRead, Write};
use std::os::unix::io::AsRawFd;
use std::panic::{catch_unwind, AssertUnwindSafe};
use std::sync::{Arc, Mutex};
use tree::Arg;
use util::*;

fn method_of(n: u64) -> Method {
    match n {
        0 => Method::Get,
        1 => Method::Put,
        _ => Method::Patch,
    }
}
fn version_of(n: u64) -> Version {
    if n == 0 {
        Version::Http10
    } else {
        Version::Http11
    }
}
fn media_of(n: u64) -> MediaType {
    if n == 0 {
        MediaType::PlainText
    } else {
        MediaType::ApplicationJson
    }
}
const ALL_STATUS: [StatusCode; 11] = [
    StatusCode::Continue,
    StatusCode::OK,
    StatusCode::NoContent,
    StatusCode::BadRequest,
    StatusCode::Unauthorized,
    StatusCode::NotFound,
    StatusCode::MethodNotAllowed,
    StatusCode::PayloadTooLarge,
    StatusCode::InternalServerError,
    StatusCode::NotImplemented,
    StatusCode::ServiceUnavailable,
];
fn status_of(n: u64) -> StatusCode {
    if (n as usize) < ALL_STATUS.len() {
        ALL_STATUS[n as usize]
    } else {
        StatusCode::ServiceUnavailable
    }
}

fn apply_ops(r: &mut Response, ops: &[Arg]) {
    for op in ops {
        let l = op.l();
        match l[0].n() {
            0 => r.set_body(Body::new(l[1].b().to_vec())),
            1 => r.set_content_type(media_of(l[1].n())),
            2 => r.set_deprecation(),
            3 => r.set_encoding(),
            4 => r.set_server(std::str::from_utf8(l[1].b()).expect("server string must be UTF-8")),
            5 => r.set_allow(l[1..].iter().map(|m| method_of(m.n())).collect()),
            6 => r.allow_method(method_of(l[1].n())),
            7 => {
                if l.len() == 1 {
                    r.set_content_length(None)
                } else {
                    r.set_content_length(Some(l[1].n() as i32))
                }
            }
            8 => r.set_content_length(Some(-(l[1].n() as i64) as i32)),
            _ => {}
        }
    }
}

pub fn response_of(a: &Arg) -> Response {
    let l = a.l();
    let mut r = Response::new(version_of(l[0].n()), status_of(l[1].n()));
    apply_ops(&mut r, l[2].l());
    r
}

pub fn serialize(r: &Response) -> Vec<u8> {
    let mut v = vec![];
    r.write_all(&mut v).unwrap();
    v
}

fn opt_s<T>(o: Option<T>, f: impl Fn(T) -> &'static str) -> String {
    match o {
        Some(x) => f(x).to_string(),
        None => "None".to_string(),
    }
}

fn one_s(r: Result<Request, micro_http::RequestError>) -> String {
    match r {
        Ok(req) => request_s(&req, ""),
        Err(e) => format!("ERR {}", req_err_s(&e)),
    }
}

fn run_tok(id: u64, kind: u64, bs: &[u8]) -> String {
    let body = match kind {
        0 => format!("method={}", opt_s(Method::try_from(bs).ok(), method_s)),
        1 => format!("version={}", opt_s(Version::try_from(bs).ok(), version_s)),
        2 => format!("media={}", opt_s(MediaType::try_from(bs).ok(), media_s)),
        3 => {
            let mut v = b"GET ".to_vec();
            v.extend_from_slice(bs);
            v.extend_from_slice(b" HTTP/1.1\r\n\r\n");
            match Request::try_from(&v, None) {
                Ok(req) => format!("abs={}", hex(req.uri().get_abs_path().as_bytes())),
                Err(e) => format!("abs!ERR {}", req_err_s(&e)),
            }
        }
        4 => match Encoding::try_from(bs) {
            Ok(_) => "enc=ok".to_string(),
            Err(e) => format!("enc=ERR {}", req_err_s(&e)),
        },
        5 => {
            let n = bs.len() as u64;
            format!(
                "rawm={} rawv={} media={} status={}",
                hex(method_of(n).raw()),
                hex(version_of(n).raw()),
                hex(media_of(n).as_str().as_bytes()),
                hex(status_of(n).raw())
            )
        }
        _ => "?".to_string(),
    };
    format!("tok {} {}", id, body)
}

fn run_hdr_lines(id: u64, ls: &[Arg], out: &mut Vec<String>) {
    let mut h = Headers::default();
    for (i, l) in ls.iter().enumerate() {
        match h.parse_header_line(l.b()) {
            Ok(()) => out.push(format!("hdr {} {} ok", id, i)),
            Err(e) => out.push(format!("hdr {} {} ERR {}", id, i, req_err_s(&e))),
        }
    }
    out.push(format!("hdr {} end {}", id, headers_s(&h)));
}

fn run_blk(id: u64, bs: &[u8]) -> String {
    match Headers::try_from(bs) {
        Ok(h) => format!("blk {} ok {}", id, headers_s(&h)),
        Err(e) => format!("blk {} ERR {}", id, req_err_s(&e)),
    }
}

fn files_s(r: &Request) -> String {
    r.files
        .iter()
        .map(|f| mock::read_tag(f.as_raw_fd()))
        .collect::<Vec<_>>()
        .join(",")
}

fn rd_s(r: &Result<(), micro_http::ConnectionError>) -> String {
    match r {
        Ok(()) => "Ok".to_string(),
        Err(e) => format!("Err({})", conn_err_s(e)),
    }
}

fn run_conn(id: u64, limit: u64, stream: &[u8], ops: &[Arg], out: &mut Vec<String>) {
    let m = Mock::new(stream.to_vec());
    let shared = m.s.clone();
    let mut conn = HttpConnection::new(m);
    conn.set_payload_max_size(limit as usize);
    let mock = |f: &mut dyn FnMut(&mut mock::Inner)| f(&mut shared.borrow_mut());
    // shadow mode (first op is (12)): from the first parse error on, a freshly created connection
    // with the same limit is fed exactly the bytes and descriptors the main connection receives
    let shadow_mode = !ops.is_empty() && ops[0].l()[0].n() == 12;
    let mut shadow: Option<(HttpConnection<Mock>, std::rc::Rc<std::cell::RefCell<mock::Inner>>)> = None;
    let mut cur_limit = limit as usize;
    for (i, op) in ops.iter().enumerate() {
        let l = op.l();
        let pre = format!("conn {} {} ", id, i);
        let line = catch_unwind(AssertUnwindSafe(|| match l[0].n() {
            // 13 = a read like 0 whose completed requests stay queued in the connection (no pop)
            0 | 1 | 2 | 13 => {
                let mut lines = vec![];
                loop {
                    let plan = match l[0].n() {
                        0 | 13 => ReadPlan::Take(l[1].n() as usize, l[2].n() as usize),
                        1 => ReadPlan::Fail(l[1].n() as i32),
                        _ => ReadPlan::Take(l[1].n() as usize, 0),
                    };
                    let mut before = 0;
                    let mut exhausted = false;
                    let mut pos_before = 0;
                    let mut tag_before = 0;
                    mock(&mut |s| {
                        s.read_plan = Some(plan.clone());
                        before = s.recv_calls;
                        exhausted = s.pos >= s.rest.len();
                        pos_before = s.pos;
                        tag_before = s.next_tag;
                    });
                    if l[0].n() == 2 && exhausted {
                        break;
                    }
                    let r = conn.try_read();
                    let mut after = 0;
                    mock(&mut |s| {
                        s.read_plan = None;
                        after = s.recv_calls;
                    });
                    let mut reqs = String::new();
                    let mut popped = vec![];
                    while let Some(req) = if l[0].n() == 13 { None } else { conn.pop_parsed_request() } {
                        reqs.push_str(" | ");
                        reqs.push_str(&request_s(&req, &files_s(&req)));
                        popped.push(req);
                    }
                    drop(popped);
                    let mut line = format!(
                        "{}rd={} sys={} held={} pend={}{}",
                        pre,
                        rd_s(&r),
                        after - before,
                        conn.verif_digest()[8],
                        conn.pending_write() as u8,
                        reqs
                    );
                    if l[0].n() == 13 {
                        // a held read shows how many completed requests are queued in the connection
                        line.push_str(&format!(" q={}", conn.verif_digest()[5]));
                    }
                    if shadow_mode {
                        if let Some((sc, sm)) = shadow.as_mut() {
                            // replay on the shadow what the main connection just received
                            let mut got: Vec<u8> = vec![];
                            let mut ntags = 0;
                            mock(&mut |s| {
                                got = s.rest[pos_before..s.pos].to_vec();
                                ntags = s.next_tag - tag_before;
                            });
                            {
                                let mut m = sm.borrow_mut();
                                m.rest = got.clone();
                                m.pos = 0;
                                m.next_tag = tag_before;
                                m.read_plan = Some(match &plan {
                                    ReadPlan::Fail(e) => ReadPlan::Fail(*e),
                                    ReadPlan::Take(_, _) => ReadPlan::Take(got.len(), ntags),
                                });
                            }
                            let sr = if after - before == 0 {
                                // the main call made no recvmsg at all; nothing to replay
                                Ok(())
                            } else {
                                sc.try_read()
                            };
                            let mut sreqs = String::new();
                            let mut spopped = vec![];
                            while let Some(req) = sc.pop_parsed_request() {
                                sreqs.push_str(" | ");
                                sreqs.push_str(&request_s(&req, &files_s(&req)));
                                spopped.push(req);
                            }
                            drop(spopped);
                            let left = {
                                let m = sm.borrow();
                                m.rest.len() - m.pos
                            };
                            line.push_str(&format!(
                                " || rd={} held={} left={}{}",
                                rd_s(&sr),
                                sc.verif_digest()[8],
                                left,
                                sreqs
                            ));
                            if let Err(micro_http::ConnectionError::ParseError(_)) = sr {
                                // the shadow restarts too: from here on compare against a new one
                            }
                        } else if let Err(micro_http::ConnectionError::ParseError(_)) = r {
                            let m = Mock::new(vec![]);
                            let sh = m.s.clone();
                            let mut sc = HttpConnection::new(m);
                            sc.set_payload_max_size(cur_limit);
                            shadow = Some((sc, sh));
                        }
                    }
                    lines.push(line);
                    if l[0].n() != 2 || r.is_err() {
                        break;
                    }
                }
                lines.join("\n")
            }
            3 | 4 | 5 => {
                let plan = match l[0].n() {
                    3 => WritePlan::Take(l[1].n() as usize),
                    4 => WritePlan::Fail(libc::EINTR),
                    _ => WritePlan::Fail(if l.len() > 1 { l[1].n() as i32 } else { libc::EPIPE }),
                };
                let mut before = 0;
                mock(&mut |s| {
                    s.write_plan = Some(plan.clone());
                    s.offered = None;
                    before = s.write_calls;
                });
                let r = conn.try_write();
                let mut off = None;
                let mut calls = 0;
                mock(&mut |s| {
                    s.write_plan = None;
                    off = s.offered.take();
                    calls = s.write_calls - before;
                });
                format!(
                    "{}wr={} off={}{} pend={}",
                    pre,
                    rd_s(&r),
                    match &off {
                        Some(b) => hex(b),
                        None => "none".to_string(),
                    },
                    if calls > 1 { format!(" CALLS={}", calls) } else { String::new() },
                    conn.pending_write() as u8
                )
            }
            7 => {
                conn.enqueue_response(response_of(&l[1]));
                format!("{}enq pend={}", pre, conn.pending_write() as u8)
            }
            9 => {
                conn.clear_write_buffer();
                format!("{}clr pend={}", pre, conn.pending_write() as u8)
            }
            10 => {
                conn.set_payload_max_size(l[1].n() as usize);
                cur_limit = l[1].n() as usize;
                if let Some((sc, _)) = shadow.as_mut() {
                    sc.set_payload_max_size(cur_limit);
                }
                format!("{}lim", pre)
            }
            12 => String::new(),
            _ => format!("{}?", pre),
        }));
        match line {
            Ok(s) => {
                if !s.is_empty() {
                    out.push(s)
                }
            }
            Err(_) => {
                out.push(format!("{}RUST-PANIC", pre));
                // the connection may be in an arbitrary state; stop this case
                std::mem::forget(conn);
                return;
            }
        }
    }
    // descriptor accounting: after dropping the connection nothing the mock issued stays open
    let mut issued = vec![];
    mock(&mut |s| issued = s.issued_fds.clone());
    if let Some((sc, sm)) = shadow.take() {
        issued.extend(sm.borrow().issued_fds.iter().cloned());
        drop(sc);
    }
    drop(conn);
    let leaked = issued.iter().filter(|fd| mock::fd_is_open(**fd)).count();
    if leaked > 0 {
        out.push(format!("conn {} LEAK {}", id, leaked));
        for fd in issued {
            if mock::fd_is_open(fd) {
                // SAFETY: closing a descriptor this harness created.
                unsafe { libc::close(fd) };
            }
        }
    }
}

struct TestHandler {
    h: u64,
    log: Arc<Mutex<Vec<u64>>>,
}
impl EndpointHandler<u64> for TestHandler {
    fn handle_request(&self, _req: &Request, _arg: &u64) -> Response {
        self.log.lock().unwrap().push(self.h);
        let mut r = Response::new(version_of((self.h + 1) % 2), status_of(self.h % 11));
        r.set_body(Body::new(format!("h{}", self.h)));
        r
    }
}

fn run_router(id: u64, server: &[u8], prefix: &[u8], routes: &[Arg], reqs: &[Arg], out: &mut Vec<String>) {
    let log = Arc::new(Mutex::new(vec![]));
    let mut rt: HttpRoutes<u64> = HttpRoutes::new(
        String::from_utf8(server.to_vec()).expect("utf8"),
        String::from_utf8(prefix.to_vec()).expect("utf8"),
    );
    for (i, r) in routes.iter().enumerate() {
        let l = r.l();
        let res = rt.add_route(
            method_of(l[0].n()),
            String::from_utf8(l[1].b().to_vec()).expect("utf8"),
            Box::new(TestHandler {
                h: l[2].n(),
                log: log.clone(),
            }),
        );
        out.push(format!(
            "route {} add {} {}",
            id,
            i,
            match res {
                Ok(()) => "ok".to_string(),
                Err(micro_http::RouteError::HandlerExist(k)) => format!("exists({})", hex(k.as_bytes())),
            }
        ));
    }
    for (i, r) in reqs.iter().enumerate() {
        match Request::try_from(r.b(), None) {
            Ok(req) => {
                log.lock().unwrap().clear();
                let resp = rt.handle_http_request(&req, &0);
                let who = log.lock().unwrap().clone();
                let who_s = match who.len() {
                    0 => "None".to_string(),
                    1 => format!("{}", who[0]),
                    _ => format!("MANY{:?}", who),
                };
                out.push(format!("route {} req {} who={} resp={}", id, i, who_s, hex(&serialize(&resp))));
            }
            Err(e) => out.push(format!("route {} req {} bad ERR {}", id, i, req_err_s(&e))),
        }
    }
}

fn run_case(a: &Arg, out: &mut Vec<String>) {
    let l = a.l();
    let id = l[1].n();
    match l[0].n() {
        1 => out.push(run_tok(id, l[2].n(), l[3].b())),
        2 => run_hdr_lines(id, l[2].l(), out),
        3 => out.push(run_blk(id, l[2].b())),
        5 => {
            let max = if l.len() > 3 { Some(l[3].n() as usize) } else { None };
            out.push(format!("one {} {}", id, one_s(Request::try_from(l[2].b(), max))));
        }
        6 => run_conn(id, l[2].n(), l[3].b(), l[4].l(), out),
        7 => {
            let mut r = Response::new(version_of(l[2].n()), status_of(l[3].n()));
            apply_ops(&mut r, l[4].l());
            // optional sink script: the sink accepts script[i mod len] bytes per write (0 = EINTR)
            let bytes = if l.len() > 5 && !l[5].l().is_empty() {
                let script: Vec<usize> = l[5].l().iter().map(|x| x.n() as usize).collect();
                let mut sink = ScriptSink { script, i: 0, got: vec![] };
                match r.write_all(&mut sink) {
                    Ok(()) => sink.got,
                    Err(e) => {
                        out.push(format!("resp {} SINKERR {}", id, e));
                        return;
                    }
                }
            } else {
                serialize(&r)
            };
            out.push(format!("resp {} {}", id, hex(&bytes)));
        }
        8 => run_router(id, l[2].b(), l[3].b(), l[4].l(), l[5].l(), out),
        9 => {
            let dir = std::env::var("MHH_SOCK_DIR").unwrap_or_else(|_| "/verif/.work/sock".to_string());
            let _ = std::fs::create_dir_all(&dir);
            server::run_case(a, out, &dir)
        }
        _ => out.push("? unknown case".to_string()),
    }
}

struct ScriptSink {
    script: Vec<usize>,
    i: usize,
    got: Vec<u8>,
}
impl Write for ScriptSink {
    fn write(&mut self, buf: &[u8]) -> std::io::Result<usize> {
        let k = self.script[self.i % self.script.len()];
        self.i += 1;
        if k == 0 {
            return Err(std::io::Error::from_raw_os_error(libc::EINTR));
        }
        let k = k.min(buf.len());
        self.got.extend_from_slice(&buf[..k]);
        Ok(k)
    }
    fn flush(&mut self) -> std::io::Result<()> {
        Ok(())
    }
}

fn main() {
    let args: Vec<String> = std::env::args().collect();
    if args.len() > 1 && args[1] == "server" {
        server::main(&args[2..]);
        return;
    }
    if args.len() > 1 && args[1] == "bufsize" {
        println!("{}", HttpConnection::<Mock>::verif_buffer_size());
        return;
    }
    std::panic::set_hook(Box::new(|_| {}));
    // watchdog: a case that does not finish within HANG_SECS is reported on stderr ("HANG <id>") and the process exits
    // with status 3; everything printed for earlier cases has been flushed, the caller re-runs the remaining cases
    use std::sync::atomic::{AtomicU64, Ordering};
    static CURRENT: AtomicU64 = AtomicU64::new(u64::MAX);
    static TICK: AtomicU64 = AtomicU64::new(0);
    let hang_secs: u64 = std::env::var("MHH_HANG_SECS").ok().and_then(|s| s.parse().ok()).unwrap_or(30);
    std::thread::spawn(move || {
        let mut last = (u64::MAX, 0u64);
        let mut since = std::time::Instant::now();
        loop {
            std::thread::sleep(std::time::Duration::from_millis(500));
            let now = (CURRENT.load(Ordering::SeqCst), TICK.load(Ordering::SeqCst));
            if now != last {
                last = now;
                since = std::time::Instant::now();
            } else if now.0 != u64::MAX && since.elapsed().as_secs() >= hang_secs {
                eprintln!("HANG {}", now.0);
                std::process::exit(3);
            }
        }
    });
    // the cases are read from a duplicate of standard input and descriptor number 0 is released, so that the
    // descriptors created for the cases (memfds handed over as SCM_RIGHTS, sockets) can be numbered 0 as well:
    // 0 is a valid descriptor number
    let input = unsafe {
        use std::os::unix::io::FromRawFd;
        let d = libc::dup(0);
        libc::close(0);
        std::fs::File::from_raw_fd(d)
    };
    let stdout = std::io::stdout();
    let mut w = std::io::BufWriter::new(stdout.lock());
    for line in std::io::BufReader::new(input).lines() {
        let line = line.unwrap();
        if !line.starts_with('(') {
            continue;
        }
        let a = tree::parse(&line);
        CURRENT.store(a.l()[1].n() as u64, Ordering::SeqCst);
        TICK.fetch_add(1, Ordering::SeqCst);
        let mut out = vec![];
        let r = catch_unwind(AssertUnwindSafe(|| run_case(&a, &mut out)));
        CURRENT.store(u64::MAX, Ordering::SeqCst);
        for s in &out {
            writeln!(w, "{}", s).unwrap();
        }
        if r.is_err() {
            let l = a.l();
            writeln!(w, "panic {} RUST-PANIC domain={}", l[1].n(), l[0].n()).unwrap();
        }
        w.flush().unwrap();
    }
    w.flush().unwrap();
}
