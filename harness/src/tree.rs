// The case syntax shared with the OCaml driver: decimal numbers, x<hex> byte strings,
// parenthesised lists.
#[derive(Debug, Clone)]
pub enum Arg {
    N(u64),
    B(Vec<u8>),
    L(Vec<Arg>),
}

impl Arg {
    pub fn n(&self) -> u64 {
        match self {
            Arg::N(n) => *n,
            _ => panic!("case syntax: number expected, got {:?}", self),
        }
    }
    pub fn b(&self) -> &[u8] {
        match self {
            Arg::B(b) => b,
            _ => panic!("case syntax: bytes expected, got {:?}", self),
        }
    }
    pub fn l(&self) -> &[Arg] {
        match self {
            Arg::L(l) => l,
            _ => panic!("case syntax: list expected, got {:?}", self),
        }
    }
}

fn hexval(c: u8) -> u8 {
    match c {
        b'0'..=b'9' => c - 48,
        b'a'..=b'f' => c - 87,
        b'A'..=b'F' => c - 55,
        _ => panic!("bad hex digit"),
    }
}

pub fn parse(s: &str) -> Arg {
    let b = s.as_bytes();
    let mut pos = 0;
    let a = item(b, &mut pos);
    a
}

fn skip(b: &[u8], pos: &mut usize) {
    while *pos < b.len() && (b[*pos] == b' ' || b[*pos] == b'\t') {
        *pos += 1;
    }
}

fn item(b: &[u8], pos: &mut usize) -> Arg {
    skip(b, pos);
    match b[*pos] {
        b'(' => {
            *pos += 1;
            let mut v = vec![];
            loop {
                skip(b, pos);
                if b[*pos] == b')' {
                    *pos += 1;
                    break;
                }
                v.push(item(b, pos));
            }
            Arg::L(v)
        }
        b'x' => {
            *pos += 1;
            let start = *pos;
            while *pos < b.len() && b[*pos] != b' ' && b[*pos] != b')' && b[*pos] != b'(' {
                *pos += 1;
            }
            let n = (*pos - start) / 2;
            let mut v = Vec::with_capacity(n);
            for i in 0..n {
                v.push(hexval(b[start + 2 * i]) * 16 + hexval(b[start + 2 * i + 1]));
            }
            Arg::B(v)
        }
        b'0'..=b'9' => {
            let start = *pos;
            while *pos < b.len() && b[*pos].is_ascii_digit() {
                *pos += 1;
            }
            Arg::N(std::str::from_utf8(&b[start..*pos]).unwrap().parse().unwrap())
        }
        c => panic!("case syntax: unexpected {:?} at {}", c as char, *pos),
    }
}
