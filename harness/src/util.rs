// Shared helpers: hex, FNV-1a, key=value parsing, canonical rendering of crate values.
use micro_http::{
    ConnectionError, Headers, HttpHeaderError, MediaType, Method, Request, RequestError, Version,
};
use std::collections::HashMap;

pub fn hex(b: &[u8]) -> String {
    if b.is_empty() {
        return "-".to_string();
    }
    let mut s = String::with_capacity(b.len() * 2);
    for x in b {
        s.push_str(&format!("{:02x}", x));
    }
    s
}

pub fn unhex(s: &str) -> Vec<u8> {
    if s == "-" || s.is_empty() {
        return vec![];
    }
    let b = s.as_bytes();
    let mut v = Vec::with_capacity(b.len() / 2);
    let mut i = 0;
    while i + 1 < b.len() {
        v.push(u8::from_str_radix(&s[i..i + 2], 16).expect("bad hex"));
        i += 2;
    }
    v
}

pub fn fnv(b: &[u8]) -> String {
    let mut h: u64 = 0x811c9dc5;
    for x in b {
        h ^= *x as u64;
        h = (h * 0x01000193) & 0xffff_ffff;
    }
    format!("{:08x}", h)
}

pub fn kv(parts: &[&str]) -> HashMap<String, String> {
    let mut m = HashMap::new();
    for p in parts {
        if let Some(i) = p.find('=') {
            m.insert(p[..i].to_string(), p[i + 1..].to_string());
        }
    }
    m
}

pub fn method_s(m: Method) -> &'static str {
    match m {
        Method::Get => "Get",
        Method::Put => "Put",
        Method::Patch => "Patch",
    }
}
pub fn version_s(v: Version) -> &'static str {
    match v {
        Version::Http10 => "Http10",
        Version::Http11 => "Http11",
    }
}
pub fn media_s(m: MediaType) -> &'static str {
    match m {
        MediaType::PlainText => "PlainText",
        MediaType::ApplicationJson => "ApplicationJson",
    }
}

pub fn headers_s(h: &Headers) -> String {
    let mut ce: Vec<(String, String)> = h
        .custom_entries()
        .iter()
        .map(|(k, v)| (hex(k.as_bytes()), hex(v.as_bytes())))
        .collect();
    ce.sort();
    let ce: Vec<String> = ce.into_iter().map(|(k, v)| format!("{}:{}", k, v)).collect();
    format!(
        "cl={} ex={} ch={} acc={} ce=[{}]",
        h.content_length(),
        h.expect() as u8,
        h.chunked() as u8,
        media_s(h.accept()),
        ce.join(",")
    )
}

pub fn request_s(r: &Request, files: &str) -> String {
    // Uri has no raw accessor for arbitrary URIs except through get_abs_path; the Debug
    // rendering of Uri is `Uri { string: "..." }`; we recover the string from there.
    let u = format!("{:?}", r.uri());
    let u = uri_from_debug(&u);
    format!(
        "REQ m={} u={} v={} {} body={} files=[{}]",
        method_s(r.method()),
        hex(&u),
        version_s(r.http_version()),
        headers_s(&r.headers),
        match &r.body {
            Some(b) => format!("some:{}", hex(b.raw())),
            None => "none".to_string(),
        },
        files
    )
}

// Inverse of the Debug rendering of a Rust string literal inside `Uri { string: "..." }`.
pub fn uri_from_debug(d: &str) -> Vec<u8> {
    let start = d.find('"').unwrap() + 1;
    let end = d.rfind('"').unwrap();
    let s = &d[start..end];
    let mut out = String::new();
    let mut it = s.chars().peekable();
    while let Some(c) = it.next() {
        if c != '\\' {
            out.push(c);
            continue;
        }
        match it.next() {
            Some('n') => out.push('\n'),
            Some('r') => out.push('\r'),
            Some('t') => out.push('\t'),
            Some('0') => out.push('\0'),
            Some('\\') => out.push('\\'),
            Some('\'') => out.push('\''),
            Some('"') => out.push('"'),
            Some('u') => {
                // \u{XXXX}
                let mut n = String::new();
                it.next(); // {
                while let Some(&c) = it.peek() {
                    it.next();
                    if c == '}' {
                        break;
                    }
                    n.push(c);
                }
                out.push(char::from_u32(u32::from_str_radix(&n, 16).unwrap()).unwrap());
            }
            Some(c) => {
                out.push('\\');
                out.push(c);
            }
            None => out.push('\\'),
        }
    }
    out.into_bytes()
}

pub fn hdr_err_s(e: &HttpHeaderError) -> String {
    match e {
        HttpHeaderError::InvalidFormat(k) => format!("InvalidFormat({})", hex(k.as_bytes())),
        HttpHeaderError::InvalidUtf8String(_) => "InvalidUtf8String".to_string(),
        HttpHeaderError::InvalidValue(k, v) => {
            format!("InvalidValue({},{})", hex(k.as_bytes()), hex(v.as_bytes()))
        }
        HttpHeaderError::SizeLimitExceeded(s) => {
            if s.contains('\u{fffd}') {
                "SizeLimitExceeded(lossy)".to_string()
            } else {
                format!("SizeLimitExceeded({})", hex(s.as_bytes()))
            }
        }
        HttpHeaderError::UnsupportedFeature(k, v) => {
            format!("UnsupportedFeature({},{})", hex(k.as_bytes()), hex(v.as_bytes()))
        }
        HttpHeaderError::UnsupportedName(k) => format!("UnsupportedName({})", hex(k.as_bytes())),
        HttpHeaderError::UnsupportedValue(k, v) => {
            format!("UnsupportedValue({},{})", hex(k.as_bytes()), hex(v.as_bytes()))
        }
    }
}

pub fn req_err_s(e: &RequestError) -> String {
    match e {
        RequestError::BodyWithoutPendingRequest => "BodyWithoutPendingRequest".to_string(),
        RequestError::HeaderError(h) => format!("HeaderError({})", hdr_err_s(h)),
        RequestError::HeadersWithoutPendingRequest => "HeadersWithoutPendingRequest".to_string(),
        RequestError::InvalidHttpMethod(_) => "InvalidHttpMethod".to_string(),
        RequestError::InvalidHttpVersion(_) => "InvalidHttpVersion".to_string(),
        RequestError::InvalidRequest => "InvalidRequest".to_string(),
        RequestError::InvalidUri(s) => {
            if s.starts_with("Empty") {
                "InvalidUri(empty)".to_string()
            } else {
                "InvalidUri(utf8)".to_string()
            }
        }
        RequestError::Overflow => "Overflow".to_string(),
        RequestError::Underflow => "Underflow".to_string(),
        RequestError::SizeLimitExceeded(l, n) => format!("SizeLimitExceeded({},{})", l, n),
    }
}

pub fn conn_err_s(e: &ConnectionError) -> String {
    match e {
        ConnectionError::ConnectionClosed => "ConnectionClosed".to_string(),
        ConnectionError::InvalidWrite => "InvalidWrite".to_string(),
        ConnectionError::ParseError(r) => format!("ParseError({})", req_err_s(r)),
        ConnectionError::StreamReadError(e) => format!("StreamReadError({})", e.errno()),
        ConnectionError::StreamWriteError(_) => "StreamWriteError".to_string(),
    }
}

pub fn parse_method_idx(c: u8) -> Method {
    match c {
        b'0' => Method::Get,
        b'1' => Method::Put,
        _ => Method::Patch,
    }
}
