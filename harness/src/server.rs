// Server-level histories on real Unix sockets (filled in later).
pub fn main(_args: &[String]) {
    eprintln!("server harness not built yet");
}
