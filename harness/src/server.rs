// Server-level histories on real Unix sockets: the harness owns every client endpoint, drives
// HttpServer through its public API in one thread, and prints what the model's world
// (coq/model/Server.v, coq/run/Run.v domain 9) predicts for the same history.
use crate::tree::Arg;
use crate::util::*;
use micro_http::{HttpServer, ServerError, ServerRequest};
use std::io::{Read, Write};
use std::os::unix::io::AsRawFd;
use std::os::unix::net::UnixStream;
use std::path::PathBuf;
use vmm_sys_util::eventfd::EventFd;

struct Client {
    stream: Option<UnixStream>,
}

fn count_fds() -> usize {
    std::fs::read_dir("/proc/self/fd").map(|d| d.count()).unwrap_or(0)
}

fn ready(server: &HttpServer) -> bool {
    let mut pfd = libc::pollfd {
        fd: server.epoll().as_raw_fd(),
        events: libc::POLLIN,
        revents: 0,
    };
    // SAFETY: poll on one valid pollfd with a zero timeout.
    let n = unsafe { libc::poll(&mut pfd, 1, 0) };
    n > 0 && (pfd.revents & libc::POLLIN) != 0
}

fn serr_s(e: &ServerError) -> String {
    match e {
        ServerError::ShutdownEvent => "Shutdown".to_string(),
        ServerError::ConnectionError(micro_http::ConnectionError::InvalidWrite) => "InvalidWrite".to_string(),
        ServerError::ConnectionError(c) => format!("Connection:{}", conn_err_s(c)),
        ServerError::IOError(e) => format!("IOError:{:?}", e.kind()),
        ServerError::Overflow => "Overflow".to_string(),
        ServerError::Underflow => "Underflow".to_string(),
        ServerError::ServerFull => "ServerFull".to_string(),
    }
}

fn poll_once(
    pre: &str,
    server: &mut HttpServer,
    outstanding: &mut Vec<ServerRequest>,
) -> (String, bool) {
    if !ready(server) {
        return (format!("{}poll blocked", pre), false);
    }
    match server.requests() {
        Ok(reqs) => {
            let n = reqs.len();
            let mut v: Vec<(String, ServerRequest)> = reqs
                .into_iter()
                .map(|r| (request_s(&r.request, ""), r))
                .collect();
            v.sort_by(|a, b| a.0.as_bytes().cmp(b.0.as_bytes()));
            let mut line = format!("{}poll Ok {}", pre, n);
            for (s, r) in v {
                line.push_str(" | ");
                line.push_str(&s);
                outstanding.push(r);
            }
            (line, true)
        }
        Err(e) => (format!("{}poll Err({})", pre, serr_s(&e)), false),
    }
}

pub fn run_case(a: &Arg, out: &mut Vec<String>, dir: &str) {
    let l = a.l();
    let id = l[1].n();
    let flags = l[2].n();
    let ops = l[3].l();
    let path = PathBuf::from(format!("{}/s{}-{}.sock", dir, std::process::id(), id));
    let _ = std::fs::remove_file(&path);
    let base_fds = count_fds();
    let mut server = HttpServer::new(&path).expect("server");
    server.start_server().expect("start");
    let mut kill: Option<EventFd> = None;
    if flags & 1 == 1 {
        let k = EventFd::new(libc::EFD_NONBLOCK).expect("eventfd");
        server.add_kill_switch(k.try_clone().expect("clone")).expect("add kill switch");
        kill = Some(k);
    }
    let fixed_fds = count_fds() - base_fds; // listener, epoll (+ two eventfd handles)
    let mut clients: std::collections::HashMap<u64, Client> = std::collections::HashMap::new();
    let mut outstanding: Vec<ServerRequest> = vec![];
    let mut killed = false;
    for (i, op) in ops.iter().enumerate() {
        let o = op.l();
        let pre = format!("srv {} {} ", id, i);
        match o[0].n() {
            0 => {
                let c = o[1].n();
                let s = UnixStream::connect(&path).expect("connect");
                s.set_nonblocking(true).unwrap();
                clients.insert(c, Client { stream: Some(s) });
                out.push(format!("{}conn {}", pre, c));
            }
            1 => {
                let c = o[1].n();
                let data = o[2].b();
                let n = match clients.get_mut(&c).and_then(|cl| cl.stream.as_mut()) {
                    Some(s) => {
                        s.set_nonblocking(false).unwrap();
                        let r = match s.write_all(data) {
                            Ok(()) => data.len(),
                            Err(_) => 0,
                        };
                        s.set_nonblocking(true).unwrap();
                        r
                    }
                    None => 0,
                };
                out.push(format!("{}send {} {}", pre, c, n));
            }
            2 => {
                let c = o[1].n();
                if let Some(cl) = clients.get_mut(&c) {
                    cl.stream = None;
                }
                out.push(format!("{}close {}", pre, c));
            }
            3 | 4 => {
                let c = o[1].n();
                if let Some(s) = clients.get_mut(&c).and_then(|cl| cl.stream.as_mut()) {
                    let how = if o[0].n() == 3 {
                        std::net::Shutdown::Write
                    } else {
                        std::net::Shutdown::Read
                    };
                    let _ = s.shutdown(how);
                }
                out.push(format!("{}{} {}", pre, if o[0].n() == 3 { "shutwr" } else { "shutrd" }, c));
            }
            5 => {
                let c = o[1].n();
                let mut got: Vec<u8> = vec![];
                let mut status = "open";
                if let Some(s) = clients.get_mut(&c).and_then(|cl| cl.stream.as_mut()) {
                    let mut buf = [0u8; 65536];
                    loop {
                        match s.read(&mut buf) {
                            Ok(0) => {
                                status = "eof";
                                break;
                            }
                            Ok(n) => got.extend_from_slice(&buf[..n]),
                            Err(e) if e.kind() == std::io::ErrorKind::WouldBlock => break,
                            Err(e) if e.kind() == std::io::ErrorKind::Interrupted => continue,
                            Err(_) => {
                                // reset by a server-side close with unread input: disconnected
                                status = "eof";
                                break;
                            }
                        }
                    }
                }
                out.push(format!("{}drain {} {} {}", pre, c, hex(&got), status));
            }
            6 => {
                let (line, _) = poll_once(&pre, &mut server, &mut outstanding);
                out.push(line);
            }
            7 => {
                if outstanding.is_empty() {
                    out.push(format!("{}resp none", pre));
                } else {
                    let idx = (o[1].n() % outstanding.len() as u64) as usize;
                    let req = outstanding.remove(idx);
                    let resp = crate::response_of(&o[2]);
                    let mut slot = Some(resp);
                    let sr = req.process(|_r| slot.take().unwrap());
                    match server.respond(sr) {
                        Ok(()) => out.push(format!("{}resp Ok", pre)),
                        Err(e) => out.push(format!("{}resp Err({})", pre, serr_s(&e))),
                    }
                }
            }
            12 => {
                if outstanding.is_empty() {
                    out.push(format!("{}resp none", pre));
                } else {
                    let idx = (o[1].n() % outstanding.len() as u64) as usize;
                    let req = outstanding.remove(idx);
                    let sr = req.process(|r| {
                        let mut resp = micro_http::Response::new(micro_http::Version::Http11, micro_http::StatusCode::OK);
                        let u = uri_from_debug(&format!("{:?}", r.uri()));
                        let mut body = b"echo:".to_vec();
                        body.extend_from_slice(&u);
                        resp.set_body(micro_http::Body::new(body));
                        resp
                    });
                    match server.respond(sr) {
                        Ok(()) => out.push(format!("{}resp Ok", pre)),
                        Err(e) => out.push(format!("{}resp Err({})", pre, serr_s(&e))),
                    }
                }
            }
            // 14 = like 12, but the request stays outstanding: a later 12/7/14 answers it AGAIN (a surplus answer,
            // which `respond` reports as Underflow)
            14 => {
                if outstanding.is_empty() {
                    out.push(format!("{}resp none", pre));
                } else {
                    let idx = (o[1].n() % outstanding.len() as u64) as usize;
                    let sr = outstanding[idx].process(|r| {
                        let mut resp = micro_http::Response::new(micro_http::Version::Http11, micro_http::StatusCode::OK);
                        let u = uri_from_debug(&format!("{:?}", r.uri()));
                        let mut body = b"echo:".to_vec();
                        body.extend_from_slice(&u);
                        resp.set_body(micro_http::Body::new(body));
                        resp
                    });
                    match server.respond(sr) {
                        Ok(()) => out.push(format!("{}resp Ok", pre)),
                        Err(e) => out.push(format!("{}resp Err({})", pre, serr_s(&e))),
                    }
                }
            }
            8 => {
                server.flush_outgoing_writes();
                out.push(format!("{}flush", pre));
            }
            9 => {
                if let Some(k) = kill.as_ref() {
                    k.write(1).expect("eventfd write");
                    killed = true;
                }
                out.push(format!("{}kill", pre));
            }
            10 => {
                server.set_payload_max_size(o[1].n() as usize);
                out.push(format!("{}limit", pre));
            }
            11 => {
                for _ in 0..o[1].n() {
                    let (line, again) = poll_once(&pre, &mut server, &mut outstanding);
                    out.push(line);
                    if !again {
                        break;
                    }
                }
            }
            _ => out.push(format!("{}?", pre)),
        }
    }
    if killed {
        out.push(format!("srv {} end killed", id));
    } else {
        let st = server.verif_conn_states();
        let mut v: Vec<String> = st
            .iter()
            .map(|(_fd, s, infl, pend, _d)| format!("{}:{}:{}", s, infl, *pend as u8))
            .collect();
        v.sort();
        let open_clients = clients.values().filter(|c| c.stream.is_some()).count();
        let fds = count_fds() - base_fds;
        let expect = fixed_fds + open_clients + st.len();
        let leak = if fds != expect {
            format!(" FDLEAK(held={},expected={})", fds, expect)
        } else {
            String::new()
        };
        out.push(format!("srv {} end nconn={} conns=[{}]{}", id, st.len(), v.join(","), leak));
    }
    drop(outstanding);
    drop(server);
    drop(clients);
    let _ = std::fs::remove_file(&path);
}

pub fn main(_args: &[String]) {
    eprintln!("use the default mode: server cases are domain 9");
}
