// A scripted stream: the harness decides, before every call into the connection, what the
// single recvmsg / write of that call will do; the stream counts the calls it receives.
use std::cell::RefCell;
use std::rc::Rc;
use std::io::{Read, Write};
use std::os::unix::io::RawFd;
use vmm_sys_util::errno;
use vmm_sys_util::sock_ctrl_msg::ScmSocket;

#[derive(Clone, Debug)]
pub enum ReadPlan {
    Take(usize, usize), // up to n bytes, with k descriptors
    Fail(i32),
}
#[derive(Clone, Debug)]
pub enum WritePlan {
    Take(usize),
    Fail(i32),
}

#[derive(Default)]
pub struct Inner {
    pub rest: Vec<u8>,
    pub pos: usize,
    pub read_plan: Option<ReadPlan>,
    pub write_plan: Option<WritePlan>,
    pub recv_calls: usize,
    pub write_calls: usize,
    pub offered: Option<Vec<u8>>,
    pub next_tag: usize,
    pub issued_fds: Vec<RawFd>,
}

pub struct Mock {
    pub s: Rc<RefCell<Inner>>,
}

impl Mock {
    pub fn new(stream: Vec<u8>) -> Mock {
        Mock {
            s: Rc::new(RefCell::new(Inner {
                rest: stream,
                ..Default::default()
            })),
        }
    }
}

// a fresh descriptor whose content is its tag
pub fn tagged_fd(tag: usize) -> RawFd {
    // SAFETY: plain libc calls on a descriptor we own.
    unsafe {
        let name = b"t\0";
        let fd = libc::syscall(libc::SYS_memfd_create, name.as_ptr() as *const libc::c_char, 0 as libc::c_uint) as RawFd;
        assert!(fd >= 0, "memfd_create failed");
        let s = format!("{}", tag);
        let n = libc::write(fd, s.as_ptr() as *const libc::c_void, s.len());
        assert!(n as usize == s.len());
        fd
    }
}

pub fn read_tag(fd: RawFd) -> String {
    let mut buf = [0u8; 32];
    // SAFETY: pread into a local buffer.
    let n = unsafe { libc::pread(fd, buf.as_mut_ptr() as *mut libc::c_void, 32, 0) };
    if n < 0 {
        return "bad".to_string();
    }
    String::from_utf8_lossy(&buf[..n as usize]).to_string()
}

pub fn fd_is_open(fd: RawFd) -> bool {
    // SAFETY: fcntl(F_GETFD) has no side effect.
    unsafe { libc::fcntl(fd, libc::F_GETFD) != -1 }
}

impl Read for Mock {
    fn read(&mut self, _buf: &mut [u8]) -> std::io::Result<usize> {
        panic!("harness: plain read() is not expected");
    }
}

impl Write for Mock {
    fn write(&mut self, buf: &[u8]) -> std::io::Result<usize> {
        let mut s = self.s.borrow_mut();
        s.write_calls += 1;
        s.offered = Some(buf.to_vec());
        match s.write_plan.clone() {
            Some(WritePlan::Take(n)) => Ok(n.min(buf.len())),
            Some(WritePlan::Fail(e)) => Err(std::io::Error::from_raw_os_error(e)),
            None => panic!("harness: unplanned write"),
        }
    }
    fn flush(&mut self) -> std::io::Result<()> {
        Ok(())
    }
}

impl ScmSocket for Mock {
    fn socket_fd(&self) -> RawFd {
        -1
    }
    unsafe fn recv_with_fds(
        &self,
        iovecs: &mut [libc::iovec],
        fds: &mut [RawFd],
    ) -> errno::Result<(usize, usize)> {
        let mut s = self.s.borrow_mut();
        s.recv_calls += 1;
        match s.read_plan.clone() {
            Some(ReadPlan::Fail(e)) => Err(errno::Error::new(e)),
            Some(ReadPlan::Take(n, k)) => {
                let room = iovecs[0].iov_len;
                let avail = s.rest.len() - s.pos;
                let m = n.min(room).min(avail);
                let dst = std::slice::from_raw_parts_mut(iovecs[0].iov_base as *mut u8, room);
                let pos = s.pos;
                dst[..m].copy_from_slice(&s.rest[pos..pos + m]);
                s.pos += m;
                let k = k.min(fds.len());
                for slot in fds.iter_mut().take(k) {
                    let tag = s.next_tag;
                    s.next_tag += 1;
                    let fd = tagged_fd(tag);
                    s.issued_fds.push(fd);
                    *slot = fd;
                }
                Ok((m, k))
            }
            None => panic!("harness: unplanned recv"),
        }
    }
}
