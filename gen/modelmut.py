#!/usr/bin/env python3
"""Input adequacy of the correspondence run, measured against the MODEL.

The differential run can only expose a deviation of the implementation on inputs the generators produce.  This tool
asks the converse question mechanically: for every small semantic change of the extracted executable model
(one comparison / connective flipped at one site: < <-> <=, = -> <=, && <-> ||, negb dropped; one numeric literal off by one), is there a generated
case on which the changed model behaves differently from the model?  A change no case distinguishes is either
behaviour-preserving or marks an input class the generators do not reach -- the same blind spot a change of the
implementation at the corresponding place would slip through.

It works on copies (scratch directory outside /verif), never touches /repo, and is not part of any check:
    python3 gen/modelmut.py [--tier quick] [--jobs 16] [--out modelmut_report.json]
"""
import json
import os
import re
import shutil
import subprocess
import sys
import tempfile
from concurrent.futures import ThreadPoolExecutor

HERE = os.path.dirname(os.path.abspath(__file__))
sys.path.insert(0, HERE)
import common as C      # noqa: E402
import props as P       # noqa: E402

OPS = [
    (r'\bN\.ltb\b', 'N.leb', 'N.ltb->N.leb'),
    (r'\bN\.leb\b', 'N.ltb', 'N.leb->N.ltb'),
    (r'\bN\.eqb\b', 'N.leb', 'N.eqb->N.leb'),
    (r'\bNat\.ltb\b', 'Nat.leb', 'Nat.ltb->Nat.leb'),
    (r'\bNat\.leb\b', 'Nat.ltb', 'Nat.leb->Nat.ltb'),
    (r'\bNat\.eqb\b', 'Nat.leb', 'Nat.eqb->Nat.leb'),
    (r'\(&&\)', '(||)', '&&->||'),
    (r'\(\|\|\)', '(&&)', '||->&&'),
    (r'\bnegb\b', '(fun b__ -> b__)', 'negb dropped'),
    # constants: lowest bit of a binary N literal flipped (value +-1), one successor dropped from a nat literal
    (r'Npos \(XO\b', 'Npos (XI', 'N literal +1'),
    (r'Npos \(XI\b', 'Npos (XO', 'N literal -1'),
    (r'\(S \(S O\)\)', '(S O)', 'nat literal 2 -> 1'),
    (r'\(S O\)', 'O', 'nat literal 1 -> 0'),
]


def sites(src_lines, first_line):
    """(line index, column, operator name, replacement, enclosing definition)"""
    out = []
    cur = '?'
    for i, ln in enumerate(src_lines):
        m = re.match(r'(?:let rec|let|and)\s+([A-Za-z_0-9\']+)', ln)
        if m:
            cur = m.group(1)
        if i < first_line or ln.lstrip().startswith('(**'):
            continue
        for pat, rep, name in OPS:
            for mm in re.finditer(pat, ln):
                out.append((i, mm.start(), mm.end(), rep, name, cur))
    return out


def all_cases(tier, seed):
    lines = {1024: [], 32: []}
    for pid in sorted(P.REGISTRY):
        prop = P.REGISTRY[pid]()
        rng = C.Rng(seed * 1000003 + sum(ord(c) for c in pid))
        trees = prop.corpus() + prop.cases(rng, tier)
        cases = []
        for k, (t, meta) in enumerate(trees):
            if meta.get('oracle_only'):
                continue
            cases.append((pid + '_' + str(k), [t[0], 0] + list(t[1:]), meta))
        # the model sees the same builds the check uses
        for (buf, _exe, subset) in prop.split_builds([(c[0], c[1], c[2]) for c in cases], 'x', 'y'):
            for n, (cid, t, m) in enumerate(subset):
                t = list(t)
                t[1] = len(lines[buf])
                lines[buf].append(C.tree(t))
    return lines


def run(exe, lines, buf):
    if not lines:
        return ''
    p = subprocess.run('ulimit -s unlimited 2>/dev/null; exec %s %d' % (exe, buf), shell=True, input='\n'.join(lines) + '\n',
                       capture_output=True, text=True, timeout=1800)
    return p.stdout


def main():
    tier = 'quick'
    jobs = 16
    out = os.path.join(os.path.dirname(HERE), 'modelmut_report.json')
    a = sys.argv[1:]
    i = 0
    while i < len(a):
        if a[i] == '--tier':
            tier = a[i + 1]
            i += 2
        elif a[i] == '--jobs':
            jobs = int(a[i + 1])
            i += 2
        elif a[i] == '--out':
            out = a[i + 1]
            i += 2
        else:
            i += 1
    src_dir = C.WORK + '/ocaml'
    scratch = tempfile.mkdtemp(prefix='modelmut-', dir='/root')
    try:
        for f in ('model.ml', 'model.mli', 'driver.ml'):
            shutil.copy(os.path.join(src_dir, f), scratch)
        src = open(os.path.join(scratch, 'model.ml')).read().split('\n')
        # the model proper starts after the extracted arithmetic of the standard library
        first = next(i for i, ln in enumerate(src) if re.match(r'let rec beq\b|let beq\b|\(\*\* val beq', ln))
        ss = sites(src, first)
        if os.environ.get('MODELMUT_LIMIT'):
            ss = ss[::max(1, len(ss) // int(os.environ['MODELMUT_LIMIT']))]
        print('sites: %d (model.ml from line %d)' % (len(ss), first + 1), flush=True)
        lines = all_cases(tier, 1)
        print('cases: %d (1024) + %d (32)' % (len(lines[1024]), len(lines[32])), flush=True)
        base_dir = os.path.join(scratch, 'base')
        os.makedirs(base_dir)
        for f in ('model.ml', 'model.mli', 'driver.ml'):
            shutil.copy(os.path.join(scratch, f), base_dir)
        subprocess.run('ocamlfind ocamlopt -w -a model.mli model.ml driver.ml -o driver', shell=True, cwd=base_dir, check=True,
                       capture_output=True)
        base = {b: run(base_dir + '/driver', lines[b], b) for b in (1024, 32)}

        def one(k):
            (li, c0, c1, rep, name, fn) = ss[k]
            d = os.path.join(scratch, 'm%d' % k)
            os.makedirs(d)
            m = list(src)
            m[li] = m[li][:c0] + rep + m[li][c1:]
            open(d + '/model.ml', 'w').write('\n'.join(m))
            for f in ('model.mli', 'driver.ml'):
                shutil.copy(os.path.join(scratch, f), d)
            r = subprocess.run('ocamlfind ocamlopt -w -a model.mli model.ml driver.ml -o driver', shell=True, cwd=d,
                               capture_output=True, text=True)
            res = {'line': li + 1, 'op': name, 'in': fn, 'text': src[li].strip()[:160]}
            if r.returncode != 0:
                res['status'] = 'does-not-compile'
            else:
                try:
                    killed = None
                    for b in (1024, 32):
                        o = run(d + '/driver', lines[b], b)
                        if o != base[b]:
                            bl = base[b].split('\n')
                            ol = o.split('\n')
                            j = next((j for j in range(min(len(bl), len(ol))) if bl[j] != ol[j]), min(len(bl), len(ol)))
                            killed = (bl[j] if j < len(bl) else '<end>')[:120]
                            break
                    res['status'] = 'distinguished' if killed is not None else 'NOT-distinguished'
                    if killed is not None:
                        res['first_difference'] = killed
                except subprocess.TimeoutExpired:
                    res['status'] = 'distinguished'
                    res['first_difference'] = 'the changed model does not terminate on some case'
            shutil.rmtree(d, ignore_errors=True)
            return res

        with ThreadPoolExecutor(max_workers=jobs) as ex:
            results = list(ex.map(one, range(len(ss))))
        surv = [r for r in results if r['status'] == 'NOT-distinguished']
        rep = {'tier': tier, 'sites': len(ss), 'cases': {str(b): len(lines[b]) for b in lines},
               'distinguished': sum(1 for r in results if r['status'] == 'distinguished'),
               'not_distinguished': len(surv),
               'does_not_compile': sum(1 for r in results if r['status'] == 'does-not-compile'),
               'survivors': surv}
        json.dump(rep, open(out, 'w'), indent=1)
        print('distinguished %d / %d; not distinguished: %d' % (rep['distinguished'], len(ss), len(surv)))
        for r in surv:
            print('  line %d in %s: %s   | %s' % (r['line'], r['in'], r['op'], r['text'][:100]))
    finally:
        shutil.rmtree(scratch, ignore_errors=True)


if __name__ == '__main__':
    main()
