# Registry of property checks.
from p_tokens import C16

REGISTRY = {
    'C16': C16,
}
