# Registry of property checks.
from p_tokens import C16
from p_router import C17

REGISTRY = {
    'C16': C16,
    'C17': C17,
}
