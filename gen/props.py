# Registry of property checks.
from p_tokens import C16
from p_router import C17
from p_response import C05, C06
from p_headers import C15
from p_parse import C02, C03, C14
from p_server import C07, C08, C09, C10, C18
from p_conn import C01, C04, C11, C12, C13

REGISTRY = {
    'C16': C16,
    'C17': C17,
    'C05': C05,
    'C06': C06,
    'C01': C01,
    'C07': C07,
    'C08': C08,
    'C09': C09,
    'C10': C10,
    'C18': C18,
    'C02': C02,
    'C03': C03,
    'C14': C14,
    'C15': C15,
    'C04': C04,
    'C11': C11,
    'C12': C12,
    'C13': C13,
}
