# Grammar-based generator of request streams, their corruptions and read schedules.
CRLF = b'\r\n'
METHODS = [b'GET', b'PUT', b'PATCH']
VERSIONS = [b'HTTP/1.0', b'HTTP/1.1']
URIS = [b'/', b'/a', b'/a/b?c=d', b'http://localhost/x', b'http://h:80/', b'*', '/é'.encode(), b'/%20',
        b'a', b'/machine-config', b'/actions',
        # three- and four-byte characters whose second byte lies outside the ranges special-cased for E0/ED/F0/F4
        '/\u1800'.encode(), '/\u2800x'.encode(), '/\U00050000'.encode(), '/\U000d0000/y'.encode(), '/\ud7ff\ue000'.encode(),
        b'/del\x7f', b'/\x7f\x01~', b'\t/home', b'/home\x0c', b'\xe2\x80\x83http://a/b', b'\x0b', b'/x\xc2\xa0',
        # valid sequences at the ends of every second-byte range of UTF-8
        b'/\xe0\xa0\x80', b'/\xed\x9f\xbf', b'/\xf0\x90\x80\x80', b'/\xf4\x8f\xbf\xbf', b'/\xc2\x80', b'/\xdf\xbf', b'/\xef\xbf\xbf',
        b'/\xe1\x80\xbf', b'/\xec\xbf\x80', b'/\xee\x80\x80', b'/\xf1\x80\x80\x80', b'/\xf3\xbf\xbf\xbf']
LIMITS = [0, 1, 2, 3, 4, 5, 6, 7, 8, 1023, 1024, 1025, 51199, 51200, 51201, 2 ** 32 - 1]


def case_flip(rng, b):
    return bytes((c ^ 0x20) if (65 <= (c & ~0x20) <= 90 and rng.random() < 0.5) else c for c in b)


PADS = [b'', b'', b' ', b'  ', b'\t', b'\xc2\xa0', b'\xe2\x80\x83', b'\xe3\x80\x80']
# characters that share bytes with White_Space characters but are not white space: never trimmed
NEAR_WS = [s_.encode() for s_ in ('\u00e0', '\u00c5', '\u00a9', '\u200b', '\u202a', '\u2060', '\u3001', '\u1681', '\u20ac', '\u1800',
                                  '\U00050000', '\u2027', '\u205e', '\u2100', '\u167f', '\u3040',
                                  '\u0084', '\u0086', '\u009f', '\u00a1', '\u1000', '\u201f', '\u105f', '\u2029x', '\x7f',
                                  '\x08', '\x0e', '\x1f', '!', '\u2007x', '\u200bx', '\u1680x', '\u180e', '\u2028x', '\u202fx', '\u205fx', '\u3000x', '\u0085x', '\u00a0x')]


def pad(rng, b, left=True):
    return (rng.choice(PADS) if left else b'') + b + rng.choice(PADS)


def header_line(rng, name, value):
    n = case_flip(rng, name) if rng.random() < 0.5 else name
    if rng.random() < 0.3:
        n = pad(rng, n)
    sep = rng.choice([b': ', b':', b':  ', b' : '])
    # a value may end in a bare CR (trimmed as white space): the line then ends CR CR LF
    v = value + rng.choice(PADS + [b'\r', b' \r'])
    return n + sep + v


def expect_line(rng, ok=True):
    if ok:
        return header_line(rng, b'Expect', b'100-continue')
    return header_line(rng, b'Expect', rng.choice([b'200-ok', b'100-Continue', b'', b'100-continue, x']))


def filler_header(rng, total_len):
    """a custom header line of exactly total_len bytes (without CRLF)"""
    name = b'X-Fill-%d' % rng.randint(0, 9)
    n = max(0, total_len - len(name) - 2)
    return name + b': ' + bytes(rng.choice(b'abcdefghij') for _ in range(n))


def gen_request(rng, limit=51200, want_body=None, want_expect=None, long_lines=False):
    """returns (bytes, info) of one well-formed request"""
    m = rng.choice(METHODS)
    u = rng.choice(URIS)
    if long_lines and rng.random() < 0.5:
        # request line of chosen total length 1000..1024 including CRLF
        tot = rng.choice([1000, 1019, 1020, 1021, 1022, 1023, 1024])
        base = len(m) + 1 + 1 + len(b'HTTP/1.1') + 2
        u = b'/' + b'u' * (tot - base - 1)
    v = rng.choice(VERSIONS)
    hs = []
    has_body = want_body if want_body is not None else (rng.random() < 0.5)
    n = 0
    if has_body:
        r = rng.random()
        cands = [1, 2, 5, 17, 100, 1000, 1022, 1023, 1024, 1025, 2047, 2048, 2049, 3000]
        if r < 0.75:
            n = rng.choice(cands)
        elif r < 0.9:
            n = rng.randint(1, 300)
        else:
            n = rng.randint(1, 6000)
        if limit < n:
            n = limit
        if n == 0:
            has_body = False
    nh = rng.randint(0, 5)
    for _ in range(nh):
        k = rng.random()
        if k < 0.15:
            hs.append(header_line(rng, b'Accept', rng.choice([b'text/plain', b'application/json', b'text/html', b'*/*'])))
        elif k < 0.3:
            hs.append(header_line(rng, b'Content-Type', rng.choice([b'application/json', b'text/plain', b'image/png'])))
        elif k < 0.4:
            hs.append(header_line(rng, b'Transfer-Encoding', rng.choice([b'chunked', b'identity', b'gzip'])))
        elif k < 0.5:
            hs.append(header_line(rng, b'Accept-Encoding', rng.choice([b'identity', b'gzip, deflate', b'gzip, identity;q=1', b'identity, *;q=0', b'br', b'gzip;q=', b'identity;q=0.0', b'*;q='])))
        elif k < 0.55:
            hs.append(header_line(rng, b'Server', b'anything at all'))
        elif k < 0.6 and not has_body:
            hs.append(header_line(rng, b'Content-Length', rng.choice([b'0', b'00', b'+0'])))
        elif k < 0.7:
            hs.append(expect_line(rng, ok=False))
        elif long_lines and k < 0.85:
            hs.append(filler_header(rng, rng.choice([990, 1000, 1017, 1018, 1019, 1020, 1021, 1022])))
        else:
            val = rng.choice([b'v', b'', b'a:b', b'multi word value', 'été'.encode()])
            if rng.random() < 0.3:
                # wrapped in characters that share bytes with White_Space characters but are not white space (never trimmed)
                val = rng.choice(NEAR_WS) + val + rng.choice(NEAR_WS)
            hs.append(header_line(rng, rng.choice([b'X-Custom', b'x-custom', b'Host', b'X-A', b'Content-Lengthy', b'']), val))
    expect = want_expect if want_expect is not None else (rng.random() < 0.25)
    if expect:
        hs.insert(rng.randint(0, len(hs)), expect_line(rng))
    cl_at = None
    if has_body:
        cl = rng.choice([b'%d', b'%d', b'%d', b'+%d', b'0%d', b'000%d']) % n
        cl_at = rng.randint(0, len(hs))
        hs.insert(cl_at, header_line(rng, b'Content-Length', cl))
    if rng.random() < 0.06 and not long_lines and not any(h.lower().lstrip().startswith(b'content-length') for h in hs[(cl_at + 1 if cl_at is not None else 0):]):
        # an earlier Content-Length line that the last one overrides (for a request without body: ... then 0)
        if not has_body:
            hs.append(b'Content-Length: 0')
            cl_at = len(hs) - 1
        hs.insert(rng.randint(0, cl_at), b'Content-Length: %d' % rng.choice([1, 3, 19, n + 2]))
    body = b''
    if has_body:
        alpha = rng.choice([b'ab', b'\r\n', bytes(range(256)), b'GET / HTTP/1.1\r\n\r\n'])
        body = bytes(rng.choice(alpha) for _ in range(n))
    out = m + b' ' + u + b' ' + v + CRLF + b''.join(h + CRLF for h in hs) + CRLF + body
    return out, {'method': m, 'uri': u, 'version': v, 'n': n, 'expect': expect, 'headers': hs}


CORRUPTIONS = ['lower-method', 'empty-method', 'bad-method', 'missing-sp', 'double-sp', 'empty-uri', 'nonutf8-uri',
               'bad-version', 'stray-cr', 'stray-lf', 'no-colon', 'nonutf8-header', 'cl-edge', 'cl-over-limit',
               'long-reqline', 'long-header', 'accept-encoding-fatal', 'truncate', 'extra-body', 'lf-only', 'garbage']


def gen_bad_request(rng, limit=51200, kind=None):
    """one request with a single-point corruption; returns (bytes, kind)"""
    kind = kind or rng.choice(CORRUPTIONS)
    m, u, v = rng.choice(METHODS), rng.choice(URIS), rng.choice(VERSIONS)
    hs = [b'X-A: b']
    body = b''
    line = None
    if kind == 'lower-method':
        m = m.lower()
    elif kind == 'empty-method':
        m = b''
    elif kind == 'bad-method':
        m = rng.choice([b'POST', b'GE', b'GETT', b'DELETE', b'G\x00T'])
    elif kind == 'missing-sp':
        line = rng.choice([m + u + b' ' + v, m + b' ' + u + v, m + u + v, b''])
    elif kind == 'double-sp':
        line = rng.choice([m + b'  ' + u + b' ' + v, m + b' ' + u + b'  ' + v, m + b' ' + u + b' ' + v + b' '])
    elif kind == 'empty-uri':
        u = b''
    elif kind == 'nonutf8-uri':
        u = rng.choice([b'/\xff', b'\xc3', b'/\xed\xa0\x80', b'/\xf4\x90\x80\x80', b'/\xc0\xaf',
                        # one step outside every range of UTF-8
                        b'/\xe0\x9f\x80', b'/\xf0\x8f\x80\x80', b'/\xc1\xbf', b'/\xf5\x80\x80\x80', b'/\xc2\x7f', b'/\xc2\xc0', b'/\xe1\x7f\x80',
                        b'/\xe1\x80\xc0', b'/\xf1\x80\x80\x7f', b'/\xf1\x80\xc0\x80', b'/\x80', b'/\xbf', b'/\xf8\x88\x80\x80\x80', b'/\xe2\x82', b'/\xf0\x9f\x98'])
    elif kind == 'bad-version':
        v = rng.choice([b'HTTP/1.2', b'HTTP/2', b'http/1.1', b'HTTP/1.1 ', b'', b'HTTP/1.10', b'HTTP/1.', b'HTTP/1.1\r', b'HTTP/1.1 extra',
                        b'HTTP/1.01', b'HTTP/1', b'HTTP/1.1x'])
        if rng.random() < 0.5:
            u = rng.choice([b'/', b'*', b'/a', b'a'])      # short request lines (the one-shot parser has a minimum length)
    elif kind == 'stray-cr':
        p = rng.randint(0, 2)
        if p == 0:
            u = b'/a\rb'
        elif p == 1:
            hs = [b'X-A: b\rc']
        else:
            hs = [b'\rX-A: b']
    elif kind == 'stray-lf':
        p = rng.randint(0, 2)
        if p == 0:
            u = b'/a\nb'
        elif p == 1:
            hs = [b'X-A: b\nc']
        else:
            hs = [b'\nX-A: b']
    elif kind == 'no-colon':
        hs = [rng.choice([b'NoColonHere', b'Content-Length 5', b' ', b'X'])]
    elif kind == 'nonutf8-header':
        hs = [rng.choice([b'X-A: \xff', b'\xfe: b', b'Content-Length: \xc3\x28'])]
    elif kind == 'cl-edge':
        val = rng.choice([b'0', b'007', b'4294967295', b'4294967296', b'-1', b'', b'+', b'+5', b'5 5', b'0x10', b'1e3',
                          b'99999999999999999999', b'-0', b' 7 '])
        hs = [b'Content-Length: ' + val]
        try:
            n = int(val)
            if 0 < n <= min(limit, 20):
                body = b'z' * n
        except ValueError:
            pass
    elif kind == 'cl-over-limit':
        n = limit + rng.choice([1, 2, 100])
        hs = [b'Content-Length: %d' % n] + ([b'Expect: 100-continue'] if rng.random() < 0.5 else [])
        body = b'y' * min(n, 50)
    elif kind == 'long-reqline':
        tot = rng.choice([1025, 1026, 1030, 1100, 2100])
        base = len(m) + 1 + 1 + len(v) + 2
        u = b'/' + b'u' * (tot - base - 1)
    elif kind == 'long-header':
        hs = [filler_header(rng, rng.choice([1023, 1024, 1025, 1100, 2500]))]
    elif kind == 'accept-encoding-fatal':
        hs = [b'Accept-Encoding: ' + rng.choice([b'identity;q=0', b'*;q=0', b'gzip, *;q=0', b'', b' ', b'gzip, identity;q=0'])]
    elif kind == 'lf-only':
        return m + b' ' + u + b' ' + v + b'\n' + b'X-A: b\n\n', kind
    elif kind == 'garbage':
        return bytes(rng.choice([0, 13, 10, 32, 58, 65, 0x80, 0xff, 71, 69, 84, 47]) for _ in range(rng.randint(1, 60))), kind
    if line is None:
        line = m + b' ' + u + b' ' + v
    out = line + CRLF + b''.join(h + CRLF for h in hs) + CRLF + body
    if kind == 'truncate':
        good, _ = gen_request(rng, limit)
        return good[:rng.randint(0, len(good) - 1)], kind
    if kind == 'extra-body':
        good, _ = gen_request(rng, limit, want_body=True)
        return good + b'EXTRA', kind
    return out, kind


def gen_stream(rng, limit=51200, p_bad=0.35, max_req=6, long_lines=False):
    """1..max_req pipelined requests; with probability p_bad one of them is corrupted"""
    n = rng.randint(1, max_req)
    bad_at = rng.randint(0, n - 1) if rng.random() < p_bad else -1
    parts = []
    kinds = []
    for i in range(n):
        if i == bad_at:
            b, k = gen_bad_request(rng, limit)
            kinds.append(k)
        else:
            b, _ = gen_request(rng, limit, long_lines=long_lines)
            kinds.append('ok')
        parts.append(b)
    return b''.join(parts), kinds


def interesting_cuts(stream):
    """positions inside CR|LF, CRLF|CRLF, at 1023/1024/1025 multiples"""
    cuts = set()
    i = stream.find(b'\r\n')
    while i >= 0:
        cuts.update([i, i + 1, i + 2])
        i = stream.find(b'\r\n', i + 1)
    for k in range(1, len(stream) // 1024 + 2):
        cuts.update([1024 * k - 1, 1024 * k, 1024 * k + 1])
    return sorted(c for c in cuts if 0 < c < len(stream))


def schedule(rng, stream, style, fds=False, buf=1024):
    """a list of connection ops that reads the whole stream"""
    n = len(stream)
    ops = []

    def nf():
        if not fds:
            return 0
        r = rng.random()
        return 0 if r < 0.6 else (rng.randint(1, 3) if r < 0.97 else rng.choice([16, 253]))
    if style == 'whole':
        ops = [[2, 1 << 20]]
    elif style == 'bytewise':
        ops = [[2, 1]]
    elif style == 'fixed':
        ops = [[2, rng.choice([2, 3, 5, 7, 16, 100, 500, buf - 1, buf])]]
    elif style == 'cuts':
        cs = interesting_cuts(stream)
        k = rng.randint(1, 3)
        pts = sorted(rng.sample(cs, min(k, len(cs)))) if cs else []
        prev = 0
        for p in pts:
            ops.append([0, p - prev, nf()])
            prev = p
        ops.append([2, 1 << 20])
    else:  # random
        left = n
        while left > 0 and len(ops) < 400:
            r = rng.random()
            if r < 0.08:
                ops.append([1, 11])
            elif r < 0.12:
                ops.append([1, 4])
            else:
                k = rng.choice([1, 2, 3, 10, 50, 100, 300, 1000, 1024, 5000]) if rng.random() < 0.7 else rng.randint(1, 1500)
                ops.append([0, k, nf()])
                left -= min(k, buf)
        ops.append([2, rng.choice([1, 7, 1 << 20])])
    return ops
